package kconf

import (
	"fmt"
	"syscall"
	"time"
	"unsafe"
)

// Timing rules of the real back-end (the only places where wall-clock time enters):
//   - an event / a state that must arrive is waited for up to mustArrive;
//   - an event that must not arrive is polled for with timeout 0 twice, quietGap apart;
//   - "socket full" on TCP is accepted only when a write still answers EAGAIN after everything
//     that was transmitted has been acknowledged (late ACKs free send memory once more) and a
//     further quietGap has passed.
const (
	mustArrive = 200 * time.Millisecond
	quietGap   = 20 * time.Millisecond
	slowArrive = 3 * time.Second // only for DialCompletes / DialRefused: they ride on the SYN retransmission (1 s)
	drainLimit = 3 * time.Second
	realChunk  = 10000 // larger than the minimal send buffers: filling starts with a short write
)

const (
	tcpEstablished = 1
	tcpSynSent     = 2
	tcpClose       = 7
	tcpCloseWait   = 8
	soMeminfo      = 55
	fionread       = 0x541B
	siocoutq       = 0x5411 // unsent + unacknowledged bytes
	siocoutqnsd    = 0x894B // unsent bytes
)

// realWorld interprets steps with real system calls.
type realWorld struct {
	transport string
	ep        int
	fds       map[Role]int
	closed    map[Role]bool
	roleOf    map[int32]Role
	peer      int // remote side of A (or of C after ConnectAccepted); -1 when closed / absent
	peerWShut bool
	senders   [3]int
	senderOf  map[int]int // port -> sender number
	uaddr     syscall.Sockaddr
	aux       []int // descriptors to close at the end
	pendingL  int   // listener of ConnectPending

	sentA, drained  int // bytes written by A / read by the peer
	peerSent, readA int // bytes written by the peer / read by A
	short           bool
	detail          string // raw result of the last step where the class is coarser than the errno
	fillRetries     int
	notes           []string
}

func newRealWorld(transport string) (*realWorld, error) {
	w := &realWorld{transport: transport, fds: map[Role]int{}, closed: map[Role]bool{}, roleOf: map[int32]Role{}, peer: -1, senderOf: map[int]int{}}
	ep, err := syscall.EpollCreate1(syscall.EPOLL_CLOEXEC)
	if err != nil {
		return nil, err
	}
	w.ep = ep
	w.aux = append(w.aux, ep)
	switch transport {
	case "unix":
		p, err := syscall.Socketpair(syscall.AF_UNIX, syscall.SOCK_STREAM|syscall.SOCK_NONBLOCK|syscall.SOCK_CLOEXEC, 0)
		if err != nil {
			return nil, err
		}
		for _, fd := range p {
			minimiseBuffers(fd)
		}
		w.bind(A, p[0])
		w.peer = p[1]
	case "tcp":
		l, addr, err := listener(8)
		if err != nil {
			return nil, err
		}
		w.aux = append(w.aux, l)
		c, err := syscall.Socket(syscall.AF_INET, syscall.SOCK_STREAM|syscall.SOCK_NONBLOCK|syscall.SOCK_CLOEXEC, 0)
		if err != nil {
			return nil, err
		}
		minimiseBuffers(c)
		_ = syscall.SetsockoptInt(c, syscall.IPPROTO_TCP, syscall.TCP_NODELAY, 1)
		if err := syscall.Connect(c, addr); err != nil && err != syscall.EINPROGRESS {
			return nil, fmt.Errorf("connect: %v", err)
		}
		if !within(mustArrive, func() bool { return tcpState(c) == tcpEstablished }) {
			return nil, fmt.Errorf("loopback connect did not complete (state %d)", tcpState(c))
		}
		s, err := accept(l)
		if err != nil {
			return nil, err
		}
		minimiseBuffers(s)
		_ = syscall.SetsockoptInt(s, syscall.IPPROTO_TCP, syscall.TCP_NODELAY, 1)
		w.bind(A, c)
		w.peer = s
	}
	return w, nil
}

func (w *realWorld) bind(r Role, fd int) {
	w.fds[r] = fd
	w.roleOf[int32(fd)] = r
}

func (w *realWorld) end() {
	for r, fd := range w.fds {
		if !w.closed[r] {
			_ = syscall.Close(fd)
		}
	}
	if w.peer >= 0 {
		_ = syscall.Close(w.peer)
	}
	for _, fd := range w.senders {
		if fd > 0 {
			_ = syscall.Close(fd)
		}
	}
	for _, fd := range w.aux {
		_ = syscall.Close(fd)
	}
}

func minimiseBuffers(fd int) {
	// the kernel clamps these to its minimum (SOCK_MIN_SNDBUF / SOCK_MIN_RCVBUF) and disables
	// auto-tuning for the socket
	_ = syscall.SetsockoptInt(fd, syscall.SOL_SOCKET, syscall.SO_SNDBUF, 1)
	_ = syscall.SetsockoptInt(fd, syscall.SOL_SOCKET, syscall.SO_RCVBUF, 1)
}

func listener(backlog int) (int, *syscall.SockaddrInet4, error) {
	l, err := syscall.Socket(syscall.AF_INET, syscall.SOCK_STREAM|syscall.SOCK_NONBLOCK|syscall.SOCK_CLOEXEC, 0)
	if err != nil {
		return -1, nil, err
	}
	minimiseBuffers(l) // accepted sockets inherit the sizes
	if err := syscall.Bind(l, &syscall.SockaddrInet4{Addr: [4]byte{127, 0, 0, 1}}); err != nil {
		syscall.Close(l)
		return -1, nil, err
	}
	if err := syscall.Listen(l, backlog); err != nil {
		syscall.Close(l)
		return -1, nil, err
	}
	sa, err := syscall.Getsockname(l)
	if err != nil {
		syscall.Close(l)
		return -1, nil, err
	}
	return l, sa.(*syscall.SockaddrInet4), nil
}

func accept(l int) (int, error) {
	var fd int
	var err error
	ok := within(mustArrive, func() bool {
		fd, _, err = syscall.Accept4(l, syscall.SOCK_NONBLOCK|syscall.SOCK_CLOEXEC)
		return err != syscall.EAGAIN && err != syscall.EINTR
	})
	if !ok {
		return -1, fmt.Errorf("accept: nothing to accept")
	}
	return fd, err
}

// within polls cond until it holds or d has passed.
func within(d time.Duration, cond func() bool) bool {
	deadline := time.Now().Add(d)
	for i := 0; ; i++ {
		if cond() {
			return true
		}
		if time.Now().After(deadline) {
			return false
		}
		if i < 50 {
			time.Sleep(100 * time.Microsecond)
		} else {
			time.Sleep(time.Millisecond)
		}
	}
}

func rawGetsockopt(fd, level, opt int, buf []byte) error {
	l := uint32(len(buf))
	_, _, e := syscall.Syscall6(syscall.SYS_GETSOCKOPT, uintptr(fd), uintptr(level), uintptr(opt), uintptr(unsafe.Pointer(&buf[0])), uintptr(unsafe.Pointer(&l)), 0)
	if e != 0 {
		return e
	}
	return nil
}

// tcpState reads tcpi_state (no side effects on the socket); -1 when not a TCP socket.
func tcpState(fd int) int {
	buf := make([]byte, 104)
	if err := rawGetsockopt(fd, syscall.IPPROTO_TCP, syscall.TCP_INFO, buf); err != nil {
		return -1
	}
	return int(buf[0])
}

// rmemAlloc reads sk_rmem_alloc through SO_MEMINFO (grows with every queued datagram).
func rmemAlloc(fd int) int {
	buf := make([]byte, 9*4)
	if err := rawGetsockopt(fd, syscall.SOL_SOCKET, soMeminfo, buf); err != nil {
		return -1
	}
	return int(*(*uint32)(unsafe.Pointer(&buf[0])))
}

func ioctlInt(fd int, req uintptr) int {
	var v int32
	_, _, e := syscall.Syscall(syscall.SYS_IOCTL, uintptr(fd), req, uintptr(unsafe.Pointer(&v)))
	if e != 0 {
		return -1
	}
	return int(v)
}

func (w *realWorld) isTCP(fd int) bool { return tcpState(fd) >= 0 }

func (w *realWorld) step(st Step, hint string) string {
	w.detail = ""
	fd, have := w.fds[st.Role]
	switch st.Op {
	case OpEpollAdd, OpEpollMod, OpEpollDel:
		if !have {
			return "no such descriptor"
		}
		if w.closed[st.Role] {
			// the step addresses a closed descriptor number on purpose; make sure nobody else
			// in this process got the number in the meantime
			if _, _, e := syscall.Syscall(syscall.SYS_FCNTL, uintptr(fd), syscall.F_GETFD, 0); e != syscall.EBADF {
				return "inconclusive: descriptor number was reused"
			}
		}
		op := map[Op]int{OpEpollAdd: syscall.EPOLL_CTL_ADD, OpEpollMod: syscall.EPOLL_CTL_MOD, OpEpollDel: syscall.EPOLL_CTL_DEL}[st.Op]
		return errClass(syscall.EpollCtl(w.ep, op, fd, &syscall.EpollEvent{Events: st.Mask, Fd: int32(fd)}))
	case OpWait:
		return w.wait(hint)
	case OpWrite:
		n, err := syscall.Write(fd, make([]byte, st.N))
		if err == nil && st.Role == A {
			w.sentA += n
		}
		if w.peer < 0 && err == nil && w.isTCP(fd) {
			// written towards a closed peer: its RST must arrive
			within(mustArrive, func() bool { return tcpState(fd) == tcpClose })
		}
		if err != nil {
			w.detail = errClass(err)
		}
		return writeClass(n, err)
	case OpWriteHuge:
		n, err := syscall.Write(fd, make([]byte, 1<<20))
		if err == nil && st.Role == A {
			w.sentA += n
		}
		return hugeClass(n, 1<<20, err)
	case OpFill:
		return w.fill(st.Role, fd)
	case OpRead:
		n, err := syscall.Read(fd, make([]byte, st.N))
		if n > 0 && st.Role == A {
			w.readA += n
		}
		return readClass(n, err)
	case OpClose:
		err := syscall.Close(fd)
		w.closed[st.Role] = true
		delete(w.roleOf, int32(fd))
		return errClass(err)
	case OpSoError:
		v, err := syscall.GetsockoptInt(fd, syscall.SOL_SOCKET, syscall.SO_ERROR)
		if err != nil {
			return errClass(err)
		}
		return errClass(syscall.Errno(v))
	case OpPeerWrite:
		n, err := syscall.Write(w.peer, make([]byte, st.N))
		if err != nil || n != st.N {
			return fmt.Sprintf("peer write: %d, %v", n, err)
		}
		w.peerSent += n
		// the bytes must arrive at the other end
		for _, r := range []Role{A, C} {
			if rfd, ok := w.fds[r]; ok && !w.closed[r] {
				want := w.peerSent - w.readA
				if !within(mustArrive, func() bool { return ioctlInt(rfd, fionread) >= want }) {
					return fmt.Sprintf("peer data did not arrive (%d of %d queued)", ioctlInt(rfd, fionread), want)
				}
				break
			}
		}
		return "ok"
	case OpPeerDrainAll:
		return w.drain()
	case OpPeerCloseWrite:
		before := w.localState()
		if err := syscall.Shutdown(w.peer, syscall.SHUT_WR); err != nil {
			return errClass(err)
		}
		w.peerWShut = true
		w.awaitStateChange(before)
		return "ok"
	case OpPeerClose, OpPeerReset:
		before := w.localState()
		expectChange := !w.peerWShut || w.sentA > w.drained || st.Op == OpPeerReset
		if st.Op == OpPeerReset {
			if err := syscall.SetsockoptLinger(w.peer, syscall.SOL_SOCKET, syscall.SO_LINGER, &syscall.Linger{Onoff: 1, Linger: 0}); err != nil {
				return errClass(err)
			}
		}
		err := syscall.Close(w.peer)
		w.peer = -1
		if expectChange {
			w.awaitStateChange(before)
		}
		return errClass(err)
	case OpEventfdCreate:
		r, _, e := syscall.Syscall(syscall.SYS_EVENTFD2, 0, uintptr(syscall.O_NONBLOCK|syscall.O_CLOEXEC), 0)
		if e != 0 {
			return errClass(e)
		}
		w.bind(E, int(r))
		return "ok"
	case OpEventfdWrite:
		v := uint64(st.N)
		n, err := syscall.Write(fd, (*[8]byte)(unsafe.Pointer(&v))[:])
		return readClass(n, err)
	case OpEventfdRead:
		n, err := syscall.Read(fd, make([]byte, 8))
		return readClass(n, err)
	case OpUDPCreate:
		for i := 0; i < 3; i++ {
			s, err := syscall.Socket(syscall.AF_INET, syscall.SOCK_DGRAM|syscall.SOCK_NONBLOCK|syscall.SOCK_CLOEXEC, 0)
			if err != nil {
				return errClass(err)
			}
			if err := syscall.Bind(s, &syscall.SockaddrInet4{Addr: [4]byte{127, 0, 0, 1}}); err != nil {
				return errClass(err)
			}
			sa, err := syscall.Getsockname(s)
			if err != nil {
				return errClass(err)
			}
			if i == 0 {
				w.bind(U, s)
				w.uaddr = sa
			} else {
				w.senders[i] = s
				w.senderOf[sa.(*syscall.SockaddrInet4).Port] = i
			}
		}
		return "ok"
	case OpUDPSend:
		before := rmemAlloc(fd)
		if err := syscall.Sendto(w.senders[st.From], make([]byte, st.N), 0, w.uaddr); err != nil {
			return errClass(err)
		}
		if !within(mustArrive, func() bool { return rmemAlloc(fd) > before }) {
			return "datagram did not arrive"
		}
		return "ok"
	case OpRecvfrom:
		n, from, err := syscall.Recvfrom(fd, make([]byte, st.N), 0)
		if err != nil {
			return errClass(err)
		}
		s := "?"
		if a, ok := from.(*syscall.SockaddrInet4); ok {
			s = fmt.Sprintf("S%d", w.senderOf[a.Port])
		}
		return fmt.Sprintf("%d from=%s", n, s)
	case OpConnectRefused, OpConnectPending, OpConnectAccepted:
		return w.connect(st.Op)
	case OpDialCompletes:
		// make room in the accept queue: the retransmitted SYN is answered
		s1, err := accept(w.pendingL)
		if err != nil {
			return err.Error()
		}
		w.aux = append(w.aux, s1)
		if !within(slowArrive, func() bool { return tcpState(fd) == tcpEstablished }) {
			return fmt.Sprintf("connect did not complete (state %d)", tcpState(fd))
		}
		s, err := accept(w.pendingL)
		if err != nil {
			return err.Error()
		}
		w.peer = s
		return "ok"
	case OpDialRefused:
		// no listener any more: the retransmitted SYN is answered with RST
		for i, a := range w.aux {
			if a == w.pendingL {
				w.aux = append(w.aux[:i], w.aux[i+1:]...)
				break
			}
		}
		if err := syscall.Close(w.pendingL); err != nil {
			return errClass(err)
		}
		if !within(slowArrive, func() bool { return tcpState(fd) == tcpClose }) {
			return fmt.Sprintf("connect was not refused (state %d)", tcpState(fd))
		}
		return "ok"
	}
	return "unknown op"
}

// localState is the TCP state of the local stream socket (A or C), -1 for AF_UNIX / none.
func (w *realWorld) localState() int {
	for _, r := range []Role{A, C} {
		if fd, ok := w.fds[r]; ok && !w.closed[r] {
			return tcpState(fd)
		}
	}
	return -1
}

// awaitStateChange waits until the FIN / RST of the peer was processed by the local TCP socket
// (AF_UNIX delivers synchronously).
func (w *realWorld) awaitStateChange(before int) {
	if before < 0 {
		return
	}
	if !within(mustArrive, func() bool { return w.localState() != before }) {
		w.notes = append(w.notes, fmt.Sprintf("TCP state stayed %d after a peer action", before))
	}
}

func (w *realWorld) wait(hint string) string {
	want := parseEventSet(hint)
	acc := map[Role]uint32{}
	evs := make([]syscall.EpollEvent, 16)
	poll := func(ms int) string {
		for {
			n, err := syscall.EpollWait(w.ep, evs, ms)
			if err == syscall.EINTR {
				continue
			}
			if err != nil {
				return errClass(err)
			}
			for _, ev := range evs[:n] {
				r, ok := w.roleOf[ev.Fd]
				if !ok {
					r = Role(fmt.Sprintf("fd%d", ev.Fd))
				}
				acc[r] |= ev.Events
			}
			return ""
		}
	}
	if len(want) == 0 {
		// nothing must arrive: poll twice
		if e := poll(0); e != "" {
			return e
		}
		time.Sleep(quietGap)
		if e := poll(0); e != "" {
			return e
		}
		return eventSet(acc)
	}
	covered := func() bool {
		for r, m := range want {
			if acc[r]&m != m {
				return false
			}
		}
		return true
	}
	deadline := time.Now().Add(mustArrive)
	for {
		rem := time.Until(deadline)
		if rem < 0 {
			break
		}
		if e := poll(int(rem/time.Millisecond) + 1); e != "" {
			return e
		}
		if covered() {
			break
		}
		time.Sleep(time.Millisecond)
	}
	return eventSet(acc)
}

func (w *realWorld) fill(r Role, fd int) string {
	wrote := false
	buf := make([]byte, realChunk)
	// pass writes until EAGAIN; it reports whether anything was accepted
	pass := func() (bool, error) {
		progress := false
		for i := 0; i < 1<<20; i++ {
			n, err := syscall.Write(fd, buf)
			if err == syscall.EINTR {
				continue
			}
			if err == syscall.EAGAIN {
				return progress, nil
			}
			if err != nil {
				return progress, err
			}
			progress, wrote = true, true
			if n < len(buf) {
				w.short = true
			}
			if r == A {
				w.sentA += n
			}
		}
		return progress, fmt.Errorf("never full")
	}
	result := func() string {
		if wrote {
			return "n>0..EAGAIN"
		}
		return "EAGAIN"
	}
	if _, err := pass(); err != nil {
		return errClass(err)
	}
	if !w.isTCP(fd) {
		return result() // AF_UNIX: nothing happens asynchronously
	}
	// TCP: an ACK that is still on its way frees send memory once more; the socket counts as
	// full when everything transmitted is acknowledged (what remains queued is unsent because
	// the peer's window is closed, only the peer reading can change that) and a write still
	// answers EAGAIN
	for round := 0; round < 50; round++ {
		if !within(3*mustArrive, func() bool { return ioctlInt(fd, siocoutq)-ioctlInt(fd, siocoutqnsd) <= 0 }) {
			w.notes = append(w.notes, "filling: transmitted data stayed unacknowledged")
		}
		time.Sleep(quietGap)
		progress, err := pass()
		if err != nil {
			return errClass(err)
		}
		if !progress {
			return result()
		}
		w.fillRetries++
	}
	return "never stably full"
}

func (w *realWorld) drain() string {
	if w.peer < 0 {
		return "peer closed"
	}
	buf := make([]byte, 1<<16)
	deadline := time.Now().Add(drainLimit)
	for w.drained < w.sentA {
		n, err := syscall.Read(w.peer, buf)
		switch {
		case err == syscall.EAGAIN || err == syscall.EINTR:
			if time.Now().After(deadline) {
				return fmt.Sprintf("drained %d of %d", w.drained, w.sentA)
			}
			time.Sleep(200 * time.Microsecond)
		case err != nil:
			return "peer read: " + errClass(err)
		case n == 0:
			return fmt.Sprintf("peer saw EOF after %d of %d", w.drained, w.sentA)
		default:
			w.drained += n
		}
	}
	// everything A wrote is with the peer; wait until A's send queue is acknowledged and freed
	// (TCP: the last ACK may be delayed), so that "the peer drained everything" is a settled state
	if fd, ok := w.fds[A]; ok && !w.closed[A] {
		if !within(2*mustArrive, func() bool { return ioctlInt(fd, siocoutq) == 0 }) {
			return fmt.Sprintf("send queue of A not released (%d bytes)", ioctlInt(fd, siocoutq))
		}
	}
	return "drained"
}

func (w *realWorld) connect(op Op) string {
	var addr *syscall.SockaddrInet4
	switch op {
	case OpConnectRefused:
		// a port nobody listens on: bind a socket to get a free port number, then close it
		l, a, err := listener(1)
		if err != nil {
			return errClass(err)
		}
		syscall.Close(l)
		addr = a
	case OpConnectAccepted:
		l, a, err := listener(8)
		if err != nil {
			return errClass(err)
		}
		w.aux = append(w.aux, l)
		addr = a
	case OpConnectPending:
		// a listener with backlog 0 whose accept queue is occupied by one established
		// connection drops further SYNs: the next connect stays in SYN_SENT
		l, a, err := listener(0)
		if err != nil {
			return errClass(err)
		}
		w.aux = append(w.aux, l)
		w.pendingL = l
		filler, err := syscall.Socket(syscall.AF_INET, syscall.SOCK_STREAM|syscall.SOCK_NONBLOCK|syscall.SOCK_CLOEXEC, 0)
		if err != nil {
			return errClass(err)
		}
		w.aux = append(w.aux, filler)
		if err := syscall.Connect(filler, a); err != nil && err != syscall.EINPROGRESS {
			return "filler connect: " + errClass(err)
		}
		if !within(mustArrive, func() bool { return tcpState(filler) == tcpEstablished }) {
			return "filler connect did not complete"
		}
		addr = a
	}
	c, err := syscall.Socket(syscall.AF_INET, syscall.SOCK_STREAM|syscall.SOCK_NONBLOCK|syscall.SOCK_CLOEXEC, 0)
	if err != nil {
		return errClass(err)
	}
	w.bind(C, c)
	res := errClass(syscall.Connect(c, addr))
	switch op {
	case OpConnectRefused:
		if !within(mustArrive, func() bool { return tcpState(c) == tcpClose }) {
			w.notes = append(w.notes, "refused connect did not reach CLOSE")
		}
	case OpConnectAccepted:
		if !within(mustArrive, func() bool { return tcpState(c) == tcpEstablished }) {
			w.notes = append(w.notes, "connect did not reach ESTABLISHED")
		}
		s, err := accept(w.aux[len(w.aux)-1])
		if err != nil {
			return res + " (accept: " + err.Error() + ")"
		}
		w.peer = s
	case OpConnectPending:
		time.Sleep(quietGap)
		if s := tcpState(c); s != tcpSynSent {
			return fmt.Sprintf("%s (but state %d, not SYN_SENT)", res, s)
		}
	}
	return res
}

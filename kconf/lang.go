// Package kconf is the kernel conformance replay of DESIGN.md §2.3.4: a fixed corpus of
// sequential system-call traces, written once in a small abstract step language, is interpreted
// by two back-ends -- the simulated kernel verif/vshim/vsys (inside one vsched execution) and the
// real Linux kernel through package syscall -- and the result classes are compared step by step.
//
// The corpus is written so that real buffer sizes and wake-up thresholds cannot matter ("fill
// until EAGAIN", "the peer drains everything" before EPOLLOUT is expected, one-byte writes where
// a write must fit).
package kconf

import (
	"fmt"
	"sort"
	"strings"
	"syscall"
)

// Role names a descriptor of a trace. Every trace has at most one descriptor per role.
type Role string

const (
	A Role = "A" // the stream socket "under test" (what nbio would own); its remote side is the Peer
	C Role = "C" // a stream socket created by a non-blocking connect
	E Role = "E" // an eventfd
	U Role = "U" // a bound UDP socket
)

// Event bits (the comparison is restricted to IN|OUT|ERR|HUP|RDHUP).
const (
	IN      = uint32(syscall.EPOLLIN)
	OUT     = uint32(syscall.EPOLLOUT)
	PRI     = uint32(syscall.EPOLLPRI)
	ERR     = uint32(syscall.EPOLLERR)
	HUP     = uint32(syscall.EPOLLHUP)
	RDHUP   = uint32(syscall.EPOLLRDHUP)
	ONESHOT = uint32(syscall.EPOLLONESHOT)
	ET      = uint32(1) << 31

	compared = IN | OUT | ERR | HUP | RDHUP

	// the masks nbio registers (poller_epoll.go: setRead / setReadWrite)
	NbioR  = IN | PRI | ERR | HUP | RDHUP
	NbioRW = NbioR | OUT
)

// Op is one abstract system call or one action of the remote side.
type Op int

const (
	OpEpollAdd        Op = iota // epoll_ctl(ADD, role, mask)            -> ok | EEXIST | ENOENT | EBADF
	OpEpollMod                  // epoll_ctl(MOD, role, mask)            -> ok | ...
	OpEpollDel                  // epoll_ctl(DEL, role)                  -> ok | ...
	OpWait                      // epoll_wait                            -> set of role:bits, "-" if empty
	OpWrite                     // write(role, N bytes)                  -> n>0 | EAGAIN | EPIPE/ECONNRESET | errno
	OpFill                      // write(role) in a loop until EAGAIN    -> n>0..EAGAIN | EAGAIN | errno
	OpWriteHuge                 // one write far larger than any buffer  -> short | all | EAGAIN | errno
	OpRead                      // read(role, buffer of N bytes)         -> exact count | errno
	OpClose                     // close(role)                           -> ok | errno
	OpSoError                   // getsockopt(role, SO_ERROR)            -> 0 | errno name
	OpPeerWrite                 // the peer sends N bytes (all must be queued)
	OpPeerDrainAll              // the peer reads until it has everything A ever wrote
	OpPeerCloseWrite            // the peer sends FIN (shutdown(SHUT_WR))
	OpPeerClose                 // the peer closes (FIN; RST when it has unread data)
	OpPeerReset                 // the peer aborts (SO_LINGER 0 + close); TCP only
	OpEventfdCreate             // eventfd2(0, EFD_NONBLOCK)
	OpEventfdWrite              // write(E, 8-byte counter increment N)
	OpEventfdRead               // read(E, 8 bytes)                      -> 8 | EAGAIN
	OpUDPCreate                 // a bound, non-blocking UDP socket U and two remote senders
	OpUDPSend                   // remote sender number From sends one datagram of N bytes to U
	OpRecvfrom                  // recvfrom(U, buffer of N bytes)        -> "n from=S<k>" | EAGAIN
	OpConnectRefused            // C: non-blocking connect to a port without listener -> EINPROGRESS (then refused)
	OpConnectPending            // C: non-blocking connect that stays in SYN_SENT     -> EINPROGRESS
	OpConnectAccepted           // C: non-blocking connect that then completes        -> EINPROGRESS
	OpDialCompletes             // the pending connect of C completes now (the server side becomes the Peer)
	OpDialRefused               // the pending connect of C is refused now
)

var opNames = map[Op]string{
	OpEpollAdd: "EpollAdd", OpEpollMod: "EpollMod", OpEpollDel: "EpollDel", OpWait: "Wait", OpWrite: "Write",
	OpFill: "FillUntilEAGAIN", OpWriteHuge: "WriteHuge", OpRead: "Read", OpClose: "Close", OpSoError: "SoError",
	OpPeerWrite: "PeerWrite", OpPeerDrainAll: "PeerDrainAll", OpPeerCloseWrite: "PeerCloseWrite", OpPeerClose: "PeerClose",
	OpPeerReset: "PeerReset", OpEventfdCreate: "EventfdCreate", OpEventfdWrite: "EventfdWrite", OpEventfdRead: "EventfdRead",
	OpUDPCreate: "UDPCreate", OpUDPSend: "UDPSend", OpRecvfrom: "Recvfrom", OpConnectRefused: "ConnectRefused",
	OpConnectPending: "ConnectPending", OpConnectAccepted: "ConnectAccepted", OpDialCompletes: "DialCompletes", OpDialRefused: "DialRefused",
}

// Step is one line of a trace.
type Step struct {
	Op   Op
	Role Role
	Mask uint32
	N    int
	From int

	// Expect is the result class the corpus author claims (documentation that is checked: when
	// it is set, both worlds must produce it). Empty: only model against kernel.
	Expect string
	// UnixKernel, when set, is the documented answer of the real kernel on AF_UNIX where it
	// legitimately differs from TCP (the model implements the TCP behaviour). On the unix
	// transport the kernel is compared with this string and the difference is listed as a fact.
	UnixKernel string
	// UnixBoth, when set, is the answer both the model and the real kernel must give on the
	// AF_UNIX transport where AF_UNIX legitimately differs from TCP and the model implements the
	// difference (e.g. HUP on the surviving end as soon as the peer closed its descriptor).
	UnixBoth string
	// Gap marks a step where the model is known to disagree with the real kernel
	// (expected_mismatch): reported as KNOWN-MODEL-GAP, not counted as a mismatch.
	Gap string
	// GapOn restricts Gap to one transport ("" = every transport of the trace).
	GapOn string
	// Observe names an observation to be listed in the evidence (kernel result per transport).
	Observe string
}

// Want sets the expected result class.
func (s Step) Want(class string) Step { s.Expect = class; return s }

// OnUnix documents the real kernel's AF_UNIX answer where it differs from TCP.
func (s Step) OnUnix(class string) Step { s.UnixKernel = class; return s }

// BothOnUnix sets the result class both worlds must produce on the AF_UNIX transport.
func (s Step) BothOnUnix(class string) Step { s.UnixBoth = class; return s }

// KnownGap marks an expected model/kernel disagreement.
func (s Step) KnownGap(transport, why string) Step { s.GapOn = transport; s.Gap = why; return s }

// Obs lists the kernel's answer at this step in the evidence under the given key.
func (s Step) Obs(key string) Step { s.Observe = key; return s }

func (s Step) String() string {
	n := opNames[s.Op]
	switch s.Op {
	case OpEpollAdd, OpEpollMod:
		return fmt.Sprintf("%s(%s, %s)", n, s.Role, MaskString(s.Mask))
	case OpEpollDel, OpClose, OpSoError, OpFill, OpWriteHuge:
		return fmt.Sprintf("%s(%s)", n, s.Role)
	case OpWrite, OpRead:
		return fmt.Sprintf("%s(%s, %d)", n, s.Role, s.N)
	case OpPeerWrite, OpEventfdWrite, OpRecvfrom:
		return fmt.Sprintf("%s(%d)", n, s.N)
	case OpUDPSend:
		return fmt.Sprintf("%s(S%d, %d)", n, s.From, s.N)
	}
	return n
}

// Constructors (the vocabulary of the corpus).
func EpollAdd(r Role, mask uint32) Step {
	return Step{Op: OpEpollAdd, Role: r, Mask: mask, Expect: "ok"}
}
func EpollMod(r Role, mask uint32) Step {
	return Step{Op: OpEpollMod, Role: r, Mask: mask, Expect: "ok"}
}
func EpollDel(r Role) Step { return Step{Op: OpEpollDel, Role: r, Expect: "ok"} }

// Wait is epoll_wait; want is the expected set, e.g. "A:IN|OUT E:IN", "-" for nothing.
func Wait(want string) Step { return Step{Op: OpWait, Expect: want} }

// Write writes n bytes; where the write has to fit in both worlds n is 1.
func Write(r Role, n int) Step { return Step{Op: OpWrite, Role: r, N: n} }

// FillUntilEAGAIN writes in a loop until the socket is full in the world at hand.
func FillUntilEAGAIN(r Role) Step { return Step{Op: OpFill, Role: r, Expect: "n>0..EAGAIN"} }

// WriteHuge is a single write of far more than fits (model: 100 bytes, kernel: 1 MiB): the
// kernel takes a part and returns the short count; no EAGAIN is seen by the caller.
func WriteHuge(r Role) Step         { return Step{Op: OpWriteHuge, Role: r, Expect: "short"} }
func Read(r Role, bufsize int) Step { return Step{Op: OpRead, Role: r, N: bufsize} }
func Close(r Role) Step             { return Step{Op: OpClose, Role: r, Expect: "ok"} }
func SoError(r Role) Step           { return Step{Op: OpSoError, Role: r} }
func PeerWrite(n int) Step          { return Step{Op: OpPeerWrite, N: n, Expect: "ok"} }
func PeerDrainAll() Step            { return Step{Op: OpPeerDrainAll, Expect: "drained"} }
func PeerCloseWrite() Step          { return Step{Op: OpPeerCloseWrite, Expect: "ok"} }
func PeerClose() Step               { return Step{Op: OpPeerClose, Expect: "ok"} }
func PeerReset() Step               { return Step{Op: OpPeerReset, Expect: "ok"} }
func EventfdCreate() Step           { return Step{Op: OpEventfdCreate, Role: E, Expect: "ok"} }
func EventfdWrite(v int) Step       { return Step{Op: OpEventfdWrite, Role: E, N: v, Expect: "8"} }
func EventfdRead() Step             { return Step{Op: OpEventfdRead, Role: E} }
func UDPCreate() Step               { return Step{Op: OpUDPCreate, Role: U, Expect: "ok"} }
func UDPSend(from, n int) Step      { return Step{Op: OpUDPSend, Role: U, From: from, N: n, Expect: "ok"} }
func Recvfrom(bufsize int) Step     { return Step{Op: OpRecvfrom, Role: U, N: bufsize} }
func ConnectRefused() Step          { return Step{Op: OpConnectRefused, Role: C, Expect: "EINPROGRESS"} }
func ConnectPending() Step          { return Step{Op: OpConnectPending, Role: C, Expect: "EINPROGRESS"} }
func ConnectAccepted() Step         { return Step{Op: OpConnectAccepted, Role: C, Expect: "EINPROGRESS"} }

// DialCompletes / DialRefused resolve the connect started by ConnectPending after the socket
// was registered. On the real kernel the resolution rides on the retransmitted SYN (1 s after
// the first one): the replay waits up to slowArrive for the state change.
func DialCompletes() Step              { return Step{Op: OpDialCompletes, Role: C, Expect: "ok"} }
func DialRefused() Step                { return Step{Op: OpDialRefused, Role: C, Expect: "ok"} }
func steps(s ...Step) []Step           { return s }
func on(transports ...string) []string { return transports }

// Trace is one corpus entry.
type Trace struct {
	Name  string
	About string // one line for the reader
	Facts []int  // numbers of the required facts (see FactText) this trace checks
	// On lists the transports the trace is replayed on: "tcp", "unix" for traces with a stream
	// socket A (a TCP loopback connection / an AF_UNIX socketpair whose other end is the Peer);
	// traces without A name what they are about instead: "tcp-connect" (C is a real TCP socket
	// connecting over loopback), "udp", "eventfd".
	On    []string
	Steps []Step
}

// ---------------------------------------------------------------------------------------------
// result classes

// MaskString renders the compared event bits (plus modifiers) of a mask.
func MaskString(m uint32) string {
	var p []string
	for _, b := range []struct {
		bit  uint32
		name string
	}{{IN, "IN"}, {OUT, "OUT"}, {PRI, "PRI"}, {ERR, "ERR"}, {HUP, "HUP"}, {RDHUP, "RDHUP"}, {ET, "ET"}, {ONESHOT, "ONESHOT"}} {
		if m&b.bit != 0 {
			p = append(p, b.name)
		}
	}
	if len(p) == 0 {
		return "0"
	}
	return strings.Join(p, "|")
}

// eventSet renders what one epoll_wait step reported: role -> bits, order ignored.
func eventSet(m map[Role]uint32) string {
	if len(m) == 0 {
		return "-"
	}
	var roles []string
	for r := range m {
		roles = append(roles, string(r))
	}
	sort.Strings(roles)
	var p []string
	for _, r := range roles {
		p = append(p, r+":"+MaskString(m[Role(r)]&compared))
	}
	return strings.Join(p, " ")
}

// parseEventSet is the inverse of eventSet (used by the real back-end to know what to wait for).
func parseEventSet(s string) map[Role]uint32 {
	out := map[Role]uint32{}
	if s == "-" || s == "" {
		return out
	}
	for _, f := range strings.Fields(s) {
		i := strings.IndexByte(f, ':')
		if i < 0 {
			continue
		}
		var m uint32
		for _, b := range strings.Split(f[i+1:], "|") {
			switch b {
			case "IN":
				m |= IN
			case "OUT":
				m |= OUT
			case "ERR":
				m |= ERR
			case "HUP":
				m |= HUP
			case "RDHUP":
				m |= RDHUP
			}
		}
		out[Role(f[:i])] = m
	}
	return out
}

var errnoNames = map[syscall.Errno]string{
	syscall.EAGAIN: "EAGAIN", syscall.EPIPE: "EPIPE", syscall.ECONNRESET: "ECONNRESET", syscall.ENOENT: "ENOENT",
	syscall.EEXIST: "EEXIST", syscall.EBADF: "EBADF", syscall.EINVAL: "EINVAL", syscall.EINTR: "EINTR",
	syscall.ECONNREFUSED: "ECONNREFUSED", syscall.ENOTCONN: "ENOTCONN", syscall.EINPROGRESS: "EINPROGRESS",
	syscall.EPERM: "EPERM", syscall.EDESTADDRREQ: "EDESTADDRREQ", syscall.ENOTSOCK: "ENOTSOCK",
}

func errClass(err error) string {
	if err == nil {
		return "ok"
	}
	if e, ok := err.(syscall.Errno); ok {
		if e == 0 {
			return "0"
		}
		if n, ok := errnoNames[e]; ok {
			return n
		}
		return fmt.Sprintf("errno%d", int(e))
	}
	return "error:" + err.Error()
}

// writeClass: bytes>0 / EAGAIN / EPIPE-or-ECONNRESET / other errno.
func writeClass(n int, err error) string {
	if err == nil {
		if n > 0 {
			return "n>0"
		}
		return "0"
	}
	if err == syscall.EPIPE || err == syscall.ECONNRESET {
		return "EPIPE/ECONNRESET"
	}
	return errClass(err)
}

func hugeClass(n, asked int, err error) string {
	switch {
	case err != nil:
		return errClass(err)
	case n > 0 && n < asked:
		return "short"
	case n == asked:
		return "all"
	}
	return "0"
}

// readClass: the exact count (both worlds have everything queued when a read is issued; the
// model claims read returns min(queued, len(buf))), or the errno.
func readClass(n int, err error) string {
	if err == nil {
		return fmt.Sprint(n)
	}
	return errClass(err)
}

package kconf

import (
	"encoding/json"
	"fmt"
	"os"
	"sort"
	"strings"
	"sync"
	"syscall"
	"time"
)

// modelCaps are the send capacities the model is replayed with (the corpus must not depend on
// them, just as it must not depend on the real kernel's buffer sizes). With FillUntilEAGAIN's
// 3-byte writes capacity 4 gives "3, 1 (short), EAGAIN" and capacity 2 "2 (short), EAGAIN".
var modelCaps = []int{4, 2}

const modelRcvCap = 64

// StepResult is one compared step.
type StepResult struct {
	Index  int    `json:"i"`
	Step   string `json:"step"`
	Expect string `json:"expect,omitempty"`
	Model  string `json:"model"`
	Kernel string `json:"kernel"`
	Status string `json:"status"` // agree | transport_difference | known_model_gap | MISMATCH
}

// Replay is one trace on one transport.
type Replay struct {
	Trace     string       `json:"trace"`
	Transport string       `json:"transport"`
	Facts     []int        `json:"facts"`
	Steps     []StepResult `json:"steps"`
	Status    string       `json:"status"`
	Notes     []string     `json:"notes,omitempty"`
	Gaps      []string     `json:"known_model_gaps,omitempty"`
}

// FactResult summarises one required fact.
type FactResult struct {
	Fact       int      `json:"fact"`
	Text       string   `json:"text"`
	Transports []string `json:"checked_on"`
	Traces     []string `json:"traces"`
	Status     string   `json:"status"` // agree | known_model_gap | MISMATCH | not_checked
	Remarks    []string `json:"remarks,omitempty"`
}

// Report is the full outcome of a run.
type Report struct {
	Kernel                 string                       `json:"kernel"`
	Traces                 int                          `json:"traces"` // replays = corpus traces x transports
	CorpusTraces           int                          `json:"corpus_traces"`
	Steps                  int                          `json:"steps"`
	Mismatches             int                          `json:"mismatches"`
	KnownModelGaps         []string                     `json:"known_model_gaps"`
	Facts                  []FactResult                 `json:"facts"`
	TransportDifferences   []string                     `json:"transport_differences"`
	Observations           map[string]map[string]string `json:"kernel_observations"`
	DocumentedAbstractions []string                     `json:"documented_abstractions"`
	NotChecked             []string                     `json:"not_checked"`
	ModelCapacities        []int                        `json:"model_send_capacities"`
	Corpus                 []string                     `json:"corpus"`
	Replays                []Replay                     `json:"replays"`
	Lines                  []string                     `json:"report"`
	Seconds                float64                      `json:"seconds"`
}

// Options restrict or repeat a run (used by the command for debugging).
type Options struct {
	Only    string // substring of the trace name
	Verbose bool
}

var runMu sync.Mutex

// Run replays the whole corpus. mismatches == 0 means the model and this machine's kernel agree
// on every step (known model gaps excepted, they are listed in report as KNOWN-MODEL-GAP lines).
func Run() (traces, steps, mismatches int, report []string) {
	r := RunReport(Options{})
	return r.Traces, r.Steps, r.Mismatches, r.Lines
}

// RunReport is Run with the full structured outcome.
func RunReport(o Options) *Report {
	runMu.Lock()
	defer runMu.Unlock()
	start := time.Now()
	rep := &Report{Kernel: uname(), Observations: map[string]map[string]string{}, DocumentedAbstractions: DocumentedAbstractions,
		NotChecked: NotChecked, ModelCapacities: modelCaps, KnownModelGaps: []string{}, TransportDifferences: []string{}}
	type factAcc struct {
		transports, traces map[string]bool
		bad, gap           bool
		remarks            []string
	}
	facts := map[int]*factAcc{}
	for _, tr := range Corpus() {
		if o.Only != "" && !strings.Contains(tr.Name, o.Only) {
			continue
		}
		rep.CorpusTraces++
		rep.Corpus = append(rep.Corpus, fmt.Sprintf("%s [%s] facts %v: %s", tr.Name, strings.Join(tr.On, ","), tr.Facts, tr.About))
		for _, transport := range tr.On {
			rp := replay(tr, transport, rep)
			rep.Replays = append(rep.Replays, rp)
			rep.Traces++
			rep.Steps += len(rp.Steps)
			for _, f := range tr.Facts {
				a := facts[f]
				if a == nil {
					a = &factAcc{transports: map[string]bool{}, traces: map[string]bool{}}
					facts[f] = a
				}
				a.transports[transport] = true
				a.traces[tr.Name] = true
				switch rp.Status {
				case "MISMATCH":
					a.bad = true
				case "known_model_gap":
					a.gap = true
				}
				for _, g := range rp.Gaps {
					a.remarks = append(a.remarks, "known model gap: "+g)
				}
			}
			if o.Verbose {
				rep.Lines = append(rep.Lines, fmt.Sprintf("--- %s on %s: %s", tr.Name, transport, rp.Status))
				for _, s := range rp.Steps {
					rep.Lines = append(rep.Lines, fmt.Sprintf("    %2d %-34s model %-28s kernel %-28s %s", s.Index, s.Step, s.Model, s.Kernel, s.Status))
				}
				for _, n := range rp.Notes {
					rep.Lines = append(rep.Lines, "    note: "+n)
				}
			}
		}
	}
	var ids []int
	for f := range FactText {
		ids = append(ids, f)
	}
	sort.Ints(ids)
	for _, f := range ids {
		fr := FactResult{Fact: f, Text: FactText[f], Status: "not_checked", Transports: []string{}, Traces: []string{}}
		if a := facts[f]; a != nil {
			fr.Transports = keys(a.transports)
			fr.Traces = keys(a.traces)
			fr.Status = "agree"
			if a.gap {
				fr.Status = "known_model_gap"
			}
			if a.bad {
				fr.Status = "MISMATCH"
			}
		}
		if r, ok := FactRemarks[f]; ok {
			fr.Remarks = append(fr.Remarks, r)
		}
		if a := facts[f]; a != nil {
			fr.Remarks = append(fr.Remarks, a.remarks...)
		}
		rep.Facts = append(rep.Facts, fr)
	}
	rep.Seconds = time.Since(start).Seconds()
	rep.Lines = append(rep.Lines, fmt.Sprintf("kconf: kernel %s: %d replays of %d corpus traces, %d steps, %d mismatches, %d known model gaps, %d transport differences (%.1fs)",
		rep.Kernel, rep.Traces, rep.CorpusTraces, rep.Steps, rep.Mismatches, len(rep.KnownModelGaps), len(rep.TransportDifferences), rep.Seconds))
	return rep
}

func keys(m map[string]bool) []string {
	out := []string{}
	for k := range m {
		out = append(out, k)
	}
	sort.Strings(out)
	return out
}

// replay runs one trace on one transport in both worlds and compares.
func replay(tr *Trace, transport string, rep *Report) Replay {
	rp := Replay{Trace: tr.Name, Transport: transport, Facts: tr.Facts, Status: "agree"}
	id := tr.Name + "/" + transport
	mismatch := func(i int, format string, a ...interface{}) {
		rep.Mismatches++
		rp.Status = "MISMATCH"
		rep.Lines = append(rep.Lines, fmt.Sprintf("MODEL-MISMATCH: %s step %d: ", id, i)+fmt.Sprintf(format, a...))
	}
	// 1. the model, once per capacity
	var models [][]string
	modelShort := false
	for _, c := range modelCaps {
		res, short, err := runModel(tr, transport, c, modelRcvCap)
		if err != nil {
			mismatch(len(res), "model %v kernel (not run)", err)
			return rp
		}
		modelShort = modelShort || short
		models = append(models, res)
	}
	for c := 1; c < len(models); c++ {
		for i := range tr.Steps {
			if models[c][i] != models[0][i] {
				mismatch(i, "model %s with capacity %d but %s with capacity %d: the corpus depends on a threshold (%s)", models[0][i], modelCaps[0], models[c][i], modelCaps[c], tr.Steps[i])
				return rp
			}
		}
	}
	model := models[0]
	// 2. the real kernel
	w, err := newRealWorld(transport)
	if err != nil {
		mismatch(0, "model (ok) kernel set-up failed: %v", err)
		return rp
	}
	defer w.end()
	var kernel, details []string
	for i, st := range tr.Steps {
		hint := st.Expect
		if transport == "unix" && st.UnixBoth != "" {
			hint = st.UnixBoth
		}
		if transport == "unix" && st.UnixKernel != "" {
			hint = st.UnixKernel
		}
		if hint == "" {
			hint = model[i]
		}
		kernel = append(kernel, w.step(st, hint))
		details = append(details, w.detail)
	}
	rp.Notes = w.notes
	// 3. compare
	first := true
	for i, st := range tr.Steps {
		sr := StepResult{Index: i, Step: st.String(), Expect: st.Expect, Model: model[i], Kernel: kernel[i], Status: "agree"}
		gapHere := st.Gap != "" && (st.GapOn == "" || st.GapOn == transport)
		expect := st.Expect
		if transport == "unix" && st.UnixBoth != "" {
			expect = st.UnixBoth
			sr.Expect = expect
		}
		switch {
		case expect != "" && model[i] != expect:
			sr.Status = "MISMATCH"
			if first {
				mismatch(i, "model %s kernel %s (%s; the corpus expects %s)", model[i], kernel[i], st, expect)
			}
		case kernel[i] == model[i]:
			if gapHere {
				rep.Lines = append(rep.Lines, fmt.Sprintf("NOTE: %s step %d (%s): marked as known model gap but model and kernel agree on %s", id, i, st, kernel[i]))
			}
			if transport == "unix" && st.UnixKernel != "" && st.UnixKernel != kernel[i] {
				rp.Notes = append(rp.Notes, fmt.Sprintf("step %d: the documented AF_UNIX difference (%s) did not show, the kernel answered like TCP (%s)", i, st.UnixKernel, kernel[i]))
			}
		case transport == "unix" && st.UnixKernel != "" && kernel[i] == st.UnixKernel:
			sr.Status = "transport_difference"
			rep.TransportDifferences = append(rep.TransportDifferences, fmt.Sprintf("%s step %d (%s): AF_UNIX kernel %s; TCP kernel and model %s", id, i, st, kernel[i], model[i]))
		case gapHere:
			sr.Status = "known_model_gap"
			if rp.Status == "agree" {
				rp.Status = "known_model_gap"
			}
			line := fmt.Sprintf("%s step %d (%s): model %s kernel %s -- %s", id, i, st, model[i], kernel[i], st.Gap)
			rep.KnownModelGaps = append(rep.KnownModelGaps, line)
			rp.Gaps = append(rp.Gaps, line)
			rep.Lines = append(rep.Lines, "KNOWN-MODEL-GAP: "+line)
		default:
			sr.Status = "MISMATCH"
			if first {
				mismatch(i, "model %s kernel %s (%s)", model[i], kernel[i], st)
			}
		}
		if sr.Status == "MISMATCH" {
			first = false
		}
		if st.Observe != "" {
			v := kernel[i]
			if details[i] != "" && details[i] != v {
				v += " (" + details[i] + ")"
			}
			obs(rep, st.Observe, transport, v)
		}
		rp.Steps = append(rp.Steps, sr)
	}
	for _, st := range tr.Steps {
		if st.Op == OpFill {
			obs(rep, "short write seen while filling (kernel)", transport, fmt.Sprint(w.short))
			obs(rep, "short write seen while filling (model)", transport, fmt.Sprint(modelShort))
			if w.fillRetries > 0 {
				rp.Notes = append(rp.Notes, fmt.Sprintf("TCP accepted more data after a first EAGAIN %d time(s) while filling (late ACKs)", w.fillRetries))
			}
			break
		}
	}
	return rp
}

func obs(rep *Report, key, transport, val string) {
	m := rep.Observations[key]
	if m == nil {
		m = map[string]string{}
		rep.Observations[key] = m
	}
	if old, ok := m[transport]; ok && old != val && !strings.Contains(old, val) {
		val = old + " / " + val
	} else if ok {
		val = old
	}
	m[transport] = val
}

func uname() string {
	var u syscall.Utsname
	if err := syscall.Uname(&u); err != nil {
		return "unknown"
	}
	var b []byte
	for _, c := range u.Release {
		if c == 0 {
			break
		}
		b = append(b, byte(c))
	}
	return string(b)
}

// WriteEvidence stores the report as JSON.
func (r *Report) WriteEvidence(path string) error {
	b, err := json.MarshalIndent(r, "", " ")
	if err != nil {
		return err
	}
	return os.WriteFile(path, append(b, '\n'), 0o644)
}

package kconf

import (
	"fmt"
	"syscall"
	"unsafe"

	"verif/vsched"
	"verif/vshim/vsys"
)

// world is one interpreter of the step language.
type world interface {
	// step executes one step and returns its result class. hint is the result the corpus (or
	// the model) expects; the real back-end uses it only to choose between "wait up to 200 ms
	// for an event that must arrive" and "poll twice for an event that must not arrive".
	step(st Step, hint string) string
}

// modelChunk is the size of the writes FillUntilEAGAIN issues against the model; with a send
// capacity that is not a multiple of it the last successful write is short.
const modelChunk = 3

// modelWorld interprets steps with vsys calls; it must run inside a vsched execution.
type modelWorld struct {
	unix    bool
	sndCap  int
	rcvCap  int
	ep      int
	fds     map[Role]int
	roleOf  map[int32]Role
	peer    *vsys.Peer
	udp     *vsys.UDPPeer
	sentA   int // bytes A handed to the kernel
	drained int // bytes the peer read
	short   bool
}

func newModelWorld(transport string, sndCap, rcvCap int) *modelWorld {
	w := &modelWorld{unix: transport == "unix", sndCap: sndCap, rcvCap: rcvCap, fds: map[Role]int{}, roleOf: map[int32]Role{}}
	vsys.Configure(false, false) // no deviations: the kernel's default answers
	ep, err := vsys.EpollCreate1(0)
	if err != nil {
		panic(err)
	}
	w.ep = ep
	if transport == "tcp" || transport == "unix" {
		fd, peer := vsys.NewStreamPair(w.unix, sndCap, rcvCap)
		w.bind(A, fd)
		w.peer = peer
	}
	return w
}

func (w *modelWorld) bind(r Role, fd int) {
	w.fds[r] = fd
	w.roleOf[int32(fd)] = r
}

func (w *modelWorld) step(st Step, _ string) string {
	fd := w.fds[st.Role]
	switch st.Op {
	case OpEpollAdd, OpEpollMod, OpEpollDel:
		op := map[Op]int{OpEpollAdd: vsys.EPOLL_CTL_ADD, OpEpollMod: vsys.EPOLL_CTL_MOD, OpEpollDel: vsys.EPOLL_CTL_DEL}[st.Op]
		return errClass(vsys.EpollCtl(w.ep, op, fd, &vsys.EpollEvent{Events: st.Mask, Fd: int32(fd)}))
	case OpWait:
		evs := make([]vsys.EpollEvent, 16)
		n, err := vsys.EpollWait(w.ep, evs, 0)
		if err != nil {
			return errClass(err)
		}
		got := map[Role]uint32{}
		for _, ev := range evs[:n] {
			r, ok := w.roleOf[ev.Fd]
			if !ok {
				r = Role(fmt.Sprintf("fd%d", ev.Fd))
			}
			if _, dup := got[r]; dup {
				return "duplicate report of " + string(r)
			}
			got[r] = ev.Events
		}
		return eventSet(got)
	case OpWrite:
		n, err := vsys.Write(fd, make([]byte, st.N))
		if err == nil && st.Role == A {
			w.sentA += n
		}
		return writeClass(n, err)
	case OpWriteHuge:
		n, err := vsys.Write(fd, make([]byte, 100))
		if err == nil && st.Role == A {
			w.sentA += n
		}
		return hugeClass(n, 100, err)
	case OpFill:
		wrote := false
		for i := 0; i < 10000; i++ {
			n, err := vsys.Write(fd, make([]byte, modelChunk))
			if err == syscall.EAGAIN {
				if wrote {
					return "n>0..EAGAIN"
				}
				return "EAGAIN"
			}
			if err != nil {
				return errClass(err)
			}
			wrote = true
			if n < modelChunk {
				w.short = true
			}
			if st.Role == A {
				w.sentA += n
			}
		}
		return "never full"
	case OpRead:
		n, err := vsys.Read(fd, make([]byte, st.N))
		return readClass(n, err)
	case OpClose:
		return errClass(vsys.Close(fd)) // the number stays bound: later steps address the closed descriptor
	case OpSoError:
		v, err := vsys.GetsockoptInt(fd, vsys.SOL_SOCKET, vsys.SO_ERROR)
		if err != nil {
			return errClass(err)
		}
		return errClass(syscall.Errno(v))
	case OpPeerWrite:
		if n := w.peer.Write(make([]byte, st.N)); n != st.N {
			return fmt.Sprintf("peer could queue only %d of %d", n, st.N)
		}
		return "ok"
	case OpPeerDrainAll:
		for i := 0; i < 100 && w.peer.Queued() > 0; i++ {
			w.drained += len(w.peer.Read(0))
		}
		if w.drained != w.sentA {
			return fmt.Sprintf("drained %d of %d", w.drained, w.sentA)
		}
		return "drained"
	case OpPeerCloseWrite:
		w.peer.CloseWrite()
		return "ok"
	case OpPeerClose:
		w.peer.Close()
		return "ok"
	case OpPeerReset:
		w.peer.Reset()
		return "ok"
	case OpEventfdCreate:
		r, _, e := vsys.Syscall(vsys.SYS_EVENTFD2, 0, uintptr(vsys.O_NONBLOCK|vsys.O_CLOEXEC), 0)
		if e != 0 {
			return errClass(e)
		}
		w.bind(E, int(r))
		return "ok"
	case OpEventfdWrite:
		v := uint64(st.N)
		n, err := vsys.Write(fd, (*[8]byte)(unsafe.Pointer(&v))[:])
		return readClass(n, err)
	case OpEventfdRead:
		n, err := vsys.Read(fd, make([]byte, 8))
		return readClass(n, err)
	case OpUDPCreate:
		ufd, p := vsys.NewUDPSocket(5300)
		w.bind(U, ufd)
		w.udp = p
		return "ok"
	case OpUDPSend:
		w.udp.Send(7000+st.From, make([]byte, st.N))
		return "ok"
	case OpRecvfrom:
		n, from, err := vsys.Recvfrom(fd, make([]byte, st.N), 0)
		if err != nil {
			return errClass(err)
		}
		s := "?"
		if a, ok := from.(*vsys.SockaddrInet4); ok {
			s = fmt.Sprintf("S%d", a.Port-7000)
		}
		return fmt.Sprintf("%d from=%s", n, s)
	case OpDialCompletes, OpDialRefused:
		ds := vsys.Dials()
		if len(ds) == 0 || ds[len(ds)-1].Resolved() {
			return "no pending dial"
		}
		if st.Op == OpDialCompletes {
			w.peer = ds[len(ds)-1].Accept()
		} else {
			ds[len(ds)-1].Refuse()
		}
		return "ok"
	case OpConnectRefused, OpConnectPending, OpConnectAccepted:
		cfd, err := vsys.Socket(vsys.AF_INET, vsys.SOCK_STREAM|vsys.SOCK_NONBLOCK|vsys.SOCK_CLOEXEC, 0)
		if err != nil {
			return errClass(err)
		}
		w.bind(C, cfd)
		res := errClass(vsys.Connect(cfd, &vsys.SockaddrInet4{Addr: [4]byte{127, 0, 0, 1}, Port: 9}))
		ds := vsys.Dials()
		if len(ds) == 0 {
			return res + " (no pending dial)"
		}
		d := ds[len(ds)-1]
		switch st.Op {
		case OpConnectRefused:
			d.Refuse() // the RST answering the SYN
		case OpConnectAccepted:
			w.peer = d.Accept() // the handshake completes without the application doing anything
		}
		return res
	}
	return "unknown op"
}

// runModel replays a trace against vsys inside one scheduled execution (single thread, every
// environment choice at its default).
func runModel(tr *Trace, transport string, sndCap, rcvCap int) (results []string, short bool, err error) {
	var w *modelWorld
	r := vsched.RunOnce(nil, nil, &vsched.Options{}, func() {
		w = newModelWorld(transport, sndCap, rcvCap)
		for _, st := range tr.Steps {
			results = append(results, w.step(st, ""))
		}
	})
	if r.Panic != "" {
		return results, false, fmt.Errorf("model execution panicked: %s", r.Panic)
	}
	if len(r.Failures) > 0 {
		return results, false, fmt.Errorf("model execution failed: %v", r.Failures)
	}
	if len(results) != len(tr.Steps) {
		return results, false, fmt.Errorf("model execution stopped after %d of %d steps (deadlock=%v livelock=%v)", len(results), len(tr.Steps), r.Deadlock, r.Livelock)
	}
	return results, w.short, nil
}

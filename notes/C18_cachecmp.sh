#!/bin/bash
# compares the signature sets of cached and uncached P=2 explorations of the same scenarios
export GOFLAGS=-mod=mod GOPROXY=off GOSUMDB=off GOTOOLCHAIN=local CGO_ENABLED=0
cd /verif
BIN=.work/bin/${1:-c18}
export VERIF_OUT=/verif/.work/cachecmp-out; mkdir -p $VERIF_OUT
$BIN -tier quick -list | grep "^core/nocache .* P=2$" | while read -r n; do
  c="core ${n#core/nocache }"
  a=$($BIN -tier quick -workers 1 -only "$n" 2>&1 | grep -E "^(KNOWN-FINDING:|  signature:)" | sed -E 's/^KNOWN-FINDING: property=C18 //; s/^  signature: //' | cut -c1-60 | sort | tr '\n' ';')
  b=$($BIN -tier quick -workers 1 -only "$c" 2>&1 | grep -E "^(KNOWN-FINDING:|  signature:)" | sed -E 's/^KNOWN-FINDING: property=C18 //; s/^  signature: //' | cut -c1-60 | sort | tr '\n' ';')
  if [ "$a" == "$b" ]; then echo "SAME  $c"; else echo "DIFF  $c"; echo "   nocache: $a"; echo "   cached:  $b"; fi
done

// Reproduction (plain /repo, public API only, no network): on the blocking-mode branch of
// Upgrader.Upgrade (scenarios 2.1.2 / 3.2 / 4: connections of an nbhttp engine in IOModBlocking or
// the blocking part of IOModMixed) the new websocket Conn keeps wsc.Engine = u.Engine. With the
// usual websocket.NewUpgrader() that is websocket.DefaultEngine (ReadLimit 64 MiB), so the
// ReadLimit the user configured in the nbhttp.Config of the engine that serves the connection is
// not applied to the connection's input cache. On the poller branch (scenarios 1 / 2.2) Upgrade
// sets wsc.Engine = parser.Engine and the limit holds.
// Run: GOFLAGS=-mod=mod GOPROXY=off go run .   (exit status 1 = defect present)
package main

import (
	"fmt"
	"net/http"
	"os"

	"github.com/lesismal/nbio/logging"
	"github.com/lesismal/nbio/nbhttp"
	"github.com/lesismal/nbio/nbhttp/websocket"
)

func run(upgraderGetsServingEngine bool) (delivered int, firstErr error, worstPending int) {
	const readLimit = 64
	serving := nbhttp.NewEngine(nbhttp.Config{Name: "serving", IOMod: nbhttp.IOModBlocking, ReadLimit: readLimit})

	u := websocket.NewUpgrader() // Engine = websocket.DefaultEngine
	if upgraderGetsServingEngine {
		u.Engine = serving
	}
	u.CheckOrigin = func(*http.Request) bool { return true }
	u.BlockingModAsyncWrite = false
	u.OnMessage(func(c *websocket.Conn, mt websocket.MessageType, data []byte) { delivered = len(data) })

	// what the blocking engine builds for an accepted connection: an *nbhttp.Conn with a Parser of
	// the serving engine; the handler gets an *nbhttp.Response and calls Upgrade
	f := &fake{}
	nc := &nbhttp.Conn{Conn: f}
	parser := nbhttp.NewParser(nc, serving, nil, false, nil)
	nc.Parser = parser
	req, _ := http.NewRequest("GET", "http://h/ws", nil)
	req.Header.Set("Connection", "Upgrade")
	req.Header.Set("Upgrade", "websocket")
	req.Header.Set("Sec-Websocket-Version", "13")
	req.Header.Set("Sec-Websocket-Key", "dGhlIHNhbXBsZSBub25jZQ==")
	wsc, err := u.Upgrade(nbhttp.NewResponse(parser, req), req, nil)
	if err != nil || !wsc.IsBlockingMod() {
		panic(fmt.Sprint("upgrade: ", err))
	}

	// a masked binary frame of 128 bytes (136 on the wire), one byte per read, fed the way
	// readConnBlocking feeds it after the upgrade: parser.ParserCloser.Parse(bytes)
	frame := []byte{0x82, 0x80 | 126, 0, 128, 1, 2, 3, 4}
	for i := 0; i < 128; i++ {
		frame = append(frame, byte(i)^byte(1+i%4))
	}
	for i := range frame {
		if err := parser.ParserCloser.Parse(frame[i : i+1]); err != nil && firstErr == nil {
			firstErr = err
			break
		}
		if delivered == 0 && i+1 > worstPending {
			worstPending = i + 1
		}
	}
	return
}

func main() {
	logging.SetLevel(logging.LevelNone)
	bad := false
	for _, same := range []bool{true, false} {
		delivered, err, pending := run(same)
		fmt.Printf("Upgrader.Engine == serving engine: %-5v  -> Parse error: %v, delivered %d bytes, up to %d bytes pending unparsed (serving engine ReadLimit = 64)\n", same, err, delivered, pending)
		if err == nil || pending > 64+1 {
			bad = true
		}
	}
	if bad {
		fmt.Println("DEFECT: with a default Upgrader the serving engine's ReadLimit is not applied to a connection upgraded in blocking mode")
		os.Exit(1)
	}
	fmt.Println("ok")
}

package main

import (
	"io"
	"net"
	"time"
)

// fake is a recording net.Conn.
type fake struct {
	writes [][]byte
	closed bool
}

type addr struct{}

func (addr) Network() string { return "fake" }
func (addr) String() string  { return "fake" }

func (f *fake) Read([]byte) (int, error) { return 0, io.EOF }
func (f *fake) Write(b []byte) (int, error) {
	if f.closed {
		return 0, net.ErrClosed
	}
	f.writes = append(f.writes, append([]byte(nil), b...))
	return len(b), nil
}
func (f *fake) Close() error                     { f.closed = true; return nil }
func (f *fake) LocalAddr() net.Addr              { return addr{} }
func (f *fake) RemoteAddr() net.Addr             { return addr{} }
func (f *fake) SetDeadline(time.Time) error      { return nil }
func (f *fake) SetReadDeadline(time.Time) error  { return nil }
func (f *fake) SetWriteDeadline(time.Time) error { return nil }

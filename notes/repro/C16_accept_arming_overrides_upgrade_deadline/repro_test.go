// C16: the accept-time keep-alive deadline of nbhttp can override the deadline of a request that
// was handled while the connection was still being accepted.
//
// nbhttp/engine.go, AddConnNonTLSNonBlocking (and its TLS / blocking siblings): the connection is
// registered with the poller first (engine.AddConn(nbc)) and the HTTP keep-alive read deadline is
// armed afterwards (nbc.SetReadDeadline(now + engine.KeepaliveTime)). A client that sends its
// request right after connect has it in the socket by then: the poller may read it, the executor
// may run the handler and - for a WebSocket upgrade - Upgrade may set the WebSocket deadline
// (SetReadDeadline(now + Upgrader.KeepaliveTime), or SetReadDeadline(zero) when the upgrader's
// keep-alive is disabled) BEFORE the accepting goroutine gets to its own SetReadDeadline, which
// then overrides it. With Upgrader.KeepaliveTime = 0 ("never time out") the WebSocket connection
// is closed with "read timeout" engine.KeepaliveTime after the accept no matter how much traffic
// flows (handleWsMessage only re-arms when KeepaliveTime > 0); with a positive value the first
// deadline is the HTTP one (too early or too late) until the first message re-arms it.
//
// Found by the C16 check (scenario "keepalive ws LT exec=go early wska=0 calm gaps=[]", signature
// "accept-arming-overrides-upgrade-deadline", 1 preemption: acceptor: epoll_ctl ADD; [switch]
// poller: epoll_wait -> IN, read 142 bytes, parse, start the handler; handler: Upgrade writes the
// 101 response, SetReadDeadline(zero); [back] acceptor: SetReadDeadline(accept+7s); +7s: the read
// timer fires, the WebSocket connection is closed with ErrReadTimeout).
//
// On the real kernel the accepting goroutine has to lose the CPU between the two statements for
// as long as the poller and the executor need for the upgrade, so this is a stress test: a server
// with engine.KeepaliveTime = 600 ms and Upgrader.KeepaliveTime = 0, clients that send the upgrade
// request in the same breath as the connect and then stay silent for 1.8 s. Only connections whose
// 101 response arrived LESS THAN HALF an HTTP keep-alive time after the connect are judged - the
// accept-time deadline cannot have expired before their upgrade was complete, however starved the
// process is -; none of them may be closed by the server. Needs loopback networking:
//
//	cd /verif && GOFLAGS=-mod=mod GOPROXY=off unshare -rn bash -c 'ip link set lo up; go test -count=1 -timeout 10m ./notes/repro/C16_accept_arming_overrides_upgrade_deadline/'
//
// A run that does not hit the window within its budget (REPRO_SECONDS, default 60) SKIPs; a hit
// FAILS. Deterministic evidence is the replay file of the check
// (replays/C16-accept-arming-overrides-upgrade-deadline.json).
//
// Status: repaired in /repo by b524243 (the accept-time deadline is armed in the core engine's open
// hook, which runs before the descriptor is added to the poller); the test SKIPs since then.
// Original repair idea: arm the accept-time deadline before engine.AddConn (SetReadDeadline needs c.p,
// so the order inside nbio.Engine.AddConn would have to offer a "deadline at registration"), or
// let the late arming only apply when no request has been processed yet (under the parser lock).
package repro

import (
	"bytes"
	"errors"
	"fmt"
	"net"
	"net/http"
	"os"
	"runtime"
	"strconv"
	"sync"
	"sync/atomic"
	"testing"
	"time"

	"github.com/lesismal/nbio"
	"github.com/lesismal/nbio/nbhttp"
	"github.com/lesismal/nbio/nbhttp/websocket"
)

const upgradeRequest = "GET /ws HTTP/1.1\r\nHost: h\r\nConnection: Upgrade\r\nUpgrade: websocket\r\nSec-WebSocket-Version: 13\r\nSec-WebSocket-Key: dGhlIHNhbXBsZSBub25jZQ==\r\n\r\n"

func TestAcceptArmingOverridesUpgradeDeadline(t *testing.T) {
	budget := 60 * time.Second
	if s := os.Getenv("REPRO_SECONDS"); s != "" {
		if n, err := strconv.Atoi(s); err == nil {
			budget = time.Duration(n) * time.Second
		}
	}
	probe, err := net.Listen("tcp", "127.0.0.1:0")
	if err != nil {
		t.Skipf("no loopback networking: %v", err)
	}
	addr := probe.Addr().String()
	_ = probe.Close()

	const httpKeepalive = 600 * time.Millisecond
	var upgraded, timedOut int64
	up := websocket.NewUpgrader()
	up.KeepaliveTime = 0 // keep-alive disabled on the WebSocket connections
	up.OnMessage(func(*websocket.Conn, websocket.MessageType, []byte) {})
	up.OnClose(func(_ *websocket.Conn, err error) {
		if errors.Is(err, nbio.ErrReadTimeout) {
			atomic.AddInt64(&timedOut, 1)
		}
	})
	mux := http.NewServeMux()
	mux.HandleFunc("/ws", func(w http.ResponseWriter, r *http.Request) {
		if _, err := up.Upgrade(w, r, nil); err == nil {
			atomic.AddInt64(&upgraded, 1)
		}
	})
	engine := nbhttp.NewEngine(nbhttp.Config{Network: "tcp", Addrs: []string{addr}, Handler: mux, KeepaliveTime: httpKeepalive, NPoller: 2})
	if err := engine.Start(); err != nil {
		t.Fatal(err)
	}
	defer engine.Stop()

	stop := make(chan struct{})
	for i := 0; i < 2*runtime.NumCPU(); i++ {
		go func() {
			x := 0
			for {
				select {
				case <-stop:
					return
				default:
					x++
					if x%1000 == 0 {
						runtime.Gosched()
					}
				}
			}
		}()
	}
	defer close(stop)

	var closedByServer, clients int64
	var first atomic.Value
	deadline := time.Now().Add(budget)
	var wg sync.WaitGroup
	for w := 0; w < 600; w++ {
		wg.Add(1)
		go func() {
			defer wg.Done()
			buf := make([]byte, 4096)
			for time.Now().Before(deadline) && atomic.LoadInt64(&closedByServer) == 0 {
				c, err := net.Dial("tcp", addr)
				if err != nil {
					time.Sleep(10 * time.Millisecond)
					continue
				}
				start := time.Now()
				_, _ = c.Write([]byte(upgradeRequest))
				var head []byte
				_ = c.SetReadDeadline(time.Now().Add(5 * time.Second))
				for !bytes.Contains(head, []byte("\r\n\r\n")) {
					n, err := c.Read(buf)
					if err != nil {
						break
					}
					head = append(head, buf[:n]...)
				}
				if !bytes.HasPrefix(head, []byte("HTTP/1.1 101")) {
					_ = c.Close()
					continue
				}
				if time.Since(start) >= httpKeepalive/2 {
					_ = c.Close()
					continue
				}
				atomic.AddInt64(&clients, 1)
				// silent for three HTTP keep-alive times: the server must not close
				_ = c.SetReadDeadline(time.Now().Add(3 * httpKeepalive))
				_, err = c.Read(buf)
				var ne net.Error
				if err != nil && !(errors.As(err, &ne) && ne.Timeout()) {
					if atomic.AddInt64(&closedByServer, 1) == 1 {
						first.Store(fmt.Sprintf("%v after the connect (%v)", time.Since(start).Round(time.Millisecond), err))
					}
				}
				_ = c.Close()
			}
		}()
	}
	wg.Wait()
	time.Sleep(2 * httpKeepalive)
	if n := atomic.LoadInt64(&closedByServer); n > 0 {
		t.Fatalf("%d WebSocket connection(s) were closed by the server although Upgrader.KeepaliveTime = 0, the first %v; server side: %d closes with %q (HTTP keep-alive %v; %d upgraded connections)",
			n, first.Load(), atomic.LoadInt64(&timedOut), nbio.ErrReadTimeout, httpKeepalive, atomic.LoadInt64(&clients))
	}
	t.Skipf("window not hit in %v (%d upgraded connections, %d server-side timeouts): inconclusive", budget, atomic.LoadInt64(&clients), atomic.LoadInt64(&timedOut))
}

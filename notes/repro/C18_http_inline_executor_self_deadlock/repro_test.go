// C18 / H1: with a custom inline ServerExecutor (func(f func()) { f() }) a close that arrives
// while a handler is running deadlocks the poller on itself. Parser.Parse holds Parser.mux while
// the executor runs the handler job inline (nbhttp/parser.go:149-152, processor.go:280); the
// close notification queues its job behind the running handler job (Conn.MustExecute), so the same
// goroutine runs it next - still inside Parse - and blocks in Parser.CloseAndClean -> p.mux.Lock()
// (parser.go:103-104). The poller goroutine never returns; Engine.Stop, which closed the
// connection, blocks forever in Engine.Wait(); Shutdown(ctx) polls forever.
//
//	cd /verif && GOFLAGS=-mod=mod GOPROXY=off go test ./notes/repro/C18_http_inline_executor_self_deadlock/
//
// The test FAILS (Stop does not return) while the defect is present. Plain /repo, public API.
package repro

import (
	"net"
	"net/http"
	"testing"
	"time"

	"github.com/lesismal/nbio/nbhttp"
)

func TestInlineExecutorCloseDuringHandlerDeadlocksPoller(t *testing.T) {
	entered := make(chan struct{})
	release := make(chan struct{})
	mux := http.NewServeMux()
	mux.HandleFunc("/", func(w http.ResponseWriter, r *http.Request) {
		close(entered)
		<-release
		_, _ = w.Write([]byte("ok"))
	})
	var addr string
	e := nbhttp.NewEngine(nbhttp.Config{
		Network:        "tcp",
		Addrs:          []string{"127.0.0.1:0"},
		NPoller:        1,
		Handler:        mux,
		ServerExecutor: func(f func()) { f() },
		Listen: func(network, a string) (net.Listener, error) {
			ln, err := net.Listen(network, a)
			if err == nil {
				addr = ln.Addr().String()
			}
			return ln, err
		},
	})
	if err := e.Start(); err != nil {
		t.Fatal(err)
	}
	client, err := net.Dial("tcp", addr)
	if err != nil {
		t.Fatal(err)
	}
	defer client.Close()
	if _, err := client.Write([]byte("GET / HTTP/1.1\r\nHost: a\r\n\r\n")); err != nil {
		t.Fatal(err)
	}
	select {
	case <-entered:
	case <-time.After(5 * time.Second):
		t.Fatal("the handler was not called")
	}
	done := make(chan struct{})
	go func() { e.Stop(); close(done) }()
	time.Sleep(300 * time.Millisecond) // Stop closes the connection while the handler is still running
	close(release)                     // the handler finishes
	select {
	case <-done:
	case <-time.After(3 * time.Second):
		t.Fatalf("Engine.Stop has not returned 3 s after the handler finished: the poller goroutine is blocked in " +
			"Parser.CloseAndClean on the Parser.mux it holds itself (inline executor), Stop waits for it in Engine.Wait()")
	}
}

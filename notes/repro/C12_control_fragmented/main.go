// Reproduction (plain /repo): WriteMessage splits a control message whose payload is longer than
// Engine.MaxWebsocketFramePayloadSize into several frames; RFC 6455 5.5 forbids fragmented
// control frames and nbio's own receiver fails the connection on them.
// Run: GOFLAGS=-mod=mod GOPROXY=off go run .   (exit status 1 = defect present)
package main

import (
	"fmt"
	"os"

	"github.com/lesismal/nbio/nbhttp"
	"github.com/lesismal/nbio/nbhttp/websocket"
)

func main() {
	inline := func(f func()) { f() }
	eng := nbhttp.NewEngine(nbhttp.Config{MaxWebsocketFramePayloadSize: 100, ServerExecutor: inline, ClientExecutor: inline})
	u := websocket.NewUpgrader()
	u.Engine = eng
	out := &fake{}
	sender := websocket.NewServerConn(u, out, "", false, false)
	payload := make([]byte, 120) // a legal control payload (<= 125 bytes)
	for i := range payload {
		payload[i] = 'a' + byte(i%26)
	}
	if err := sender.WriteMessage(websocket.PingMessage, payload); err != nil {
		fmt.Println("WriteMessage:", err)
		os.Exit(2)
	}
	if err := sender.WriteMessage(websocket.TextMessage, []byte("after the ping")); err != nil {
		fmt.Println("WriteMessage:", err)
		os.Exit(2)
	}
	for i, w := range out.writes {
		fmt.Printf("frame %d: byte0=%#02x (FIN=%v opcode=%#x) payload length=%d\n", i, w[0], w[0]&0x80 != 0, w[0]&0x0f, w[1]&0x7f)
	}

	// feed the wire to a client-role nbio receiver
	ru := websocket.NewUpgrader()
	ru.Engine = eng
	var msgs []string
	ru.OnMessage(func(c *websocket.Conn, mt websocket.MessageType, data []byte) { msgs = append(msgs, string(data)) })
	recv := websocket.NewClientConn(ru, &fake{}, "", false, false)
	recv.Execute = func(f func()) bool { f(); return true }
	var perr error
	for _, w := range out.writes {
		if perr = recv.Parse(w); perr != nil {
			break
		}
	}
	fmt.Printf("receiver: Parse error = %v, messages delivered = %q\n", perr, msgs)
	if out.writes[0][0]&0x80 == 0 {
		fmt.Println("DEFECT: the ping was written as a non-final (fragmented) control frame; the peer fails the connection and the text message is lost")
		os.Exit(1)
	}
	fmt.Println("ok")
}

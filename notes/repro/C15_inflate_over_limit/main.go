// Reproduction (plain /repo, default allocator): a compressed message that inflates beyond
// Upgrader.MessageLengthLimit is delivered to OnMessage, because Conn.readAll reads into
// (*pbuf)[len:cap] and only checks the limit when len == cap; buffers of the default MemPool have
// a capacity of at least 1024 bytes.
// Run: GOFLAGS=-mod=mod GOPROXY=off go run .   (exit status 1 = defect present)
package main

import (
	"bytes"
	"compress/flate"
	"fmt"
	"os"

	"github.com/lesismal/nbio/nbhttp/websocket"
)

func main() {
	const limit = 100
	u := websocket.NewUpgrader()
	u.EnableCompression(true)
	u.MessageLengthLimit = limit
	var got []int
	u.OnMessage(func(c *websocket.Conn, mt websocket.MessageType, data []byte) { got = append(got, len(data)) })
	f := &fake{}
	c := websocket.NewServerConn(u, f, "", true, false)
	c.Execute = func(fn func()) bool { fn(); return true }

	for _, size := range []int{400, 1000} {
		var z bytes.Buffer
		w, _ := flate.NewWriter(&z, 9)
		w.Write(make([]byte, size))
		w.Flush()
		p := z.Bytes()[:z.Len()-4] // RFC 7692: strip 00 00 ff ff
		key := []byte{9, 8, 7, 6}
		frame := append([]byte{0xC2, 0x80 | byte(len(p))}, key...)
		for i, b := range p {
			frame = append(frame, b^key[i%4])
		}
		err := c.Parse(frame)
		fmt.Printf("limit=%d, message inflating to %d bytes (%d compressed): Parse err=%v, delivered sizes so far=%v\n", limit, size, len(p), err, got)
		if err != nil {
			break
		}
	}
	for _, n := range got {
		if n > limit {
			fmt.Printf("DEFECT: a %d-byte message was delivered with MessageLengthLimit=%d\n", n, limit)
			os.Exit(1)
		}
	}
	fmt.Println("ok")
}

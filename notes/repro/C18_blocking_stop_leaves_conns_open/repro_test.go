// C18 / blocking modes, F1: nbhttp.Engine.Stop() does not close the connections that are served
// by a reader goroutine (IOModBlocking, and the blocking half of IOModMixed).
//
// nbhttp.Engine.Stop (nbhttp/engine.go) sets the shutdown flag, closes the listeners and calls the
// core engine's Stop. The core engine closes what is registered with its pollers; a blocking-mode
// connection is a plain *net.TCPConn / *net.UnixConn that only nbhttp's own table engine.conns
// knows, and only Shutdown (closeAllConns) walks that table. After Stop has returned
//   - the connection is still open (the peer sees no end of stream),
//   - its goroutine Engine.readConnBlocking is still parked in Read (until the keep-alive deadline,
//     120 s by default, or until the peer goes away),
//   - it even keeps answering requests, although the engine's executors have been stopped.
//
// Real sockets (a unix-domain listener in a temporary directory), public API only:
//
//	cd /verif && GOFLAGS=-mod=mod GOPROXY=off go test -count=1 ./notes/repro/C18_blocking_stop_leaves_conns_open/
//
// The test FAILS while the defect is present. The control (IOModNonBlocking, and Shutdown in
// blocking mode) passes.
package repro

import (
	"bufio"
	"context"
	"fmt"
	"io"
	"net"
	"net/http"
	"path/filepath"
	"runtime"
	"strings"
	"testing"
	"time"

	"github.com/lesismal/nbio/logging"
	"github.com/lesismal/nbio/nbhttp"
)

func roundTrip(t *testing.T, c net.Conn, br *bufio.Reader, tag string) error {
	_ = c.SetDeadline(time.Now().Add(5 * time.Second))
	if _, err := fmt.Fprintf(c, "GET /%s HTTP/1.1\r\nHost: h\r\n\r\n", tag); err != nil {
		return err
	}
	resp, err := http.ReadResponse(br, nil)
	if err != nil {
		return err
	}
	b, _ := io.ReadAll(resp.Body)
	if string(b) != tag {
		return fmt.Errorf("body %q", b)
	}
	return nil
}

func run(t *testing.T, ioMod int, useShutdown bool) (openAfter bool, servedAfter bool, reader bool) {
	logging.SetLevel(logging.LevelNone)
	sock := filepath.Join(t.TempDir(), "s.sock")
	e := nbhttp.NewEngine(nbhttp.Config{
		Network: "unix", Addrs: []string{sock}, NPoller: 1, IOMod: ioMod,
		Handler: http.HandlerFunc(func(w http.ResponseWriter, r *http.Request) { _, _ = w.Write([]byte(r.URL.Path[1:])) }),
	})
	if err := e.Start(); err != nil {
		t.Fatal(err)
	}
	c, err := net.Dial("unix", sock)
	if err != nil {
		t.Fatal(err)
	}
	defer c.Close()
	br := bufio.NewReader(c)
	if err := roundTrip(t, c, br, "before"); err != nil {
		t.Fatalf("request before Stop: %v", err)
	}
	if useShutdown {
		ctx, cancel := context.WithTimeout(context.Background(), 10*time.Second)
		defer cancel()
		if err := e.Shutdown(ctx); err != nil {
			t.Fatalf("Shutdown: %v", err)
		}
	} else {
		e.Stop()
	}
	// Stop has returned. Is the connection closed?
	_ = c.SetReadDeadline(time.Now().Add(2 * time.Second))
	_, err = br.Peek(1)
	if ne, ok := err.(net.Error); ok && ne.Timeout() {
		openAfter = true
		servedAfter = roundTrip(t, c, br, "after") == nil
	}
	buf := make([]byte, 1<<20)
	reader = strings.Contains(string(buf[:runtime.Stack(buf, true)]), "readConnBlocking")
	return
}

func TestStopClosesBlockingConnections(t *testing.T) {
	open, served, reader := run(t, nbhttp.IOModBlocking, false)
	if open {
		t.Errorf("IOModBlocking: Stop() returned, the connection is still open 2s later (request answered after Stop: %v; goroutine readConnBlocking still there: %v)", served, reader)
	}
}

func TestControlNonBlockingStop(t *testing.T) {
	if open, _, _ := run(t, nbhttp.IOModNonBlocking, false); open {
		t.Errorf("IOModNonBlocking: connection open after Stop")
	}
}

func TestControlBlockingShutdown(t *testing.T) {
	if open, _, _ := run(t, nbhttp.IOModBlocking, true); open {
		t.Errorf("IOModBlocking: connection open after Shutdown")
	}
}

// C18 / R3: DialAsyncTimeout's error path decrements the open-connection wait group twice.
// engine_unix.go:244-249 does wgConn.Add(1); addDialer(c); on error wgConn.Done(). But when
// addDialer fails in epoll_ctl it has already closed the connection (poller_epoll.go:124-128:
// closeWithError -> deleteConn -> onClose), and the close notification's deferred wgConn.Done()
// (engine.go:329-333) is the matching decrement. The second one drives the counter negative:
// "sync: negative WaitGroup counter" panics either out of DialAsync (caller's goroutine) or inside
// Timer.Async (recovered and logged); if other connections are open the counter is merely one too
// low and a later Stop() returns before the last connection was closed.
//
// The C18 check reaches it with a DialAsync that races with Stop (the poller has already closed its
// epoll descriptor when addDialer registers the socket). The simplest deterministic way to make
// epoll_ctl fail on the real code is the same situation without the race: dial on an engine whose
// pollers have exited. The call is expected to fail with an error - not to panic.
//
//	cd /verif && GOFLAGS=-mod=mod GOPROXY=off go test ./notes/repro/C18_dialasync_double_done/
//
// The test FAILS while the defect is present.
// Status: repaired in /repo by "fix: a dial that cannot be registered gives back one connection slot,
// not two" (f4ad265); the test passes since then.
package repro

import (
	"fmt"
	"net"
	"strings"
	"sync"
	"testing"
	"time"

	"github.com/lesismal/nbio"
	"github.com/lesismal/nbio/logging"
)

type capture struct {
	mu   sync.Mutex
	errs []string
}

func (c *capture) Debug(string, ...interface{}) {}
func (c *capture) Info(string, ...interface{})  {}
func (c *capture) Warn(string, ...interface{})  {}
func (c *capture) Error(f string, v ...interface{}) {
	c.mu.Lock()
	c.errs = append(c.errs, fmt.Sprintf(f, v...))
	c.mu.Unlock()
}

func TestDialAsyncRegistrationFailureDecrementsTwice(t *testing.T) {
	lg := &capture{}
	logging.SetLogger(lg)
	ln, err := net.Listen("tcp", "127.0.0.1:0")
	if err != nil {
		t.Fatal(err)
	}
	defer ln.Close()

	g := nbio.NewEngine(nbio.Config{NPoller: 1})
	if err := g.Start(); err != nil {
		t.Fatal(err)
	}
	g.Stop() // the poller exits and closes its epoll descriptor: the next epoll_ctl(ADD) fails

	panicked := interface{}(nil)
	var derr error
	func() {
		defer func() { panicked = recover() }()
		derr = g.DialAsync("tcp", ln.Addr().String(), func(c *nbio.Conn, err error) {})
	}()
	time.Sleep(300 * time.Millisecond) // let Timer.Async run the close notification
	if panicked != nil {
		t.Fatalf("DialAsync panicked instead of returning an error: %v", panicked)
	}
	lg.mu.Lock()
	defer lg.mu.Unlock()
	for _, e := range lg.errs {
		if strings.Contains(e, "negative WaitGroup counter") {
			t.Fatalf("DialAsync returned %v, and the close notification then panicked inside Timer.Async (recovered by nbio): %s", derr, strings.SplitN(e, "\n", 2)[0])
		}
	}
	if derr == nil {
		t.Fatalf("DialAsync on an engine without pollers returned nil")
	}
}

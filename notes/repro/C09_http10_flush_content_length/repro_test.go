// C09 / D3: HTTP/1.0 request, no Content-Length declared by the handler. Flush() encodes and sends
// the head with "Content-Length: <bytes buffered so far>"; whatever the handler writes after the
// Flush lies beyond that length: the client decodes a truncated body and finds garbage after the
// response. (A server that cannot chunk and does not know the length has to omit Content-Length
// and delimit the body by closing the connection, as net/http does.)
//
// Stand-alone reproduction against plain /repo (public API only, no verification framework):
//
//	cd /verif && GOFLAGS=-mod=mod GOPROXY=off go test ./notes/repro/C09_http10_flush_content_length/
//
// The test FAILS while the defect is present.
package repro

import (
	"bufio"
	"bytes"
	"io"
	"net"
	"net/http"
	"testing"
	"time"

	"github.com/lesismal/nbio/nbhttp"
)

func TestFlushMidBodyOnHTTP10(t *testing.T) {
	for _, req := range []string{req10, "GET / HTTP/1.0\r\nHost: x\r\nConnection: keep-alive\r\n\r\n"} {
		wire, _ := serve(t, req, func(w http.ResponseWriter, r *http.Request) {
			w.Write([]byte("hello "))
			w.(http.Flusher).Flush()
			w.Write([]byte("world"))
		})
		resp, body, berr, left, err := decode(wire)
		if err != nil {
			t.Fatalf("unparseable: %v", err)
		}
		if berr != nil || left != 0 || string(body) != "hello world" {
			t.Errorf("client decodes body %q (Content-Length %d), %d bytes left over after the response; handler wrote %q\nwire: %q", body, resp.ContentLength, left, "hello world", wire)
		}
	}
}

func TestFlushBeforeBodyOnHTTP10(t *testing.T) {
	wire, _ := serve(t, req10, func(w http.ResponseWriter, r *http.Request) {
		w.(http.Flusher).Flush()
		w.Write([]byte("hello"))
	})
	resp, body, berr, left, err := decode(wire)
	if err != nil {
		t.Fatalf("unparseable: %v", err)
	}
	if berr != nil || left != 0 || string(body) != "hello" {
		t.Errorf("client decodes body %q (Content-Length %d), %d bytes left over; handler wrote %q", body, resp.ContentLength, left, "hello")
	}
}

// ---- harness: a real server-side nbhttp.Parser + ServerProcessor on a recording fake net.Conn;
// the handler runs inline and ServerProcessor.flushResponse runs after it, as in production.

type fakeConn struct {
	wire   bytes.Buffer
	closed bool
}

type fakeAddr struct{}

func (fakeAddr) Network() string { return "tcp" }
func (fakeAddr) String() string  { return "192.0.2.1:1" }

func (c *fakeConn) Write(b []byte) (int, error)        { c.wire.Write(b); return len(b), nil }
func (c *fakeConn) Read(b []byte) (int, error)         { return 0, io.EOF }
func (c *fakeConn) Close() error                       { c.closed = true; return nil }
func (c *fakeConn) LocalAddr() net.Addr                { return fakeAddr{} }
func (c *fakeConn) RemoteAddr() net.Addr               { return fakeAddr{} }
func (c *fakeConn) SetDeadline(t time.Time) error      { return nil }
func (c *fakeConn) SetReadDeadline(t time.Time) error  { return nil }
func (c *fakeConn) SetWriteDeadline(t time.Time) error { return nil }

// serveOn pushes one request through the parser; returns the bytes written to conn and whether
// the handler panicked (Parser.Parse recovers handler panics).
func serveOn(t *testing.T, conn net.Conn, wire *bytes.Buffer, request string, h func(w http.ResponseWriter, r *http.Request)) (out []byte, panicked interface{}) {
	t.Helper()
	engine := nbhttp.NewEngine(nbhttp.Config{
		Handler: http.HandlerFunc(func(w http.ResponseWriter, r *http.Request) {
			defer func() {
				if e := recover(); e != nil {
					panicked = e
					panic(e)
				}
			}()
			h(w, r)
		}),
		ServerExecutor:    func(f func()) { f() },
		SupportServerOnly: true,
	})
	parser := nbhttp.NewParser(conn, engine, nbhttp.NewServerProcessor(), false, nil)
	if err := parser.Parse([]byte(request)); err != nil {
		t.Fatalf("Parse: %v", err)
	}
	return wire.Bytes(), panicked
}

func serve(t *testing.T, request string, h func(w http.ResponseWriter, r *http.Request)) ([]byte, interface{}) {
	c := &fakeConn{}
	return serveOn(t, c, &c.wire, request, h)
}

// decode parses the wire with net/http as the response to a GET.
func decode(wire []byte) (resp *http.Response, body []byte, bodyErr error, leftover int, err error) {
	rd := bytes.NewReader(wire)
	br := bufio.NewReader(rd)
	resp, err = http.ReadResponse(br, &http.Request{Method: "GET"})
	if err != nil {
		return
	}
	body, bodyErr = io.ReadAll(resp.Body)
	leftover = br.Buffered() + rd.Len()
	return
}

func pattern(n int) []byte {
	b := make([]byte, n)
	for i := range b {
		b[i] = 'a' + byte((i*7+i/26)%26)
	}
	return b
}

const req10 = "GET / HTTP/1.0\r\nHost: x\r\n\r\n"
const req11 = "GET / HTTP/1.1\r\nHost: x\r\n\r\n"

// Reproduction (plain /repo): a continuation frame that declares 2^63-1 payload bytes after a
// first fragment of >= 1 byte is not refused as "message too large". Conn.nextFrame computes
// `ml + int(bodyLen)` (bytes already assembled + declared length) in int: 1 + (2^63-1) wraps to
// -2^63, isMessageTooLarge says no, then `total = headLen + bodyLen` wraps as well,
// `l >= total` holds and `(*pdata)[headLen:total]` panics. Parse recovers the panic and returns
// "websocket: parse error: runtime error: slice bounds out of range [:-9223372036854775799]";
// errors.Is(err, ErrMessageTooLarge) is false, so no close frame (status 1009) is written.
// The same frame as a single frame or first fragment (nothing assembled yet) is answered with 1009.
// Run: GOFLAGS=-mod=mod GOPROXY=off go run .   (exit status 1 = defect present)
package main

import (
	"encoding/binary"
	"errors"
	"fmt"
	"os"

	"github.com/lesismal/nbio/logging"
	"github.com/lesismal/nbio/nbhttp/websocket"
)

func header(op byte, fin bool, declared uint64) []byte {
	b0 := op
	if fin {
		b0 |= 0x80
	}
	h := []byte{b0, 0x80 | 127, 0, 0, 0, 0, 0, 0, 0, 0}
	binary.BigEndian.PutUint64(h[2:], declared)
	return append(h, 1, 2, 3, 4) // masking key; no payload byte follows
}

func run(first []byte, declared uint64) (err error, written []byte) {
	u := websocket.NewUpgrader() // MessageLengthLimit = DefaultMessageLengthLimit (4 MiB)
	u.OnMessage(func(c *websocket.Conn, mt websocket.MessageType, data []byte) {})
	f := &fake{}
	c := websocket.NewServerConn(u, f, "", true, false)
	c.Execute = func(fn func()) bool { fn(); return true }
	op := byte(2)
	if first != nil {
		if err := c.Parse(first); err != nil {
			panic(err)
		}
		op = 0
	}
	err = c.Parse(header(op, true, declared))
	for _, w := range f.writes {
		written = append(written, w...)
	}
	return err, written
}

func main() {
	logging.SetLevel(logging.LevelNone)
	bad := false
	firstFragment := []byte{0x02, 0x81, 1, 2, 3, 4, 'x' ^ 1} // binary, FIN=0, masked, 1 byte
	for _, tc := range []struct {
		name     string
		first    []byte
		declared uint64
	}{
		{"single frame declaring 2^63-1", nil, 1<<63 - 1},
		{"continuation declaring 2^62 after a 1-byte fragment", firstFragment, 1 << 62},
		{"continuation declaring 2^63-2 after a 1-byte fragment", firstFragment, 1<<63 - 2},
		{"continuation declaring 2^63-1 after a 1-byte fragment", firstFragment, 1<<63 - 1},
	} {
		err, w := run(tc.first, tc.declared)
		ok := errors.Is(err, websocket.ErrMessageTooLarge) && len(w) >= 4 && w[0] == 0x88 && binary.BigEndian.Uint16(w[2:4]) == 1009
		fmt.Printf("%-58s Parse err=%v; written back: % x\n", tc.name+":", err, w)
		if !ok {
			fmt.Println("  DEFECT: not refused with ErrMessageTooLarge + close frame 1009")
			bad = true
		}
	}
	if bad {
		os.Exit(1)
	}
	fmt.Println("ok")
}

// C09 / D7: Response.ReadFrom assumes the encoded head is still pending in res.buffer and that no
// body is pending: after a Write with Content-Length (head buffer moved or flushed) or after a first
// ReadFrom, '*res.buffer' is a nil dereference (nbhttp/response.go:304) — e.g. http.ServeContent
// serving multipart ranges calls io.CopyN twice; after a Flush or a chunked Write the data is copied
// raw into the chunked stream; on HTTP/1.0 body bytes buffered by an earlier Write are sent after the
// ReadFrom data.
//
// Stand-alone reproduction against plain /repo (public API only, no verification framework):
//
//	cd /verif && GOFLAGS=-mod=mod GOPROXY=off go test ./notes/repro/C09_readfrom_after_head_consumed/
//
// The test FAILS while the defect is present.
package repro

import (
	"bufio"
	"bytes"
	"io"
	"net"
	"net/http"
	"strings"
	"testing"
	"time"

	"github.com/lesismal/nbio/nbhttp"
)

type plainReader struct{ r io.Reader }

func (p plainReader) Read(b []byte) (int, error) { return p.r.Read(b) }

func TestSecondReadFromPanics(t *testing.T) {
	wire, panicked := serve(t, req11, func(w http.ResponseWriter, r *http.Request) {
		w.Header().Set("Content-Length", "11")
		w.WriteHeader(200)
		io.Copy(w, plainReader{strings.NewReader("hello ")})
		io.Copy(w, plainReader{strings.NewReader("world")})
	})
	if panicked != nil {
		t.Errorf("handler panicked in the second ReadFrom: %v; wire so far %q", panicked, wire)
	}
}

func TestReadFromAfterWritePanics(t *testing.T) {
	_, panicked := serve(t, req11, func(w http.ResponseWriter, r *http.Request) {
		w.Header().Set("Content-Length", "11")
		w.Write([]byte("hello "))
		io.Copy(w, plainReader{strings.NewReader("world")})
	})
	if panicked != nil {
		t.Errorf("handler panicked in ReadFrom after Write: %v", panicked)
	}
}

func TestReadFromAfterChunkedWrite(t *testing.T) {
	wire, panicked := serve(t, req11, func(w http.ResponseWriter, r *http.Request) {
		w.Write([]byte("hello "))
		w.(http.Flusher).Flush()
		io.Copy(w, plainReader{strings.NewReader("world")})
	})
	_, body, berr, left, err := decode(wire)
	if panicked != nil || err != nil || berr != nil || left != 0 || string(body) != "hello world" {
		t.Errorf("panic=%v err=%v bodyErr=%v: client decodes %q, %d bytes left over\nwire: %q", panicked, err, berr, body, left, wire)
	}
}

func TestReadFromAfterBufferedWriteOnHTTP10(t *testing.T) {
	wire, panicked := serve(t, req10, func(w http.ResponseWriter, r *http.Request) {
		w.Write([]byte("hello "))
		io.Copy(w, plainReader{strings.NewReader("world")})
	})
	_, body, berr, left, err := decode(wire)
	if panicked != nil || err != nil || berr != nil || left != 0 || string(body) != "hello world" {
		t.Errorf("panic=%v err=%v bodyErr=%v: client decodes %q, %d bytes left over\nwire: %q", panicked, err, berr, body, left, wire)
	}
}

// ---- harness: a real server-side nbhttp.Parser + ServerProcessor on a recording fake net.Conn;
// the handler runs inline and ServerProcessor.flushResponse runs after it, as in production.

type fakeConn struct {
	wire   bytes.Buffer
	closed bool
}

type fakeAddr struct{}

func (fakeAddr) Network() string { return "tcp" }
func (fakeAddr) String() string  { return "192.0.2.1:1" }

func (c *fakeConn) Write(b []byte) (int, error)        { c.wire.Write(b); return len(b), nil }
func (c *fakeConn) Read(b []byte) (int, error)         { return 0, io.EOF }
func (c *fakeConn) Close() error                       { c.closed = true; return nil }
func (c *fakeConn) LocalAddr() net.Addr                { return fakeAddr{} }
func (c *fakeConn) RemoteAddr() net.Addr               { return fakeAddr{} }
func (c *fakeConn) SetDeadline(t time.Time) error      { return nil }
func (c *fakeConn) SetReadDeadline(t time.Time) error  { return nil }
func (c *fakeConn) SetWriteDeadline(t time.Time) error { return nil }

// serveOn pushes one request through the parser; returns the bytes written to conn and whether
// the handler panicked (Parser.Parse recovers handler panics).
func serveOn(t *testing.T, conn net.Conn, wire *bytes.Buffer, request string, h func(w http.ResponseWriter, r *http.Request)) (out []byte, panicked interface{}) {
	t.Helper()
	engine := nbhttp.NewEngine(nbhttp.Config{
		Handler: http.HandlerFunc(func(w http.ResponseWriter, r *http.Request) {
			defer func() {
				if e := recover(); e != nil {
					panicked = e
					panic(e)
				}
			}()
			h(w, r)
		}),
		ServerExecutor:    func(f func()) { f() },
		SupportServerOnly: true,
	})
	parser := nbhttp.NewParser(conn, engine, nbhttp.NewServerProcessor(), false, nil)
	if err := parser.Parse([]byte(request)); err != nil {
		t.Fatalf("Parse: %v", err)
	}
	return wire.Bytes(), panicked
}

func serve(t *testing.T, request string, h func(w http.ResponseWriter, r *http.Request)) ([]byte, interface{}) {
	c := &fakeConn{}
	return serveOn(t, c, &c.wire, request, h)
}

// decode parses the wire with net/http as the response to a GET.
func decode(wire []byte) (resp *http.Response, body []byte, bodyErr error, leftover int, err error) {
	rd := bytes.NewReader(wire)
	br := bufio.NewReader(rd)
	resp, err = http.ReadResponse(br, &http.Request{Method: "GET"})
	if err != nil {
		return
	}
	body, bodyErr = io.ReadAll(resp.Body)
	leftover = br.Buffered() + rd.Len()
	return
}

func pattern(n int) []byte {
	b := make([]byte, n)
	for i := range b {
		b[i] = 'a' + byte((i*7+i/26)%26)
	}
	return b
}

const req10 = "GET / HTTP/1.0\r\nHost: x\r\n\r\n"
const req11 = "GET / HTTP/1.1\r\nHost: x\r\n\r\n"

// Reproduction (plain /repo, no framework): in the asynchronous send-queue mode
// (BlockingModAsyncWrite) a WriteMessage that needs several frames checks the queue limit
// (BlockingModSendQueueMaxSize) per frame. When the limit is hit at the 2nd or 3rd fragment,
// WriteMessage returns ErrMessageSendQuqueIsFull, but the fragments queued before stay in the
// queue and are sent: the peer receives an unfinished fragmented message, and the next data
// message on the connection (which nbio accepts) is a protocol error for the peer
// (RFC 6455 5.4: fragments of one message must not be interleaved with another message).
//
// The conn is a net.Pipe: its Write blocks until the other side reads, so the drainer goroutine
// sits in its first Write while the two WriteMessage calls run - fully deterministic.
//
// Run: GOFLAGS=-mod=mod GOPROXY=off go run .   (exit status 1 = defect present)
package main

import (
	"fmt"
	"io"
	"net"
	"os"
	"time"

	"github.com/lesismal/nbio/nbhttp"
	"github.com/lesismal/nbio/nbhttp/websocket"
)

func main() {
	eng := nbhttp.NewEngine(nbhttp.Config{MaxWebsocketFramePayloadSize: 2})
	u := websocket.NewUpgrader()
	u.Engine = eng
	u.BlockingModSendQueueMaxSize = 4
	server, peer := net.Pipe()
	c := websocket.NewServerConn(u, server, "", false, true) // asyncWrite: send queue + drainer

	err1 := c.WriteMessage(websocket.BinaryMessage, []byte("AAAAA")) // 3 frames: queue length 3
	err2 := c.WriteMessage(websocket.BinaryMessage, []byte("BBBBB")) // frame 1 fits (4), frame 2 does not
	fmt.Printf("WriteMessage(AAAAA) = %v\nWriteMessage(BBBBB) = %v\n", err1, err2)

	// what the peer receives
	var wire []byte
	buf := make([]byte, 64)
	for {
		_ = peer.SetReadDeadline(time.Now().Add(300 * time.Millisecond))
		n, err := peer.Read(buf)
		wire = append(wire, buf[:n]...)
		if err != nil {
			if err != io.EOF && !os.IsTimeout(err) {
				fmt.Println("read:", err)
			}
			break
		}
	}
	open := false
	partialB := false
	for p := 0; p+2 <= len(wire); {
		fin, op, n := wire[p]&0x80 != 0, wire[p]&0x0F, int(wire[p+1]&0x7F)
		body := wire[p+2 : p+2+n]
		fmt.Printf("frame: fin=%v opcode=%d payload=%q\n", fin, op, body)
		if op != 0 {
			open = true
		}
		if fin {
			open = false
		}
		if len(body) > 0 && body[0] == 'B' {
			partialB = true
		}
		p += 2 + n
	}
	if err2 != nil && partialB {
		fmt.Printf("DEFECT: WriteMessage(BBBBB) returned %q, yet a fragment of it went out; the stream ends inside a fragmented message: %v\n", err2, open)
		os.Exit(1)
	}
	fmt.Println("ok")
}

// Reproduction (plain /repo, no framework): an EMPTY WebSocket data message is never delivered
// to OnMessage. Run: GOFLAGS=-mod=mod GOPROXY=off go run .   (exit status 1 = defect present)
package main

import (
	"fmt"
	"os"

	"github.com/lesismal/nbio/nbhttp/websocket"
)

func main() {
	u := websocket.NewUpgrader()
	var got []string
	u.OnMessage(func(c *websocket.Conn, mt websocket.MessageType, data []byte) {
		got = append(got, fmt.Sprintf("type=%d len=%d %q", mt, len(data), data))
	})
	c := websocket.NewServerConn(u, &fake{}, "", false, false)
	c.Execute = func(f func()) bool { f(); return true }

	key := []byte{0x11, 0x22, 0x33, 0x44}
	empty := append([]byte{0x81, 0x80}, key...)                          // FIN text, masked, length 0
	hi := append(append([]byte{0x82, 0x82}, key...), 'h'^0x11, 'i'^0x22) // FIN binary "hi"
	frag := append(append([]byte{0x01, 0x80}, key...), append([]byte{0x80, 0x80}, key...)...)
	for _, in := range [][]byte{empty, hi, frag} {
		if err := c.Parse(in); err != nil {
			fmt.Println("Parse error:", err)
			os.Exit(2)
		}
	}
	fmt.Println("sent: empty text message, binary \"hi\", empty text message in two empty fragments")
	fmt.Println("OnMessage calls:", got)
	if len(got) != 3 {
		fmt.Printf("DEFECT: %d of 3 messages delivered; the empty ones never reach OnMessage\n", len(got))
		os.Exit(1)
	}
	fmt.Println("ok")
}

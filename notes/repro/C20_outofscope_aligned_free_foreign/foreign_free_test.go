// NOT a C20 finding (C20 quantifies over handles obtained from the allocator); recorded because it
// was noticed while classifying: AlignedAllocator.Free accepts buffers it did not allocate and
// files them by capacity without checking that the capacity IS a bucket size. A zero-capacity
// buffer (0&31 == 0) lands in the 32-byte bucket, a 96-byte one in the 128-byte bucket; the next
// Malloc that draws it panics with "slice bounds out of range".
//
// Run against plain /repo:
//   mkdir -p /tmp/c20oos && cp foreign_free_test.go /tmp/c20oos/ && cd /tmp/c20oos &&
//   printf 'module oos\ngo 1.16\nrequire github.com/lesismal/nbio v0.0.0\nreplace github.com/lesismal/nbio => /repo\n' > go.mod &&
//   GOFLAGS=-mod=mod GOPROXY=off go test -v .
package oos

import (
	"testing"

	"github.com/lesismal/nbio/mempool"
)

func drawAll(t *testing.T, a mempool.Allocator, size int) {
	defer func() {
		if e := recover(); e != nil {
			t.Logf("Malloc(%d) after Free(foreign) panicked: %v", size, e)
		}
	}()
	for i := 0; i < 1000; i++ { // sync.Pool may or may not return the poisoned object at once
		_ = a.Malloc(size)
	}
	t.Logf("Malloc(%d): no panic in 1000 draws (the pool dropped the object)", size)
}

func TestFreeZeroCap(t *testing.T) {
	a := mempool.NewAligned()
	var b []byte
	a.Free(&b)
	drawAll(t, a, 1)
}

func TestFreeCap96(t *testing.T) {
	a := mempool.NewAligned()
	b := make([]byte, 96)
	a.Free(&b)
	drawAll(t, a, 100)
}

// Reproduction (plain /repo): with permessage-deflate enabled, a data message whose compressed
// payload is empty (0xC1 0x00: FIN, RSV1, text, length 0 - RFC 7692 7.2.2 inflates it to the empty
// message) makes Conn.Parse dereference a nil buffer; the panic is recovered, logged with a stack
// trace and the connection is failed.
// Run: GOFLAGS=-mod=mod GOPROXY=off go run .   (exit status 1 = defect present)
package main

import (
	"fmt"
	"os"
	"strings"

	"github.com/lesismal/nbio/logging"
	"github.com/lesismal/nbio/nbhttp/websocket"
)

func main() {
	logging.SetLevel(logging.LevelNone)
	u := websocket.NewUpgrader()
	u.EnableCompression(true)
	n := 0
	u.OnMessage(func(c *websocket.Conn, mt websocket.MessageType, data []byte) { n++ })
	c := websocket.NewServerConn(u, &fake{}, "", true, false)
	c.Execute = func(f func()) bool { f(); return true }
	err := c.Parse([]byte{0xC1, 0x80, 1, 2, 3, 4})
	fmt.Printf("Parse(0xC1 0x80 key) = %v; OnMessage calls = %d\n", err, n)
	if err != nil && strings.Contains(err.Error(), "nil pointer") {
		fmt.Println("DEFECT: nil pointer dereference inside Conn.Parse (recovered)")
		os.Exit(1)
	}
	fmt.Println("ok")
}

// C08 findings of part (e) of checks/c08 (value space of the framing header fields):
// stand-alone reproduction on plain /repo of the malformed Content-Length forms that nbhttp
// accepts and frames by guessing, instead of returning an error (RFC 7230 3.3.3 rule 4: a
// message without Transfer-Encoding "with either multiple Content-Length header fields having
// differing field-values or a single Content-Length header field having an invalid value" has
// invalid framing and MUST be treated as an unrecoverable error; Go's net/http refuses every one
// of these inputs):
//
//  1. only the FIRST Content-Length line is looked at (parseContentLength uses header.Get): a
//     second line with a different or an invalid value is ignored
//     (signatures malformed-framing-accepted content-length-repeated-differing,
//     ... content-length-repeated later-line-invalid);
//  2. an EMPTY Content-Length value is taken for "no Content-Length" (header.Get returns "" for
//     both): the message is delivered without a body and the body bytes are parsed as the next
//     message (signatures ... content-length-invalid value=empty,
//     ... content-length-repeated first-line=empty);
//  3. strconv.ParseInt accepts a sign: "+3" is read as 3, "-0" as 0
//     (signatures ... content-length-invalid value=sign-plus / value=sign-minus,
//     ... content-length-repeated first-line=sign-plus).
//
// Run: cd /verif && go test ./notes/repro/C08_content_length_values/
// Every sub-test FAILS while its defect is present.
package repro

import (
	"io"
	"net"
	"net/http"
	"testing"
	"time"

	"github.com/lesismal/nbio/nbhttp"
)

type addr struct{}

func (addr) Network() string { return "tcp" }
func (addr) String() string  { return "192.0.2.1:1" }

type conn struct{}

func (conn) Read([]byte) (int, error)         { return 0, io.EOF }
func (conn) Write(b []byte) (int, error)      { return len(b), nil }
func (conn) Close() error                     { return nil }
func (conn) LocalAddr() net.Addr              { return addr{} }
func (conn) RemoteAddr() net.Addr             { return addr{} }
func (conn) SetDeadline(time.Time) error      { return nil }
func (conn) SetReadDeadline(time.Time) error  { return nil }
func (conn) SetWriteDeadline(time.Time) error { return nil }

// parse feeds stream to a fresh parser wired to the real Server/ClientProcessor and returns the
// bodies of the delivered messages.
func parse(stream string, client bool) (bodies []string, err error) {
	inline := func(f func()) { f() }
	engine := nbhttp.NewEngine(nbhttp.Config{ServerExecutor: inline, ClientExecutor: inline,
		Handler: http.HandlerFunc(func(w http.ResponseWriter, r *http.Request) {
			b, _ := io.ReadAll(r.Body)
			bodies = append(bodies, string(b))
		})})
	var proc nbhttp.Processor = nbhttp.NewServerProcessor()
	if client {
		proc = nbhttp.NewClientProcessor(&nbhttp.ClientConn{Engine: engine}, func(res *http.Response, err error) {
			if res == nil {
				return
			}
			var b []byte
			if res.Body != nil {
				b, _ = io.ReadAll(res.Body)
			}
			bodies = append(bodies, string(b))
		})
	}
	p := nbhttp.NewParser(conn{}, engine, proc, client, nil)
	err = p.Parse([]byte(stream))
	return bodies, err
}

func expectRejected(t *testing.T, stream string, client bool) {
	t.Helper()
	bodies, err := parse(stream, client)
	if len(bodies) > 0 {
		t.Errorf("the message with the malformed Content-Length was delivered (err=%v), body %q\n%q", err, bodies[0], stream)
	} else if err == nil {
		t.Errorf("no error and nothing delivered\n%q", stream)
	}
}

const req = "POST / HTTP/1.1\r\nHost: h\r\n"
const res = "HTTP/1.1 200 OK\r\n"

// --- 1. only the first Content-Length line counts -------------------------------------------------

func TestTwoDifferentContentLengths(t *testing.T) {
	expectRejected(t, req+"Content-Length: 3\r\nContent-Length: 4\r\n\r\nabcd", false)
	expectRejected(t, res+"Content-Length: 3\r\nContent-Length: 4\r\n\r\nabcd", true)
}

func TestSecondContentLengthInvalid(t *testing.T) {
	expectRejected(t, req+"Content-Length: 3\r\nContent-Length: x\r\n\r\nabc", false)
	expectRejected(t, req+"Content-Length: 3\r\nContent-Length: -1\r\n\r\nabc", false)
	expectRejected(t, req+"Content-Length: 3\r\nX-A: v\r\nContent-Length:\r\n\r\nabc", false)
}

// --- 2. an empty value is taken for "absent" -------------------------------------------------------

func TestEmptyContentLength(t *testing.T) {
	// delivered today with an empty body; "abc" is then parsed as the next request
	expectRejected(t, req+"Content-Length:\r\n\r\nabc", false)
	expectRejected(t, res+"Content-Length:\r\n\r\nabc", true)
}

func TestEmptyThenValidContentLength(t *testing.T) {
	// delivered today with an empty body although the second line announces 3 bytes
	expectRejected(t, req+"Content-Length:\r\nContent-Length: 3\r\n\r\nabc", false)
}

// --- 3. signs ---------------------------------------------------------------------------------------

func TestContentLengthPlusSign(t *testing.T) {
	expectRejected(t, req+"Content-Length: +3\r\n\r\nabc", false)
	expectRejected(t, res+"Content-Length: +3\r\n\r\nabc", true)
}

func TestContentLengthMinusZero(t *testing.T) {
	expectRejected(t, req+"Content-Length: -0\r\n\r\n", false)
}

func TestPlusSignThenDifferentContentLength(t *testing.T) {
	expectRejected(t, req+"Content-Length: +3\r\nContent-Length: 4\r\n\r\nabcd", false)
}

// C16: a connection that nbio closes itself through one of its error paths keeps its deadline
// timers armed.
//
// Conn.closeWithError (user Close, peer EOF seen by the poller, a deadline firing) stops and drops
// rTimer / wTimer before it tears the connection down. The other way into the teardown does not:
// Write, Writev, Sendfile and flush set "c.closed = true" themselves and call
// closeWithErrorWithoutLock directly when the write fails (EPIPE / ECONNRESET after a peer reset)
// or when the write would exceed MaxWriteBufferSize (ErrOverflow) - conn_unix.go Write/Writev
// "c.closed = true; c.mux.Unlock(); _ = c.closeWithErrorWithoutLock(err)", flush, sendfile_unix.go.
// After such a close the read / write deadline (SetReadDeadline, SetWriteDeadline, SetDeadline,
// and the nbhttp keep-alive deadline, 120 s by default) is still scheduled in the runtime: the
// closed *Conn, its session (HTTP parser, WebSocket connection) and everything they reference stay
// reachable until the deadline passes, and then the callback runs closeWithError on the dead
// connection (a no-op, because closed is already true - nothing else gets closed).
//
// The test closes one connection with Close() and one through ErrOverflow, each with a one hour
// read and write deadline, and then looks at the private timer fields: after Close() both are nil;
// after the overflow close both are still set and (*time.Timer).Stop() returns true, i.e. the
// timers were still pending.
//
//	cd /verif && GOFLAGS=-mod=mod GOPROXY=off go test -count=1 -v ./notes/repro/C16_error_close_leaves_deadline_timer_armed/
//
// Plain /repo (no overlay, no verif build tag), real sockets, real time.
//
// Status: fails on the tree before /repo commit fff2607 ("fix: a connection closed by its own I/O
// error stops its deadline timers"), passes from that commit on (the test then logs that both
// timers are nil after the overflow close).
package repro

import (
	"errors"
	"net"
	"reflect"
	"testing"
	"time"
	"unsafe"

	"github.com/lesismal/nbio"
	"github.com/lesismal/nbio/logging"
)

func timerField(c *nbio.Conn, name string) *time.Timer {
	f := reflect.ValueOf(c).Elem().FieldByName(name)
	return *(**time.Timer)(unsafe.Pointer(f.UnsafeAddr()))
}

func TestErrorCloseLeavesDeadlineTimersArmed(t *testing.T) {
	logging.SetLevel(logging.LevelNone)
	ln, err := net.Listen("tcp", "127.0.0.1:0")
	if err != nil {
		t.Fatal(err)
	}
	defer ln.Close()
	go func() {
		for {
			c, err := ln.Accept()
			if err != nil {
				return
			}
			defer c.Close() // keep the peers open until the test ends
		}
	}()

	g := nbio.NewEngine(nbio.Config{NPoller: 1, MaxWriteBufferSize: 1024})
	type closed struct {
		c   *nbio.Conn
		err error
	}
	closes := make(chan closed, 4)
	g.OnClose(func(c *nbio.Conn, err error) { closes <- closed{c, err} })
	if err := g.Start(); err != nil {
		t.Fatal(err)
	}
	defer g.Stop()

	open := func() *nbio.Conn {
		nc, err := net.Dial("tcp", ln.Addr().String())
		if err != nil {
			t.Fatal(err)
		}
		c, err := g.AddConn(nc)
		if err != nil {
			t.Fatal(err)
		}
		_ = c.SetDeadline(time.Now().Add(time.Hour))
		if timerField(c, "rTimer") == nil || timerField(c, "wTimer") == nil {
			t.Fatal("SetDeadline did not arm both timers")
		}
		return c
	}
	wait := func(c *nbio.Conn) error {
		select {
		case x := <-closes:
			if x.c != c {
				t.Fatal("close notification for another connection")
			}
			return x.err
		case <-time.After(5 * time.Second):
			t.Fatal("no close notification")
		}
		return nil
	}

	// 1. user Close: both timers are stopped and dropped
	a := open()
	_ = a.Close()
	if err := wait(a); err != nil {
		t.Fatalf("Close reported %v", err)
	}
	if r, w := timerField(a, "rTimer"), timerField(a, "wTimer"); r != nil || w != nil {
		t.Fatalf("after Close(): rTimer=%v wTimer=%v, expected both nil", r, w)
	}
	t.Log("after Close(): rTimer and wTimer are nil (deadlines cancelled)")

	// 2. nbio closes the connection itself: a Write beyond MaxWriteBufferSize
	b := open()
	if _, err := b.Write(make([]byte, 4096)); !errors.Is(err, nbio.ErrOverflow) {
		t.Fatalf("Write returned %v, expected ErrOverflow", err)
	}
	if err := wait(b); !errors.Is(err, nbio.ErrOverflow) {
		t.Fatalf("close notification reported %v, expected ErrOverflow", err)
	}
	if cl, _ := b.IsClosed(); !cl {
		t.Fatal("connection not closed")
	}
	time.Sleep(100 * time.Millisecond)
	r, w := timerField(b, "rTimer"), timerField(b, "wTimer")
	if r == nil && w == nil {
		t.Log("after the overflow close both timers are nil: the defect is fixed")
		return
	}
	armedR := r != nil && r.Stop()
	armedW := w != nil && w.Stop()
	t.Errorf("after the connection closed itself with ErrOverflow (close notification delivered): rTimer set=%v still pending=%v, wTimer set=%v still pending=%v; the one hour deadline callbacks would have kept the closed connection reachable for an hour", r != nil, armedR, w != nil, armedW)
}

// C08 findings of the systematic framing CR/LF neighbourhood (part d2 of checks/c08):
// stand-alone reproduction on plain /repo of three places where nbhttp accepts a message whose
// line-ending CR or LF is missing / replaced, and delivers a guessed message instead of
// returning an error:
//
//  1. request line: "HTTP/1.1" SP LF  - stateProto ends the version token at the first SP and
//     then skips everything up to the next CR, so the bare LF and the whole next header line
//     are swallowed (signature malformed-framing-accepted CR-replaced-by-SP line=request-line);
//  2. trailer field with an empty value: stateBodyTrailerHeaderValueBefore has no LF case, the
//     bare LF becomes the value (signatures ... missing-CR / CR-replaced-by-SP
//     line=trailer-line-empty-value);
//  3. status line with an empty reason-phrase: stateStatusBefore skips every byte that is not a
//     letter, CR and LF included (signatures ... line=status-line-empty-reason).
//
// Run: cd /verif && go test ./notes/repro/C08_cr_lf_guessed/
// Every sub-test FAILS while its defect is present.
package repro

import (
	"io"
	"net"
	"net/http"
	"testing"
	"time"

	"github.com/lesismal/nbio/nbhttp"
)

type addr struct{}

func (addr) Network() string { return "tcp" }
func (addr) String() string  { return "192.0.2.1:1" }

type conn struct{}

func (conn) Read([]byte) (int, error)         { return 0, io.EOF }
func (conn) Write(b []byte) (int, error)      { return len(b), nil }
func (conn) Close() error                     { return nil }
func (conn) LocalAddr() net.Addr              { return addr{} }
func (conn) RemoteAddr() net.Addr             { return addr{} }
func (conn) SetDeadline(time.Time) error      { return nil }
func (conn) SetReadDeadline(time.Time) error  { return nil }
func (conn) SetWriteDeadline(time.Time) error { return nil }

type seen struct {
	body    string
	trailer http.Header
	status  string
	header  http.Header
}

// parse feeds stream to a fresh parser wired to the real Server/ClientProcessor.
func parse(stream string, client bool) (out []seen, err error) {
	inline := func(f func()) { f() }
	engine := nbhttp.NewEngine(nbhttp.Config{ServerExecutor: inline, ClientExecutor: inline,
		Handler: http.HandlerFunc(func(w http.ResponseWriter, r *http.Request) {
			b, _ := io.ReadAll(r.Body)
			out = append(out, seen{body: string(b), trailer: r.Trailer.Clone(), header: r.Header.Clone()})
		})})
	var proc nbhttp.Processor = nbhttp.NewServerProcessor()
	if client {
		proc = nbhttp.NewClientProcessor(&nbhttp.ClientConn{Engine: engine}, func(res *http.Response, err error) {
			if res == nil {
				return
			}
			var b []byte
			if res.Body != nil {
				b, _ = io.ReadAll(res.Body)
			}
			out = append(out, seen{body: string(b), trailer: res.Trailer.Clone(), status: res.Status, header: res.Header.Clone()})
		})
	}
	p := nbhttp.NewParser(conn{}, engine, proc, client, nil)
	err = p.Parse([]byte(stream))
	return out, err
}

func expectRejected(t *testing.T, stream string, client bool) {
	t.Helper()
	out, err := parse(stream, client)
	if len(out) > 0 {
		t.Errorf("the malformed message was delivered (err=%v): %+v", err, out[0])
	} else if err == nil {
		t.Errorf("no error and nothing delivered")
	}
}

// --- 1. request line ----------------------------------------------------------------------------

func TestRequestLineCRReplacedBySP(t *testing.T) {
	// valid form: "GET / HTTP/1.1\r\nHost: h\r\nX-A: v\r\n\r\n"
	// delivered today: a request with Host == "" and without the Host header line
	expectRejected(t, "GET / HTTP/1.1 \nHost: h\r\nX-A: v\r\n\r\n", false)
}

func TestRequestLineCRReplacedBySPSwallowsFramingHeader(t *testing.T) {
	// valid form: "POST / HTTP/1.1\r\nContent-Length: 3\r\nHost: h\r\n\r\nabc": here the swallowed
	// line is the framing header itself, "abc" is then taken for the next request
	out, err := parse("POST / HTTP/1.1 \nContent-Length: 3\r\nHost: h\r\n\r\nabc", false)
	if len(out) > 0 {
		t.Errorf("the malformed message was delivered (err=%v): body %q header %v", err, out[0].body, out[0].header)
	}
}

// --- 2. trailer line with an empty value ---------------------------------------------------------

const chunkedHead = "POST / HTTP/1.1\r\nHost: h\r\nTransfer-Encoding: chunked\r\nTrailer: A\r\n\r\n3\r\nddd\r\n0\r\n"

func TestEmptyTrailerValueBareLF(t *testing.T) {
	// valid form: chunkedHead + "A:\r\n\r\n"; with the CR removed the LF is delivered as the
	// trailer value "\n" and the following CRLF ends the field line
	expectRejected(t, chunkedHead+"A:\n\r\n\r\n", false)
}

func TestEmptyTrailerValueCRReplacedBySP(t *testing.T) {
	expectRejected(t, chunkedHead+"A: \n\r\n\r\n", false)
}

func TestEmptyTrailerValueBareLFResponse(t *testing.T) {
	expectRejected(t, "HTTP/1.1 200 OK\r\nTransfer-Encoding: chunked\r\nTrailer: A\r\n\r\n3\r\nddd\r\n0\r\nA:\n\r\n\r\n", true)
}

// --- 3. status line with an empty reason-phrase --------------------------------------------------

func TestEmptyReasonStatusLineMissingCR(t *testing.T) {
	// valid form: "HTTP/1.1 200 \r\nX-A: v\r\nContent-Length: 0\r\n\r\n"
	expectRejected(t, "HTTP/1.1 200 \nX-A: v\r\nContent-Length: 0\r\n\r\n", true)
}

func TestEmptyReasonStatusLineMissingLF(t *testing.T) {
	expectRejected(t, "HTTP/1.1 200 \rX-A: v\r\nContent-Length: 0\r\n\r\n", true)
}

func TestEmptyReasonStatusLineCRLFSwapped(t *testing.T) {
	expectRejected(t, "HTTP/1.1 200 \n\rX-A: v\r\nContent-Length: 0\r\n\r\n", true)
}

func TestEmptyReasonStatusLineLFReplaced(t *testing.T) {
	expectRejected(t, "HTTP/1.1 200 \r0X-A: v\r\nContent-Length: 0\r\n\r\n", true)
}

// C18 / R1b: a close that hits a connection while it is being registered is lost, and the HTTP
// engine's Shutdown/Stop then never returns.
//
// nbhttp.AddConnNonTLSNonBlocking publishes the connection in engine.conns, calls the user's
// OnOpen and only then registers it with the core engine (nbhttp/engine.go:711-722).
// Shutdown's closeAllConns (engine.go:308-321) closes everything in engine.conns concurrently. For
// a connection that has no poller yet (c.p == nil) Conn.closeWithError marks it closed and closes
// the descriptor but delivers no close notification (conn_unix.go:1089-1091). The accept goroutine
// then goes on registering the closed connection: poller.addConn runs onOpen -> wgConn.Add(1)
// first (poller_epoll.go:83-89); whatever happens next (epoll_ctl fails on the closed descriptor,
// or succeeds if the close comes a little later) nobody ever calls onClose for it, so wgConn stays
// one too high: Engine.Stop - and therefore Shutdown(ctx) with a live context - blocks forever in
// wgConn.Wait() (or, in the other interleaving found by the check, Shutdown's poll loop never sees
// engine.conns become empty).
//
// The window is the time the user's OnOpen callback takes; the test simply makes OnOpen slow.
//
//	cd /verif && GOFLAGS=-mod=mod GOPROXY=off go test ./notes/repro/C18_http_shutdown_close_of_half_registered_conn/
//
// The test FAILS (Shutdown does not return) while the defect is present. Plain /repo, public API.
package repro

import (
	"context"
	"net"
	"net/http"
	"sync"
	"testing"
	"time"

	"github.com/lesismal/nbio/nbhttp"
)

func TestShutdownWhileConnectionIsBeingRegistered(t *testing.T) {
	inOpen := make(chan struct{})
	proceed := make(chan struct{})
	var once sync.Once
	var addr string
	e := nbhttp.NewEngine(nbhttp.Config{
		Network: "tcp",
		Addrs:   []string{"127.0.0.1:0"},
		NPoller: 1,
		Handler: http.NewServeMux(),
		Listen: func(network, a string) (net.Listener, error) {
			ln, err := net.Listen(network, a)
			if err == nil {
				addr = ln.Addr().String()
			}
			return ln, err
		},
	})
	e.OnOpen(func(c net.Conn) {
		once.Do(func() {
			close(inOpen)
			<-proceed // a slow OnOpen callback
		})
	})
	if err := e.Start(); err != nil {
		t.Fatal(err)
	}
	client, err := net.Dial("tcp", addr)
	if err != nil {
		t.Fatal(err)
	}
	defer client.Close()
	select {
	case <-inOpen:
	case <-time.After(5 * time.Second):
		t.Fatal("OnOpen was not called")
	}
	done := make(chan error, 1)
	go func() { done <- e.Shutdown(context.Background()) }()
	time.Sleep(500 * time.Millisecond) // Shutdown has closed every connection it knows, twice
	close(proceed)                     // OnOpen returns, the accept goroutine registers the connection
	select {
	case err := <-done:
		t.Logf("Shutdown returned %v", err)
	case <-time.After(4 * time.Second):
		t.Fatalf("nbhttp.Engine.Shutdown(context.Background()) has not returned 4 s after the last connection was closed: " +
			"the connection that was closed while being registered never got a close notification, wgConn stays at 1")
	}
}

// Reproduction (plain /repo): a final continuation frame with an empty payload and no message in
// progress (0x80 0x00) is silently accepted, while the same frame with a payload fails the
// connection. RFC 6455 5.4: a continuation frame without a preceding start frame is illegal.
// Run: GOFLAGS=-mod=mod GOPROXY=off go run .   (exit status 1 = defect present)
package main

import (
	"fmt"
	"os"

	"github.com/lesismal/nbio/nbhttp/websocket"
)

func try(frame []byte) (error, bool) {
	u := websocket.NewUpgrader()
	u.OnMessage(func(c *websocket.Conn, mt websocket.MessageType, data []byte) {})
	f := &fake{}
	c := websocket.NewServerConn(u, f, "", false, false)
	c.Execute = func(fn func()) bool { fn(); return true }
	err := c.Parse(frame)
	return err, f.closed
}

func main() {
	key := []byte{1, 2, 3, 4}
	nonEmpty := append(append([]byte{0x80, 0x81}, key...), 'x'^1)
	empty := append([]byte{0x80, 0x80}, key...)
	e1, c1 := try(nonEmpty)
	e2, c2 := try(empty)
	fmt.Printf("stray FIN continuation with 1 payload byte : Parse err=%v conn closed=%v\n", e1, c1)
	fmt.Printf("stray FIN continuation with empty payload  : Parse err=%v conn closed=%v\n", e2, c2)
	if e2 == nil && !c2 {
		fmt.Println("DEFECT: the illegal frame was accepted (no error, connection still open)")
		os.Exit(1)
	}
	fmt.Println("ok")
}

// C07 findings (recorded, not repaired):
//   rejects-wellformed verdict=ErrCRExpected state=TailCR feature=unannounced-trailers
//   rejects-wellformed verdict=ErrTrailerExpected state=BodyTrailerHeaderKeyBefore feature=absent-announced-trailers
//   rejects-wellformed verdict=ErrTrailerExpected state=BodyTrailerHeaderKeyBefore feature=other-than-announced-trailers
// Run: cd /verif && go test -v ./notes/repro/C07_trailer_announcement/
// TestTrailerAnnouncementMismatch FAILS while nbhttp insists on the announcement.
//
// RFC 7230 4.1.2 / 4.4: a sender SHOULD announce the trailer fields of a chunked message in a
// Trailer header field; the announcement is not part of the chunked grammar (trailer-part =
// *( header-field CRLF )). net/http delivers whatever trailer fields are sent (announced fields
// that do not arrive stay in Request.Trailer with a nil value). nbhttp takes the announcement as
// binding: without one it expects the final CRLF right behind the last-chunk line (parser.go
// stateBodyChunkSizeLF -> stateTailCR: a trailer field there is ErrCRExpected), with one it
// refuses the end of the trailer section while an announced field is missing
// (stateBodyTrailerHeaderKeyBefore: ErrTrailerExpected). Fields beyond the announced ones are
// accepted once every announced one has arrived or is still outstanding ("A" announced, "A" and
// "B-c" sent, in either order: agreement).
package repro

import (
	"bufio"
	"fmt"
	"io"
	"net"
	"net/http"
	"sort"
	"strings"
	"testing"
	"time"

	"github.com/lesismal/nbio/nbhttp"
)

const head = "POST / HTTP/1.1\r\nHost: h\r\nTransfer-Encoding: chunked\r\n"
const next = "GET /next HTTP/1.1\r\nHost: h\r\n\r\n" // a pipelined successor

var cases = []struct {
	name, stream string
	agree        bool // nbhttp accepts this shape today
}{
	{"unannounced, 1 field", head + "\r\n3\r\nabc\r\n0\r\nA: 1\r\n\r\n", false},
	{"unannounced, 2 fields, last-chunk extension", head + "\r\n3\r\nabc\r\n0;x=y\r\nA: 1\r\nB-c: 22\r\n\r\n", false},
	{"announced A, absent", head + "Trailer: A\r\n\r\n3\r\nabc\r\n0\r\n\r\n", false},
	{"announced A, absent, last-chunk extension", head + "Trailer: A\r\n\r\n3\r\nabc\r\n0;x=y\r\n\r\n", false},
	{"announced A, sent B-c", head + "Trailer: A\r\n\r\n3\r\nabc\r\n0\r\nB-c: 22\r\n\r\n", false},
	{"announced A and B-c, sent A", head + "Trailer: A, B-c\r\n\r\n3\r\nabc\r\n0\r\nA: 1\r\n\r\n", false},
	{"announced A, sent A then B-c", head + "Trailer: A\r\n\r\n3\r\nabc\r\n0\r\nA: 1\r\nB-c: 22\r\n\r\n", true},
	{"announced A, sent B-c then A", head + "Trailer: A\r\n\r\n3\r\nabc\r\n0\r\nB-c: 22\r\nA: 1\r\n\r\n", true},
	{"announced A, sent A (control)", head + "Trailer: A\r\n\r\n3\r\nabc\r\n0\r\nA: 1\r\n\r\n", true},
}

func render(h http.Header) string {
	var ks []string
	for k, v := range h {
		if len(v) > 0 {
			ks = append(ks, fmt.Sprintf("%s=%q", k, v))
		}
	}
	sort.Strings(ks)
	return strings.Join(ks, " ")
}

func TestTrailerAnnouncementMismatch(t *testing.T) {
	for _, c := range cases {
		stream := c.stream + next
		// reference: both messages, body and trailers of the first
		br := bufio.NewReader(strings.NewReader(stream))
		req, err := http.ReadRequest(br)
		if err != nil {
			t.Fatalf("%s: net/http rejects the message: %v", c.name, err)
		}
		body, err := io.ReadAll(req.Body)
		if err != nil {
			t.Fatalf("%s: net/http body: %v", c.name, err)
		}
		if succ, err := http.ReadRequest(br); err != nil || succ.RequestURI != "/next" {
			t.Fatalf("%s: net/http successor: %v", c.name, err)
		}
		want := render(req.Trailer)
		t.Logf("%-45s net/http: body %q trailers {%s}, successor delivered", c.name, body, want)

		seen, perr := parse(stream)
		switch {
		case perr != nil || len(seen) != 2:
			msg := fmt.Sprintf("%s: nbhttp: Parse error %v, %d of 2 requests delivered; net/http: body %q trailers {%s} + successor", c.name, perr, len(seen), body, want)
			if c.agree {
				t.Errorf("REGRESSION (this shape used to be accepted): %s", msg)
			} else {
				t.Errorf("%s", msg)
			}
		case seen[0].trailer != want || seen[0].body != string(body):
			t.Errorf("%s: nbhttp body %q trailers {%s}; net/http body %q trailers {%s}", c.name, seen[0].body, seen[0].trailer, body, want)
		}
	}
}

// ---- stand-alone plumbing: a fake net.Conn and a parser wired to the real ServerProcessor

type addr struct{}

func (addr) Network() string { return "tcp" }
func (addr) String() string  { return "192.0.2.1:1" }

type conn struct{}

func (conn) Read([]byte) (int, error)         { return 0, io.EOF }
func (conn) Write(b []byte) (int, error)      { return len(b), nil }
func (conn) Close() error                     { return nil }
func (conn) LocalAddr() net.Addr              { return addr{} }
func (conn) RemoteAddr() net.Addr             { return addr{} }
func (conn) SetDeadline(time.Time) error      { return nil }
func (conn) SetReadDeadline(time.Time) error  { return nil }
func (conn) SetWriteDeadline(time.Time) error { return nil }

type seenReq struct{ uri, body, trailer string }

// parse feeds stream to a fresh nbhttp server-side parser (inline executor) and returns what the
// handler saw and the Parse error.
func parse(stream string) (seen []seenReq, err error) {
	inline := func(f func()) { f() }
	engine := nbhttp.NewEngine(nbhttp.Config{ServerExecutor: inline, ClientExecutor: inline,
		Handler: http.HandlerFunc(func(w http.ResponseWriter, r *http.Request) {
			b, _ := io.ReadAll(r.Body)
			seen = append(seen, seenReq{r.RequestURI, string(b), render(r.Trailer)})
		})})
	p := nbhttp.NewParser(conn{}, engine, nbhttp.NewServerProcessor(), false, nil)
	err = p.Parse([]byte(stream))
	return seen, err
}

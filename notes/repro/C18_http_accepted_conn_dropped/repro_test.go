// C18 / H2: nbhttp's accept loop drops a connection it has already accepted, without closing it,
// when Stop/Shutdown set the engine's shutdown flag in between (nbhttp/engine.go:337-341):
//
//	conn, err := ln.Accept()
//	if err == nil && !e.shutdown {
//		addConn(&Conn{Conn: conn}, tlsConfig, decrease)
//	} else { ... error handling only ... }
//
// The connection is neither served nor closed; the peer sees an open, silent connection until the
// garbage collector happens to finalize the *net.TCPConn.
//
// The window (accept(2) returned, flag not yet tested) is widened through the public Config.Listen
// seam only: the wrapped listener's Accept holds the connection it has already accepted until Stop
// has begun (its Close was called), as if the goroutine had been preempted at the return of
// accept(2).
//
//	cd /verif && GOFLAGS=-mod=mod GOPROXY=off go test ./notes/repro/C18_http_accepted_conn_dropped/
//
// The test FAILS while the defect is present (the peer gets a read timeout instead of EOF).
package repro

import (
	"net"
	"net/http"
	"os"
	"sync"
	"testing"
	"time"

	"github.com/lesismal/nbio/nbhttp"
)

type holdListener struct {
	net.Listener
	accepted  chan struct{}
	stopBegun chan struct{}
	once1     sync.Once
	once2     sync.Once
}

func (l *holdListener) Accept() (net.Conn, error) {
	c, err := l.Listener.Accept()
	if err == nil {
		l.once1.Do(func() { close(l.accepted) })
		<-l.stopBegun
	}
	return c, err
}

func (l *holdListener) Close() error {
	l.once2.Do(func() { close(l.stopBegun) })
	return l.Listener.Close()
}

func TestAcceptedConnectionDroppedWithoutClose(t *testing.T) {
	hl := &holdListener{accepted: make(chan struct{}), stopBegun: make(chan struct{})}
	e := nbhttp.NewEngine(nbhttp.Config{
		Network: "tcp",
		Addrs:   []string{"127.0.0.1:0"},
		NPoller: 1,
		Handler: http.NewServeMux(),
		Listen: func(network, addr string) (net.Listener, error) {
			ln, err := net.Listen(network, addr)
			if err != nil {
				return nil, err
			}
			hl.Listener = ln
			return hl, nil
		},
	})
	if err := e.Start(); err != nil {
		t.Fatal(err)
	}
	client, err := net.Dial("tcp", hl.Listener.Addr().String())
	if err != nil {
		t.Fatal(err)
	}
	defer client.Close()
	select {
	case <-hl.accepted:
	case <-time.After(5 * time.Second):
		t.Fatal("the connection was not accepted")
	}
	done := make(chan struct{})
	go func() { e.Stop(); close(done) }()
	select {
	case <-done:
	case <-time.After(10 * time.Second):
		t.Fatal("Stop did not return (a different defect: see C18_stop_hangs_accept_race)")
	}
	// Stop has returned: every connection the engine accepted must be closed by now.
	_ = client.SetReadDeadline(time.Now().Add(2 * time.Second))
	_, rerr := client.Read(make([]byte, 1))
	if ne, ok := rerr.(net.Error); ok && ne.Timeout() || os.IsTimeout(rerr) {
		t.Fatalf("2 s after Stop returned the accepted connection is still open on the server side (read: %v): "+
			"the accept loop dropped it without Close because e.shutdown was set after Accept returned", rerr)
	}
	t.Logf("peer saw %v", rerr)
}

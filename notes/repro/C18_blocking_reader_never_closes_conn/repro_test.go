// C18 / blocking modes, F2: the reader goroutine of a blocking-mode plain-text connection never
// closes the connection when its Read fails (the peer closed, half-closed or reset).
//
// Engine.readConnBlocking (nbhttp/engine.go) leaves its loop on the first Read error; its deferred
// clean-up frees the read buffer, calls parserCloser.CloseAndClean (for an HTTP parser that
// releases parser state only), removes the key from engine.conns, notifies OnClose and calls
// decrease() - nobody calls conn.Close(). (readTLSConnBlocking does: `_ = tlsConn.Close()`.)
// The descriptor of the accepted socket stays open
//   - until the garbage collector runs the net package's finalizer, if nothing refers to the
//     connection any more, or
//   - for ever, if the application kept the net.Conn it was given in OnOpen,
// and it is still open after Stop / Shutdown have returned ("all descriptors released").
// Seen from the peer: a peer that half-closes (shutdown(SHUT_WR)) and waits for the server's end
// of stream never gets it, although Engine.Online() already says the connection is gone.
//
// Real sockets (a unix-domain listener in a temporary directory), public API only:
//
//	cd /verif && GOFLAGS=-mod=mod GOPROXY=off go test -count=1 ./notes/repro/C18_blocking_reader_never_closes_conn/
//
// The tests FAIL while the defect is present; the IOModNonBlocking controls pass.
package repro

import (
	"bufio"
	"fmt"
	"io"
	"net"
	"net/http"
	"os"
	"path/filepath"
	"strings"
	"sync"
	"testing"
	"time"

	"github.com/lesismal/nbio/logging"
	"github.com/lesismal/nbio/nbhttp"
)

func sockets() map[string]bool {
	out := map[string]bool{}
	ents, _ := os.ReadDir("/proc/self/fd")
	for _, e := range ents {
		if t, err := os.Readlink("/proc/self/fd/" + e.Name()); err == nil && strings.HasPrefix(t, "socket:") {
			out[t] = true
		}
	}
	return out
}

func start(t *testing.T, ioMod int, keep *[]net.Conn, mu *sync.Mutex) (*nbhttp.Engine, string) {
	logging.SetLevel(logging.LevelNone)
	sock := filepath.Join(t.TempDir(), "s.sock")
	e := nbhttp.NewEngine(nbhttp.Config{
		Network: "unix", Addrs: []string{sock}, NPoller: 1, IOMod: ioMod,
		Handler: http.HandlerFunc(func(w http.ResponseWriter, r *http.Request) { _, _ = w.Write([]byte("ok")) }),
	})
	// an application that tracks its sessions keeps what OnOpen gives it; this also keeps the
	// garbage collector from hiding the leak behind a finalizer
	e.OnOpen(func(c net.Conn) { mu.Lock(); *keep = append(*keep, c); mu.Unlock() })
	if err := e.Start(); err != nil {
		t.Fatal(err)
	}
	return e, sock
}

func waitOnline(e *nbhttp.Engine, n int) bool {
	for i := 0; i < 2000; i++ {
		if e.Online() == n {
			return true
		}
		time.Sleep(5 * time.Millisecond)
	}
	return false
}

func leakAfterPeerClose(t *testing.T, ioMod int) []string {
	var keep []net.Conn
	var mu sync.Mutex
	before := sockets()
	e, sock := start(t, ioMod, &keep, &mu)
	c, err := net.Dial("unix", sock)
	if err != nil {
		t.Fatal(err)
	}
	_ = c.SetDeadline(time.Now().Add(5 * time.Second))
	fmt.Fprintf(c, "GET / HTTP/1.1\r\nHost: h\r\n\r\n")
	resp, err := http.ReadResponse(bufio.NewReader(c), nil)
	if err != nil {
		t.Fatal(err)
	}
	_, _ = io.ReadAll(resp.Body)
	_ = c.Close()
	if !waitOnline(e, 0) {
		t.Fatalf("engine.Online() = %d after the peer closed", e.Online())
	}
	e.Stop()
	var left []string
	for i := 0; i < 100; i++ { // the poller's descriptors go away asynchronously
		left = left[:0]
		for s := range sockets() {
			if !before[s] {
				left = append(left, s)
			}
		}
		if len(left) == 0 {
			break
		}
		time.Sleep(10 * time.Millisecond)
	}
	mu.Lock()
	_ = keep
	mu.Unlock()
	return left
}

func TestBlockingReaderClosesConnWhenPeerCloses(t *testing.T) {
	if left := leakAfterPeerClose(t, nbhttp.IOModBlocking); len(left) > 0 {
		t.Errorf("IOModBlocking: the peer closed, Online() is 0, Stop() has returned: socket descriptor(s) %v still open in the server process", left)
	}
}

func TestControlNonBlockingPeerClose(t *testing.T) {
	if left := leakAfterPeerClose(t, nbhttp.IOModNonBlocking); len(left) > 0 {
		t.Errorf("IOModNonBlocking: %v left", left)
	}
}

func halfClose(t *testing.T, ioMod int) (sawEnd bool, online int) {
	var keep []net.Conn
	var mu sync.Mutex
	e, sock := start(t, ioMod, &keep, &mu)
	defer e.Stop()
	c, err := net.Dial("unix", sock)
	if err != nil {
		t.Fatal(err)
	}
	defer c.Close()
	if !waitOnline(e, 1) {
		t.Fatal("not online")
	}
	_ = c.(*net.UnixConn).CloseWrite()
	waitOnline(e, 0)
	_ = c.SetReadDeadline(time.Now().Add(2 * time.Second))
	_, err = c.Read(make([]byte, 1))
	return err == io.EOF, e.Online()
}

func TestBlockingReaderClosesConnWhenPeerHalfCloses(t *testing.T) {
	if end, online := halfClose(t, nbhttp.IOModBlocking); !end {
		t.Errorf("IOModBlocking: the peer shut down its sending direction; engine.Online() = %d, but 2s later the peer still has not seen the end of the stream: the server end was never closed", online)
	}
}

func TestControlNonBlockingHalfClose(t *testing.T) {
	if end, _ := halfClose(t, nbhttp.IOModNonBlocking); !end {
		t.Errorf("IOModNonBlocking: no end of stream")
	}
}

// C18 / R1: Engine.Stop is not synchronised with connection registration. Stop closes the
// listeners, scans the descriptor table once (engine.go:205-227) and then waits for wgConn. A
// connection that accept(2) handed to the acceptor goroutine before the listener was closed, but
// that the goroutine registers (poller.addConn: onOpen -> wgConn.Add(1), connsUnix[fd] = c) only
// after Stop's scan has passed its table slot, is never closed by anybody: wgConn.Wait() blocks
// for as long as the peer keeps the connection open.
//
// The window (acceptor goroutine descheduled between Accept returning and addConn's table store)
// is a few microseconds wide with real goroutines, so the test widens it through the public
// Config.Listen seam only: the wrapped listener's Accept holds the connection it has already
// accepted until Stop has begun (its Close was called), exactly as if the goroutine had been
// preempted at the return of accept(2). Nothing inside nbio is touched.
//
// Stand-alone reproduction against plain /repo (public API only, no verification framework):
//
//	cd /verif && GOFLAGS=-mod=mod GOPROXY=off go test ./notes/repro/C18_stop_hangs_accept_race/
//
// The test FAILS while the defect is present (HANG: Stop does not return within 3 s, or LEAK: Stop
// returns while the accepted connection was reported open and never closed, or LATE: its close
// notification is delivered after Stop returned).
// Status: repaired in /repo by "fix: Stop waits for connection registrations in flight and refuses
// new ones" (393b7d3); the test passes since then.
package repro

import (
	"fmt"
	"net"
	"sync"
	"sync/atomic"
	"testing"
	"time"

	"github.com/lesismal/nbio"
)

type holdListener struct {
	net.Listener
	accepted  chan struct{} // closed when the first connection was accepted
	stopBegun chan struct{} // closed when Close is called (Stop has begun)
	once1     sync.Once
	once2     sync.Once
}

func (l *holdListener) Accept() (net.Conn, error) {
	c, err := l.Listener.Accept()
	if err == nil {
		l.once1.Do(func() { close(l.accepted) })
		// accept(2) has returned this connection before the listener was closed; the acceptor
		// goroutine "loses the CPU" here until Stop is under way.
		<-l.stopBegun
	}
	return c, err
}

func (l *holdListener) Close() error {
	l.once2.Do(func() { close(l.stopBegun) })
	return l.Listener.Close()
}

// attempt runs one Start / connect / Stop cycle and reports what happened.
func attempt(t *testing.T) string {
	var opens, closes int32
	hl := &holdListener{accepted: make(chan struct{}), stopBegun: make(chan struct{})}
	g := nbio.NewEngine(nbio.Config{
		Network: "tcp",
		Addrs:   []string{"127.0.0.1:0"},
		NPoller: 1,
		Listen: func(network, addr string) (net.Listener, error) {
			ln, err := net.Listen(network, addr)
			if err != nil {
				return nil, err
			}
			hl.Listener = ln
			return hl, nil
		},
	})
	g.OnOpen(func(c *nbio.Conn) { atomic.AddInt32(&opens, 1) })
	g.OnClose(func(c *nbio.Conn, err error) { atomic.AddInt32(&closes, 1) })
	if err := g.Start(); err != nil {
		t.Fatal(err)
	}
	client, err := net.Dial("tcp", hl.Listener.Addr().String())
	if err != nil {
		t.Fatal(err)
	}
	defer client.Close()
	select {
	case <-hl.accepted:
	case <-time.After(5 * time.Second):
		t.Fatal("the connection was not accepted")
	}

	done := make(chan struct{})
	go func() {
		g.Stop()
		close(done)
	}()
	select {
	case <-done:
		// Stop returned: the accepted connection must have been closed and notified.
		if o, c := atomic.LoadInt32(&opens), atomic.LoadInt32(&closes); o != c {
			time.Sleep(300 * time.Millisecond)
			if c2 := atomic.LoadInt32(&closes); c2 == o {
				return fmt.Sprintf("LATE: Stop returned with %d open and %d close notifications; the close notification arrived only after "+
					"Stop had returned (the registration ran into the pollers' already closed epoll fd, EBADF, and nbio closed the connection)", o, c)
			}
			return fmt.Sprintf("LEAK: Stop returned with %d open and %d close notifications, unchanged 300 ms later: the accepted connection was "+
				"registered after wgConn.Wait() had returned and is left open, unnotified, with no poller", o, c)
		}
		return "ok" // registered before the scan, or epoll_ctl on the already closed epoll fd failed (EBADF) and nbio closed it
	case <-time.After(3 * time.Second):
		msg := fmt.Sprintf("HANG: Engine.Stop has not returned after 3 s: open notifications=%d close notifications=%d "+
			"(the connection accepted before listener.Close() was registered after Stop's scan and is never closed; "+
			"Stop is blocked in wgConn.Wait())", atomic.LoadInt32(&opens), atomic.LoadInt32(&closes))
		// let Stop finish so that the test binary can exit cleanly: the peer goes away, the still
		// running poller sees the FIN, closes the connection and releases wgConn.
		client.Close()
		select {
		case <-done:
			msg += fmt.Sprintf("; after the peer closed the connection Stop returned (close notifications=%d)", atomic.LoadInt32(&closes))
		case <-time.After(5 * time.Second):
			msg += "; Stop still blocked 5 s after the peer closed the connection"
		}
		return msg
	}
}

// Which of the three interleavings happens depends on how long Stop's table scan takes
// (MaxOpenFiles) relative to the acceptor's wake-up; a handful of attempts always shows one of the
// two bad ones here.
func TestStopHangsWhenAcceptRacesWithStop(t *testing.T) {
	for i := 1; i <= 40; i++ {
		if r := attempt(t); r != "ok" {
			t.Fatalf("attempt %d: %s", i, r)
		}
	}
	t.Log("40 attempts: the race window was not hit")
}

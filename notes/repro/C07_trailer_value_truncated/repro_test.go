// C07 finding "trailer-value-truncated-at-first-space": stand-alone reproduction on plain /repo.
// Run: cd /verif && go test ./notes/repro/C07_trailer_value_truncated/
// The test FAILS while the defect is present.
package repro

import (
	"bufio"
	"io"
	"net"
	"net/http"
	"strings"
	"testing"
	"time"

	"github.com/lesismal/nbio/nbhttp"
)

func TestTrailerValueWithSpace(t *testing.T) {
	const stream = "POST / HTTP/1.1\r\nHost: h\r\nTransfer-Encoding: chunked\r\nTrailer: A\r\n\r\n3\r\nabc\r\n0\r\nA: hello world\r\n\r\n"
	want := reference(t, stream).Trailer.Get("A")
	seen, err := parse(stream)
	if err != nil || len(seen) != 1 {
		t.Fatalf("nbhttp: err=%v requests=%d", err, len(seen))
	}
	if got := seen[0].Trailer.Get("A"); got != want {
		t.Fatalf("trailer A: nbhttp delivered %q, net/http %q (value cut at its first space, parser.go:649-652)", got, want)
	}
}

// ---- stand-alone plumbing: a fake net.Conn and a parser wired to the real ServerProcessor

type addr struct{}

func (addr) Network() string { return "tcp" }
func (addr) String() string  { return "192.0.2.1:1" }

type conn struct{}

func (conn) Read([]byte) (int, error)         { return 0, io.EOF }
func (conn) Write(b []byte) (int, error)      { return len(b), nil }
func (conn) Close() error                     { return nil }
func (conn) LocalAddr() net.Addr              { return addr{} }
func (conn) RemoteAddr() net.Addr             { return addr{} }
func (conn) SetDeadline(time.Time) error      { return nil }
func (conn) SetReadDeadline(time.Time) error  { return nil }
func (conn) SetWriteDeadline(time.Time) error { return nil }

// parse feeds stream to a fresh nbhttp server-side parser (inline executor) and returns the
// requests the handler saw (shallow copies taken inside the handler) and the Parse error.
func parse(stream string) (seen []*http.Request, err error) {
	inline := func(f func()) { f() }
	engine := nbhttp.NewEngine(nbhttp.Config{ServerExecutor: inline, ClientExecutor: inline,
		Handler: http.HandlerFunc(func(w http.ResponseWriter, r *http.Request) {
			cp := *r
			cp.Trailer = r.Trailer.Clone()
			cp.Header = r.Header.Clone()
			seen = append(seen, &cp)
		})})
	p := nbhttp.NewParser(conn{}, engine, nbhttp.NewServerProcessor(), false, nil)
	err = p.Parse([]byte(stream))
	return seen, err
}

// reference parses the same bytes with net/http.
func reference(t *testing.T, stream string) *http.Request {
	req, err := http.ReadRequest(bufio.NewReader(strings.NewReader(stream)))
	if err != nil {
		t.Fatalf("net/http rejects the stream: %v", err)
	}
	if _, err := io.ReadAll(req.Body); err != nil {
		t.Fatalf("net/http body: %v", err)
	}
	return req
}


// C09 / D8: Response.ReadFrom(*os.File) on a connection that offers Sendfile (as *nbio.Conn does):
// the file is not wrapped in an io.LimitedReader, 'lr' is a nil *io.LimitedReader and
// 'nc.Sendfile(f, lr.N)' dereferences it (nbhttp/response.go:312-339) -> panic.
//
// Stand-alone reproduction against plain /repo (public API only, no verification framework):
//
//	cd /verif && GOFLAGS=-mod=mod GOPROXY=off go test ./notes/repro/C09_readfrom_file_nil_limitedreader/
//
// The test FAILS while the defect is present.
package repro

import (
	"bufio"
	"bytes"
	"io"
	"net"
	"net/http"
	"os"
	"testing"
	"time"

	"github.com/lesismal/nbio/nbhttp"
)

// sfConn is a fake connection with the Sendfile method of *nbio.Conn.
type sfConn struct{ fakeConn }

func (c *sfConn) Sendfile(f *os.File, remain int64) (int64, error) {
	b, err := io.ReadAll(f)
	if remain > 0 && int64(len(b)) > remain {
		b = b[:remain]
	}
	c.wire.Write(b)
	return int64(len(b)), err
}

func TestReadFromFileOnSendfileConn(t *testing.T) {
	f, err := os.CreateTemp(t.TempDir(), "body")
	if err != nil {
		t.Fatal(err)
	}
	f.WriteString("hello world")
	f.Seek(0, io.SeekStart)
	c := &sfConn{}
	wire, panicked := serveOn(t, c, &c.wire, req11, func(w http.ResponseWriter, r *http.Request) {
		w.Header().Set("Content-Length", "11")
		w.WriteHeader(200)
		w.(io.ReaderFrom).ReadFrom(f)
	})
	if panicked != nil {
		t.Fatalf("ReadFrom(*os.File) panicked: %v", panicked)
	}
	if _, body, _, _, err := decode(wire); err != nil || string(body) != "hello world" {
		t.Errorf("err=%v body=%q", err, body)
	}
}

// ---- harness: a real server-side nbhttp.Parser + ServerProcessor on a recording fake net.Conn;
// the handler runs inline and ServerProcessor.flushResponse runs after it, as in production.

type fakeConn struct {
	wire   bytes.Buffer
	closed bool
}

type fakeAddr struct{}

func (fakeAddr) Network() string { return "tcp" }
func (fakeAddr) String() string  { return "192.0.2.1:1" }

func (c *fakeConn) Write(b []byte) (int, error)        { c.wire.Write(b); return len(b), nil }
func (c *fakeConn) Read(b []byte) (int, error)         { return 0, io.EOF }
func (c *fakeConn) Close() error                       { c.closed = true; return nil }
func (c *fakeConn) LocalAddr() net.Addr                { return fakeAddr{} }
func (c *fakeConn) RemoteAddr() net.Addr               { return fakeAddr{} }
func (c *fakeConn) SetDeadline(t time.Time) error      { return nil }
func (c *fakeConn) SetReadDeadline(t time.Time) error  { return nil }
func (c *fakeConn) SetWriteDeadline(t time.Time) error { return nil }

// serveOn pushes one request through the parser; returns the bytes written to conn and whether
// the handler panicked (Parser.Parse recovers handler panics).
func serveOn(t *testing.T, conn net.Conn, wire *bytes.Buffer, request string, h func(w http.ResponseWriter, r *http.Request)) (out []byte, panicked interface{}) {
	t.Helper()
	engine := nbhttp.NewEngine(nbhttp.Config{
		Handler: http.HandlerFunc(func(w http.ResponseWriter, r *http.Request) {
			defer func() {
				if e := recover(); e != nil {
					panicked = e
					panic(e)
				}
			}()
			h(w, r)
		}),
		ServerExecutor:    func(f func()) { f() },
		SupportServerOnly: true,
	})
	parser := nbhttp.NewParser(conn, engine, nbhttp.NewServerProcessor(), false, nil)
	if err := parser.Parse([]byte(request)); err != nil {
		t.Fatalf("Parse: %v", err)
	}
	return wire.Bytes(), panicked
}

func serve(t *testing.T, request string, h func(w http.ResponseWriter, r *http.Request)) ([]byte, interface{}) {
	c := &fakeConn{}
	return serveOn(t, c, &c.wire, request, h)
}

// decode parses the wire with net/http as the response to a GET.
func decode(wire []byte) (resp *http.Response, body []byte, bodyErr error, leftover int, err error) {
	rd := bytes.NewReader(wire)
	br := bufio.NewReader(rd)
	resp, err = http.ReadResponse(br, &http.Request{Method: "GET"})
	if err != nil {
		return
	}
	body, bodyErr = io.ReadAll(resp.Body)
	leftover = br.Buffered() + rd.Len()
	return
}

func pattern(n int) []byte {
	b := make([]byte, n)
	for i := range b {
		b[i] = 'a' + byte((i*7+i/26)%26)
	}
	return b
}

const req10 = "GET / HTTP/1.0\r\nHost: x\r\n\r\n"
const req11 = "GET / HTTP/1.1\r\nHost: x\r\n\r\n"

// C16: DialAsyncTimeout can leave its dial timeout armed on a connection that is established.
//
// engine_unix.go, DialAsyncTimeout: the socket is registered with the poller first
// (engine.addDialer -> epoll_ctl ADD for read+write) and the dial timeout is armed afterwards
// (c.setDeadline(&c.wTimer, ErrDialTimeout, now+timeout)). The connect of a loopback / fast peer is
// complete by then, so the poller thread may report EPOLLOUT, run the internal completion handler
// (SetWriteDeadline(zero): nothing to clear yet) and the user's callback with a nil error BEFORE
// the dialing goroutine arms the timer. Nobody clears that timer any more: `timeout` later the
// established, healthy connection is closed with ErrDialTimeout ("dial timeout") - unless a Write
// that empties the backlog happens to drop it first (the dial timer lives in the write-deadline
// slot), which is why clients that write right after connecting never notice.
//
// Found by the C16 check (scenario "core LT origin=dialT ...", signature "stale-dial-timer
// origin=dialT armed=after-connect", 1 preemption: the dialing thread is descheduled between addDialer and setDeadline,
// the network completes the handshake, the poller handles EPOLLOUT and calls back, the dialing
// thread resumes and arms the timer).
//
// On the real kernel the window is a few dozen instructions wide while the poller needs a wake-up
// from epoll_wait to get through it, so the dialing goroutine has to lose the CPU inside the
// window. The test below is therefore a stress test: it dials a loopback listener many times from
// an oversubscribed process with a dial timeout of 400 ms, never writes, and counts connections
// (a) whose dial callback reported success on an open connection LESS THAN HALF a dial timeout
// after DialAsyncTimeout was called - so the dial timer, which is armed inside that call, cannot
// have expired by then, however starved the process is - and (b) that were closed with
// ErrDialTimeout afterwards. (A dial timeout that expires while the completion of the connect is
// being processed can also close a connection right after a successful callback; that coincidence
// needs the callback to come a full timeout after the call and is not counted.) It needs
// loopback networking:
//
//	cd /verif && GOFLAGS=-mod=mod GOPROXY=off unshare -rn bash -c 'ip link set lo up; go test -count=1 -timeout 10m ./notes/repro/C16_dial_timer_armed_after_connect/'
//
// A run that does not hit the window within its budget (REPRO_SECONDS, default 60) SKIPs (it
// proves nothing either way); a hit FAILS. Deterministic evidence is the replay file of the
// check (bin/check C16 quick -replay replays/C16-stale-dial-timer_origin=dialT_armed=after-connect.json).
//
// Status: repaired in /repo by 0949970 (the timer is armed under c.mux only while c.onConnected is
// still pending); the test SKIPs since then. Original repair idea: arm before registering, or under c.mux only
// while c.onConnected is still pending (takeOnConnected clears that field under the same mutex).
package repro

import (
	"errors"
	"net"
	"os"
	"runtime"
	"strconv"
	"sync"
	"sync/atomic"
	"testing"
	"time"

	"github.com/lesismal/nbio"
)

func TestDialTimerArmedAfterConnect(t *testing.T) {
	budget := 60 * time.Second
	if s := os.Getenv("REPRO_SECONDS"); s != "" {
		if n, err := strconv.Atoi(s); err == nil {
			budget = time.Duration(n) * time.Second
		}
	}
	ln, err := net.Listen("tcp", "127.0.0.1:0")
	if err != nil {
		t.Skipf("no loopback networking: %v", err)
	}
	defer ln.Close()
	go func() {
		for {
			c, err := ln.Accept()
			if err != nil {
				return
			}
			// hold the connection, never write; the dialing side closes it
			go func() { buf := make([]byte, 1); _, _ = c.Read(buf); _ = c.Close() }()
		}
	}()

	const timeout = 400 * time.Millisecond
	var established sync.Map // *nbio.Conn -> time of the successful callback
	var stale, racing, dials, oks int64
	var first atomic.Value
	g := nbio.NewEngine(nbio.Config{NPoller: 2})
	g.OnClose(func(c *nbio.Conn, err error) {
		if at, ok := established.Load(c); ok && errors.Is(err, nbio.ErrDialTimeout) {
			if atomic.AddInt64(&stale, 1) == 1 {
				first.Store(time.Since(at.(time.Time)))
			}
		} else if errors.Is(err, nbio.ErrDialTimeout) {
			atomic.AddInt64(&racing, 1)
		}
		established.Delete(c)
	})
	if err := g.Start(); err != nil {
		t.Fatal(err)
	}
	defer g.Stop()

	// oversubscribe: spinning goroutines make the runtime (and the kernel) preempt the dialers
	stop := make(chan struct{})
	for i := 0; i < 2*runtime.NumCPU(); i++ {
		go func() {
			x := 0
			for {
				select {
				case <-stop:
					return
				default:
					x++
					if x%1000 == 0 {
						runtime.Gosched()
					}
				}
			}
		}()
	}
	defer close(stop)

	sem := make(chan struct{}, 3000) // connections open at a time
	deadline := time.Now().Add(budget)
	var wg sync.WaitGroup
	for w := 0; w < 8; w++ {
		wg.Add(1)
		go func() {
			defer wg.Done()
			for time.Now().Before(deadline) && atomic.LoadInt64(&stale) == 0 {
				sem <- struct{}{}
				atomic.AddInt64(&dials, 1)
				called := time.Now()
				err := g.DialAsyncTimeout("tcp", ln.Addr().String(), timeout, func(c *nbio.Conn, err error) {
					if err != nil {
						<-sem
						return
					}
					atomic.AddInt64(&oks, 1)
					if closed, _ := c.IsClosed(); !closed && time.Since(called) < timeout/2 {
						established.Store(c, time.Now())
					}
					// keep it open, idle, for one and a half dial timeouts; then close it ourselves
					time.AfterFunc(timeout+timeout/2, func() { _ = c.Close(); <-sem })
				})
				if err != nil {
					<-sem
				}
			}
		}()
	}
	wg.Wait()
	time.Sleep(2 * timeout)
	if n := atomic.LoadInt64(&stale); n > 0 {
		t.Fatalf("%d established connection(s) were closed with %q, the first %v after its dial callback had reported success on an open connection, less than half a dial timeout after the call (dial timeout %v; %d dials, %d successful, %d other dial-timeout closes)",
			n, nbio.ErrDialTimeout, first.Load(), timeout, atomic.LoadInt64(&dials), atomic.LoadInt64(&oks), atomic.LoadInt64(&racing))
	}
	t.Skipf("window not hit in %v (%d dials, %d successful, %d other dial-timeout closes): inconclusive", budget, atomic.LoadInt64(&dials), atomic.LoadInt64(&oks), atomic.LoadInt64(&racing))
}

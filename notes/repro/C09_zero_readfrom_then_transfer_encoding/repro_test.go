// C09: a ReadFrom that has nothing to send freezes the framing decision, but not the header map.
//
// Response.ReadFrom -> sendfileSource (nbhttp/response.go) calls res.WriteHeader(200) and
// res.checkChunked() as soon as it sees an *os.File (or a LimitedReader with N > 0 around one) on
// a connection that has a Sendfile method (*nbio.Conn, i.e. every plain-TCP connection of the
// poller), and only then finds out that the fast path does not apply (chunked, or no positive
// Content-Length). It returns, ReadFrom falls back to io.Copy - and when the file has nothing left
// io.Copy never calls Write, so the head is NOT encoded. The response is now in a state no other
// operation reaches: status and framing (identity) are final, the head is still built from the
// live header map at the end of the handler. A "Transfer-Encoding: chunked" the handler sets
// afterwards is neither honoured (the body is not chunk-framed) nor ignored (the field line is
// printed): with "Content-Length: 0" declared on an HTTP/1.1 request the wire is
//
//	HTTP/1.1 200 OK / Content-Length: 0 / Transfer-Encoding: chunked / (no chunks)
//
// An HTTP/1.1 client lets Transfer-Encoding override Content-Length (RFC 7230 3.3.3), waits for a
// chunk and swallows the next response on the connection as chunk data.
// Without the ReadFrom the same header sequence is fine (checkChunked sees the field, drops
// Content-Length and sends "0\r\n\r\n"); so is the same sequence on a connection without Sendfile.
//
// Found by /verif check C09 (thorough tier), programs
//
//	HTTP/1.1/sendfile+next:  CL(0); RFX(limit=1@70000:1@eof); TE     -> body-undecodable+wire-leftover @H head=unencoded identity-declared
//	HTTP/1.1+close/sendfile: CL(0); RFX(limit=1@70000:1@eof); TE     -> body-mismatch @H head=unencoded identity-declared
//
// Stand-alone reproduction against plain /repo, real engine and real *nbio.Conn over loopback:
//
//	cd /verif && GOFLAGS=-mod=mod GOPROXY=off unshare -rn bash -c 'ip link set lo up; go test -count=1 ./notes/repro/C09_zero_readfrom_then_transfer_encoding/'
//
// The test FAILS while the defect is present.
package repro

import (
	"bufio"
	"bytes"
	"io"
	"net"
	"net/http"
	"os"
	"path/filepath"
	"testing"
	"time"

	"github.com/lesismal/nbio/nbhttp"
)

func TestZeroByteReadFromThenTransferEncoding(t *testing.T) {
	path := filepath.Join(t.TempDir(), "data.bin")
	if err := os.WriteFile(path, []byte("0123456789"), 0o600); err != nil {
		t.Fatal(err)
	}
	mux := http.NewServeMux()
	mux.HandleFunc("/empty", func(w http.ResponseWriter, r *http.Request) {
		f, err := os.Open(path)
		if err != nil {
			t.Errorf("open: %v", err)
			return
		}
		defer f.Close()
		w.Header().Set("Content-Length", "0")
		_, _ = f.Seek(0, io.SeekEnd)
		if n, _ := io.CopyN(w, f, 1); n != 0 { // nothing left in the file: zero bytes
			t.Errorf("CopyN copied %d bytes", n)
		}
		w.Header().Set("Transfer-Encoding", "chunked")
	})
	mux.HandleFunc("/ping", func(w http.ResponseWriter, r *http.Request) {
		w.Header().Set("Content-Length", "4")
		_, _ = w.Write([]byte("pong"))
	})
	engine := nbhttp.NewEngine(nbhttp.Config{Network: "tcp", Addrs: []string{"127.0.0.1:0"}, Handler: mux})
	if err := engine.Start(); err != nil {
		t.Fatalf("start: %v", err)
	}
	defer engine.Stop()

	conn, err := net.Dial("tcp", engine.Addrs[0])
	if err != nil {
		t.Fatalf("dial: %v", err)
	}
	defer conn.Close()
	_ = conn.SetDeadline(time.Now().Add(5 * time.Second))
	if _, err := io.WriteString(conn, "GET /empty HTTP/1.1\r\nHost: x\r\n\r\nGET /ping HTTP/1.1\r\nHost: x\r\nConnection: close\r\n\r\n"); err != nil {
		t.Fatal(err)
	}
	wire, _ := io.ReadAll(conn)
	br := bufio.NewReader(bytes.NewReader(wire))
	resp1, err := http.ReadResponse(br, &http.Request{Method: "GET"})
	if err != nil {
		t.Fatalf("response 1 does not parse: %v\nwire: %q", err, wire)
	}
	body1, err := io.ReadAll(resp1.Body)
	if err != nil || len(body1) != 0 {
		t.Errorf("response 1: body %q, error %v (the handler wrote nothing); Transfer-Encoding=%v Content-Length=%d\nwire: %q",
			body1, err, resp1.TransferEncoding, resp1.ContentLength, wire)
	}
	resp2, err := http.ReadResponse(br, &http.Request{Method: "GET"})
	if err != nil {
		t.Fatalf("what follows response 1 is not the response to the second request: %v\nwire: %q", err, wire)
	}
	body2, _ := io.ReadAll(resp2.Body)
	if string(body2) != "pong" {
		t.Errorf("response 2: body %q, want \"pong\"", body2)
	}
}

// C07 findings "response-reason-leading-non-letters-dropped" and
// "rejects-wellformed verdict=ErrInvalidHTTPStatus state=StatusBefore feature=-".
// Run: cd /verif && go test ./notes/repro/C07_status_line_reason_phrase/
// The tests FAIL while the defects are present.
//
// RFC 7230 3.1.2: status-line = HTTP-version SP status-code SP reason-phrase CRLF,
// reason-phrase = *( HTAB / SP / VCHAR / obs-text ). The client parser (parser.go,
// stateStatusBefore) (1) skips every byte of the reason-phrase that is not a letter until the
// first letter, so a reason that starts with a digit or with punctuation loses its head
// ("2xx" -> "xx", "(ok)" -> "ok)", "200" -> "", "-" -> ""), and (2) answers a SP in that state
// (the first byte of a reason-phrase that starts with SP, "HTTP/1.1 200  OK") with
// ErrInvalidHTTPStatus: the response and everything behind it on the connection is lost.
// net/http accepts all of these and reports Status = "<code> <reason-phrase>".
package repro

import (
	"bufio"
	"io"
	"net"
	"net/http"
	"strconv"
	"strings"
	"testing"
	"time"

	"github.com/lesismal/nbio/nbhttp"
)

func firstWord(s string) string {
	s = strings.Trim(s, " \t")
	if i := strings.IndexByte(s, ' '); i >= 0 {
		return s[:i]
	}
	return s
}

func TestReasonPhraseLeadingNonLetters(t *testing.T) {
	for _, line := range []string{"HTTP/1.1 200 2xx", "HTTP/1.1 200 2xx fine", "HTTP/1.1 200 (ok)", "HTTP/1.1 200 200", "HTTP/1.1 299 -"} {
		stream := line + "\r\nContent-Length: 3\r\n\r\nabc"
		ref := reference(t, stream)
		// nbhttp delivers the reason-phrase alone and keeps its first word (by design)
		want := firstWord(strings.TrimPrefix(ref.Status, strconv.Itoa(ref.StatusCode)))
		seen, err := parse(stream)
		if err != nil || len(seen) != 1 {
			t.Errorf("%q: nbhttp: err=%v responses=%d", line, err, len(seen))
			continue
		}
		if seen[0].Status != want {
			t.Errorf("%q: reason-phrase: nbhttp %q, net/http %q (Status %q)", line, seen[0].Status, want, ref.Status)
		}
	}
}

func TestReasonPhraseLeadingSpace(t *testing.T) {
	stream := "HTTP/1.1 200  OK\r\nContent-Length: 3\r\n\r\nabc"
	ref := reference(t, stream)
	seen, err := parse(stream)
	if err != nil || len(seen) != 1 {
		t.Fatalf("%q: net/http: Status %q, StatusCode %d; nbhttp: err=%v responses=%d", stream, ref.Status, ref.StatusCode, err, len(seen))
	}
}

// ---- stand-alone plumbing: a fake net.Conn and a parser wired to the real ClientProcessor

type addr struct{}

func (addr) Network() string { return "tcp" }
func (addr) String() string  { return "192.0.2.1:1" }

type conn struct{}

func (conn) Read([]byte) (int, error)         { return 0, io.EOF }
func (conn) Write(b []byte) (int, error)      { return len(b), nil }
func (conn) Close() error                     { return nil }
func (conn) LocalAddr() net.Addr              { return addr{} }
func (conn) RemoteAddr() net.Addr             { return addr{} }
func (conn) SetDeadline(time.Time) error      { return nil }
func (conn) SetReadDeadline(time.Time) error  { return nil }
func (conn) SetWriteDeadline(time.Time) error { return nil }

type seenRes struct {
	Status string
	Code   int
}

// parse feeds stream to a fresh nbhttp client-side parser (inline executor) and returns what
// the response callback saw and the Parse error.
func parse(stream string) (seen []seenRes, err error) {
	inline := func(f func()) { f() }
	engine := nbhttp.NewEngine(nbhttp.Config{ServerExecutor: inline, ClientExecutor: inline})
	proc := nbhttp.NewClientProcessor(&nbhttp.ClientConn{Engine: engine}, func(res *http.Response, err error) {
		if res != nil {
			seen = append(seen, seenRes{res.Status, res.StatusCode})
		}
	})
	p := nbhttp.NewParser(conn{}, engine, proc, true, nil)
	err = p.Parse([]byte(stream))
	return seen, err
}

// reference parses the same bytes with net/http.
func reference(t *testing.T, stream string) *http.Response {
	res, err := http.ReadResponse(bufio.NewReader(strings.NewReader(stream)), &http.Request{Method: "GET"})
	if err != nil {
		t.Fatalf("net/http rejects the stream: %v", err)
	}
	if _, err := io.ReadAll(res.Body); err != nil {
		t.Fatalf("net/http body: %v", err)
	}
	return res
}

// C18 / R2: Engine.Stop wakes each poller with a write to the poller's eventfd, but it sets the
// poller's shutdown flag first (poller.stop: "p.shutdown = true" then syscall.Write(p.evtfd)) and
// the poller goroutine closes its own epoll fd and eventfd as soon as it sees the flag
// (poller.start's defer). A poller that is awake when the flag is set (it has not entered its first
// epoll_wait yet, or it is finishing an event) exits and closes the eventfd before Stop writes to
// it: the write hits a closed descriptor number - EBADF if the number is still free (ignored by
// nbio), or a stray 8-byte write into whatever file or socket reused the number in between.
//
// The window is a few instructions wide, so a plain test cannot show it reliably. This program
// only cycles Start/Stop on idle engines; run it under strace and look for the failed write:
//
//	cd /verif && GOFLAGS=-mod=mod GOPROXY=off go build -o .work/c18_evtfd ./notes/repro/C18_eventfd_write_after_close/ &&
//	  strace -f -qq -e trace=write -e status=failed -o .work/c18_evtfd.trace .work/c18_evtfd 3000 ; grep -c EBADF .work/c18_evtfd.trace
//
// Every line such as  write(9, "\1\0\0\0\0\0\0\0", 8) = -1 EBADF (Bad file descriptor)  is one
// occurrence (the only 8-byte writes of value 1 in the process are Stop's wake-ups). Plain /repo,
// public API only. If no line shows up the race was not hit in that run; the scheduled replay
// /verif/replays (signature "closed-fd-syscall write eventfd by stopping-thread") shows it
// deterministically.
// Status: repaired in /repo by "fix: Stop does not write its wake-up to descriptors the poller already
// closed" (838694e): 17 EBADF writes in 1000 cycles before, 0 in 1000 cycles after.
package main

import (
	"fmt"
	"os"
	"strconv"

	"github.com/lesismal/nbio"
	"github.com/lesismal/nbio/logging"
)

func main() {
	n := 2000
	if len(os.Args) > 1 {
		n, _ = strconv.Atoi(os.Args[1])
	}
	logging.SetLevel(logging.LevelNone)
	for i := 0; i < n; i++ {
		g := nbio.NewEngine(nbio.Config{NPoller: 4})
		if err := g.Start(); err != nil {
			fmt.Println(err)
			os.Exit(1)
		}
		g.Stop()
	}
	fmt.Println("cycles:", n)
}

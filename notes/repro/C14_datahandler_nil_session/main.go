// Reproduction (plain /repo, no framework) of the second half of the finding
// "recovered-panic DataHandler nil-session": nbhttp.Engine.DataHandler does
//
//	readerCloser := c.Session().(ParserCloser)
//	if readerCloser == nil { logging.Error("nil ParserCloser"); return }
//
// The single-value type assertion panics on a nil interface, so the nil check behind it is dead
// code; the panic is swallowed by DataHandler's recover() and only logged with a stack trace.
//
// How the engine gets there (found by the scheduled check C14, replay file
// /verif/replays/C14-recovered-panic_DataHandler_nil-session.json; the window is a few
// instructions wide, so there is no deterministic real-socket reproduction):
//  1. the poller reads an upgrade request and queues the HTTP handler;
//  2. the client sends more bytes without waiting for the 101 response and closes;
//  3. the poller reads those bytes (IN|RDHUP) and is about to call DataHandler;
//  4. the handler runs Upgrader.Upgrade: nbc.SetSession(wsc), the write of the 101 response fails
//     (EPIPE), Upgrade calls clearNBCWSSession() -> nbc.SetSession(nil);
//  5. the poller calls DataHandler -> c.Session() is nil -> panic (recovered, logged).
//
// This program shows step 5 in isolation on a connection whose session is nil.
//
// Run: GOFLAGS=-mod=mod GOPROXY=off go run .   (exit status 1 = defect present)
package main

import (
	"fmt"
	"net"
	"os"
	"strings"

	"github.com/lesismal/nbio"
	"github.com/lesismal/nbio/logging"
	"github.com/lesismal/nbio/nbhttp"
)

type capture struct{ errs []string }

func (c *capture) Debug(string, ...interface{}) {}
func (c *capture) Info(string, ...interface{})  {}
func (c *capture) Warn(string, ...interface{})  {}
func (c *capture) Error(f string, a ...interface{}) {
	c.errs = append(c.errs, fmt.Sprintf(f, a...))
}

func main() {
	lg := &capture{}
	logging.SetLogger(lg)
	ln, err := net.Listen("tcp", "127.0.0.1:0")
	if err != nil {
		panic(err)
	}
	go func() { c, _ := net.Dial("tcp", ln.Addr().String()); _ = c }()
	sc, err := ln.Accept()
	if err != nil {
		panic(err)
	}
	nbc, err := nbio.NBConn(sc)
	if err != nil {
		panic(err)
	}
	engine := nbhttp.NewEngine(nbhttp.Config{})
	nbc.SetSession(nil) // what clearNBCWSSession leaves behind after a failed Upgrade
	engine.DataHandler(nbc, []byte{0x82, 0x80, 1, 2, 3, 4})
	for _, e := range lg.errs {
		first := e
		if i := strings.IndexByte(e, '\n'); i > 0 {
			first = e[:i]
		}
		fmt.Println("logged:", first)
		if strings.Contains(e, "interface conversion") {
			fmt.Println("DEFECT: DataHandler panicked on a nil session instead of reaching its nil check")
			os.Exit(1)
		}
	}
	fmt.Println("ok")
}

// C14 / blocking modes, F3: on a blocking-mode connection that Upgrade TRANSFERS to the poller
// (Upgrader.BlockingModTrasferConnToPoller, or UpgradeAndTransferConnToPoller) a message callback
// can run before - and concurrently with - the open callback.
//
// websocket.Upgrader.Upgrade, scenario 3.1 (nbhttp/websocket/upgrader.go): the reader goroutine of
// the blocking connection runs the HTTP handler and, inside Upgrade,
//  1. engine.AddTransferredConn(nbc)   - the descriptor is registered with a poller,
//  2. u.commResponse(...)              - the 101 is written,
//  3. wsc.openHandler(wsc)             - the open callback runs, still on the reader goroutine.
//
// From step 1 on the poller goroutine owns the reading of the connection; a conforming client that
// has read the 101 (step 2) sends its first frame, the poller reads it and runs the message
// callback through nbc.Execute - nothing orders that behind step 3. (On the other upgrade paths the
// goroutine / job queue that runs Upgrade is also the one that delivers the next bytes.)
//
// Real sockets (loopback TCP: only a *net.TCPConn is transferred), public API only:
//
//	cd /verif && GOFLAGS=-mod=mod GOPROXY=off go test -count=1 ./notes/repro/C14_transfer_message_before_open_returned/
//
// The test FAILS while the defect is present; the control without transfer passes.
package repro

import (
	"bufio"
	"fmt"
	"net"
	"net/http"
	"sync"
	"testing"
	"time"

	"github.com/lesismal/nbio/logging"
	"github.com/lesismal/nbio/nbhttp"
	"github.com/lesismal/nbio/nbhttp/websocket"
)

func run(t *testing.T, transfer bool) []string {
	logging.SetLevel(logging.LevelNone)
	var mu sync.Mutex
	var log []string
	note := func(s string) { mu.Lock(); log = append(log, s); mu.Unlock() }
	done := make(chan struct{}, 1)

	u := websocket.NewUpgrader()
	u.BlockingModTrasferConnToPoller = transfer
	u.OnOpen(func(c *websocket.Conn) {
		note("open<")
		time.Sleep(200 * time.Millisecond) // an open handler that takes its time (loads a session, ...)
		note("open>")
	})
	u.OnMessage(func(c *websocket.Conn, mt websocket.MessageType, data []byte) {
		note("msg")
		done <- struct{}{}
	})
	mux := &http.ServeMux{}
	mux.HandleFunc("/ws", func(w http.ResponseWriter, r *http.Request) { _, _ = u.Upgrade(w, r, nil) })
	e := nbhttp.NewEngine(nbhttp.Config{Network: "tcp", Addrs: []string{"127.0.0.1:0"}, NPoller: 1, Handler: mux, IOMod: nbhttp.IOModBlocking})
	u.Engine = e
	if err := e.Start(); err != nil {
		t.Fatal(err)
	}
	defer e.Stop()

	c, err := net.Dial("tcp", e.Addrs[0])
	if err != nil {
		t.Fatal(err)
	}
	defer c.Close()
	_ = c.SetDeadline(time.Now().Add(5 * time.Second))
	fmt.Fprintf(c, "GET /ws HTTP/1.1\r\nHost: h\r\nUpgrade: websocket\r\nConnection: Upgrade\r\nSec-WebSocket-Key: dGhlIHNhbXBsZSBub25jZQ==\r\nSec-WebSocket-Version: 13\r\n\r\n")
	resp, err := http.ReadResponse(bufio.NewReader(c), nil)
	if err != nil || resp.StatusCode != 101 {
		t.Fatalf("handshake: %v %v", err, resp)
	}
	// the 101 has arrived: a conforming client may talk now
	_, _ = c.Write([]byte{0x81, 0x82, 1, 2, 3, 4, 'h' ^ 1, 'i' ^ 2})
	select {
	case <-done:
	case <-time.After(5 * time.Second):
		t.Fatal("message callback never ran")
	}
	time.Sleep(300 * time.Millisecond) // let the open handler finish
	mu.Lock()
	defer mu.Unlock()
	return append([]string(nil), log...)
}

func TestOpenCallbackCompletesBeforeMessageCallbackOnTransferredConn(t *testing.T) {
	log := run(t, true)
	if len(log) < 3 || log[0] != "open<" || log[1] != "open>" {
		t.Errorf("transferred connection: the message callback ran before the open callback had returned: %v", log)
	}
}

func TestControlNotTransferred(t *testing.T) {
	log := run(t, false)
	if len(log) < 3 || log[0] != "open<" || log[1] != "open>" {
		t.Errorf("not transferred: %v", log)
	}
}

// C09: a Write that is refused with http.ErrContentLength freezes the framing decision, but not
// the header map.
//
// Response.Write calls res.WriteHeader(200) and res.checkChunked() (identity: a Content-Length is
// declared) BEFORE it compares the size with the declared Content-Length and returns
// (0, http.ErrContentLength); the head is not encoded at that point. A handler that reacts to the
// error by asking for chunked framing (Header().Set("Transfer-Encoding", "chunked")) and writing
// again gets neither: the field line is printed next to Content-Length, the body is
// identity-framed. An HTTP/1.1 client lets Transfer-Encoding win (RFC 7230 3.3.3), finds no chunk
// header and swallows the next response on the connection. (net/http: the header is committed by
// the refused Write, the later field is simply not sent - a well-formed response.)
//
// Found by /verif check C09 (quick tier) after the overrun attempts were added, e.g.
//
//	HTTP/1.1+next: CL(65415); OW(65416:rest+1); TE; W(65415:fill) -> body-undecodable+wire-leftover @W head=unencoded identity-declared emits
//
// Stand-alone reproduction against plain /repo, real engine and real *nbio.Conn over loopback:
//
//	cd /verif && GOFLAGS=-mod=mod GOPROXY=off unshare -rn bash -c 'ip link set lo up; go test -count=1 ./notes/repro/C09_refused_write_then_transfer_encoding/'
//
// The test FAILS while the defect is present.
package repro

import (
	"bufio"
	"bytes"
	"io"
	"net"
	"net/http"
	"testing"
	"time"

	"github.com/lesismal/nbio/nbhttp"
)

func TestRefusedWriteThenTransferEncoding(t *testing.T) {
	mux := http.NewServeMux()
	mux.HandleFunc("/data", func(w http.ResponseWriter, r *http.Request) {
		w.Header().Set("Content-Length", "5")
		if n, err := w.Write([]byte("hello!")); n != 0 || err != http.ErrContentLength {
			t.Errorf("overrunning Write = %d, %v", n, err)
		}
		w.Header().Set("Transfer-Encoding", "chunked")
		_, _ = w.Write([]byte("hello"))
	})
	mux.HandleFunc("/ping", func(w http.ResponseWriter, r *http.Request) {
		w.Header().Set("Content-Length", "4")
		_, _ = w.Write([]byte("pong"))
	})
	engine := nbhttp.NewEngine(nbhttp.Config{Network: "tcp", Addrs: []string{"127.0.0.1:0"}, Handler: mux})
	if err := engine.Start(); err != nil {
		t.Fatalf("start: %v", err)
	}
	defer engine.Stop()

	conn, err := net.Dial("tcp", engine.Addrs[0])
	if err != nil {
		t.Fatalf("dial: %v", err)
	}
	defer conn.Close()
	_ = conn.SetDeadline(time.Now().Add(5 * time.Second))
	if _, err := io.WriteString(conn, "GET /data HTTP/1.1\r\nHost: x\r\n\r\nGET /ping HTTP/1.1\r\nHost: x\r\nConnection: close\r\n\r\n"); err != nil {
		t.Fatal(err)
	}
	wire, _ := io.ReadAll(conn)
	br := bufio.NewReader(bytes.NewReader(wire))
	resp1, err := http.ReadResponse(br, &http.Request{Method: "GET"})
	if err != nil {
		t.Fatalf("response 1 does not parse: %v\nwire: %q", err, wire)
	}
	body1, err := io.ReadAll(resp1.Body)
	if err != nil || string(body1) != "hello" {
		t.Errorf("response 1: body %q, error %v (the handler wrote \"hello\"); Transfer-Encoding=%v Content-Length=%d\nwire: %q",
			body1, err, resp1.TransferEncoding, resp1.ContentLength, wire)
	}
	resp2, err := http.ReadResponse(br, &http.Request{Method: "GET"})
	if err != nil {
		t.Fatalf("what follows response 1 is not the response to the second request: %v\nwire: %q", err, wire)
	}
	body2, _ := io.ReadAll(resp2.Body)
	if string(body2) != "pong" {
		t.Errorf("response 2: body %q, want \"pong\"", body2)
	}
}

// C08 findings "malformed-framing-accepted missing-CR line=...": stand-alone reproduction on
// plain /repo of the five places where nbhttp accepts a bare LF instead of CRLF in message
// framing and delivers a guessed message.
// Run: cd /verif && go test ./notes/repro/C08_bare_lf_accepted/
// Every sub-test FAILS while its defect is present.
package repro

import (
	"io"
	"net"
	"net/http"
	"testing"
	"time"

	"github.com/lesismal/nbio/nbhttp"
)

type addr struct{}

func (addr) Network() string { return "tcp" }
func (addr) String() string  { return "192.0.2.1:1" }

type conn struct{}

func (conn) Read([]byte) (int, error)         { return 0, io.EOF }
func (conn) Write(b []byte) (int, error)      { return len(b), nil }
func (conn) Close() error                     { return nil }
func (conn) LocalAddr() net.Addr              { return addr{} }
func (conn) RemoteAddr() net.Addr             { return addr{} }
func (conn) SetDeadline(time.Time) error      { return nil }
func (conn) SetReadDeadline(time.Time) error  { return nil }
func (conn) SetWriteDeadline(time.Time) error { return nil }

type seen struct {
	body    string
	trailer http.Header
	status  string
	header  http.Header
}

// parse feeds stream to a fresh parser wired to the real Server/ClientProcessor.
func parse(stream string, client bool) (out []seen, err error) {
	inline := func(f func()) { f() }
	engine := nbhttp.NewEngine(nbhttp.Config{ServerExecutor: inline, ClientExecutor: inline,
		Handler: http.HandlerFunc(func(w http.ResponseWriter, r *http.Request) {
			b, _ := io.ReadAll(r.Body)
			out = append(out, seen{body: string(b), trailer: r.Trailer.Clone(), header: r.Header.Clone()})
		})})
	var proc nbhttp.Processor = nbhttp.NewServerProcessor()
	if client {
		proc = nbhttp.NewClientProcessor(&nbhttp.ClientConn{Engine: engine}, func(res *http.Response, err error) {
			if res == nil {
				return
			}
			var b []byte
			if res.Body != nil {
				b, _ = io.ReadAll(res.Body)
			}
			out = append(out, seen{body: string(b), trailer: res.Trailer.Clone(), status: res.Status, header: res.Header.Clone()})
		})
	}
	p := nbhttp.NewParser(conn{}, engine, proc, client, nil)
	err = p.Parse([]byte(stream))
	return out, err
}

func expectRejected(t *testing.T, stream string, client bool) {
	t.Helper()
	out, err := parse(stream, client)
	if len(out) > 0 {
		t.Errorf("the malformed message was delivered (err=%v): %+v", err, out[0])
	} else if err == nil {
		t.Errorf("no error and nothing delivered")
	}
}

const reqHead = "POST / HTTP/1.1\r\nHost: h\r\nTransfer-Encoding: chunked\r\n"

func TestChunkSizeLineBareLF(t *testing.T) {
	// valid form: "3;x\r\nabc\r\n5;x\r\n0\r\n\r\n\r\n0\r\n\r\n" (chunks "abc" and "0\r\n\r\n")
	expectRejected(t, reqHead+"\r\n3;x\nabc\r\n5;x\r\n0\r\n\r\n\r\n0\r\n\r\n", false)
}

func TestLastChunkLineBareLF(t *testing.T) {
	expectRejected(t, reqHead+"\r\n3\r\nabc\r\n0\n\r\n\r\n", false)
}

func TestTrailerLineBareLF(t *testing.T) {
	expectRejected(t, reqHead+"Trailer: A\r\n\r\n3\r\nabc\r\n0\r\nA: 1\n\r\n\r\n", false)
}

func TestFinalBlankLineBareLF(t *testing.T) {
	expectRejected(t, reqHead+"Trailer: A\r\n\r\n3\r\nabc\r\n0\r\nA: 1\r\n\n\r\n", false)
}

func TestStatusLineBareLF(t *testing.T) {
	expectRejected(t, "HTTP/1.1 200 OK\nX-A: v\r\nContent-Length: 0\r\n\r\n", true)
}

// F4 (core nbio, found by the real-socket history enumeration as the anomaly
// `connection-closed-by-server-at-a-quiet-point`): a stale epoll event closes a NEW, innocent
// connection that reuses the descriptor number of a connection that has just been closed.
//
// The poller fetches a batch with epoll_wait and only then maps each event to a connection BY
// DESCRIPTOR NUMBER (poller.getConn(fd) -> engine.connsUnix[fd]). When the connection an event was
// fetched for is closed by ANOTHER goroutine between the fetch and the processing (here:
// poller.finishOpen, which completes a close that arrived while addConn was still registering the
// connection; a user Close or a deadline timer do the same), its number is free, the next accepted
// connection gets it (lowest free descriptor) and is entered into connsUnix[fd]; the poller then
// applies the old event - EPOLLIN|EPOLLRDHUP of the old peer's shutdown - to the new connection:
// read -> EAGAIN, then `ev.Events&epollEventsError != 0` -> closeWithError(io.EOF). strace of one
// occurrence (nbio fd 5, poller in epoll_wait(3)):
//
//	epoll_wait(3, [{EPOLLIN|EPOLLRDHUP, fd=5}])      old connection, close deferred to finishOpen,
//	... (repeated: level triggered, getConn(5) is closed)  the poller spins and always holds a batch
//	close(5)                                          finishOpen on the accept goroutine
//	socketpair; dup(9) = 5                            the next connection gets number 5
//	epoll_ctl(3, EPOLL_CTL_ADD, 5 ...)                connsUnix[5] = new connection
//	read(5) = EAGAIN                                  the poller processes its STALE event on it
//	close(5)                                          and closes it with io.EOF
//
// Public API only, AF_UNIX socket pairs (no listener needed). The race needs the scheduler's help:
// the test repeats the history for its budget (90 s, REPRO_SECONDS overrides) and FAILS as soon as
// the race happens. Before the repair (/repo 16fe2c4: every registration gets a number that is
// stored in the epoll data next to the descriptor, the poller drops an event whose number differs
// from the connection found under the descriptor) it happened once in a few thousand rounds on a
// loaded machine (round 1216 after 6 s; after 86 s in a second run). On 16fe2c4: 70525 rounds in
// 240 s under load, never. The test is kept as a regression test: it PASSES when the race never
// happens within the budget.
//
//	cd /verif && GOFLAGS=-mod=mod GOPROXY=off GOMAXPROCS=2 go test -count=1 -timeout 10m ./notes/repro/nbio_stale_epoll_event_closes_new_conn_on_reused_fd/
package repro

import (
	"errors"
	"io"
	"net"
	"os"
	"strconv"
	"syscall"
	"testing"
	"time"

	"github.com/lesismal/nbio"
	"github.com/lesismal/nbio/logging"
)

func pair(t *testing.T) (srv net.Conn, cli *net.UnixConn) {
	fds, err := syscall.Socketpair(syscall.AF_UNIX, syscall.SOCK_STREAM|syscall.SOCK_CLOEXEC, 0)
	if err != nil {
		t.Fatal(err)
	}
	sf, cf := os.NewFile(uintptr(fds[0]), "s"), os.NewFile(uintptr(fds[1]), "c")
	defer sf.Close()
	defer cf.Close()
	s, err := net.FileConn(sf)
	if err != nil {
		t.Fatal(err)
	}
	c, err := net.FileConn(cf)
	if err != nil {
		t.Fatal(err)
	}
	return s, c.(*net.UnixConn)
}

func TestNewConnectionOnReusedDescriptorIsNotClosedByStaleEvent(t *testing.T) {
	logging.SetLevel(logging.LevelNone)
	e := nbio.NewEngine(nbio.Config{NPoller: 1})
	opened := make(chan struct{}, 4)
	e.OnOpen(func(c *nbio.Conn) { opened <- struct{}{} })
	e.OnData(func(c *nbio.Conn, data []byte) {})
	if err := e.Start(); err != nil {
		t.Fatal(err)
	}
	defer e.Stop()

	budget := 90 * time.Second
	if v, err := strconv.Atoi(os.Getenv("REPRO_SECONDS")); err == nil && v > 0 {
		budget = time.Duration(v) * time.Second
	}
	deadline := time.Now().Add(budget)
	rounds := 0
	for time.Now().Before(deadline) {
		rounds++
		// connection A: its peer shuts down its sending side as soon as A was reported open,
		// i.e. while AddConn may still be registering it
		sa, ca := pair(t)
		go func() { _, _ = e.AddConn(sa) }()
		<-opened
		_ = ca.CloseWrite()
		_ = ca.SetReadDeadline(time.Now().Add(10 * time.Second))
		if _, err := ca.Read(make([]byte, 1)); err != io.EOF {
			t.Fatalf("round %d: connection A was not closed by the engine after its peer's shutdown: %v", rounds, err)
		}
		_ = ca.Close()
		// connection B: idle. Nobody asks for it to be closed.
		sb, cb := pair(t)
		go func() { _, _ = e.AddConn(sb) }()
		<-opened
		_ = cb.SetReadDeadline(time.Now().Add(3 * time.Millisecond))
		_, err := cb.Read(make([]byte, 1))
		var ne net.Error
		if !(errors.As(err, &ne) && ne.Timeout()) {
			t.Fatalf("round %d: the idle, freshly added connection B was closed by the engine (%v): a stale event of connection A was applied to it", rounds, err)
		}
		_ = cb.Close()
	}
	t.Logf("the race did not happen in %d rounds (%v)", rounds, budget)
}

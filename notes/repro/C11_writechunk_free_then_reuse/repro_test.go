// C11: Response.writeChunk, large path with a pending buffer (nbhttp/response.go:244-271): the
// pending buffer is written to the connection and returned to the pool with mempool.Free(pbuf);
// the very next statements reset it ('*pbuf = (*pbuf)[0:0]') and keep using it: Append(pbuf, data),
// conn.Write(*pbuf) and a second Free(pbuf) — or it is stored in res.buffer and used by later
// writes. With the real pool this is a double free: the same *[]byte is handed to two later
// Malloc callers (cross-connection corruption). Trigger: any chunked response whose chunk makes
// pending bytes + chunk >= 64 KiB while something is pending, e.g. the very first Write(70000) of a
// HTTP/1.1 response (the encoded head is the pending buffer).
//
// Stand-alone reproduction against plain /repo (public API only, no verification framework):
//
//	cd /verif && GOFLAGS=-mod=mod GOPROXY=off go test ./notes/repro/C11_writechunk_free_then_reuse/
//
// The tests FAIL while the defect is present.
package repro

import (
	"bytes"
	"io"
	"net"
	"net/http"
	"testing"
	"time"

	"github.com/lesismal/nbio/mempool"
	"github.com/lesismal/nbio/nbhttp"
)

// checkingAllocator hands out fresh memory and records misuse of handles it already got back.
type checkingAllocator struct {
	freed  map[*[]byte]bool
	events []string
}

func (a *checkingAllocator) Malloc(size int) *[]byte {
	b := make([]byte, size)
	return &b
}
func (a *checkingAllocator) Realloc(p *[]byte, size int) *[]byte {
	if a.freed[p] {
		a.events = append(a.events, "Realloc of a freed buffer")
	}
	if size <= cap(*p) {
		*p = (*p)[:size]
		return p
	}
	b := make([]byte, size)
	copy(b, *p)
	return &b
}
func (a *checkingAllocator) Append(p *[]byte, more ...byte) *[]byte {
	if a.freed[p] {
		a.events = append(a.events, "Append to a freed buffer")
	}
	*p = append(*p, more...)
	return p
}
func (a *checkingAllocator) AppendString(p *[]byte, more string) *[]byte {
	if a.freed[p] {
		a.events = append(a.events, "AppendString to a freed buffer")
	}
	*p = append(*p, more...)
	return p
}
func (a *checkingAllocator) Free(p *[]byte) {
	if p == nil {
		return
	}
	if a.freed[p] {
		a.events = append(a.events, "second Free of the same buffer")
	}
	a.freed[p] = true
}

type fakeConn struct{ wire bytes.Buffer }
type fakeAddr struct{}

func (fakeAddr) Network() string                       { return "tcp" }
func (fakeAddr) String() string                        { return "192.0.2.1:1" }
func (c *fakeConn) Write(b []byte) (int, error)        { c.wire.Write(b); return len(b), nil }
func (c *fakeConn) Read(b []byte) (int, error)         { return 0, io.EOF }
func (c *fakeConn) Close() error                       { return nil }
func (c *fakeConn) LocalAddr() net.Addr                { return fakeAddr{} }
func (c *fakeConn) RemoteAddr() net.Addr               { return fakeAddr{} }
func (c *fakeConn) SetDeadline(t time.Time) error      { return nil }
func (c *fakeConn) SetReadDeadline(t time.Time) error  { return nil }
func (c *fakeConn) SetWriteDeadline(t time.Time) error { return nil }

func run(t *testing.T, h http.HandlerFunc) []string {
	a := &checkingAllocator{freed: map[*[]byte]bool{}}
	old := mempool.DefaultMemPool
	mempool.DefaultMemPool = a
	defer func() { mempool.DefaultMemPool = old }()
	engine := nbhttp.NewEngine(nbhttp.Config{Handler: h, ServerExecutor: func(f func()) { f() }, SupportServerOnly: true, BodyAllocator: a})
	parser := nbhttp.NewParser(&fakeConn{}, engine, nbhttp.NewServerProcessor(), false, nil)
	if err := parser.Parse([]byte("GET / HTTP/1.1\r\nHost: x\r\n\r\n")); err != nil {
		t.Fatal(err)
	}
	return a.events
}

func TestFirstLargeChunk(t *testing.T) {
	ev := run(t, func(w http.ResponseWriter, r *http.Request) {
		w.Write(make([]byte, 70000))
	})
	if len(ev) > 0 {
		t.Errorf("pooled buffer misused: %q", ev)
	}
}

func TestLargeChunkAfterSmallChunk(t *testing.T) {
	ev := run(t, func(w http.ResponseWriter, r *http.Request) {
		w.Write(make([]byte, 131072))
		w.Write(make([]byte, 5000))
		w.Write(make([]byte, 70000))
	})
	if len(ev) > 0 {
		t.Errorf("pooled buffer misused: %q", ev)
	}
}

// With the real pool the double free makes two later Malloc calls return the same buffer.
func TestRealPoolHandsOutTheSameBufferTwice(t *testing.T) {
	engine := nbhttp.NewEngine(nbhttp.Config{Handler: http.HandlerFunc(func(w http.ResponseWriter, r *http.Request) {
		w.Write(make([]byte, 40000)) // pending: head + chunk (< 64 KiB), buffer cap stays below the pool's 64 KiB free limit
		w.Write(make([]byte, 30000)) // large path with a pending buffer: Free, reuse, Free
	}), ServerExecutor: func(f func()) { f() }, SupportServerOnly: true})
	parser := nbhttp.NewParser(&fakeConn{}, engine, nbhttp.NewServerProcessor(), false, nil)
	if err := parser.Parse([]byte("GET / HTTP/1.1\r\nHost: x\r\n\r\n")); err != nil {
		t.Fatal(err)
	}
	seen := map[*[]byte]bool{}
	for i := 0; i < 64; i++ {
		p := mempool.Malloc(16)
		if seen[p] {
			t.Fatalf("mempool.Malloc returned the same *[]byte %p to two owners that both still hold it", p)
		}
		seen[p] = true
	}
}

// Package vsched is a cooperative, fully controlled scheduler for real Go code whose
// synchronisation, time and system-call operations have been redirected to the vshim packages.
//
// Exactly one managed goroutine ("thread") runs at a time. A thread gives up control only at
// scheduling points (Point / Block / Choose). Which thread runs next, and which answer the
// environment gives, is decided by the explorer (explore.go), which enumerates every
// possibility within a preemption / deviation bound.
//
// Outside an execution (Active()==false) all shims behave natively ("passthrough").
package vsched

import (
	"fmt"
	"runtime"
	"runtime/debug"
	"strings"
	"sync"
	"sync/atomic"
	"time"
)

// ---------------------------------------------------------------------------------------------
// objects and happens-before hashing

// Obj is embedded in every shim object. It carries the per-execution identity and the
// happens-before hash chain of the object.
type Obj struct {
	epoch uint64
	id    uint64
	lastW uint64 // hash of the last write step on the object
	rdX   uint64 // commutative accumulation of the read steps since the last write
}

func mix(a, b uint64) uint64 {
	x := a ^ (b + 0x9e3779b97f4a7c15 + (a << 6) + (a >> 2))
	x ^= x >> 30
	x *= 0xbf58476d1ce4e5b9
	x ^= x >> 27
	x *= 0x94d049bb133111eb
	x ^= x >> 31
	return x
}

func mixs(vs ...uint64) uint64 {
	h := uint64(0x1234567)
	for _, v := range vs {
		h = mix(h, v)
	}
	return h
}

// HashString is a helper for kinds.
func HashString(s string) uint64 {
	h := uint64(14695981039346656037)
	for i := 0; i < len(s); i++ {
		h ^= uint64(s[i])
		h *= 1099511628211
	}
	return h
}

func (o *Obj) touch(s *Sched, t *Thread) {
	if o.epoch != s.epoch {
		o.epoch = s.epoch
		t.nonce++
		o.id = mixs(t.last, t.nonce, 0xabcdef)
		o.lastW = 0
		o.rdX = 0
	}
}

// Fresh reports whether the object has not been used in the current execution yet, and marks
// it used. Shim types use it to reset their state lazily (objects living in package-level
// variables survive from one execution to the next).
func (o *Obj) Fresh() bool {
	s := cur
	if s == nil {
		return false
	}
	if o.epoch != s.epoch {
		o.touch(s, s.cur)
		return true
	}
	return false
}

// ---------------------------------------------------------------------------------------------
// threads

type tstate int

const (
	tRunnable tstate = iota
	tFinished
)

// Thread is one managed goroutine.
type Thread struct {
	ID      int
	Name    string
	wake    chan struct{}
	state   tstate
	waitFor func() bool // nil: enabled; else enabled iff waitFor()
	waitWhy string
	idle    bool // waiting for global idleness (WaitIdle)
	last    uint64
	nonce   uint64
	steps   int
	Daemon  bool // informational: blocked forever is expected (poller, dispatcher)
	started bool
	fn      func()
}

// BlockedInfo describes a thread that was not finished when the execution ended.
type BlockedInfo struct {
	ID     int
	Name   string
	Why    string
	Daemon bool
}

// ---------------------------------------------------------------------------------------------
// scheduler

// ChoiceRec is one recorded choice point of an execution.
type ChoiceRec struct {
	N       int    // number of options
	Chosen  int    // option taken
	Kind    uint8  // 0 thread choice, 1 environment choice
	Preempt bool   // thread choice: option 0 is the running thread and it is still enabled
	Key     uint64 // state key before the choice (0 if caching is off)
	Label   string
}

// Timer hooks (implemented by vtime) so that pending virtual timers take part in scheduling.
type TimerSource interface {
	// Pending returns the number of distinct timer events that could fire next.
	Pending() int
	// Fire fires the i-th pending event (advancing the clock as needed).
	Fire(i int)
	// Reset is called at the start of each execution.
	Reset()
	// Describe the i-th pending event.
	Describe(i int) string
}

type Sched struct {
	epoch    uint64
	threads  []*Thread
	cur      *Thread
	env      *Thread // pseudo thread that performs environment events (timer fires)
	aborting int32
	done     chan struct{}
	wg       sync.WaitGroup

	// exploration
	consec  int // consecutive points passed by the running thread without a switch
	prefix  []int
	choices []ChoiceRec
	steps   int
	horizon int
	trace   uint64
	nsteps  int

	// results
	Deadlock  bool
	Livelock  bool
	LiveWho   string
	Failures  []string
	failStop  bool
	panicked  string
	Pruned    bool
	timers    TimerSource
	autoTimer bool

	opts *Options
	ex   *Explorer

	log      []string
	logging  bool
	cleanups []func()
}

// FairSteps is the number of consecutive scheduling points after which the running thread
// yields to the other enabled threads (see enabledList).
var FairSteps = 400

var cur *Sched // the active execution; nil in passthrough mode

var epochCounter uint64

// Active reports whether an execution is in progress (shims must not passthrough).
func Active() bool {
	s := cur
	return s != nil && atomic.LoadInt32(&s.aborting) == 0
}

// Native is the negation of Active, used by rewritten select statements.
func Native() bool { return !Active() }

// Aborting reports whether the current execution is being torn down; shims return at once.
func Aborting() bool {
	s := cur
	return s != nil && atomic.LoadInt32(&s.aborting) != 0
}

// Cur returns the running thread id (or -1).
func Cur() int {
	s := cur
	if s == nil || s.cur == nil {
		return -1
	}
	return s.cur.ID
}

// CurName returns the name of the running thread.
func CurName() string {
	s := cur
	if s == nil || s.cur == nil {
		return ""
	}
	return s.cur.Name
}

type abortSignal struct{}

func (s *Sched) newThread(name string, fn func()) *Thread {
	t := &Thread{ID: len(s.threads), Name: name, wake: make(chan struct{}, 1), fn: fn}
	s.threads = append(s.threads, t)
	return t
}

func (s *Sched) startThread(t *Thread) {
	t.started = true
	s.wg.Add(1)
	go func() {
		defer s.wg.Done()
		<-t.wake
		if atomic.LoadInt32(&s.aborting) != 0 {
			return
		}
		defer func() {
			if atomic.LoadInt32(&s.aborting) != 0 {
				// torn down (Goexit or late panic during teardown): nothing to do
				_ = recover()
				return
			}
			if r := recover(); r != nil {
				s.panicked = fmt.Sprintf("thread %d (%s) panicked: %v\n%s", t.ID, t.Name, r, debug.Stack())
				s.Failures = append(s.Failures, "PANIC: "+fmt.Sprint(r))
			}
			t.state = tFinished
			s.logf("T%d finished", t.ID)
			s.switchAway(t, true)
		}()
		t.fn()
	}()
}

// Go spawns a managed thread (or a native goroutine in passthrough mode).
func Go(fn func()) { GoNamed("", fn) }

// GoNamed spawns a named managed thread.
func GoNamed(name string, fn func()) *Thread {
	s := cur
	if s == nil {
		go fn()
		return nil
	}
	if atomic.LoadInt32(&s.aborting) != 0 {
		return nil
	}
	p := s.cur
	if name == "" {
		name = callerName(3)
	}
	t := s.newThread(name, fn)
	p.nonce++
	sp := mixs(p.last, p.nonce, 0x5157)
	p.last = sp
	t.last = mix(sp, 0xc0ffee)
	s.logf("T%d spawns T%d (%s)", p.ID, t.ID, name)
	s.startThread(t)
	return t
}

func callerName(skip int) string {
	pc, _, line, ok := runtime.Caller(skip)
	if !ok {
		return "?"
	}
	f := runtime.FuncForPC(pc)
	n := "?"
	if f != nil {
		n = f.Name()
		if i := strings.LastIndex(n, "/"); i >= 0 {
			n = n[i+1:]
		}
	}
	return fmt.Sprintf("%s:%d", n, line)
}

// SetDaemon marks the running thread as one that is expected to stay blocked forever.
func SetDaemon() {
	if s := cur; s != nil && s.cur != nil {
		s.cur.Daemon = true
	}
}

// enabledList returns the canonical ordered list of enabled schedulable entities.
// Entries >= 0 are thread ids; entries < 0 are timer events (-1-i).
func (s *Sched) enabledList(buf []int) (list []int, preempt bool) {
	list = buf[:0]
	c := s.cur
	curEnabled := c != nil && c.state == tRunnable && !c.idle && (c.waitFor == nil || c.waitFor())
	// fairness: a thread that has passed FairSteps consecutive points while others were
	// waiting to run goes to the back of the line (a spin loop that waits for another enabled
	// thread is not a livelock under the fair scheduler of the real runtime).
	yield := curEnabled && s.consec >= FairSteps
	if curEnabled && !yield {
		list = append(list, c.ID)
	}
	for _, t := range s.threads {
		if t == c || t.state != tRunnable || t.idle {
			continue
		}
		if t.waitFor == nil || t.waitFor() {
			list = append(list, t.ID)
		}
	}
	if yield {
		if len(list) == 0 {
			list = append(list, c.ID) // nobody else can run: keep going (a real livelock hits the horizon)
		} else {
			curEnabled = false // the spinner sits this round out; no alternative is offered
		}
	}
	if len(list) == 0 {
		// idle waiters are enabled only when nobody else is
		for _, t := range s.threads {
			if t.state == tRunnable && t.idle {
				list = append(list, t.ID)
			}
		}
	}
	if s.autoTimer && s.timers != nil {
		n := s.timers.Pending()
		for i := 0; i < n; i++ {
			list = append(list, -1-i)
		}
	}
	return list, curEnabled
}

func (s *Sched) stateKey() uint64 {
	h := uint64(0x51a7e)
	for _, t := range s.threads {
		st := uint64(t.state)
		if t.idle {
			st |= 4
		}
		h = mix(h, mix(t.last, st))
	}
	if s.cur != nil {
		h = mix(h, uint64(s.cur.ID)+1)
	}
	h = mix(h, s.env.last)
	return h
}

// schedule picks the next thread to run. Called by the running thread t (which may be blocked
// or finished). Returns when t has been chosen again (never returns for a finished thread).
func (s *Sched) switchAway(t *Thread, finished bool) {
	var buf [16]int
	for {
		list, curEnabled := s.enabledList(buf[:])
		if len(list) == 0 {
			s.endExecution(t, finished)
			return
		}
		s.steps++
		if s.steps > s.horizon {
			s.Livelock = true
			s.LiveWho = s.hottestThread()
			s.endExecution(t, finished)
			return
		}
		idx := 0
		if len(list) > 1 {
			idx = s.choose(len(list), 0, curEnabled, "")
			if s.Pruned {
				s.endExecution(t, finished)
				return
			}
		}
		pick := list[idx]
		if pick < 0 {
			// a virtual timer fires: runs inline on this goroutine's time slice, but logically it
			// is an environment event; it may spawn threads or make others enabled.
			ti := -1 - pick
			s.logf("timer fires: %s", s.timers.Describe(ti))
			saved := s.cur
			s.cur = s.env
			s.timers.Fire(ti)
			s.cur = saved
			continue
		}
		nt := s.threads[pick]
		if nt == t && !finished {
			t.waitFor = nil
			t.idle = false
			s.consec++
			return
		}
		s.consec = 0
		s.cur = nt
		nt.waitFor = nil
		nt.idle = false
		nt.wake <- struct{}{}
		if finished {
			return
		}
		<-t.wake
		if atomic.LoadInt32(&s.aborting) != 0 {
			runtime.Goexit()
		}
		return
	}
}

func (s *Sched) hottestThread() string {
	best := -1
	var bt *Thread
	for _, t := range s.threads {
		if t.steps > best {
			best, bt = t.steps, t
		}
	}
	if bt == nil {
		return ""
	}
	return fmt.Sprintf("T%d(%s) steps=%d", bt.ID, bt.Name, bt.steps)
}

func (s *Sched) endExecution(t *Thread, finished bool) {
	// Called on the goroutine of thread t. Signal the controller, then leave.
	atomic.StoreInt32(&s.aborting, 1)
	close(s.done)
	if !finished {
		runtime.Goexit()
	}
}

// Point is a scheduling point: the running thread offers to be preempted.
func Point() {
	s := cur
	if s == nil {
		return
	}
	if atomic.LoadInt32(&s.aborting) != 0 {
		return
	}
	t := s.cur
	t.steps++
	s.switchAway(t, false)
	t.last = mix(t.last, 0x9017) // control progress: the thread is past this point
}

// Block parks the running thread until cond() holds. cond is evaluated by whichever thread is
// running, always in a quiescent state (no other thread mid-operation).
func Block(why string, cond func() bool) {
	s := cur
	if s == nil {
		panic("vsched.Block outside an execution: " + why)
	}
	if atomic.LoadInt32(&s.aborting) != 0 {
		runtime.Goexit()
	}
	t := s.cur
	t.steps++
	t.waitFor = cond
	t.waitWhy = why
	s.switchAway(t, false)
	t.waitWhy = ""
	t.last = mix(t.last, 0x9018)
}

// PointOrBlock is Point when cond() already holds, else Block.
func PointOrBlock(why string, cond func() bool) {
	Block(why, cond)
}

// WaitIdle parks the running thread until no other thread is enabled.
func WaitIdle() {
	s := cur
	if s == nil {
		panic("vsched.WaitIdle outside an execution")
	}
	if atomic.LoadInt32(&s.aborting) != 0 {
		runtime.Goexit()
	}
	t := s.cur
	t.idle = true
	t.waitWhy = "WaitIdle"
	s.switchAway(t, false)
	t.waitWhy = ""
	// the idle waiter observed global state: order it after everything
	h := t.last
	for _, o := range s.threads {
		if o != t {
			h = mix(h, o.last)
		}
	}
	t.last = h
}

// Record adds a step on obj to the happens-before hash chains. write=false marks an operation
// that commutes with other reads of the same object.
func Record(o *Obj, kind uint64, write bool, result uint64) {
	s := cur
	if s == nil || atomic.LoadInt32(&s.aborting) != 0 {
		return
	}
	t := s.cur
	o.touch(s, t)
	var h uint64
	if write {
		h = mixs(t.last, o.id, kind, o.lastW, o.rdX, result)
		o.lastW = h
		o.rdX = 0
	} else {
		h = mixs(t.last, o.id, kind, o.lastW, result)
		o.rdX += h
	}
	t.last = h
	s.trace = mix(s.trace, h)
	s.nsteps++
}

// Record2 is Record for an operation that involves two objects (both written).
func Record2(o1, o2 *Obj, kind uint64, result uint64) {
	s := cur
	if s == nil || atomic.LoadInt32(&s.aborting) != 0 {
		return
	}
	t := s.cur
	o1.touch(s, t)
	o2.touch(s, t)
	h := mixs(t.last, o1.id, o2.id, kind, o1.lastW, o1.rdX, o2.lastW, o2.rdX, result)
	o1.lastW, o1.rdX = h, 0
	o2.lastW, o2.rdX = h, 0
	t.last = h
	s.trace = mix(s.trace, h)
	s.nsteps++
}

// Choose is an environment choice with n options; 0 is the default, others are deviations.
func Choose(n int, label string) int {
	s := cur
	if s == nil || n <= 1 {
		return 0
	}
	if atomic.LoadInt32(&s.aborting) != 0 {
		return 0
	}
	c := s.choose(n, 1, false, label)
	if s.Pruned {
		s.endExecution(s.cur, false)
	}
	t := s.cur
	t.last = mixs(t.last, 0xc401ce, uint64(n), uint64(c))
	s.trace = mix(s.trace, t.last)
	return c
}

// ChooseFree is an environment choice whose alternatives cost nothing (part of the scenario
// space rather than a deviation), e.g. which ready select case fires.
func ChooseFree(n int, label string) int {
	s := cur
	if s == nil || n <= 1 {
		return 0
	}
	if atomic.LoadInt32(&s.aborting) != 0 {
		return 0
	}
	c := s.choose(n, 2, false, label)
	if s.Pruned {
		s.endExecution(s.cur, false)
	}
	t := s.cur
	t.last = mixs(t.last, 0xc401cf, uint64(n), uint64(c))
	s.trace = mix(s.trace, t.last)
	return c
}

func (s *Sched) choose(n int, kind uint8, preempt bool, label string) int {
	i := len(s.choices)
	var key uint64
	if s.ex != nil && s.ex.cacheOn && i >= len(s.prefix) {
		key = mix(s.stateKey(), uint64(kind)+uint64(n)<<8)
		if s.ex.visited(key, s.choices, kind, preempt) {
			s.Pruned = true
			s.choices = append(s.choices, ChoiceRec{N: n, Chosen: 0, Kind: kind, Preempt: preempt, Key: key, Label: label})
			return 0
		}
	}
	c := 0
	if i < len(s.prefix) {
		c = s.prefix[i]
		if c >= n {
			panic(fmt.Sprintf("vsched: NONDETERMINISM: replayed choice %d out of range %d at choice %d (%s)", c, n, i, label))
		}
	}
	s.choices = append(s.choices, ChoiceRec{N: n, Chosen: c, Kind: kind, Preempt: preempt, Key: key, Label: label})
	if s.logging {
		s.logf("choice#%d kind=%d n=%d -> %d %s", i, kind, n, c, label)
	}
	return c
}

// Fail records an oracle failure for this execution (the execution continues).
func Fail(format string, a ...interface{}) {
	s := cur
	if s == nil {
		panic(fmt.Sprintf(format, a...))
	}
	s.Failures = append(s.Failures, fmt.Sprintf(format, a...))
}

// Logf appends to the execution's trace log when logging is enabled (replay mode).
func Logf(format string, a ...interface{}) {
	s := cur
	if s == nil {
		return
	}
	s.logf(format, a...)
}

func (s *Sched) logf(format string, a ...interface{}) {
	if !s.logging {
		return
	}
	id := -1
	if s.cur != nil {
		id = s.cur.ID
	}
	s.log = append(s.log, fmt.Sprintf("[T%d] ", id)+fmt.Sprintf(format, a...))
}

// Logging reports whether trace logging is on.
func Logging() bool {
	s := cur
	return s != nil && s.logging
}

// OnCleanup registers a function run (natively) after the current execution was torn down.
func OnCleanup(f func()) {
	s := cur
	if s != nil {
		s.cleanups = append(s.cleanups, f)
	}
}

var touchObjs map[string]*Obj

var kTouch = HashString("touch")

func init() {
	OnStart(func() { touchObjs = map[string]*Obj{} })
}

// Touch makes an unsynchronised access to a shared field (listed in cmd/ovgen's racyFields)
// visible: a scheduling point followed by a happens-before step on the field's object. All
// instances of a field share one object (over-approximates dependence, which only costs
// pruning).
func Touch(name string, write bool) {
	s := cur
	if s == nil || atomic.LoadInt32(&s.aborting) != 0 {
		return
	}
	Point()
	o := touchObjs[name]
	if o == nil {
		o = &Obj{}
		touchObjs[name] = o
	}
	Record(o, kTouch, write, 0)
}

// SetTimers installs the virtual timer source.
func SetTimers(ts TimerSource) { timerSource = ts }

var timerSource TimerSource

var startHooks []func()

// OnStart registers a function that runs (natively) before every execution; shims use it to
// reset process-global state.
func OnStart(f func()) { startHooks = append(startHooks, f) }

// Result of one execution.
type Result struct {
	Choices   []ChoiceRec
	Blocked   []BlockedInfo
	Deadlock  bool // some non-daemon thread is blocked at the end
	Livelock  bool
	LiveWho   string
	Failures  []string
	Panic     string
	Trace     uint64
	Steps     int
	Pruned    bool
	Log       []string
	NThreads  int
	StepCount int
}

// Options for one execution.
type Options struct {
	Horizon    int
	AutoTimers bool
	Logging    bool
}

var runMu sync.Mutex

var settleOnce sync.Once

// settle waits (once per process, before the first execution) until every goroutine other than
// the caller is parked. Package initialisers of the code under test start goroutines in
// passthrough mode (websocket.DefaultEngine's task-pool dispatchers); such a goroutine must
// have reached its native blocking select before an execution begins, otherwise it would enter
// the shims while an execution is active and act as if it were the running thread.
func settle() {
	buf := make([]byte, 1<<20)
	quiet := 0
	for i := 0; i < 1000 && quiet < 3; i++ {
		n := runtime.Stack(buf, true)
		st := string(buf[:n])
		busy := strings.Count(st, "[runnable") + strings.Count(st, "[running") + strings.Count(st, "[syscall")
		if busy <= 1 { // the caller itself is running
			quiet++
		} else {
			quiet = 0
		}
		time.Sleep(3 * time.Millisecond)
	}
}

// RunOnce executes body as thread 0 under the given choice prefix and returns the result.
func RunOnce(ex *Explorer, prefix []int, opts *Options, body func()) *Result {
	runMu.Lock()
	defer runMu.Unlock()
	settleOnce.Do(settle)
	epochCounter++
	s := &Sched{epoch: epochCounter, done: make(chan struct{}), prefix: prefix, opts: opts, ex: ex}
	s.horizon = 20000
	if opts != nil {
		if opts.Horizon > 0 {
			s.horizon = opts.Horizon
		}
		s.autoTimer = opts.AutoTimers
		s.logging = opts.Logging
	}
	s.timers = timerSource
	s.env = &Thread{ID: -2, Name: "env", last: 0xe2f}
	for _, f := range startHooks {
		f()
	}
	cur = s
	if s.timers != nil {
		s.timers.Reset()
	}
	t0 := s.newThread("main", body)
	t0.last = 0x7001
	s.cur = t0
	s.startThread(t0)
	t0.wake <- struct{}{}
	<-s.done
	// tear down: release every parked thread; they leave through Goexit.
	for _, t := range s.threads {
		if t.state != tFinished {
			select {
			case t.wake <- struct{}{}:
			default:
			}
		}
	}
	s.wg.Wait()
	cur = nil
	for _, f := range s.cleanups {
		f()
	}
	r := &Result{Choices: s.choices, Livelock: s.Livelock, LiveWho: s.LiveWho, Failures: s.Failures,
		Panic: s.panicked, Trace: s.trace, Steps: s.steps, Pruned: s.Pruned, Log: s.log, NThreads: len(s.threads), StepCount: s.nsteps}
	for _, t := range s.threads {
		if t.state != tFinished {
			why := t.waitWhy
			r.Blocked = append(r.Blocked, BlockedInfo{ID: t.ID, Name: t.Name, Why: why, Daemon: t.Daemon})
			if !t.Daemon && !s.Livelock && !s.Pruned {
				r.Deadlock = true
			}
		}
	}
	return r
}

package vsched

import (
	"fmt"
	"reflect"
	"runtime"
	"sort"
)

// Channel operations of the instrumented code go through Select/Send/Recv/Close. Buffered
// channels keep using their native buffer (operations are performed with non-blocking reflect
// calls by the one running thread); unbuffered channels rendezvous through an offer registry,
// because a managed thread never parks inside a native channel operation.

// Case is one communication clause of a select.
type Case struct {
	send bool
	ch   reflect.Value
	ptr  uintptr
	val  interface{}
	dst  interface{}
	ok   *bool
	nilC bool
}

// CaseRecv builds a receive clause; dst (pointer to the destination) and ok may be nil.
func CaseRecv(ch interface{}, dst interface{}, ok *bool) Case {
	rv := reflect.ValueOf(ch)
	c := Case{ch: rv, dst: dst, ok: ok}
	if !rv.IsValid() || rv.IsNil() {
		c.nilC = true
	} else {
		c.ptr = rv.Pointer()
	}
	return c
}

// CaseSend builds a send clause.
func CaseSend(ch interface{}, v interface{}) Case {
	rv := reflect.ValueOf(ch)
	c := Case{send: true, ch: rv, val: v}
	if !rv.IsValid() || rv.IsNil() {
		c.nilC = true
	} else {
		c.ptr = rv.Pointer()
	}
	return c
}

type offer struct {
	val   reflect.Value
	taken bool
	owner int
}

type chanState struct {
	o      Obj
	offers []*offer
	closed bool
}

var chans map[uintptr]*chanState

func init() {
	OnStart(func() { chans = map[uintptr]*chanState{} })
}

func cstate(ptr uintptr) *chanState {
	cs := chans[ptr]
	if cs == nil {
		cs = &chanState{}
		chans[ptr] = cs
	}
	return cs
}

var kChan = HashString("chan")

func (c *Case) value() reflect.Value {
	et := c.ch.Type().Elem()
	if c.val == nil {
		return reflect.Zero(et)
	}
	v := reflect.ValueOf(c.val)
	if v.Type() != et {
		v = v.Convert(et)
	}
	return v
}

// ready is a pure probe: could the clause proceed right now?
func (c *Case) ready() bool {
	if c.nilC {
		return false
	}
	if c.send {
		if c.ch.Cap() > 0 {
			return c.ch.Len() < c.ch.Cap() || cstate(c.ptr).closed
		}
		return cstate(c.ptr).closed // an unbuffered send completes only through an offer
	}
	if c.ch.Len() > 0 {
		return true
	}
	cs := cstate(c.ptr)
	if len(cs.offers) > 0 {
		return true
	}
	if cs.closed {
		return true
	}
	// foreign close (context, etc.): receiving from an empty channel consumes nothing
	if c.ch.Type().ChanDir()&reflect.RecvDir != 0 {
		v, ok := c.ch.TryRecv()
		if ok {
			panic("vsched: a goroutine outside the scheduler sent on a channel being probed")
		}
		if v.IsValid() {
			cs.closed = true
			return true
		}
	}
	return false
}

func (c *Case) store(v reflect.Value, ok bool) {
	if c.dst != nil {
		reflect.ValueOf(c.dst).Elem().Set(v)
	}
	if c.ok != nil {
		*c.ok = ok
	}
}

// perform executes a ready clause.
func (c *Case) perform() {
	cs := cstate(c.ptr)
	if c.send {
		if cs.closed {
			panic("send on closed channel")
		}
		if !c.ch.TrySend(c.value()) {
			panic("vsched: buffered send failed although probed ready")
		}
		Record(&cs.o, kChan, true, 1)
		return
	}
	if c.ch.Len() > 0 {
		v, ok := c.ch.TryRecv()
		if !ok && !v.IsValid() {
			panic("vsched: receive failed although probed ready")
		}
		c.store(v, true)
		Record(&cs.o, kChan, true, 2)
		return
	}
	if len(cs.offers) > 0 {
		of := cs.offers[0]
		cs.offers = cs.offers[1:]
		of.taken = true
		c.store(of.val, true)
		Record(&cs.o, kChan, true, 3+uint64(of.owner)<<8)
		return
	}
	if cs.closed {
		c.store(reflect.Zero(c.ch.Type().Elem()), false)
		Record(&cs.o, kChan, false, 4)
		return
	}
	panic("vsched: perform on a clause that is not ready")
}

func nativeSelect(blocking bool, cases []Case) int {
	scs := make([]reflect.SelectCase, 0, len(cases)+1)
	for i := range cases {
		c := &cases[i]
		if c.send {
			sc := reflect.SelectCase{Dir: reflect.SelectSend, Chan: c.ch}
			if !c.nilC {
				sc.Send = c.value()
			} else {
				sc.Chan = reflect.Value{}
			}
			scs = append(scs, sc)
		} else {
			sc := reflect.SelectCase{Dir: reflect.SelectRecv, Chan: c.ch}
			if c.nilC {
				sc.Chan = reflect.Value{}
			}
			scs = append(scs, sc)
		}
	}
	if !blocking {
		scs = append(scs, reflect.SelectCase{Dir: reflect.SelectDefault})
	}
	i, v, ok := reflect.Select(scs)
	if i == len(cases) {
		return -1
	}
	if !cases[i].send {
		if !v.IsValid() {
			v = reflect.Zero(cases[i].ch.Type().Elem())
		}
		cases[i].store(v, ok)
	}
	return i
}

// Select runs a select statement: it returns the index of the clause that fired, or -1 for the
// default clause (blocking == false and nothing ready).
func Select(blocking bool, cases ...Case) int {
	if !Active() {
		if Aborting() {
			if blocking {
				runtime.Goexit()
			}
			return -1
		}
		return nativeSelect(blocking, cases)
	}
	s := cur
	var myOffers []*offer
	withdraw := func() {
		for i := range cases {
			c := &cases[i]
			if c.send && !c.nilC && c.ch.Cap() == 0 {
				cs := cstate(c.ptr)
				for j := 0; j < len(cs.offers); j++ {
					for _, mo := range myOffers {
						if cs.offers[j] == mo {
							cs.offers = append(cs.offers[:j], cs.offers[j+1:]...)
							j--
							break
						}
					}
				}
			}
		}
	}
	Point()
	for {
		var ready []int
		for i := range cases {
			if cases[i].ready() {
				ready = append(ready, i)
			}
		}
		if len(ready) > 0 {
			pick := 0
			if len(ready) > 1 {
				pick = ChooseFree(len(ready), "select")
			}
			i := ready[pick]
			cases[i].perform()
			return i
		}
		if !blocking {
			return -1
		}
		// register offers for unbuffered sends, then park
		myOffers = myOffers[:0]
		offerCase := map[*offer]int{}
		for i := range cases {
			c := &cases[i]
			if c.send && !c.nilC && c.ch.Cap() == 0 {
				of := &offer{val: c.value(), owner: s.cur.ID}
				cs := cstate(c.ptr)
				cs.offers = append(cs.offers, of)
				myOffers = append(myOffers, of)
				offerCase[of] = i
				Record(&cs.o, kChan, true, 5)
			}
		}
		Block("chan", func() bool {
			for _, of := range myOffers {
				if of.taken {
					return true
				}
			}
			for i := range cases {
				c := &cases[i]
				if c.send && !c.nilC && c.ch.Cap() == 0 && !cstate(c.ptr).closed {
					continue
				}
				if c.ready() {
					return true
				}
			}
			return false
		})
		for _, of := range myOffers {
			if of.taken {
				withdraw()
				i := offerCase[of]
				Record(&cstate(cases[i].ptr).o, kChan, true, 6)
				return i
			}
		}
		withdraw()
	}
}

// Send is a blocking channel send.
func Send(ch interface{}, v interface{}) {
	Select(true, CaseSend(ch, v))
}

// Recv is a blocking channel receive; dst and ok may be nil.
func Recv(ch interface{}, dst interface{}, ok *bool) {
	Select(true, CaseRecv(ch, dst, ok))
}

// Close closes a channel.
func Close(ch interface{}) {
	rv := reflect.ValueOf(ch)
	if !Active() {
		rv.Close()
		return
	}
	Point()
	cs := cstate(rv.Pointer())
	if cs.closed {
		panic("close of closed channel")
	}
	rv.Close()
	cs.closed = true
	if len(cs.offers) > 0 {
		panic(fmt.Sprintf("vsched: close of channel with %d blocked senders", len(cs.offers)))
	}
	Record(&cs.o, kChan, true, 7)
}

// MapKeysBy returns the keys of a map ordered by rank(key) (a string that is the same in every
// execution of a scenario); see cmd/ovgen orderedMapRange.
func MapKeysBy(m interface{}, rank func(k interface{}) string) []interface{} {
	v := reflect.ValueOf(m)
	if v.Kind() != reflect.Map {
		return nil
	}
	ks := v.MapKeys()
	type kp struct {
		k interface{}
		s string
	}
	tmp := make([]kp, 0, len(ks))
	for _, k := range ks {
		tmp = append(tmp, kp{k.Interface(), rank(k.Interface())})
	}
	sort.SliceStable(tmp, func(i, j int) bool { return tmp[i].s < tmp[j].s })
	out := make([]interface{}, len(tmp))
	for i, x := range tmp {
		out[i] = x.k
	}
	return out
}

// SameKey compares two map keys.
func SameKey(a, b interface{}) bool { return a == b }

package vsched

import (
	"fmt"
	"time"
)

// Explorer enumerates all executions of a body within a preemption bound P and a deviation
// bound D (depth-first, stateless: every execution re-runs the body on fresh objects), with an
// optional happens-before state cache.
type Explorer struct {
	P, D     int
	CacheOn  bool
	cacheOn  bool
	cache    map[uint64]int8
	Opts     Options
	Deadline time.Time // zero: none
	MaxExecs int       // 0: none

	// statistics
	Execs       int
	PrunedExecs int
	Transitions int
	MaxChoices  int
	Complete    bool // the whole space within (P,D) was enumerated
	Outcomes    map[string]int

	// OnResult is called for every complete (not pruned) execution; a non-empty return value
	// is a violation description.
	OnResult func(r *Result) string

	Violations  []Violation
	StopAtFirst bool
}

// Violation is one failing execution.
type Violation struct {
	Desc    string
	Choices []int
	P, D    int
}

func (e *Explorer) visited(key uint64, choices []ChoiceRec, kind uint8, preempt bool) bool {
	usedP, usedD := used(choices)
	remP, remD := e.P-usedP, e.D-usedD
	k := mix(key, uint64(remD)+77)
	if old, ok := e.cache[k]; ok && int(old) >= remP {
		return true
	}
	e.cache[k] = int8(remP)
	return false
}

func used(choices []ChoiceRec) (p, d int) {
	for _, c := range choices {
		if c.Chosen != 0 {
			switch c.Kind {
			case 0:
				if c.Preempt {
					p++
				}
			case 1:
				d++
			}
		}
	}
	return
}

// States is the number of distinct happens-before states seen at choice points.
func (e *Explorer) States() int { return len(e.cache) }

// Explore runs the exhaustive enumeration.
func (e *Explorer) Explore(body func()) {
	e.cacheOn = e.CacheOn
	e.cache = map[uint64]int8{}
	if e.Outcomes == nil {
		e.Outcomes = map[string]int{}
	}
	stack := [][]int{{}}
	e.Complete = true
	for len(stack) > 0 {
		if (!e.Deadline.IsZero() && time.Now().After(e.Deadline)) || (e.MaxExecs > 0 && e.Execs >= e.MaxExecs) {
			e.Complete = false
			return
		}
		prefix := stack[len(stack)-1]
		stack = stack[:len(stack)-1]
		r := RunOnce(e, prefix, &e.Opts, body)
		e.Execs++
		e.Transitions += r.Steps
		if len(r.Choices) > e.MaxChoices {
			e.MaxChoices = len(r.Choices)
		}
		if len(r.Choices) < len(prefix) {
			// The execution did not follow its prefix: state leaked from an earlier execution
			// (e.g. a package-level variable of the code under test). If this execution failed,
			// the failure is recorded before the enumeration is abandoned, so that the caller can
			// still put it through its determinism guard and report it: a machinery error must
			// never be the only trace of a failure that was seen.
			e.Complete = false
			failed := ""
			if !r.Pruned && e.OnResult != nil {
				if d := e.OnResult(r); d != "" {
					p, dd := used(r.Choices)
					e.Violations = append(e.Violations, Violation{Desc: d, Choices: ChoiceInts(r.Choices), P: p, D: dd})
					failed = "; that execution failed: " + d
				}
			}
			panic(fmt.Sprintf("vsched: NONDETERMINISM: execution made %d choices, shorter than replayed prefix %d%s", len(r.Choices), len(prefix), failed))
		}
		if r.Pruned {
			e.PrunedExecs++
		} else if e.OnResult != nil {
			if d := e.OnResult(r); d != "" {
				p, dd := used(r.Choices)
				e.Violations = append(e.Violations, Violation{Desc: d, Choices: ChoiceInts(r.Choices), P: p, D: dd})
				if e.StopAtFirst {
					e.Complete = false
					return
				}
			}
		}
		usedP, usedD := 0, 0
		n := len(r.Choices)
		if r.Pruned {
			n-- // the state at the last choice point was already explored from
		}
		// collect alternatives; deeper positions are pushed last so they are explored first
		for i := 0; i < n; i++ {
			c := r.Choices[i]
			if i >= len(prefix) && c.N > 1 {
				costP, costD := 0, 0
				switch c.Kind {
				case 0:
					if c.Preempt {
						costP = 1
					}
				case 1:
					costD = 1
				}
				if usedP+costP <= e.P && usedD+costD <= e.D {
					for alt := c.N - 1; alt >= 1; alt-- {
						np := make([]int, i+1)
						for j := 0; j < i; j++ {
							np[j] = r.Choices[j].Chosen
						}
						np[i] = alt
						stack = append(stack, np)
					}
				}
			}
			if c.Chosen != 0 {
				switch c.Kind {
				case 0:
					if c.Preempt {
						usedP++
					}
				case 1:
					usedD++
				}
			}
		}
	}
}

// ChoiceInts extracts the chosen indices.
func ChoiceInts(cs []ChoiceRec) []int {
	out := make([]int, len(cs))
	for i, c := range cs {
		out[i] = c.Chosen
	}
	return out
}

// Replay runs one execution under a full choice list with logging and returns its result.
func Replay(choices []int, opts Options, body func()) *Result {
	opts.Logging = true
	return RunOnce(nil, choices, &opts, body)
}

module verif

go 1.23

require golang.org/x/tools v0.29.0

require (
	github.com/lesismal/llib v1.2.4 // indirect
	golang.org/x/crypto v0.0.0-20210513122933-cd7d49e622d5 // indirect
	golang.org/x/sys v0.29.0 // indirect
)

require (
	github.com/lesismal/nbio v0.0.0
	golang.org/x/mod v0.22.0 // indirect
	golang.org/x/sync v0.10.0 // indirect
)

replace github.com/lesismal/nbio => /repo

#!/usr/bin/env python3
"""Generates /verif/MANIFEST.json from the table below (kept next to the checks it describes)."""
import json, os

CHECKS = {
 "C05": dict(
   technique="stateless model checking of the real Conn.Execute/MustExecute code: exhaustive DFS over thread interleavings (iterative preemption bound, happens-before state cache) under a controlled scheduler",
   category="model_checking", design_ref="DESIGN.md §4 C05",
   text="Every interleaving (within the stated preemption bound) of 2-3 submitters x 1-2 jobs, an optional Close and a panicking job is executed on the real connection code for three executors (inline, goroutine-per-call, real taskpool); the oracle checks at-most-once, exactly-once for accepted/Must jobs, no overlap, submission order, and rejection after Close on every execution.",
   note="Interleavings are sequentially consistent and switch only at lock/unlock, atomic, channel and system-call operations of the instrumented copy (sync, sync/atomic, time, syscall redirected by a build overlay generated from /repo's working tree); bound P<=3 quick (P<=2 with the task pool), P<=4 thorough."),
}

NOT_YET = {}

def main():
    props = [json.loads(l) for l in open('/verif/properties.jsonl')]
    checks, na = [], []
    for p in props:
        pid = p['id']
        if pid in CHECKS:
            c = CHECKS[pid]
            checks.append({
                "property_id": pid,
                "quick_cmd": f"bin/check {pid} quick",
                "thorough_cmd": f"bin/check {pid} thorough",
                "evidence_file": f"/verif/evidence/{pid}.json",
                "replay_cmd_template": f"bin/check {pid} quick -replay {{path}}",
                "engine": c.get("engine", "vsched"),
                "level_claimed": {"category": c["category"], "text": c["text"], "design_ref": c["design_ref"]},
                "level_note": c["note"],
                "technique": c["technique"],
            })
        else:
            na.append({"property_id": pid, "reason": NOT_YET.get(pid, "check not built yet (work in progress; will be claimed once its harness exists)")})
    m = {
        "version": 1,
        "setup_cmd": "bin/setup",
        "hooks": {
            "guard": "verif",
            "enable": "go build -tags verif -overlay <generated overlay.json>: the overlay (cmd/ovgen) rewrites copies of /repo's files (imports of sync, sync/atomic, time, syscall, math/rand -> verif/vshim/*; go/select/channel statements -> verif/vsched) and adds the //go:build verif accessor files under /verif/hooks; nothing is committed to /repo",
            "baseline_off_cmd": "cd /repo && go test -vet=off -count=1 -timeout 25m ./...",
            "source_commits": [],
            "add_only": True,
        },
        "engines": [
            {"name": "vsched", "path": "/verif/vsched", "serves_properties": sorted(k for k, v in CHECKS.items() if v.get("engine", "vsched") == "vsched"),
             "kind_free_text": "controlled cooperative scheduler + depth-first stateless explorer with preemption/deviation bounds and a happens-before state cache, run on the real nbio code instrumented by a build overlay (cmd/ovgen, vshim/*)"},
            {"name": "seqx", "path": "/verif/seqx", "serves_properties": sorted(k for k, v in CHECKS.items() if v.get("engine") == "seqx"),
             "kind_free_text": "bounded-exhaustive enumeration of inputs / operation sequences / segmentations against reference models, on the real code"},
        ],
        "checks": checks,
        "not_applicable": na,
        "notes": "All checks are implementation-level model checking (bounded exhaustive exploration of the real code); see DESIGN.md.",
    }
    json.dump(m, open('/verif/MANIFEST.json', 'w'), indent=1)
    print("checks:", [c["property_id"] for c in checks], "n/a:", len(na))

main()

#!/usr/bin/env python3
"""Imports verified seeded changes from the scratch area into /verif/seeded/<ID>-m<k>/ and merges
the coordinator's verification / detection record (seeded/results.json) into each meta.json."""
import json, os, shutil, sys, glob
src = sys.argv[1] if len(sys.argv) > 1 else '/tmp/seed'
res = json.load(open('/verif/seeded/results.json'))
for key, r in sorted(res.items()):
    pid, m = key.split('-')
    d = f'{src}/{pid}/out/{m}'
    out = f'/verif/seeded/{key}'
    if not os.path.isdir(d) and not os.path.isdir(out):
        continue
    os.makedirs(out, exist_ok=True)
    for f in (glob.glob(d + '/*') + glob.glob(d + '/demo/*')) if os.path.isdir(d) else []:
        if os.path.isfile(f) and os.path.getsize(f) < 300000 and not f.endswith('.log'):
            rel = os.path.relpath(f, d)
            os.makedirs(os.path.dirname(os.path.join(out, rel)) or out, exist_ok=True)
            shutil.copy(f, os.path.join(out, rel))
    meta = {}
    if os.path.exists(out + '/meta.json'):
        try:
            meta = json.load(open(out + '/meta.json'))
        except Exception:
            meta = {'raw': open(out + '/meta.json').read()}
    meta['property'] = pid
    meta['coordinator'] = r
    json.dump(meta, open(out + '/meta.json', 'w'), indent=1)
    print('imported', key)

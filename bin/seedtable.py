#!/usr/bin/env python3
"""Prints the DESIGN.md §11 table from seeded/*/meta.json (coordinator record merged by seedimport.py)."""
import json, glob, os, re
rows = []
for d in sorted(glob.glob('/verif/seeded/C*-m*')):
    m = json.load(open(d + '/meta.json'))
    c = m.get('coordinator', {})
    summ = re.sub(r'\s+', ' ', str(m.get('summary', m.get('raw', ''))))[:150].replace('|', '/')
    if c.get('detected'):
        res = 'missed first, caught after strengthening' if c.get('missed_at_first_then_strengthened') else 'caught'
    else:
        res = 'MISSED' + (' (' + c['reach'] + ')' if c.get('reach') else '')
    by = c.get('check', '')
    if c.get('also_caught_by'): by += ' (+' + c['also_caught_by'] + ')'
    sig = str(c.get('signature', '-'))[:95].replace('|', '/')
    rows.append('| %s | %s | %s | %s | %s |' % (os.path.basename(d), summ, by, res, sig))
table = '| change | what it does (author\'s summary, truncated) | check | result (quick tier) | signature(s) |\n|---|---|---|---|---|\n' + '\n'.join(rows) + '\n'
import sys
if '--update' in sys.argv:
    p = '/verif/DESIGN.md'
    s = open(p).read()
    a, b = s.index('<!-- seedtable:begin -->'), s.index('<!-- seedtable:end -->')
    s = s[:a] + '<!-- seedtable:begin -->\n' + table + s[b:]
    open(p, 'w').write(s)
    n = len(rows); caught = sum(1 for r in rows if '| caught |' in r); later = sum(1 for r in rows if 'after strengthening' in r); missed = sum(1 for r in rows if 'MISSED' in r)
    print('rows', n, 'caught at once', caught, 'after strengthening', later, 'missed', missed)
else:
    print(table)

package respgen

import (
	"fmt"
	"strings"

	"verif/track"
)

// Config bounds the program space.
type Config struct {
	Depth     int      // maximal program length
	Split     int      // levels explored (identically) by every worker; deeper sub-trees are sharded
	Targets   []int    // internal buffer sizes the computed write sizes must land on
	WFixed    []int    // fixed sizes of Write
	WSFixed   []int    // fixed sizes of WriteString
	WSTargets []int    // targets of WriteString (subset of Targets)
	CLFixed   []int    // fixed Content-Length declarations
	CLTargets []int    // Content-Length declarations head+body == target
	RFB       []int    // sizes of ReadFrom(bytes.Reader)
	RFLimit   int      // limit of the io.LimitedReader around the file
	ConnKinds []string // connection kinds tried by the first file operation of a program
	Versions  []int    // request versions (indexes into Versions)
	// RFX enables the file-segment family of ReadFrom (OpRFX): limit N in {0, 1, what is left of the
	// file, that + 1, more than the whole file} x file offset {0, middle, end of file} x connection
	// kind. The whole family is offered where a positive Content-Length is declared (the one
	// situation in which the response writer may hand the file to the connection's Sendfile);
	// elsewhere - every segment then goes through io.Copy and Write - a reduced one.
	//   RFXWide false (quick): on a connection without Sendfile only {nothing, one byte, a limit
	//   beyond the end of the file, limit 1 at the end of the file}; where no Content-Length is
	//   declared only the empty segment and "limit 1 at the end of the file", on a connection with
	//   Sendfile; a state whose body is not the pattern's prefix any more (a displaced segment) is
	//   only completed: the rest of the declared length, a Flush.
	//   RFXWide true (thorough): the whole family on every connection kind where a Content-Length
	//   is declared; {0, 1, beyond the end} at the middle and limit 1 at the end of the file, on every
	//   connection kind, elsewhere; displaced states are expanded like any other.
	RFX     bool
	RFXWide bool
	// Overrun offers, wherever a positive Content-Length is declared, attempts to write more than it
	// leaves room for: Write of rest+1 and rest+64 KiB bytes, WriteString and ReadFrom(bytes.Reader)
	// of rest+1 (OverrunWide: of both sizes). The program goes on afterwards (the refused call
	// changes nothing); with Pipeline such programs get the follow-up request as well.
	Overrun     bool
	OverrunWide bool
	// Pipeline: programs that read from a file are followed, on the keep-alive request versions, by
	// a second request on the same connection (Program.Next).
	Pipeline bool
	// KeyConn makes the connection kind / pipelining of a program part of the BFS state key (a file
	// operation that leaves the Response untouched, like an empty segment, otherwise merges with
	// its parent and what follows it on that kind of connection is never explored).
	KeyConn bool
}

// WithFileSegments turns on the OpRFX family, the pipelined follow-up request and the finer state
// key (the C09 space; C11 keeps the plain alphabet).
func (c Config) WithFileSegments(wide bool) Config {
	c.RFX, c.RFXWide, c.Pipeline, c.KeyConn = true, wide, true, wide
	c.Overrun = true
	if !contains(c.CLFixed, 1) {
		// so that a one-byte segment can be all a response declares
		c.CLFixed = append([]int{1}, c.CLFixed...)
	}
	return c
}

// QuickConfig / ThoroughConfig are the bounds of the two tiers.
func QuickConfig() Config {
	return Config{
		Depth: 4, Split: 2,
		Targets:   []int{65534, 65535, 65536, 65537},
		WFixed:    []int{0, 1, 100, 65536, 70000, 131072},
		WSFixed:   []int{1, 70000},
		WSTargets: []int{65536},
		CLFixed:   []int{100, 70000, 131072},
		CLTargets: []int{65535, 65536, 65537},
		RFB:       []int{100, 70000},
		RFLimit:   100,
		ConnKinds: []string{ConnPlain, ConnSendfile},
		Versions:  []int{0, 1, 2, 3},
	}
}

func ThoroughConfig() Config {
	c := QuickConfig()
	c.Depth = 5
	c.WFixed = []int{0, 1, 100, 65535, 65536, 70000, 131072}
	c.WSFixed = []int{0, 1, 100, 65536, 70000, 131072}
	c.WSTargets = c.Targets
	c.CLFixed = []int{0, 100, 70000, 131072}
	c.CLTargets = c.Targets
	c.ConnKinds = []string{ConnPlain, ConnSendfile, ConnNoSF}
	return c
}

// Node is a BFS state: the history that reaches it, the model after it and the run of the
// history as a complete program.
type Node struct {
	Prog  Program
	Model *Model
	R     *Result
	New   bool // first history reaching this (implementation state, model state) pair
	// C09 oracle results (Explorer.Judge). Judged: the program is inside the quantifier (a program
	// that has not yet completed its declared Content-Length is judged partially: only what its
	// operations returned). Verdicts: failed clauses. Tainted: a proper prefix of the program
	// already failed a clause (that shorter program carries the report; nothing can be concluded
	// from what follows a broken prefix).
	Judged   bool
	Partial  bool
	Verdicts []Verdict
	Tainted  bool
	// Origin: the earliest prefix (a partially judged program) whose wire-so-far was already
	// wrong; a failure of this program is attributed there (see JudgeSoFar).
	Origin *Origin
	// Allocator dimension (Explorer.Alts): bit i of AltFail = the program fails a reportable clause
	// under Alts[i] although it is clean under the explorer's own allocator; AltTaint = a proper
	// prefix already did (that prefix carries the report). Alt: the failures to report.
	AltFail, AltTaint uint32
	AltRuns           int
	Alt               []AltFailure
	altDone           bool
}

// AltFailure is a program that is clean under the explorer's allocator and fails under another.
type AltFailure struct {
	Opt      RunOpt
	Verdicts []Verdict
	R        *Result // without the wire
}

// Origin records where the wire first went wrong in a partially judged prefix.
type Origin struct {
	Prog     Program
	R        *Result
	Verdicts []Verdict
}

// Sharder is vkit.Shard's Mine method.
type Sharder interface{ Mine() bool }

// Explorer is the explicit-state breadth-first search over handler programs.
type Explorer struct {
	Env *Env
	Cfg Config
	Opt RunOpt
	// Judge makes the explorer evaluate the C09 oracle on every program.
	Judge bool
	// Visit is called once for every executed transition (= every program), with the complete
	// run; newState tells whether the state reached was not seen before.
	Visit func(n *Node)
	// Alts: the allocator as a dimension. Every program AltWanted selects (nil: all) that is judged
	// and clean under Opt is run again under each of these allocators and judged by the same oracle.
	Alts      []RunOpt
	AltWanted func(n *Node, alt int) bool
	// statistics
	Probes      int
	Landed      map[int]int // target -> transitions whose measured buffer landed exactly there
	Missed      int
	Unreachable int // targets no write size reaches exactly from the state (skipped)
	States      int
	Transitions int
	Stop        func() bool // non-nil: polled between sub-trees; true aborts (reported by the caller)
	Aborted     bool
}

type succ struct {
	op   Op
	conn string
	next bool
}

type stateKey struct {
	impl  [2]uint64
	model string
}

func (x *Explorer) run(p Program) *Result { return x.Env.Run(p, x.Opt, false) }

func appendOp(p Program, s succ) Program {
	q := Program{Version: p.Version, Conn: p.Conn, Next: p.Next || s.next}
	if s.conn != "" {
		q.Conn = s.conn
	}
	q.Ops = append(append(make([]Op, 0, len(p.Ops)+1), p.Ops...), s.op)
	return q
}

// landing returns the measured size the internal buffer reached by the last operation of r: the
// bytes that were pending before it plus everything the operation added. When the head is not
// encoded yet after the operation (buffered identity body of unknown length) the size that
// matters is the one flushResponse compares with the threshold: head + whole body = the wire.
func landing(r *Result) (int, bool) {
	if r.Hang || r.Panic != "" || len(r.Ops) == 0 || len(r.Ops) != len(r.Prog.Ops) {
		return 0, false
	}
	last := r.Ops[len(r.Ops)-1]
	if !last.HeadEncoded {
		return len(r.Wire), true
	}
	return last.Wire1 - last.Wire0 + last.Buffered, true
}

// probeWrite runs n.Prog extended by Write(sz) and returns the measured landing size.
func (x *Explorer) probeWrite(n *Node, sz int) (l int, chunked bool, ok bool) {
	x.Probes++
	r := x.run(appendOp(n.Prog, succ{op: Op{K: OpW, N: sz}}))
	l, ok = landing(r)
	r.Release(x.Env)
	if !ok || r.Ops[len(r.Ops)-1].Err != "" {
		return 0, false, false
	}
	return l, r.Ops[len(r.Ops)-1].Chunked, true
}

// targetSizes computes, from probe runs of this very history, the write sizes that make the
// measured internal buffer land exactly on each target. Nothing about the head length or the
// framing overhead is assumed: two probes give the offset and the slope of "landing size as a
// function of write size" (the slope is 1 unless the writer duplicates or drops bytes), and a
// size whose chunk-size field has fewer hex digits than the probes' is verified and corrected
// by further probes. Targets that cannot be reached exactly are skipped.
func (x *Explorer) targetSizes(n *Node, targets []int) map[int]int {
	out := map[int]int{}
	s0 := 60000
	rem := n.Model.Remaining()
	if rem >= 0 && rem < s0 {
		s0 = rem
	}
	if s0 <= 0 {
		return out
	}
	l0, chunked, ok := x.probeWrite(n, s0)
	if !ok {
		return out
	}
	k := 1
	if s0 >= 20000 {
		s1 := s0 - 10000
		if l1, _, ok := x.probeWrite(n, s1); ok && l0-l1 != s0-s1 {
			if (l0-l1)%(s0-s1) != 0 || (l0-l1)/(s0-s1) < 1 {
				return out
			}
			k = (l0 - l1) / (s0 - s1)
		}
	}
	for _, t := range targets {
		d := t - l0
		if d%k != 0 {
			x.Unreachable++
			continue
		}
		sz := s0 + d/k
		if sz < 1 || (rem >= 0 && sz > rem) {
			continue
		}
		if chunked && sz < 4096 {
			// fewer hex digits in the chunk-size field than the probe had: measure again
			good := false
			for try := 0; try < 3 && sz >= 1 && (rem < 0 || sz <= rem); try++ {
				l, _, ok := x.probeWrite(n, sz)
				if !ok {
					break
				}
				if l == t {
					good = true
					break
				}
				if (t-l)%k != 0 {
					break
				}
				sz += (t - l) / k
			}
			if !good {
				x.Unreachable++
				continue
			}
		}
		out[t] = sz
	}
	return out
}

// headLen measures, by a probe run, the length of the response head when a five-digit
// Content-Length is declared at this point.
func (x *Explorer) headLen(n *Node) (int, bool) {
	x.Probes++
	p := appendOp(n.Prog, succ{op: Op{K: OpCL, N: 60000}})
	p = appendOp(p, succ{op: Op{K: OpW, N: 60000}})
	r := x.run(p)
	nw := len(r.Wire)
	r.Release(x.Env)
	if r.Hang || r.Panic != "" || nw <= 60000 {
		return 0, false
	}
	return nw - 60000, true
}

func contains(l []int, v int) bool {
	for _, x := range l {
		if x == v {
			return true
		}
	}
	return false
}

// successors lists the operations offered in state n (concrete arguments), in a fixed order.
func (x *Explorer) successors(n *Node) []succ {
	m := n.Model
	cfg := &x.Cfg
	var out []succ
	add := func(op Op) { out = append(out, succ{op: op}) }
	rem := m.Remaining()
	fits := func(sz int) bool { return rem < 0 || sz <= rem }
	no204 := func() bool { return m.Status != 204 && m.StatusAlt != 204 }

	if cfg.RFX && !cfg.RFXWide && !m.Aligned() {
		if rem > 0 && no204() && m.Body+rem <= PatLen {
			add(Op{K: OpW, N: rem, Sym: "fill"})
		}
		add(Op{K: OpF})
		return out
	}

	// header operations
	if m.DeclaredCL() < 0 {
		if m.Body == 0 && m.Level < 3 {
			if h, ok := x.headLen(n); ok {
				for _, t := range cfg.CLTargets {
					if v := t - h; v > 0 {
						add(Op{K: OpCL, N: v, Sym: fmt.Sprintf("T%d", t)})
					}
				}
			}
		}
		for _, v := range cfg.CLFixed {
			if v >= m.Body {
				add(Op{K: OpCL, N: v})
			}
		}
	}
	if m.Level < 3 {
		add(Op{K: OpCT})
		add(Op{K: OpTRD})
		add(Op{K: OpTR})
		add(Op{K: OpTE})
	}
	if m.Level < 3 || m.HdrZ["Trailer"] != "" {
		add(Op{K: OpTV})
	}
	if m.Level < 2 {
		add(Op{K: OpWH, N: 200})
		if m.Body == 0 {
			add(Op{K: OpWH, N: 204})
		}
		add(Op{K: OpWH, N: 404})
	} else {
		add(Op{K: OpWH, N: 404})
	}
	// body operations
	type sz struct {
		n   int
		sym string
	}
	var wsz, wssz []sz
	seenW := map[int]bool{}
	seenWS := map[int]bool{}
	addW := func(n int, sym string, ws bool) {
		if n < 0 || !fits(n) || (n > 0 && !no204()) || m.Body+n > PatLen {
			return
		}
		if !seenW[n] {
			seenW[n] = true
			wsz = append(wsz, sz{n, sym})
		}
		if ws && !seenWS[n] {
			seenWS[n] = true
			wssz = append(wssz, sz{n, sym})
		}
	}
	for _, v := range cfg.WFixed {
		addW(v, "", contains(cfg.WSFixed, v))
	}
	for _, v := range cfg.WSFixed {
		if !contains(cfg.WFixed, v) && fits(v) && (v == 0 || no204()) && !seenWS[v] {
			seenWS[v] = true
			wssz = append(wssz, sz{v, ""})
		}
	}
	if no204() {
		ts := x.targetSizes(n, cfg.Targets)
		for _, t := range cfg.Targets {
			if v, ok := ts[t]; ok {
				addW(v, fmt.Sprintf("T%d", t), contains(cfg.WSTargets, t))
			}
		}
		if rem > 0 {
			addW(rem, "fill", true)
		}
	}
	for _, s := range wsz {
		add(Op{K: OpW, N: s.n, Sym: s.sym})
	}
	for _, s := range wssz {
		add(Op{K: OpWS, N: s.n, Sym: s.sym})
	}
	add(Op{K: OpF})
	if cfg.Overrun && no204() && m.CLInForce() && rem >= 0 {
		next := cfg.Pipeline && !m.ReqClose
		for _, beyond := range []int{1, 65536} {
			n := rem + beyond
			if m.Body+n > PatLen {
				continue
			}
			sym := fmt.Sprintf("rest+%d", beyond)
			out = append(out, succ{op: Op{K: OpOW, N: n, Sym: sym}, next: next})
			if beyond == 1 || cfg.OverrunWide {
				out = append(out, succ{op: Op{K: OpOWS, N: n, Sym: sym}, next: next})
				out = append(out, succ{op: Op{K: OpORF, N: n, Sym: sym}, next: next})
			}
		}
	}
	if no204() {
		for _, v := range cfg.RFB {
			if fits(v) {
				add(Op{K: OpRFB, N: v})
			}
		}
		kinds := cfg.ConnKinds
		if n.Prog.HasFileOp() {
			kinds = []string{n.Prog.Conn}
		}
		next := cfg.Pipeline && !m.ReqClose
		for _, k := range kinds {
			if v := FileLen - m.Body; v > 0 && fits(v) {
				out = append(out, succ{op: Op{K: OpRFF, N: v}, conn: k, next: next})
			}
			if v := cfg.RFLimit; v > 0 && FileLen-m.Body > v && fits(v) {
				out = append(out, succ{op: Op{K: OpRFL, N: v}, conn: k, next: next})
			}
		}
		if cfg.RFX {
			for _, k := range kinds {
				if !cfg.RFXWide && m.DeclaredCL() <= 0 && k != ConnSendfile && len(kinds) > 1 {
					continue // the empty segment: once
				}
				for _, op := range x.segments(m, fits, k == ConnSendfile) {
					out = append(out, succ{op: op, conn: k, next: next})
				}
			}
		}
	}
	return out
}

// segments lists the OpRFX operations offered in a state. The "middle" offset is the current body
// offset when that lies inside the file (a handler serving a file piece by piece; the body then
// stays aligned with the pattern and merges with the states other operations reach), else the
// middle of the file.
func (x *Explorer) segments(m *Model, fits func(int) bool, sendfile bool) []Op {
	mid, midName := FileLen/2, "mid"
	if m.Aligned() && m.Body > 0 && m.Body < FileLen {
		mid, midName = m.Body, "cur"
	}
	var out []Op
	seen := map[[2]int]bool{}
	add := func(n, off int, sym string) {
		op := Op{K: OpRFX, N: n, Off: off, Sym: sym}
		if seen[[2]int{n, off}] || !fits(op.Count()) || m.Body+op.Count() > PatLen {
			return
		}
		seen[[2]int{n, off}] = true
		out = append(out, op)
	}
	if m.DeclaredCL() <= 0 {
		add(0, mid, "0@"+midName)
		if x.Cfg.RFXWide {
			add(1, mid, "1@"+midName)
			add(FileLen-mid+1, mid, "left+1@"+midName)
		}
		if sendfile || x.Cfg.RFXWide {
			// nothing to read, but a limit > 0: nbio looks at the response (status, framing decision)
			// before it finds that the sendfile path does not apply
			add(1, FileLen, "1@eof")
		}
		return out
	}
	if !x.Cfg.RFXWide && !sendfile {
		// a connection without Sendfile: every segment goes through io.Copy and Write, where only
		// the number of bytes matters: nothing, one byte, a limit beyond the end of the file
		left := FileLen - mid
		add(0, mid, "0@"+midName)
		add(1, mid, "1@"+midName)
		add(left+1, mid, "left+1@"+midName)
		add(1, FileLen, "1@eof")
		return out
	}
	for _, o := range []struct {
		off  int
		name string
	}{{0, "start"}, {mid, midName}, {FileLen, "eof"}} {
		left := FileLen - o.off
		add(0, o.off, "0@"+o.name)
		add(1, o.off, "1@"+o.name)
		add(left, o.off, "left@"+o.name)
		add(left+1, o.off, "left+1@"+o.name)
		add(FileLen+1000, o.off, "file+1000@"+o.name)
	}
	return out
}

func (x *Explorer) child(n *Node, s succ) *Node {
	p := appendOp(n.Prog, s)
	m := *n.Model
	m.Hdr0 = copyMap(n.Model.Hdr0)
	m.HdrZ = copyMap(n.Model.HdrZ)
	m.Spans = append([]Span(nil), n.Model.Spans...)
	m.Apply(s.op)
	c := &Node{Prog: p, Model: &m, AltTaint: n.AltTaint | n.AltFail}
	c.R = x.run(p)
	x.Transitions++
	if x.Judge {
		c.judge(n)
	}
	if s.op.Sym != "" && s.op.Sym[0] == 'T' && (s.op.K == OpW || s.op.K == OpWS) {
		var t int
		fmt.Sscanf(s.op.Sym, "T%d", &t)
		if l, ok := landing(c.R); ok && l == t {
			if x.Landed == nil {
				x.Landed = map[int]int{}
			}
			x.Landed[t]++
		} else {
			x.Missed++
		}
	}
	return c
}

// judge evaluates the oracle on the node's run.
func (n *Node) judge(parent *Node) {
	n.Tainted = parent != nil && (parent.Tainted || len(parent.Verdicts) > 0)
	if n.Model.Dead() != "" {
		return
	}
	n.Judged = true
	n.Partial = n.Model.Excluded() != ""
	all := Judge(n.Model, n.R, n.Partial)
	if parent != nil {
		n.Origin = parent.Origin
	}
	if !n.Partial {
		n.Verdicts = all
		return
	}
	// A program that has not completed its declared body: what its operations returned (and a
	// panic) is reportable; what is wrong on the wire so far is not (the handler stopped short of
	// its own Content-Length) but it marks where the failure of every completion comes from.
	var wire []Verdict
	for _, v := range all {
		if opTimeClause(v.Clause) || strings.HasPrefix(v.Clause, "panic") || v.Clause == "hang" {
			n.Verdicts = append(n.Verdicts, v)
		} else {
			wire = append(wire, v)
		}
	}
	if len(n.Verdicts) == 0 && len(wire) > 0 && n.Origin == nil {
		r := *n.R
		r.Wire, r.T, r.Viol = nil, nil, nil
		n.Origin = &Origin{Prog: n.Prog, R: &r, Verdicts: wire}
	}
}

// reportable splits the failed clauses of a program into those that may be reported and, for a
// program that has not completed its declared body, those about the wire so far (see judge).
func reportable(all []Verdict, partial bool) (report, wire []Verdict) {
	if !partial {
		return all, nil
	}
	for _, v := range all {
		if opTimeClause(v.Clause) || strings.HasPrefix(v.Clause, "panic") || v.Clause == "hang" {
			report = append(report, v)
		} else {
			wire = append(wire, v)
		}
	}
	return
}

// alts runs the node's program under the other allocators (called once New is known).
func (x *Explorer) alts(c *Node) {
	if !x.Judge || len(x.Alts) == 0 || c.altDone {
		return
	}
	c.altDone = true
	if !c.Judged || c.Tainted || len(c.Verdicts) > 0 || c.Origin != nil {
		// nothing to compare with: whatever the other allocators do below this point is not reported
		c.AltTaint = ^uint32(0)
		return
	}
	for i, a := range x.Alts {
		if c.AltTaint&(1<<uint(i)) != 0 || (x.AltWanted != nil && !x.AltWanted(c, i)) {
			continue
		}
		r := x.Env.Run(c.Prog, a, false)
		c.AltRuns++
		vs, _ := reportable(Judge(c.Model, r, c.Partial), c.Partial)
		r.Release(x.Env)
		if len(vs) > 0 {
			c.AltFail |= 1 << uint(i)
			r.T, r.Viol = nil, nil
			c.Alt = append(c.Alt, AltFailure{Opt: a, Verdicts: vs, R: r})
		}
	}
}

// SignAlt is Sign for a failure under another allocator.
func SignAlt(e *Env, n *Node, f AltFailure) (sig string, minimal Program) {
	return Sign(e, &Node{Prog: n.Prog, Model: n.Model, R: f.R, Verdicts: f.Verdicts}, f.Opt)
}

// Attribute re-derives Judged/Verdicts/Tainted for a single program by judging all its prefixes
// (what the explorer does incrementally); used by replays.
func Attribute(e *Env, p Program, opt RunOpt) *Node {
	var n *Node
	for l := 0; l <= len(p.Ops); l++ {
		q := p.With(p.Ops[:l])
		c := &Node{Prog: q, Model: ModelOf(q)}
		c.R = e.Run(q, opt, l == len(p.Ops))
		c.judge(n)
		n = c
	}
	return n
}

func copyMap(m map[string]string) map[string]string {
	c := make(map[string]string, len(m)+1)
	for k, v := range m {
		c[k] = v
	}
	return c
}

func (x *Explorer) key(n *Node) stateKey {
	k := stateKey{impl: n.R.Key, model: n.Model.Key()}
	if x.Cfg.KeyConn && n.Prog.HasFileOp() {
		k.model += " conn=" + n.Prog.Conn
		if n.Prog.Next {
			k.model += "+next"
		}
	}
	return k
}

// expandable: the handler came back normally and did not contradict itself for good.
func (n *Node) expandable() bool {
	return !n.R.Hang && n.R.Panic == "" && n.R.HandlerRan && n.Model.Dead() == ""
}

// trim drops what is not needed to expand the node later.
func (n *Node) trim(e *Env) {
	n.R.Release(e)
	n.R.T = nil
	n.R.Viol = nil
	n.R.Dump = ""
}

// Explore runs the breadth-first search for every request version. Levels up to Cfg.Split are
// computed by every worker with one global visited set (their transitions are accounted by the
// worker that owns them); every distinct state at level Split is the root of a sub-tree explored
// to Cfg.Depth by exactly one worker, with a visited set seeded by the global one.
func (x *Explorer) Explore(sh Sharder) {
	if x.Opt == (RunOpt{}) {
		x.Opt = RunOpt{Policy: track.Exact}
	}
	for _, v := range x.Cfg.Versions {
		root := &Node{Prog: Program{Version: v}, Model: NewModel(v)}
		root.R = x.run(root.Prog)
		x.Transitions++
		if x.Judge {
			root.judge(nil)
		}
		global := map[stateKey]bool{x.key(root): true}
		root.New = true
		x.alts(root)
		if sh.Mine() {
			x.States++
			x.Visit(root)
		}
		root.trim(x.Env)
		frontier := []*Node{root}
		split := x.Cfg.Split
		if split > x.Cfg.Depth {
			split = x.Cfg.Depth
		}
		for level := 1; level <= split; level++ {
			var next []*Node
			for _, n := range frontier {
				for _, s := range x.successors(n) {
					c := x.child(n, s)
					mine := sh.Mine()
					if !mine {
						x.Transitions-- // accounted by its owner
					}
					k := x.key(c)
					if c.expandable() && !global[k] {
						global[k] = true
						c.New = true
						next = append(next, c)
					} else if !c.expandable() {
						c.New = true // terminal outcome, counted as a state of its own
					}
					if mine {
						if c.New {
							x.States++
						}
						x.alts(c)
						x.Visit(c)
					} else if level < split && c.New && c.expandable() {
						// it is expanded by every worker: its children inherit the taint
						x.alts(c)
					}
					c.trim(x.Env)
				}
			}
			frontier = next
		}
		if split >= x.Cfg.Depth {
			continue
		}
		for _, n := range frontier {
			if !sh.Mine() {
				continue
			}
			if x.Stop != nil && x.Stop() {
				x.Aborted = true
				continue
			}
			x.subtree(n, split, global)
		}
	}
}

func (x *Explorer) subtree(root *Node, level int, global map[stateKey]bool) {
	local := map[stateKey]bool{}
	x.alts(root) // unless its owner as a program already did
	frontier := []*Node{root}
	for level++; level <= x.Cfg.Depth; level++ {
		var next []*Node
		last := level == x.Cfg.Depth
		for _, n := range frontier {
			for _, s := range x.successors(n) {
				c := x.child(n, s)
				k := x.key(c)
				if !c.expandable() {
					c.New = true
				} else if !global[k] && !local[k] {
					local[k] = true
					c.New = true
					if !last {
						next = append(next, c)
					}
				}
				if c.New {
					x.States++
				}
				x.alts(c)
				x.Visit(c)
				c.trim(x.Env)
			}
		}
		frontier = next
	}
}

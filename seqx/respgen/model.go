package respgen

import (
	"bufio"
	"bytes"
	"fmt"
	"io"
	"net/http"
	"strconv"
	"strings"
)

// Model is the reference model of a handler program: what an http.ResponseWriter owes the
// handler, derived from the operations alone (never from what the implementation did).
//
// Commit levels: 0 = nothing decided; 1 = an empty Write happened (net/http would have
// committed 200 and the headers, nbio does not: both accepted); 2 = WriteHeader was called
// (status fixed; header changes after it "have no effect" in net/http but nbio still honours
// them until the head is encoded: both accepted); 3 = body data written / flushed (head gone).
type Model struct {
	Proto11  bool
	ReqClose bool
	Level    int
	// Status: the status the client must see; StatusAlt: a second acceptable value (0 = none).
	Status    int
	StatusAlt int
	// header map as the handler left it at level 0 (what must be honoured) and at the end.
	Hdr0  map[string]string
	HdrZ  map[string]string
	Body  int // bytes the handler asked to send
	Steps int
	// CLLevel is the commit level at which Content-Length was declared (-1: never).
	CLLevel int
	// Spans: where in the pattern the body bytes come from, in order, adjacent pieces merged. Every
	// operation but OpRFX writes the pattern bytes that start at the current body offset, so that a
	// program without a displaced file segment has the one span {0, Body}.
	Spans []Span
}

// Span is a piece of the body: N pattern bytes starting at Src.
type Span struct{ Src, N int }

// NewModel starts the model for a request version.
func NewModel(version int) *Model {
	v := Versions[version]
	return &Model{Proto11: v.Proto11, ReqClose: v.Close, Hdr0: map[string]string{}, HdrZ: map[string]string{}, CLLevel: -1}
}

func (m *Model) set(k, v string) {
	m.HdrZ[k] = v
	if m.Level == 0 {
		m.Hdr0[k] = v
	}
}

func (m *Model) data(n int) { m.dataFrom(m.Body, n) }

func (m *Model) dataFrom(src, n int) {
	if m.Status == 0 {
		m.Status = 200
	}
	m.Level = 3
	if n > 0 {
		if k := len(m.Spans); k > 0 && m.Spans[k-1].Src+m.Spans[k-1].N == src {
			m.Spans[k-1].N += n
		} else {
			m.Spans = append(m.Spans, Span{src, n})
		}
	}
	m.Body += n
}

// Aligned: the body is the first Body bytes of the pattern.
func (m *Model) Aligned() bool {
	return len(m.Spans) == 0 || (len(m.Spans) == 1 && m.Spans[0].Src == 0)
}

var wantScratch []byte

// Want returns the body the client must decode (valid until the next call).
func (m *Model) Want() []byte {
	if m.Aligned() {
		return Pat[:m.Body]
	}
	w := wantScratch[:0]
	for _, s := range m.Spans {
		w = append(w, Pat[s.Src:s.Src+s.N]...)
	}
	wantScratch = w
	return w
}

// Apply advances the model by one operation.
func (m *Model) Apply(op Op) {
	m.Steps++
	switch op.K {
	case OpCL:
		m.set("Content-Length", strconv.Itoa(op.N))
		m.CLLevel = m.Level
	case OpCT:
		m.set("Content-Type", CTValue)
	case OpTRD:
		m.set("Trailer", TrailerKey)
	case OpTR:
		m.set("Trailer", TrailerKey)
		m.set(TrailerKey, TrailerV1)
	case OpTV:
		m.set(TrailerKey, TrailerV2)
	case OpTE:
		m.set("Transfer-Encoding", "chunked")
	case OpWH:
		switch {
		case m.Level == 0:
			m.Status = op.N
			m.Level = 2
		case m.Level == 1 && m.Status == 0:
			m.Status = 200
			m.StatusAlt = op.N
			m.Level = 2
		}
	case OpW, OpWS:
		if op.N == 0 {
			if m.Level == 0 {
				m.Level = 1
			}
			return
		}
		m.data(op.N)
	case OpRFB, OpRFF, OpRFL:
		m.data(op.N)
	case OpOW, OpOWS, OpORF:
		// refused; like an empty Write it may or may not commit status and headers (net/http and nbio
		// both call WriteHeader(200) before they compare with the declared length)
		if m.Level == 0 {
			m.Level = 1
		}
	case OpRFX:
		// a segment without bytes is like an empty Write: an http.ResponseWriter may or may not
		// commit the status and the headers on it (net/http's ReadFrom does, io.Copy of nothing does not)
		if c := op.Count(); c > 0 {
			m.dataFrom(op.Off, c)
		} else if m.Level == 0 {
			m.Level = 1
		}
	case OpF:
		m.data(0)
	}
}

// DeclaredCL returns the Content-Length the handler declared (last value set), or -1.
func (m *Model) DeclaredCL() int {
	if v, ok := m.HdrZ["Content-Length"]; ok {
		n, _ := strconv.Atoi(v)
		return n
	}
	return -1
}

// CLInForce: a positive Content-Length was declared before anything was committed and the handler
// asked for neither chunked framing nor trailers (which override it): the response is
// identity-framed with that length whatever the request version, and writing more is an overrun.
func (m *Model) CLInForce() bool {
	return m.DeclaredCL() > 0 && m.CLLevel == 0 && m.HdrZ["Trailer"] == "" && m.HdrZ["Transfer-Encoding"] == ""
}

// Remaining returns how many body bytes the handler may still write without contradicting its
// declared Content-Length (-1: no declaration).
func (m *Model) Remaining() int {
	cl := m.DeclaredCL()
	if cl < 0 {
		return -1
	}
	return cl - m.Body
}

// Dead reports that the handler already contradicted itself for good (no extension of the
// program can be judged): more body than declared, a body on a 204 response, or chunked framing /
// trailers requested for a 204 response (no well-formed response can honour both choices).
func (m *Model) Dead() string {
	if cl := m.DeclaredCL(); cl >= 0 && m.Body > cl {
		return "body exceeds declared Content-Length"
	}
	if m.Status == 204 || m.StatusAlt == 204 {
		if m.Body > 0 {
			return "body written to a 204 response"
		}
		if m.HdrZ["Trailer"] != "" || m.HdrZ["Transfer-Encoding"] != "" {
			return "chunked framing or trailers requested on a 204 response"
		}
	}
	return ""
}

// Excluded reports why the program, taken as complete, is outside the property's quantifier
// ("" = it is judged).
func (m *Model) Excluded() string {
	if d := m.Dead(); d != "" {
		return d
	}
	if cl := m.DeclaredCL(); cl >= 0 && m.Body != cl {
		return "body shorter than declared Content-Length"
	}
	return ""
}

// Key is the model's contribution to the BFS state key.
func (m *Model) Key() string {
	k := fmt.Sprintf("L%d S%d/%d B%d H0%v HZ%v", m.Level, m.Status, m.StatusAlt, m.Body, sortedMap(m.Hdr0), sortedMap(m.HdrZ))
	if !m.Aligned() {
		k += fmt.Sprint(m.Spans)
	}
	return k
}

func sortedMap(m map[string]string) string {
	ks := make([]string, 0, len(m))
	for k := range m {
		ks = append(ks, k)
	}
	// tiny maps: insertion sort
	for i := 1; i < len(ks); i++ {
		for j := i; j > 0 && ks[j] < ks[j-1]; j-- {
			ks[j], ks[j-1] = ks[j-1], ks[j]
		}
	}
	var sb strings.Builder
	for _, k := range ks {
		sb.WriteString(k + "=" + m[k] + ";")
	}
	return sb.String()
}

// ModelOf runs the model over a whole program.
func ModelOf(p Program) *Model {
	m := NewModel(p.Version)
	for _, op := range p.Ops {
		m.Apply(op)
	}
	return m
}

// Verdict is one failed clause of the oracle.
type Verdict struct {
	Clause string // short, stable: names the failed clause
	Detail string // variable part (sizes, values)
}

// Decoded is what the independent client parser made of the wire.
type Decoded struct {
	Resp     *http.Response
	Body     []byte
	BodyErr  error
	Leftover int
	Chunked  bool
	Patched  bool // HTTP/1.0 status line patched to 1.1 to decode a handler-requested chunked body
	// NextErr: what is wrong with the bytes that follow the response when the pipelined follow-up
	// response is expected there ("" = they are exactly that response; Leftover is then 0).
	NextErr string
}

// Decode parses the wire bytes with net/http as the response to a GET request.
func Decode(wire []byte, allowPatch10 bool) (*Decoded, error) {
	return decodeInto(nil, wire, allowPatch10, false)
}

// decodeNext reads the pipelined follow-up response (what the NextPath handler answers) from br.
func decodeNext(br *bufio.Reader) string {
	resp, err := http.ReadResponse(br, &http.Request{Method: "GET"})
	if err != nil {
		return "they do not parse as the response to the second request: " + err.Error()
	}
	body, berr := io.ReadAll(io.LimitReader(resp.Body, 4096))
	_ = resp.Body.Close()
	switch {
	case berr != nil:
		return "the body of the second response does not decode: " + berr.Error()
	case resp.StatusCode != 200 || resp.Header.Get(NextHeader) != "1":
		return fmt.Sprintf("they parse as a response with status %d that is not the second handler's", resp.StatusCode)
	case string(body) != NextBody:
		return fmt.Sprintf("the second response's body is %q, its handler wrote %q", body, NextBody)
	}
	return ""
}

func readAllInto(buf []byte, r io.Reader) ([]byte, error) {
	for {
		if len(buf) == cap(buf) {
			buf = append(buf, 0)[:len(buf)]
		}
		n, err := r.Read(buf[len(buf):cap(buf)])
		buf = buf[:len(buf)+n]
		if err != nil {
			if err == io.EOF {
				err = nil
			}
			return buf, err
		}
	}
}

func decodeInto(scratch *[]byte, wire []byte, allowPatch10, next bool) (*Decoded, error) {
	d := &Decoded{}
	in := wire
	if allowPatch10 && bytes.HasPrefix(in, []byte("HTTP/1.0 ")) {
		// net/http ignores Transfer-Encoding on an HTTP/1.0 message. When the handler itself asked
		// for chunked framing / trailers on an HTTP/1.0 request the oracle decodes the message as
		// the chunked message it claims to be (see Assumptions).
		if i := bytes.Index(in, []byte("\r\n\r\n")); i >= 0 && bytes.Contains(in[:i], []byte("\r\nTransfer-Encoding: chunked")) {
			in = append([]byte("HTTP/1.1 "), in[9:]...)
			d.Patched = true
		}
	}
	rd := bytes.NewReader(in)
	br := bufio.NewReaderSize(rd, 4096)
	resp, err := http.ReadResponse(br, &http.Request{Method: "GET"})
	if err != nil {
		return nil, err
	}
	d.Resp = resp
	d.Chunked = len(resp.TransferEncoding) > 0 && resp.TransferEncoding[0] == "chunked"
	if scratch != nil {
		if cap(*scratch) < len(wire)+512 {
			*scratch = make([]byte, 0, len(wire)+(256<<10))
		}
		d.Body, d.BodyErr = readAllInto((*scratch)[:0], resp.Body)
		*scratch = d.Body[:0]
	} else {
		d.Body, d.BodyErr = io.ReadAll(resp.Body)
	}
	_ = resp.Body.Close()
	d.Leftover = br.Buffered() + rd.Len()
	if next {
		if d.Leftover == 0 {
			d.NextErr = "nothing follows: the response to the second request is missing"
		} else if d.NextErr = decodeNext(br); d.NextErr == "" {
			if l := br.Buffered() + rd.Len(); l != 0 {
				d.NextErr = fmt.Sprintf("%d bytes follow the second response", l)
			} else {
				d.Leftover = 0
			}
		}
	}
	return d, nil
}

// judgeScratch is the body buffer reused by Judge (cases are judged one at a time).
var judgeScratch = new([]byte)

func firstDiff(a, b []byte) int {
	if bytes.Equal(a, b) {
		return -1
	}
	n := len(a)
	if len(b) < n {
		n = len(b)
	}
	for i := 0; i < n; i++ {
		if a[i] != b[i] {
			return i
		}
	}
	if len(a) != len(b) {
		return n
	}
	return -1
}

func snippet(b []byte, at, n int) string {
	lo := at - n/2
	if lo < 0 {
		lo = 0
	}
	hi := lo + n
	if hi > len(b) {
		hi = len(b)
	}
	return strconv.Quote(string(b[lo:hi]))
}

// Judge is the independent oracle of C09 for a run without injected failures. It returns every
// failed clause (empty: the program's response is what the property promises). partial: the
// handler has not (yet) written the body it declared; the body that is on the wire is then
// expected to end early (everything written so far, then EOF). Which of the clauses of a
// partial program may be reported is decided by the caller (Node.judge).
func Judge(m *Model, r *Result, partial bool) []Verdict {
	vs, patched := judgeWith(m, r, partial, true)
	if !patched || len(vs) == 0 {
		return vs
	}
	// The handler asked for chunked framing or trailers on an HTTP/1.0 request and the head carries
	// "Transfer-Encoding: chunked". Such a response is accepted when it decodes as the chunked
	// message it claims to be (above) - and also when it decodes correctly the way a client decodes
	// an HTTP/1.0 message, ignoring Transfer-Encoding (RFC 7230 section 3.3.1: the field does not
	// exist in HTTP/1.0; net/http does exactly that): the request was the handler's, not nbio's,
	// and either way a client gets the handler's response.
	alt, _ := judgeWith(m, r, partial, false)
	if len(alt) == 0 {
		return nil
	}
	if !r.State.Chunked {
		// wrong under both readings: described under the one that matches the framing the response
		// writer itself chose (which of the two descriptions is reported, not whether)
		return alt
	}
	return vs
}

// judgeWith is Judge for one way of reading an HTTP/1.0 response that carries Transfer-Encoding:
// chunked at the handler's request (patch10: as the chunked message it claims to be; else as
// HTTP/1.0, ignoring the field). patched tells whether that choice mattered.
func judgeWith(m *Model, r *Result, partial, patch10 bool) (vs []Verdict, patched bool) {
	add := func(clause, format string, a ...interface{}) {
		d := fmt.Sprintf(format, a...)
		if len(d) > 500 {
			d = d[:240] + " ... " + d[len(d)-240:]
		}
		vs = append(vs, Verdict{Clause: clause, Detail: d})
	}
	if r.Hang {
		add("hang", "the request did not complete within the watchdog time")
		return vs, false
	}
	if r.Panic != "" {
		if r.PanicOp >= 0 && r.PanicOp < len(r.Prog.Ops) {
			k := r.Prog.Ops[r.PanicOp].K
			add("panic op="+k, "operation %d (%s) panicked: %s", r.PanicOp, k, r.Panic)
		} else {
			add("panic after-handler", "flushResponse / release panicked %s", r.Panic)
		}
		return vs, false
	}
	if !r.HandlerRan {
		add("handler-not-run", "parse error %q", r.ParseErr)
		return vs, false
	}
	// return values of the body operations
	off := 0
	for i, op := range r.Prog.Ops {
		or := r.Ops[i]
		switch op.K {
		case OpOW, OpOWS, OpORF:
			kind := "write"
			if op.K == OpORF {
				kind = "readfrom"
			}
			switch {
			case or.Err == "":
				add(kind+"-overrun-accepted", "op %d %s at body offset %d: %d bytes where the declared Content-Length leaves room for fewer; returned n=%d and no error", i, op, off, op.N, or.N)
			case or.Err != http.ErrContentLength.Error() || or.N != 0:
				add(kind+"-overrun-wrong-result", "op %d %s at body offset %d returned n=%d, error %q; want 0, %q", i, op, off, or.N, or.Err, http.ErrContentLength.Error())
			}
			if or.Wire1 != or.Wire0 {
				add(kind+"-overrun-emitted", "op %d %s at body offset %d put %d bytes on the wire", i, op, off, or.Wire1-or.Wire0)
			}
		case OpW, OpWS, OpRFB, OpRFF, OpRFL, OpRFX:
			kind := "write"
			if op.K != OpW && op.K != OpWS {
				kind = "readfrom"
			}
			if or.Err != "" {
				add(kind+"-unexpected-error", "op %d %s at body offset %d returned error %q", i, op, off, or.Err)
			} else if or.N != int64(op.Count()) {
				add(kind+"-returned-wrong-count", "op %d %s at body offset %d returned n=%d, want %d", i, op, off, or.N, op.Count())
			}
			off += op.Count()
		}
	}
	// the wire
	trailerWanted := m.Hdr0["Trailer"] != ""
	chunkAsked := trailerWanted || m.HdrZ["Trailer"] != "" || m.Hdr0["Transfer-Encoding"] != "" || m.HdrZ["Transfer-Encoding"] != ""
	// A pipelined follow-up response is owed when the handler of the second request ran or should
	// have run: the connection is kept alive after this response. A handler that stopped short of
	// its declared Content-Length leaves a response nobody can delimit: only the bytes up to where
	// the second handler started are looked at then.
	wire := r.Wire
	next := r.Prog.Next && !m.ReqClose
	if next && partial {
		next = false
		if r.NextRan > 0 && r.NextWire <= len(wire) {
			wire = wire[:r.NextWire]
		}
	}
	d, err := decodeInto(judgeScratch, wire, chunkAsked && patch10, next)
	if err != nil {
		add("wire-unparseable", "http.ReadResponse: %v; wire starts %s", err, snippet(r.Wire, 0, 80))
		return vs, false
	}
	// the head as it stands on the wire: net/http's reader silently drops a Content-Length that
	// comes with Transfer-Encoding and merges repeated lines, so these are looked at in the raw
	// bytes (RFC 7230 section 3.3.2: a sender MUST NOT send Content-Length in a message that
	// contains Transfer-Encoding; neither field may be generated twice)
	if i := bytes.Index(wire, []byte("\r\n\r\n")); i >= 0 {
		nCL, nTE := 0, 0
		for _, ln := range bytes.Split(wire[:i], []byte("\r\n"))[1:] {
			if j := bytes.IndexByte(ln, ':'); j > 0 {
				switch strings.ToLower(string(ln[:j])) {
				case "content-length":
					nCL++
				case "transfer-encoding":
					nTE++
				}
			}
		}
		switch {
		case nCL > 0 && nTE > 0:
			add("head-content-length-with-transfer-encoding", "the head carries %d Content-Length and %d Transfer-Encoding line(s): %s", nCL, nTE, snippet(wire, i/2, i))
		case nCL > 1:
			add("head-content-length-repeated", "the head carries %d Content-Length lines: %s", nCL, snippet(wire, i/2, i))
		case nTE > 1:
			add("head-transfer-encoding-repeated", "the head carries %d Transfer-Encoding lines: %s", nTE, snippet(wire, i/2, i))
		}
	}
	resp := d.Resp
	if resp.StatusCode != m.Status && !(m.Status == 0 && resp.StatusCode == 200) && !(m.StatusAlt != 0 && resp.StatusCode == m.StatusAlt) {
		want := m.Status
		if want == 0 {
			want = 200
		}
		add("status-mismatch", "status %d on the wire, handler chose %d", resp.StatusCode, want)
	}
	status := resp.StatusCode
	// headers the handler set before committing
	if v, ok := m.Hdr0["Content-Type"]; ok {
		if got := resp.Header.Values("Content-Type"); len(got) != 1 || got[0] != v {
			add("header-missing", "Content-Type %q on the wire, handler set %q", got, v)
		}
	}
	trailerAnywhere := m.HdrZ["Trailer"] != ""
	if v, ok := m.Hdr0[TrailerKey]; ok && !trailerAnywhere {
		if got := resp.Header.Values(TrailerKey); len(got) != 1 || (got[0] != v && got[0] != m.HdrZ[TrailerKey]) {
			add("header-missing", "%s %q on the wire, handler set %q", TrailerKey, got, v)
		}
	}
	// framing
	bodyAllowed := status >= 200 && status != 204 && status != 304
	declared0 := -1
	if v, ok := m.Hdr0["Content-Length"]; ok {
		declared0, _ = strconv.Atoi(v)
	}
	switch {
	case d.Chunked:
		if !m.Proto11 && !chunkAsked {
			add("framing-chunked-on-http10", "chunked response to an HTTP/1.0 request although the handler asked for neither chunking nor trailers")
		}
		if declared0 >= 0 && !chunkAsked {
			add("framing-declared-length-dropped", "handler declared Content-Length %d, response is chunked", declared0)
		}
		if !bodyAllowed {
			add("framing-body-on-bodiless-status", "chunked framing on a %d response", status)
		}
	case resp.ContentLength >= 0:
		if declared0 >= 0 && !chunkAsked && resp.ContentLength != int64(declared0) && bodyAllowed {
			add("framing-declared-length-changed", "handler declared Content-Length %d, wire says %d", declared0, resp.ContentLength)
		}
	default:
		// neither chunked nor Content-Length: delimited by closing the connection
		if bodyAllowed && r.Closed == 0 {
			add("framing-undelimited", "neither Content-Length nor chunked and the connection stays open")
		}
	}
	if trailerWanted && !d.Chunked && bodyAllowed {
		add("framing-trailer-without-chunked", "handler declared a trailer, response is not chunked")
	}
	// body. An early EOF is not a clause of its own: what matters is which bytes arrived.
	early := d.BodyErr == io.ErrUnexpectedEOF
	if d.BodyErr != nil && !early {
		add("body-undecodable", "reading the body: %v (decoded %d of %d bytes)", d.BodyErr, len(d.Body), m.Body)
	}
	want := m.Want()
	if i := firstDiff(d.Body, want); i < 0 && early && !partial {
		add("body-mismatch", "truncated: the head promises more body than the %d bytes the handler wrote and that arrived", len(want))
	} else if i >= 0 && (d.BodyErr == nil || early) {
		switch {
		case len(d.Body) < len(want) && i == len(d.Body):
			add("body-mismatch", "truncated: decoded body has %d bytes, handler wrote %d", len(d.Body), len(want))
		case len(d.Body) > len(want) && i == len(want):
			add("body-mismatch", "excess: decoded body has %d bytes, handler wrote %d; excess starts %s", len(d.Body), len(want), snippet(d.Body, i+20, 40))
		default:
			add("body-mismatch", "corrupt: decoded body (%d bytes) differs from the written data (%d bytes) at offset %d: got %s want %s", len(d.Body), len(want), i, snippet(d.Body, i+10, 24), snippet(want, i+10, 24))
		}
	}
	if d.Leftover != 0 {
		if next {
			add("wire-leftover", "%d bytes follow the end of the response and %s; they start %s", d.Leftover, d.NextErr, snippet(wire, len(wire)-d.Leftover+30, 60))
		} else {
			add("wire-leftover", "%d bytes follow the end of the response; they start %s", d.Leftover, snippet(wire, len(wire)-d.Leftover+30, 60))
		}
	} else if next && d.NextErr != "" {
		add("next-response-missing", "%s", d.NextErr)
	}
	// trailers
	if trailerWanted && d.BodyErr == nil && bodyAllowed && !partial {
		got := resp.Trailer.Values(TrailerKey)
		wantV, set := m.HdrZ[TrailerKey]
		switch {
		case set && (len(got) != 1 || got[0] != wantV):
			add("trailer-final-value-lost", "trailer %s=%q on the wire, the value the handler left in the header map is %q", TrailerKey, got, wantV)
		case !set && len(got) > 0 && !(len(got) == 1 && got[0] == ""):
			add("trailer-invented", "trailer %s=%q on the wire, handler never set it", TrailerKey, got)
		}
	}
	return vs, d.Patched
}

package respgen

import (
	"bytes"
	"fmt"
	"io"
	"net"
	"net/http"
	"strings"

	"github.com/lesismal/nbio/nbhttp"

	"verif/track"
)

// FeedCase is one execution of the HTTP parser over a byte stream cut into segments.
type FeedCase struct {
	Client bool   `json:"client"` // client-side parser (stream = responses) instead of server-side
	Stream []byte `json:"stream"`
	Cuts   []int  `json:"cuts"` // ascending cut positions inside the stream
	// Chunk > 0: the stream is fed in pieces of this many bytes (1 = byte at a time) and Cuts is
	// ignored.
	Chunk int `json:"chunk,omitempty"`
	// CloseAfter: the connection is closed (CloseAndClean, as the engine does on close) after
	// this many segments were fed; the remaining segments are fed regardless (a read that was
	// already in flight). -1: closed only after the last segment.
	CloseAfter int `json:"close_after"`
	// Mode selects what the engine does after an Upgrade hand-over: "blocking" = readConnBlocking
	// (parser.OnClose(nil); parser.CloseAndClean(nil); later data goes to the ParserCloser),
	// "nonblocking" = the session is switched, the parser is simply abandoned.
	Mode string `json:"mode"`
}

func (c FeedCase) String() string {
	side := "server"
	if c.Client {
		side = "client"
	}
	cuts := fmt.Sprint("cuts ", c.Cuts)
	if c.Chunk > 0 {
		cuts = fmt.Sprintf("pieces of %d bytes", c.Chunk)
	}
	return fmt.Sprintf("%s parser, %d-byte stream %q, %s, close after segment %d, %s", side, len(c.Stream), abbreviate(c.Stream, 70), cuts, c.CloseAfter, c.Mode)
}

// Segments returns the pieces the stream is fed in.
func (c FeedCase) Segments() [][]byte {
	var segs [][]byte
	if c.Chunk > 0 {
		for lo := 0; lo < len(c.Stream); lo += c.Chunk {
			segs = append(segs, c.Stream[lo:min(lo+c.Chunk, len(c.Stream))])
		}
		return segs
	}
	prev := 0
	for _, cut := range append(append([]int{}, c.Cuts...), len(c.Stream)) {
		if cut > prev && cut <= len(c.Stream) {
			segs = append(segs, c.Stream[prev:cut])
			prev = cut
		}
	}
	return segs
}

func abbreviate(b []byte, n int) string {
	if len(b) <= n {
		return string(b)
	}
	return string(b[:n]) + "..."
}

// FeedResult is what one FeedCase did.
type FeedResult struct {
	T         *track.T
	Viol      []track.Violation
	Seen      []string // messages delivered to the handler: "METHOD path body" / "status body"
	Stub      []byte   // bytes that reached the stub ParserCloser
	HandOver  bool
	Errs      []string // Parse errors in order
	Logs      []string
	Panic     string
	Hang      bool
	CachedCut int // bytes held back by the parser after the first segment (-1: none)
	Wire      int // bytes written to the connection
	// content oracle (see checkRetained / reported below)
	Reads         int  // Parse calls made
	ReplaceReads  int  // Parse calls that entered with a cache, consumed something and left a tail again
	TailChecks    int  // comparisons of the retained tail with the input
	TailDiffs     int  // retained tail differs from the input in something that is not poison (not an ownership matter)
	Reported      int  // reported strings / byte slices inspected
	StaleSeen     int  // reported or retained data containing the stale sentinel (Stale policy; counted, not judged)
	DanglingCache int  // Parse calls after which an open parser keeps a pointer to a released cache buffer (counted, not judged)
	Guarded       bool // the run used guard pages (RunOpt.Guard and the arena was available)
	ContentOff    bool // the input itself contains the poison byte: content oracle off
}

// scribbleByte is what the harness overwrites its read buffer with after every Parse call (the
// engine reuses the buffer for the next read).
const scribbleByte = 0xEE

// StubPC is the ParserCloser installed by an Upgrade hand-over.
type StubPC struct {
	t          *track.T
	contentOff bool
	poison     func(data []byte, where, detail string)
	conn       net.Conn
	Got        []byte
	Closed     int
}

func (s *StubPC) UnderlayerConn() net.Conn { return s.conn }
func (s *StubPC) Parse(data []byte) error {
	s.t.Use(data, "ParserCloser.Parse")
	if s.t.InFreed(data) {
		return nil // reported by Use; the bytes mean nothing (and cannot even be read in guard mode)
	}
	if !s.contentOff {
		if i := track.HasPoison(data); i >= 0 {
			s.poison(data, "ParserCloser.Parse", fmt.Sprintf(" (%q, first at byte %d)", abbreviate(data, 48), i))
		}
	}
	s.Got = append(s.Got, data...)
	return nil
}
func (s *StubPC) CloseAndClean(err error) { s.Closed++ }

// RunFeeds executes one FeedCase on a fresh parser with a fresh tracking allocator.
func (e *Env) RunFeeds(c FeedCase, opt RunOpt) *FeedResult {
	out := &FeedResult{CachedCut: -1}
	t := track.New(opt.Policy)
	t.MoveOnGrow = opt.Move
	if opt.Guard {
		out.Guarded = t.EnableGuard()
	}
	out.T = t
	conn := &Conn{T: t, FailAt: opt.FailAt}
	hc := &nbhttp.Conn{Conn: conn}
	res := &Result{PanicOp: -1}
	rc := &runCtx{conn: conn, hc: hc, t: t, out: res, env: e}
	stub := &StubPC{t: t, conn: hc, contentOff: bytes.IndexByte(c.Stream, track.PoisonByte) >= 0}
	var parser *nbhttp.Parser
	// Content oracle. The allocator never recycles memory and overwrites a buffer with the poison
	// byte when it is freed; the streams fed here do not contain that byte (else ContentOff). So a
	// poison byte in anything the parser reports (callback arguments, error texts, bytes passed to
	// the ParserCloser) or retains (carry-over cache, body under assembly) was read out of a buffer
	// after it went back to the pool - also when no allocator call and no observation point sits
	// between the Free and the read (free-then-copy).
	out.ContentOff = bytes.IndexByte(c.Stream, track.PoisonByte) >= 0
	// Only the first poison observation of a run is reported: the later ones (the poisoned tail
	// parsed into a header key, then handed to the handler ...) are its consequences and would
	// only multiply the signatures of one defect.
	poisonSeen := false
	poison := func(data []byte, where, detail string) {
		if !poisonSeen {
			poisonSeen = t.PoisonRead(data, where, detail)
		}
	}
	stub.poison = poison
	reported := func(where string, s string) {
		if out.ContentOff || len(s) == 0 {
			return
		}
		out.Reported++
		if i := strings.IndexByte(s, track.PoisonByte); i >= 0 {
			poison(nil, where, fmt.Sprintf(" (%q, first at byte %d)", abbreviate([]byte(s), 48), i))
		}
		if opt.Policy == track.Stale && strings.IndexByte(s, track.StaleByte) >= 0 && bytes.IndexByte(c.Stream, track.StaleByte) < 0 {
			out.StaleSeen++
		}
	}
	reportedHeader := func(where string, h http.Header) {
		for k, vs := range h {
			reported(where+" key", k)
			for _, v := range vs {
				reported(where+" value", v)
			}
		}
	}
	// server-side handler
	rc.handler = func(w http.ResponseWriter, r *http.Request) {
		reported("handler.Method", r.Method)
		reported("handler.RequestURI", r.RequestURI)
		reported("handler.Proto", r.Proto)
		reported("handler.Host", r.Host)
		reportedHeader("handler.Header", r.Header)
		body := ""
		if br, ok := r.Body.(*nbhttp.BodyReader); ok && br != nil {
			for _, b := range br.RawBodyBuffers() {
				t.Use(b, "handler.RawBodyBuffers")
			}
			switch {
			case strings.HasPrefix(r.URL.Path, "/n"):
				body = "<unread>"
			case strings.HasPrefix(r.URL.Path, "/q"):
				buf := make([]byte, 3)
				n, _ := br.Read(buf)
				body = string(buf[:n]) + "<partial>"
			default:
				b, _ := io.ReadAll(br)
				body = string(b)
			}
			reported("handler.Body", body)
		}
		tr := ""
		if len(r.Trailer) > 0 {
			tr = fmt.Sprint(" trailer=", r.Trailer)
			reportedHeader("handler.Trailer", r.Trailer)
		}
		out.Seen = append(out.Seen, r.Method+" "+r.URL.Path+" "+body+tr)
		if strings.HasPrefix(r.URL.Path, "/ws") {
			if hj, ok := w.(http.Hijacker); ok {
				c, _, _ := hj.Hijack()
				parser.ParserCloser = stub
				out.HandOver = true
				_, _ = c.Write([]byte("HTTP/1.1 101 Switching Protocols\r\nUpgrade: websocket\r\nConnection: Upgrade\r\n\r\n"))
			}
			return
		}
		_, _ = w.Write([]byte("ok:" + r.URL.Path))
	}
	// client-side handler
	onResponse := func(r *http.Response, err error) {
		if r == nil {
			out.Seen = append(out.Seen, "nil response err="+errStr(err))
			return
		}
		reported("onResponse.Status", r.Status)
		reported("onResponse.Proto", r.Proto)
		reportedHeader("onResponse.Header", r.Header)
		body := ""
		if br, ok := r.Body.(*nbhttp.BodyReader); ok && br != nil {
			for _, b := range br.RawBodyBuffers() {
				t.Use(b, "handler.RawBodyBuffers")
			}
			b, _ := io.ReadAll(br)
			body = string(b)
			reported("onResponse.Body", body)
		}
		tr := ""
		if len(r.Trailer) > 0 {
			tr = fmt.Sprint(" trailer=", r.Trailer)
			reportedHeader("onResponse.Trailer", r.Trailer)
		}
		out.Seen = append(out.Seen, fmt.Sprintf("%d %s%s", r.StatusCode, body, tr))
		if r.StatusCode == http.StatusSwitchingProtocols {
			parser.ParserCloser = stub
			out.HandOver = true
		}
	}
	segs := c.Segments()
	// checkRetained compares what the parser holds back after a Parse call with the input: the
	// cache is always the unconsumed tail of everything fed so far (on the error returns too: they
	// leave the appended cache as it is), so its bytes are known. fed = bytes handed to Parse so far.
	checkRetained := func(fed int, readBuf []byte) {
		if parser.VerifParserClosed() {
			return // a closed parser keeps its released cache pointer and never looks at it again
		}
		// the engine reuses its read buffer for the next read: nothing the parser keeps may lie in it
		if h := parser.VerifCachedHandle(); h != nil && track.Overlaps(*h, readBuf) {
			t.Note("read-buffer-retained", "read-buffer-retained use=Parser.bytesCached",
				fmt.Sprintf("the parser's carry-over cache lies in the read buffer the caller passed to Parse and reuses for the next read (after Parse call %d)", out.Reads))
		}
		for _, b := range parser.VerifPendingBody() {
			if track.Overlaps(b, readBuf) {
				t.Note("read-buffer-retained", "read-buffer-retained use=Parser.pendingBody",
					fmt.Sprintf("a body buffer of the message under assembly lies in the read buffer the caller passed to Parse and reuses for the next read (after Parse call %d)", out.Reads))
			}
		}
		if out.ContentOff {
			return
		}
		if h := parser.VerifCachedHandle(); h != nil && t.IsFreed(h) {
			// a pointer to a released buffer that is kept but (so far) not used is not a violation; the
			// next read would be (append-after-free)
			out.DanglingCache++
		} else if cached := parser.VerifCached(); len(cached) > 0 && len(cached) <= fed {
			out.TailChecks++
			want := c.Stream[fed-len(cached) : fed]
			if !bytes.Equal(cached, want) {
				poisonAt, other := -1, -1
				for i := range cached {
					switch {
					case cached[i] == want[i]:
					case cached[i] == track.PoisonByte:
						if poisonAt < 0 {
							poisonAt = i
						}
					case cached[i] == track.StaleByte && opt.Policy == track.Stale:
						out.StaleSeen++
					case other < 0:
						other = i
					}
				}
				detail := fmt.Sprintf(" after Parse call %d (%d bytes fed; cache %q, input tail %q)", out.Reads, fed, abbreviate(cached, 48), abbreviate(want, 48))
				if poisonAt >= 0 {
					poison(cached, "Parser.bytesCached", detail)
				}
				if other >= 0 {
					out.TailDiffs++
				}
			}
		}
		for _, b := range parser.VerifPendingBody() {
			if t.InFreed(b) {
				out.DanglingCache++ // kept, not (yet) used: not a violation by itself
				continue
			}
			out.Reported++
			if i := track.HasPoison(b); i >= 0 {
				poison(b, "Parser.pendingBody", fmt.Sprintf(" after Parse call %d (%q, first at byte %d)", out.Reads, abbreviate(b, 48), i))
			}
		}
	}
	e.runGuarded(rc, func() {
		if c.Client {
			cc := &nbhttp.ClientConn{Engine: e.Engine}
			parser = nbhttp.NewParser(hc, e.Engine, nbhttp.NewClientProcessor(cc, onResponse), true, nil)
		} else {
			parser = nbhttp.NewParser(hc, e.Engine, nbhttp.NewServerProcessor(), false, nil)
		}
		hc.Parser = parser
		var pc nbhttp.ParserCloser = parser // what the engine feeds
		closed := false
		closeConn := func(err error) {
			if closed {
				return
			}
			closed = true
			pc.CloseAndClean(err)
		}
		fed := 0
		for i, seg := range segs {
			if c.CloseAfter == i {
				closeConn(io.EOF)
			}
			// the engine passes its read buffer and reuses it afterwards
			buf := append([]byte(nil), seg...)
			hadCache := pc == nbhttp.ParserCloser(parser) && !parser.VerifParserClosed() && parser.VerifCachedLen() > 0
			before := parser.VerifCachedLen()
			err := pc.Parse(buf)
			for j := range buf {
				buf[j] = scribbleByte
			}
			fed += len(seg)
			out.Reads++
			if i == 0 {
				out.CachedCut = parser.VerifCachedLen()
			}
			if pc == nbhttp.ParserCloser(parser) {
				if after := parser.VerifCachedLen(); hadCache && err == nil && !parser.VerifParserClosed() && after > 0 && after < before+len(seg) {
					out.ReplaceReads++
				}
				checkRetained(fed, buf)
			}
			if err != nil {
				// error texts often quote the offending bytes (%q): look for the escaped form too
				reported("Parse error text", strings.NewReplacer(`\xdd`, "\xdd", `\xDD`, "\xdd").Replace(err.Error()))
				out.Errs = append(out.Errs, err.Error())
				if !closed {
					// the engine closes the connection on a parse error and feeds nothing more
					closeConn(err)
					break
				}
				continue
			}
			if pc == nbhttp.ParserCloser(parser) && parser.ParserCloser != nil {
				// hand-over happened during this Parse
				pc = parser.ParserCloser
				if c.Mode == "blocking" {
					parser.OnClose(nil)
					parser.CloseAndClean(nil)
				}
			}
		}
		closeConn(io.EOF)
	})
	out.Stub = stub.Got
	out.Panic = res.Panic
	out.Hang = res.Hang
	out.Logs = res.Logs
	out.Wire = len(conn.Wire)
	for _, l := range out.Logs {
		if strings.Contains(l, "Parse failed") && out.Panic == "" {
			out.Panic = l
			if len(out.Panic) > 300 {
				out.Panic = out.Panic[:300]
			}
		}
	}
	if !out.Hang {
		out.Viol = t.Violations()
		t.Release() // guard mode: the case is over, its memory must not be touched any more
	}
	return out
}

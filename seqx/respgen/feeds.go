package respgen

import (
	"fmt"
	"io"
	"net"
	"net/http"
	"strings"

	"github.com/lesismal/nbio/nbhttp"

	"verif/track"
)

// FeedCase is one execution of the HTTP parser over a byte stream cut into segments.
type FeedCase struct {
	Client bool   `json:"client"` // client-side parser (stream = responses) instead of server-side
	Stream []byte `json:"stream"`
	Cuts   []int  `json:"cuts"` // ascending cut positions inside the stream
	// CloseAfter: the connection is closed (CloseAndClean, as the engine does on close) after
	// this many segments were fed; the remaining segments are fed regardless (a read that was
	// already in flight). -1: closed only after the last segment.
	CloseAfter int `json:"close_after"`
	// Mode selects what the engine does after an Upgrade hand-over: "blocking" = readConnBlocking
	// (parser.OnClose(nil); parser.CloseAndClean(nil); later data goes to the ParserCloser),
	// "nonblocking" = the session is switched, the parser is simply abandoned.
	Mode string `json:"mode"`
}

func (c FeedCase) String() string {
	side := "server"
	if c.Client {
		side = "client"
	}
	return fmt.Sprintf("%s parser, %d-byte stream %q, cuts %v, close after segment %d, %s", side, len(c.Stream), abbreviate(c.Stream, 70), c.Cuts, c.CloseAfter, c.Mode)
}

func abbreviate(b []byte, n int) string {
	if len(b) <= n {
		return string(b)
	}
	return string(b[:n]) + "..."
}

// FeedResult is what one FeedCase did.
type FeedResult struct {
	T         *track.T
	Viol      []track.Violation
	Seen      []string // messages delivered to the handler: "METHOD path body" / "status body"
	Stub      []byte   // bytes that reached the stub ParserCloser
	HandOver  bool
	Errs      []string // Parse errors in order
	Logs      []string
	Panic     string
	Hang      bool
	CachedCut int // bytes held back by the parser after the first segment (-1: none)
	Wire      int // bytes written to the connection
}

// StubPC is the ParserCloser installed by an Upgrade hand-over.
type StubPC struct {
	t      *track.T
	conn   net.Conn
	Got    []byte
	Closed int
}

func (s *StubPC) UnderlayerConn() net.Conn { return s.conn }
func (s *StubPC) Parse(data []byte) error {
	s.t.Use(data, "ParserCloser.Parse")
	s.Got = append(s.Got, data...)
	return nil
}
func (s *StubPC) CloseAndClean(err error) { s.Closed++ }

// RunFeeds executes one FeedCase on a fresh parser with a fresh tracking allocator.
func (e *Env) RunFeeds(c FeedCase, opt RunOpt) *FeedResult {
	out := &FeedResult{CachedCut: -1}
	t := track.New(opt.Policy)
	t.MoveOnGrow = opt.Move
	out.T = t
	conn := &Conn{T: t, FailAt: opt.FailAt}
	hc := &nbhttp.Conn{Conn: conn}
	res := &Result{PanicOp: -1}
	rc := &runCtx{conn: conn, hc: hc, t: t, out: res, env: e}
	stub := &StubPC{t: t, conn: hc}
	var parser *nbhttp.Parser
	// server-side handler
	rc.handler = func(w http.ResponseWriter, r *http.Request) {
		body := ""
		if br, ok := r.Body.(*nbhttp.BodyReader); ok && br != nil {
			for _, b := range br.RawBodyBuffers() {
				t.Use(b, "handler.RawBodyBuffers")
			}
			switch {
			case strings.HasPrefix(r.URL.Path, "/n"):
				body = "<unread>"
			case strings.HasPrefix(r.URL.Path, "/q"):
				buf := make([]byte, 3)
				n, _ := br.Read(buf)
				body = string(buf[:n]) + "<partial>"
			default:
				b, _ := io.ReadAll(br)
				body = string(b)
			}
		}
		tr := ""
		if len(r.Trailer) > 0 {
			tr = fmt.Sprint(" trailer=", r.Trailer)
		}
		out.Seen = append(out.Seen, r.Method+" "+r.URL.Path+" "+body+tr)
		if strings.HasPrefix(r.URL.Path, "/ws") {
			if hj, ok := w.(http.Hijacker); ok {
				c, _, _ := hj.Hijack()
				parser.ParserCloser = stub
				out.HandOver = true
				_, _ = c.Write([]byte("HTTP/1.1 101 Switching Protocols\r\nUpgrade: websocket\r\nConnection: Upgrade\r\n\r\n"))
			}
			return
		}
		_, _ = w.Write([]byte("ok:" + r.URL.Path))
	}
	// client-side handler
	onResponse := func(r *http.Response, err error) {
		if r == nil {
			out.Seen = append(out.Seen, "nil response err="+errStr(err))
			return
		}
		body := ""
		if br, ok := r.Body.(*nbhttp.BodyReader); ok && br != nil {
			for _, b := range br.RawBodyBuffers() {
				t.Use(b, "handler.RawBodyBuffers")
			}
			b, _ := io.ReadAll(br)
			body = string(b)
		}
		tr := ""
		if len(r.Trailer) > 0 {
			tr = fmt.Sprint(" trailer=", r.Trailer)
		}
		out.Seen = append(out.Seen, fmt.Sprintf("%d %s%s", r.StatusCode, body, tr))
		if r.StatusCode == http.StatusSwitchingProtocols {
			parser.ParserCloser = stub
			out.HandOver = true
		}
	}
	// segments
	var segs [][]byte
	prev := 0
	for _, cut := range append(append([]int{}, c.Cuts...), len(c.Stream)) {
		if cut > prev {
			segs = append(segs, c.Stream[prev:cut])
			prev = cut
		}
	}
	e.runGuarded(rc, func() {
		if c.Client {
			cc := &nbhttp.ClientConn{Engine: e.Engine}
			parser = nbhttp.NewParser(hc, e.Engine, nbhttp.NewClientProcessor(cc, onResponse), true, nil)
		} else {
			parser = nbhttp.NewParser(hc, e.Engine, nbhttp.NewServerProcessor(), false, nil)
		}
		hc.Parser = parser
		var pc nbhttp.ParserCloser = parser // what the engine feeds
		closed := false
		closeConn := func(err error) {
			if closed {
				return
			}
			closed = true
			pc.CloseAndClean(err)
		}
		for i, seg := range segs {
			if c.CloseAfter == i {
				closeConn(io.EOF)
			}
			// the engine passes its read buffer and reuses it afterwards
			buf := append([]byte(nil), seg...)
			err := pc.Parse(buf)
			for j := range buf {
				buf[j] = 0xEE
			}
			if i == 0 {
				out.CachedCut = parser.VerifCachedLen()
			}
			if err != nil {
				out.Errs = append(out.Errs, err.Error())
				if !closed {
					// the engine closes the connection on a parse error and feeds nothing more
					closeConn(err)
					break
				}
				continue
			}
			if pc == nbhttp.ParserCloser(parser) && parser.ParserCloser != nil {
				// hand-over happened during this Parse
				pc = parser.ParserCloser
				if c.Mode == "blocking" {
					parser.OnClose(nil)
					parser.CloseAndClean(nil)
				}
			}
		}
		closeConn(io.EOF)
	})
	out.Stub = stub.Got
	out.Panic = res.Panic
	out.Hang = res.Hang
	out.Logs = res.Logs
	out.Wire = len(conn.Wire)
	for _, l := range out.Logs {
		if strings.Contains(l, "Parse failed") && out.Panic == "" {
			out.Panic = l
			if len(out.Panic) > 300 {
				out.Panic = out.Panic[:300]
			}
		}
	}
	if !out.Hang {
		out.Viol = t.Violations()
	}
	return out
}

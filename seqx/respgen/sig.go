package respgen

import (
	"fmt"
	"strings"
)

func isRF(k string) bool { return k == OpRFB || k == OpRFF || k == OpRFL || k == OpRFX }

func headClause(c string) bool {
	return c == "status-mismatch" || c == "header-missing" || strings.HasPrefix(c, "framing-")
}

func opTimeClause(c string) bool {
	return strings.HasPrefix(c, "write-") || strings.HasPrefix(c, "readfrom-")
}

// blame picks the operation a set of failed clauses is attributed to: the operation that
// panicked; else the first operation whose return value was wrong; else, when a clause about the
// head failed (status, headers, framing choice), the operation during which the head was
// encoded; else the last operation. -1 stands for "after the handler returned" (flushResponse).
func blame(vs []Verdict, p Program, r *Result) int {
	if r.Panic != "" && r.PanicOp >= 0 && r.PanicOp < len(p.Ops) {
		return r.PanicOp
	}
	if r.Panic != "" {
		return -1
	}
	for _, v := range vs {
		if opTimeClause(v.Clause) {
			var i int
			if _, err := fmt.Sscanf(v.Detail, "op %d ", &i); err == nil && i < len(p.Ops) {
				return i
			}
		}
	}
	for _, v := range vs {
		if headClause(v.Clause) {
			for i := range r.Ops {
				if r.Ops[i].HeadEncoded {
					return i
				}
			}
			return -1
		}
	}
	return len(p.Ops) - 1
}

// Signature names the defect behind the failed clauses of a program whose proper prefixes are
// all clean: the clauses plus those features of the blamed transition that select the code
// path in the response writer — operation kind, framing in force, where the head is, whether
// the operation made the writer emit to the connection — never sizes, offsets or versions.
//
// ReadFrom gets coarser signatures: it is only usable on a prepared response (status chosen,
// Content-Length declared, head not yet encoded), so what is named is how the response was
// unprepared, plus the failure family.
func Signature(vs []Verdict, p Program, r *Result) string {
	var cs []string
	for _, v := range vs {
		cs = append(cs, v.Clause)
	}
	sig := strings.Join(cs, "+")
	i := blame(vs, p, r)
	if i < 0 || i >= len(p.Ops) || i >= len(r.Ops)+1 {
		return sig + " @end"
	}
	op := p.Ops[i]
	var pre OpResult
	if i > 0 && i-1 < len(r.Ops) {
		pre = r.Ops[i-1]
	}
	if isRF(op.K) {
		conn := p.Conn
		if conn == "" {
			conn = ConnPlain
		}
		for _, c := range cs {
			if strings.HasPrefix(c, "panic") && op.K == OpRFF && conn == ConnSendfile {
				return "readfrom-panic file-without-limitedreader-on-sendfile-conn"
			}
		}
		for _, c := range cs {
			if c == "readfrom-returned-wrong-count" && op.K == OpRFL && conn != ConnSendfile {
				return "readfrom-wrong-count limitedreader-file-on-" + conn + "-conn"
			}
		}
		pm := ModelOf(Program{Version: p.Version, Ops: p.Ops[:i]})
		class := ""
		switch {
		case pre.HeadEncoded:
			class = "head-already-encoded"
		case pm.Body > 0:
			class = "buffered-body-pending"
		case pm.HdrZ["Trailer"] != "" || pm.HdrZ["Transfer-Encoding"] != "":
			class = "chunked-requested"
		case pm.Level >= 2 && pm.DeclaredCL() >= 0:
			class = "prepared"
		case pm.Level >= 2:
			class = "no-content-length"
		case pm.DeclaredCL() >= 0:
			class = "no-status"
		default:
			class = "no-status-no-content-length"
		}
		fam := "malformed"
		for _, c := range cs {
			if strings.HasPrefix(c, "panic") {
				fam = "panic"
				break
			}
			if opTimeClause(c) {
				fam = c
			}
		}
		if op.K == OpRFX && !(fam == "malformed" && class == "head-already-encoded") {
			// the file-segment family (the known Flush-before-length failure apart): the failure family plus
			// what selects the path in ReadFrom -
			// connection kind, framing, whether the segment is empty - never sizes or offsets
			framing := "no-content-length"
			switch {
			case pm.HdrZ["Trailer"] != "" || pm.HdrZ["Transfer-Encoding"] != "":
				framing = "chunked-requested"
			case pm.DeclaredCL() > 0:
				framing = "content-length"
			case pm.DeclaredCL() == 0:
				framing = "content-length-0"
			}
			head := "head-unencoded"
			if pre.HeadEncoded {
				head = "head-already-encoded"
			}
			seg := "segment"
			switch {
			case op.N == 0:
				seg = "empty-limit"
			case op.Count() == 0:
				seg = "at-eof"
			case op.N > op.Count():
				seg = "limit-beyond-eof"
			}
			return "readfrom-" + fam + " file-segment " + seg + " " + conn + "-conn " + framing + " " + head
		}
		if class == "prepared" {
			// the one supported usage: keep full detail
			return "readfrom-" + fam + " prepared " + op.K + "/" + conn + " " + sig
		}
		return "readfrom-" + fam + " " + class
	}
	kind := op.K
	switch op.K {
	case OpWS:
		kind = OpW
	case OpOWS:
		kind = OpOW
	case OpCL, OpCT, OpTRD, OpTR, OpTV, OpTE, OpWH:
		kind = "H" // header / status operations: nothing is emitted, the order among them is irrelevant
	}
	head := "unencoded"
	switch {
	case kind == "H" && pre.HeadEncoded:
		head = "encoded"
	case pre.Wire1 > 0:
		head = "sent"
	case pre.HeadEncoded:
		head = "pending"
	}
	ctx := " @" + kind + " head=" + head
	if i < len(r.Ops) {
		post := r.Ops[i]
		pm := ModelOf(Program{Version: p.Version, Ops: p.Ops[:i+1]})
		switch {
		case post.Chunked:
			ctx += " chunked"
		case pm.CLLevel >= 0:
			ctx += " identity-declared"
		default:
			ctx += " identity"
		}
		switch op.K {
		case OpW, OpWS, OpF:
			if post.Wire1 > post.Wire0 {
				ctx += " emits"
			} else {
				ctx += " buffers"
			}
		}
	}
	return sig + ctx
}

// OutcomeClass classifies the observable outcome of a judged program.
func OutcomeClass(m *Model, r *Result, vs []Verdict) string {
	fr := "identity"
	if r.State.Chunked {
		fr = "chunked"
	}
	tr := ""
	if m.Hdr0["Trailer"] != "" {
		tr = " trailer"
	}
	body := "nobody"
	switch {
	case m.Body >= 65536:
		body = "body>=64K"
	case m.Body > 0:
		body = "body<64K"
	}
	st := m.Status
	if st == 0 {
		st = 200
	}
	verdict := "ok"
	if len(vs) > 0 {
		var cs []string
		for _, v := range vs {
			cs = append(cs, v.Clause)
		}
		verdict = strings.Join(cs, "+")
	}
	return fmt.Sprintf("%d %s%s %s writes=%d -> %s", st, fr, tr, body, len(r.Writes), verdict)
}

func clauseSet(vs []Verdict) string {
	var cs []string
	for _, v := range vs {
		cs = append(cs, v.Clause)
	}
	return strings.Join(cs, "+")
}

// validProgram checks the side conditions the generator guarantees (file operations line up
// with the body pattern).
func validProgram(p Program) bool {
	off := 0
	for i, op := range p.Ops {
		if op.IsOverrun() {
			// still an overrun where it stands
			pm := ModelOf(Program{Version: p.Version, Ops: p.Ops[:i]})
			if cl := pm.DeclaredCL(); !pm.CLInForce() || op.N <= cl-pm.Body {
				return false
			}
		}
		switch op.K {
		case OpRFF:
			if op.N != FileLen-off {
				return false
			}
		case OpRFL:
			if FileLen-off <= op.N {
				return false
			}
		}
		off += op.Count()
	}
	return true
}

// Minimize removes, one at a time, operations that are irrelevant to a failure (the reduced
// program is still inside the quantifier — or, like the original, still short of its declared
// body — and fails exactly the same clauses), so that the signature is computed on a minimal
// failing program and does not depend on bystander operations.
func Minimize(e *Env, prog Program, vs []Verdict, opt RunOpt) (Program, []Verdict, *Result) {
	want := clauseSet(vs)
	cur, curV := prog, vs
	var curR *Result
	for changed := true; changed; {
		changed = false
		for i := range cur.Ops {
			q := cur.With(append(append([]Op{}, cur.Ops[:i]...), cur.Ops[i+1:]...))
			if !validProgram(q) {
				continue
			}
			m := ModelOf(q)
			if m.Dead() != "" {
				continue
			}
			r := e.Run(q, opt, false)
			qv := Judge(m, r, m.Excluded() != "")
			r.Release(e)
			if clauseSet(qv) == want {
				cur, curV, curR = q, qv, r
				changed = true
				break
			}
		}
	}
	if curR == nil {
		curR = e.Run(cur, opt, false)
	}
	return cur, curV, curR
}

// Sign returns the signature of a failing, untainted node: ReadFrom-blamed failures are named
// by how the response was unprepared; everything else by the clauses and the context of the
// blamed operation in a minimal failing program. When a prefix that had not yet completed its
// declared body already had a wrong wire (Node.Origin) the failure is attributed there.
func Sign(e *Env, n *Node, opt RunOpt) (sig string, minimal Program) {
	prog, vs, r := n.Prog, n.Verdicts, n.R
	if o := n.Origin; o != nil {
		prog, vs, r = o.Prog, o.Verdicts, o.R
	}
	i := blame(vs, prog, r)
	if i >= 0 && i < len(prog.Ops) && isRF(prog.Ops[i].K) {
		return Signature(vs, prog, r), prog
	}
	mp, mv, mr := Minimize(e, prog, vs, opt)
	return Signature(mv, mp, mr), mp
}

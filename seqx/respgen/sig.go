package respgen

import (
	"fmt"
	"strings"
)

// Signature names the defect behind the failed clauses that are new with the last operation of
// the program: the clauses plus those features of the transition that select the code path in
// the response writer — operation kind, framing in force, where the head is, whether the
// operation made the writer emit to the connection — never sizes, offsets or versions.
func Signature(fresh []Verdict, p Program, r *Result) string {
	var cs []string
	for _, v := range fresh {
		cs = append(cs, v.Clause)
	}
	sig := strings.Join(cs, "+")
	if len(p.Ops) == 0 || len(r.Ops) == 0 {
		return sig + " @empty-program"
	}
	i := len(p.Ops) - 1
	if r.Panic != "" && r.PanicOp >= 0 {
		i = r.PanicOp
	}
	if i >= len(p.Ops) {
		i = len(p.Ops) - 1
	}
	op := p.Ops[i]
	kind := op.K
	switch op.K {
	case OpWS:
		kind = OpW
	case OpRFF, OpRFL:
		c := p.Conn
		if c == "" {
			c = ConnPlain
		}
		kind += "/" + c
	case OpWH:
		kind = fmt.Sprintf("WH%d", op.N)
	}
	var pre OpResult
	if i > 0 && i-1 < len(r.Ops) {
		pre = r.Ops[i-1]
	}
	head := "unencoded"
	switch {
	case pre.Wire1 > 0:
		head = "sent"
	case pre.HeadEncoded:
		head = "pending"
	}
	ctx := " @" + kind + " head=" + head
	if i < len(r.Ops) {
		post := r.Ops[i]
		switch {
		case post.Chunked:
			ctx += " chunked"
		case post.ContentLen > 0:
			ctx += " identity-declared"
		default:
			ctx += " identity"
		}
		switch op.K {
		case OpW, OpWS, OpRFB, OpRFF, OpRFL, OpF:
			if post.Wire1 > post.Wire0 {
				ctx += " emits"
			} else {
				ctx += " buffers"
			}
		}
	}
	return sig + ctx
}

// OutcomeClass classifies the observable outcome of a judged program.
func OutcomeClass(m *Model, r *Result, vs []Verdict) string {
	fr := "identity"
	if r.State.Chunked {
		fr = "chunked"
	}
	tr := ""
	if m.Hdr0["Trailer"] != "" {
		tr = " trailer"
	}
	body := "nobody"
	switch {
	case m.Body >= 65536:
		body = "body>=64K"
	case m.Body > 0:
		body = "body<64K"
	}
	st := m.Status
	if st == 0 {
		st = 200
	}
	verdict := "ok"
	if len(vs) > 0 {
		var cs []string
		for _, v := range vs {
			cs = append(cs, v.Clause)
		}
		verdict = strings.Join(cs, "+")
	}
	return fmt.Sprintf("%d %s%s %s writes=%d -> %s", st, fr, tr, body, len(r.Writes), verdict)
}

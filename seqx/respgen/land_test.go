package respgen

import (
	"fmt"
	"testing"

	"verif/track"
)

type allShard struct{}

func (allShard) Mine() bool { return true }

// go test -tags verif -overlay /verif/.work/ov-C09/overlay.json ./seqx/respgen -run TestLandingMisses -v
func TestLandingMisses(t *testing.T) {
	cfg := QuickConfig()
	cfg.Depth = 3
	cfg.Split = 3
	x := &Explorer{Env: GetEnv(), Cfg: cfg, Opt: RunOpt{Policy: track.Pooled}}
	miss := map[string]int{}
	ex := map[string]string{}
	x.Visit = func(n *Node) {
		if len(n.Prog.Ops) == 0 {
			return
		}
		op := n.Prog.Ops[len(n.Prog.Ops)-1]
		if len(op.Sym) > 1 && op.Sym[0] == 'T' && (op.K == OpW || op.K == OpWS) {
			var tgt int
			fmt.Sscanf(op.Sym, "T%d", &tgt)
			l, ok := landing(n.R)
			if !ok || l != tgt {
				k := fmt.Sprintf("%s chunked=%v he=%v delta=%d", n.Prog.Shape(), n.R.State.Chunked, n.R.Ops[len(n.R.Ops)-1].HeadEncoded, l-tgt)
				miss[k]++
				ex[k] = n.Prog.String()
			}
		}
	}
	x.Explore(allShard{})
	for k, v := range miss {
		if v > 4 {
			t.Logf("%5d %s   e.g. %s", v, k, ex[k])
		}
	}
	t.Logf("landed %v missed %d", x.Landed, x.Missed)
}

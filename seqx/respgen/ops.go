// Package respgen is the shared machinery of the C09 (response framing) and C11 (pooled-buffer
// ownership) checks: handler programs, a recording fake net.Conn, a driver that pushes a real
// request through a real nbhttp Parser / ServerProcessor / Response, the reference model with
// its independent (net/http based) oracle, and the explicit-state breadth-first explorer.
package respgen

import (
	"fmt"
	"strings"
)

// Op kinds.
const (
	OpCL  = "CL"  // Header().Set("Content-Length", N)
	OpCT  = "CT"  // Header().Set("Content-Type", ctValue)
	OpTRD = "TRD" // Header().Set("Trailer", trailerKey)              (declaration only)
	OpTR  = "TR"  // Header().Set("Trailer", trailerKey) + Set(trailerKey, "v1")
	OpTV  = "TV"  // Header().Set(trailerKey, "v2")
	OpTE  = "TE"  // Header().Set("Transfer-Encoding", "chunked")
	OpWH  = "WH"  // WriteHeader(N)
	OpW   = "W"   // Write(N bytes)
	OpWS  = "WS"  // WriteString(N bytes)
	OpF   = "F"   // Flush()
	OpRFB = "RFB" // ReadFrom(bytes.Reader with N bytes)
	OpRFF = "RFF" // ReadFrom(*os.File positioned so that N bytes remain)
	OpRFL = "RFL" // ReadFrom(&io.LimitedReader{R: *os.File, N: N}) with more than N bytes remaining
	// OpRFX is the general file segment: ReadFrom(&io.LimitedReader{R: *os.File, N: N}) with the file
	// positioned at offset Off, for any N >= 0 and any 0 <= Off <= FileLen (io.CopyN(w, f, N) after a
	// Seek, the way byte ranges of a file are served). It contributes min(N, FileLen-Off) bytes,
	// the bytes Off.. of the pattern file - possibly none.
	OpRFX = "RFX"
	// Overrun attempts: a Write / WriteString / ReadFrom(bytes.Reader) of N bytes where the declared
	// Content-Length leaves room for fewer. They contribute nothing: the call must be refused.
	OpOW  = "OW"
	OpOWS = "OWS"
	OpORF = "ORF"
)

// IsOverrun reports whether the operation is an overrun attempt.
func (o Op) IsOverrun() bool { return o.K == OpOW || o.K == OpOWS || o.K == OpORF }

// Connection kinds (what the response writer finds behind Parser.Conn). The kind only matters
// to ReadFrom with a file.
const (
	ConnPlain    = "plain"    // no Sendfile method (IOModBlocking *net.TCPConn, TLS)
	ConnSendfile = "sendfile" // has Sendfile(f, remain) like *nbio.Conn
	ConnNoSF     = "nosf"     // has Sendfile but Engine.DisableSendfile is set
)

const (
	CTValue    = "application/x-verif"
	TrailerKey = "X-Verif-T"
	TrailerV1  = "v1"
	TrailerV2  = "v2"
	// FileLen is the length of the pattern file used by the ReadFrom(*os.File) operations.
	FileLen = 70000
)

// Op is one handler operation with its concrete argument.
type Op struct {
	K string `json:"k"`
	N int    `json:"n,omitempty"`
	// Sym records how N was chosen (informational): "T65536" = computed from a probe run so that
	// the internal buffer lands at 65536 bytes, "fill" = the rest of the declared Content-Length.
	Sym string `json:"sym,omitempty"`
	// Off is the file offset of an OpRFX segment.
	Off int `json:"off,omitempty"`
}

// Count is the number of body bytes a well-behaved writer sends for the operation (0 for
// operations that are not body operations).
func (o Op) Count() int {
	switch o.K {
	case OpW, OpWS, OpRFB, OpRFF, OpRFL:
		return o.N
	case OpRFX:
		c := FileLen - o.Off
		if o.N < c {
			c = o.N
		}
		if c < 0 {
			c = 0
		}
		return c
	}
	return 0
}

func (o Op) String() string {
	switch o.K {
	case OpCT, OpTRD, OpTR, OpTV, OpTE, OpF:
		return o.K
	}
	if o.K == OpRFX {
		return fmt.Sprintf("RFX(limit=%d@%d:%s)", o.N, o.Off, o.Sym)
	}
	if o.Sym != "" {
		return fmt.Sprintf("%s(%d:%s)", o.K, o.N, o.Sym)
	}
	return fmt.Sprintf("%s(%d)", o.K, o.N)
}

// Versions of the request that triggers the handler.
var Versions = []struct {
	Name    string
	Request string
	Proto11 bool
	Close   bool
}{
	{"HTTP/1.0", "GET /v HTTP/1.0\r\nHost: verif\r\n\r\n", false, true},
	{"HTTP/1.0+keep-alive", "GET /v HTTP/1.0\r\nHost: verif\r\nConnection: keep-alive\r\n\r\n", false, false},
	{"HTTP/1.1", "GET /v HTTP/1.1\r\nHost: verif\r\n\r\n", true, false},
	{"HTTP/1.1+close", "GET /v HTTP/1.1\r\nHost: verif\r\nConnection: close\r\n\r\n", true, true},
}

// Program is a handler program for one request version and connection kind.
type Program struct {
	Version int    `json:"version"`
	Conn    string `json:"conn,omitempty"` // "" = ConnPlain
	Ops     []Op   `json:"ops"`
	// Next: a second request (NextRequest) follows the first one on the same connection, in the
	// same read; its handler answers with a fixed small response. Whatever the first response put on
	// the wire beyond its own framing precedes - and corrupts - the second one. Only meaningful on
	// the keep-alive request versions.
	Next bool `json:"next,omitempty"`
}

// The pipelined follow-up request and what its handler answers.
const (
	NextPath    = "/next"
	NextRequest = "GET /next HTTP/1.1\r\nHost: verif\r\n\r\n"
	NextHeader  = "X-Verif-Next"
	NextBody    = "next"
)

// With returns the program with other operations (version, connection kind, pipelining kept).
func (p Program) With(ops []Op) Program {
	return Program{Version: p.Version, Conn: p.Conn, Next: p.Next, Ops: ops}
}

func (p Program) String() string {
	var sb strings.Builder
	sb.WriteString(Versions[p.Version].Name)
	if p.Conn != "" && p.Conn != ConnPlain {
		sb.WriteString("/" + p.Conn)
	}
	if p.Next {
		sb.WriteString("+next")
	}
	sb.WriteString(": ")
	for i, o := range p.Ops {
		if i > 0 {
			sb.WriteString("; ")
		}
		sb.WriteString(o.String())
	}
	return sb.String()
}

// Shape is the program without its sizes (operation kinds only).
func (p Program) Shape() string {
	var ks []string
	for _, o := range p.Ops {
		ks = append(ks, o.K)
	}
	return strings.Join(ks, ",")
}

// HasFileOp reports whether the program reads from a file.
func (p Program) HasFileOp() bool {
	for _, o := range p.Ops {
		if o.K == OpRFF || o.K == OpRFL || o.K == OpRFX {
			return true
		}
	}
	return false
}

// ---------------------------------------------------------------------------------------------
// body pattern: byte i of every response body is Pat[i], whatever operations produced it, so
// that two histories that wrote the same number of bytes wrote the same bytes (states merge)
// while a misplaced, duplicated or lost piece is visible (the sequence has no short period).

// PatLen bounds the total body size of a program.
const PatLen = 1 << 20

// Pat is the body pattern; PatStr the same bytes as a string (for WriteString).
var (
	Pat    []byte
	PatStr string
)

func init() {
	Pat = make([]byte, PatLen)
	x := uint32(0x9E3779B9)
	for i := range Pat {
		x ^= x << 13
		x ^= x >> 17
		x ^= x << 5
		Pat[i] = 'a' + byte((x>>8)%26)
	}
	PatStr = string(Pat)
}

package respgen

import (
	"bytes"
	"fmt"
	"hash/maphash"
	"io"
	"net/http"
	"os"
	"path/filepath"
	"runtime/debug"
	"sort"
	"strconv"
	"strings"
	"sync"
	"time"

	"github.com/lesismal/nbio/logging"
	"github.com/lesismal/nbio/mempool"
	"github.com/lesismal/nbio/nbhttp"

	"verif/track"
)

// Env is the per-process environment: one nbhttp.Engine (never started; inline executor) whose
// handler dispatches to the case that is currently running, the capturing logger and the
// pattern file. Cases run strictly one after the other.
type Env struct {
	Engine *nbhttp.Engine
	File   *os.File
	cur    *runCtx
	logs   []string
	broken bool
	// recycled wire buffers of the fake connection (see Result.Release) and the oracle's body
	// scratch buffer
	wires   [][]byte
	scratch []byte
}

type capLogger struct{ e *Env }

func (l capLogger) Debug(format string, v ...interface{}) {}
func (l capLogger) Info(format string, v ...interface{})  {}
func (l capLogger) Warn(format string, v ...interface{})  {}
func (l capLogger) Error(format string, v ...interface{}) {
	full := fmt.Sprintf(format, v...)
	s := full
	if len(s) > 1500 {
		s = s[:1500]
	}
	envMu.Lock()
	if cur := l.e; cur != nil {
		cur.logs = append(cur.logs, s)
	}
	envMu.Unlock()
	// guard mode: a recovered panic that is a memory fault carries the address; the stack is the
	// other argument of nbio's "... failed: %v\n%v" log calls
	if rc := l.e.cur; rc != nil && rc.t != nil && rc.t.Guarded() {
		for _, x := range v {
			if addr, ok := track.FaultAddr(x); ok {
				rc.t.Fault(addr, track.FaultSite(full))
			}
		}
	}
}

var (
	envMu  sync.Mutex
	theEnv *Env
)

// WorkDir is where the pattern file lives.
func WorkDir() string {
	root := os.Getenv("VERIF_ROOT")
	if root == "" {
		root = "/verif"
	}
	return filepath.Join(root, ".work")
}

// GetEnv returns the process environment (created on first use; recreated after a hang).
func GetEnv() *Env {
	envMu.Lock()
	defer envMu.Unlock()
	if theEnv != nil && !theEnv.broken {
		return theEnv
	}
	e := &Env{}
	// every run allocates (and drops) up to a few hundred KiB of fresh buffers by design of the
	// tracking allocator; with the default GC pacing the collector would run every handful of
	// cases on a tiny live heap
	debug.SetGCPercent(1500)
	e.Engine = nbhttp.NewEngine(nbhttp.Config{
		Name:              "verif",
		Handler:           http.HandlerFunc(e.serve),
		ServerExecutor:    func(f func()) { f() },
		SupportServerOnly: true,
	})
	logging.SetLogger(capLogger{e})
	dir := filepath.Join(WorkDir(), "respgen")
	_ = os.MkdirAll(dir, 0o755)
	f, err := os.CreateTemp(dir, "pat-*.bin")
	if err != nil {
		panic(err)
	}
	if _, err := f.Write(Pat[:FileLen]); err != nil {
		panic(err)
	}
	// the file is only reached through the open descriptor
	_ = os.Remove(f.Name())
	e.File = f
	theEnv = e
	return e
}

func (e *Env) serve(w http.ResponseWriter, r *http.Request) {
	rc := e.cur
	if rc == nil {
		return
	}
	if rc.handler != nil {
		rc.handler(w, r)
		return
	}
	if r.URL != nil && r.URL.Path == NextPath {
		// the pipelined follow-up request of Program.Next
		if rc.out.NextRan == 0 {
			rc.out.NextWire = len(rc.conn.Wire)
		}
		rc.out.NextRan++
		w.Header().Set(NextHeader, "1")
		w.Header().Set("Content-Length", strconv.Itoa(len(NextBody)))
		_, _ = w.Write([]byte(NextBody))
		return
	}
	rc.runProgram(w)
}

func (e *Env) getWire() []byte {
	if n := len(e.wires); n > 0 {
		w := e.wires[n-1]
		e.wires = e.wires[:n-1]
		return w[:0]
	}
	return make([]byte, 0, 4<<10)
}

// Release hands the wire buffer of a finished result back for reuse; the result's Wire must
// not be used afterwards. Optional (an unreleased buffer is garbage collected).
func (r *Result) Release(e *Env) {
	if r.Wire != nil && cap(r.Wire) >= 64<<10 && len(e.wires) < 8 && !r.Hang {
		e.wires = append(e.wires, r.Wire)
	}
	r.Wire = nil
}

// TakeLogs returns and clears the error log lines captured since the last call.
func (e *Env) TakeLogs() []string {
	envMu.Lock()
	defer envMu.Unlock()
	l := e.logs
	e.logs = nil
	return l
}

// RunOpt selects the allocator behaviour and the injected connection failure of one run.
type RunOpt struct {
	Policy track.Policy
	Move   bool // allocator moves a buffer that has to grow (like mempool.NewAligned)
	FailAt int  // the FailAt-th conn write and all later ones fail (0: none)
	// Guard: freed buffers become inaccessible memory instead of being poisoned (track guard mode);
	// only RunFeeds honours it
	Guard bool
	// Alloc selects one of nbio's own allocators instead of the tracking one: AllocAligned
	// (mempool.NewAligned(): power-of-two buckets, an Append beyond the capacity returns a NEW
	// handle and frees the old one) or AllocSTD (mempool.NewSTD(): plain make/append, Free does
	// nothing). "" = the tracking allocator with Policy / Move. Only Run honours it.
	Alloc string
	// NoSweep skips the end-of-run scan of every freed buffer for writes after the free (a C11
	// matter that costs a pass over all freed memory); the other ownership observations stay on.
	NoSweep bool
}

// nbio's own allocators as values of RunOpt.Alloc.
const (
	AllocAligned = "aligned"
	AllocSTD     = "std"
)

// Allocator builds the allocator the option stands for (t: the run's tracking allocator).
func (o RunOpt) Allocator(t *track.T) mempool.Allocator {
	switch o.Alloc {
	case "":
		return t
	case AllocAligned:
		return mempool.NewAligned()
	case AllocSTD:
		return mempool.NewSTD()
	}
	panic("verif harness: unknown allocator " + o.Alloc)
}

func (o RunOpt) String() string {
	s := o.Policy.String()
	if o.Alloc != "" {
		s = "mempool:" + o.Alloc
	}
	if o.Move {
		s += "+move"
	}
	if o.Guard {
		s += "+guard"
	}
	if o.FailAt > 0 {
		s += fmt.Sprintf(" fail@%d", o.FailAt)
	}
	return s
}

// OpResult is what one operation returned and did.
type OpResult struct {
	N           int64
	Err         string
	Wire0       int // wire length before / after the operation
	Wire1       int
	Buffered    int // len(buffer)+len(bodyBuffer) after the operation
	HeadEncoded bool
	Chunked     bool
	ContentLen  int
	Sendfile    int // calls of the connection's Sendfile made by the operation
}

// StateInfo is the part of the private Response state the explorer needs in clear.
type StateInfo struct {
	Buffered     int
	BufNil       bool
	BodyNil      bool
	HeadEncoded  bool
	Chunked      bool
	ChunkChecked bool
	HasBody      bool
	StatusCode   int
	ContentLen   int
	BodyWritten  int
}

// Result of one run of a program through the production path.
type Result struct {
	Prog        Program
	Opt         RunOpt
	Ops         []OpResult
	Wire        []byte
	Writes      []int
	NWrite      int
	Failed      int
	HandlerWire int // wire length when the handler returned (the rest is flushResponse)
	HandlerRan  bool
	NextRan     int // how often the handler of the pipelined follow-up request ran
	NextWire    int // wire length when it started (= where the first response ends)
	Panic       string
	PanicOp     int
	Logs        []string
	ParseErr    string
	Closed      int
	Hang        bool
	State       StateInfo
	Key         [2]uint64 // canonical dump of the Response's private state and of the wire so far
	Dump        string    // the dump in clear (only when Env.KeepDump)
	Viol        []track.Violation
	T           *track.T
}

type runCtx struct {
	prog    Program
	conn    *Conn
	hc      *nbhttp.Conn
	parser  *nbhttp.Parser
	t       *track.T
	alloc   mempool.Allocator
	out     *Result
	env     *Env
	handler func(w http.ResponseWriter, r *http.Request)
	keep    bool
}

func errStr(err error) string {
	if err == nil {
		return ""
	}
	return err.Error()
}

func (rc *runCtx) runProgram(w http.ResponseWriter) {
	res := w.(*nbhttp.Response)
	out := rc.out
	out.HandlerRan = true
	cur := 0
	defer func() {
		if e := recover(); e != nil {
			out.Panic = fmt.Sprint(e)
			out.PanicOp = cur
			out.HandlerWire = len(rc.conn.Wire)
			panic(e)
		}
	}()
	off := 0
	for i, op := range rc.prog.Ops {
		cur = i
		or := OpResult{Wire0: len(rc.conn.Wire)}
		sf0 := rc.conn.NSF
		switch op.K {
		case OpCL:
			res.Header().Set("Content-Length", strconv.Itoa(op.N))
		case OpCT:
			res.Header().Set("Content-Type", CTValue)
		case OpTRD:
			res.Header().Set("Trailer", TrailerKey)
		case OpTR:
			res.Header().Set("Trailer", TrailerKey)
			res.Header().Set(TrailerKey, TrailerV1)
		case OpTV:
			res.Header().Set(TrailerKey, TrailerV2)
		case OpTE:
			res.Header().Set("Transfer-Encoding", "chunked")
		case OpWH:
			res.WriteHeader(op.N)
		case OpW:
			n, err := res.Write(Pat[off : off+op.N])
			or.N, or.Err = int64(n), errStr(err)
			off += op.N
		case OpWS:
			n, err := res.WriteString(PatStr[off : off+op.N])
			or.N, or.Err = int64(n), errStr(err)
			off += op.N
		case OpF:
			res.Flush()
		case OpRFB:
			n, err := res.ReadFrom(bytes.NewReader(Pat[off : off+op.N]))
			or.N, or.Err = n, errStr(err)
			off += op.N
		case OpRFF:
			if _, err := rc.env.File.Seek(int64(FileLen-op.N), io.SeekStart); err != nil {
				panic("verif harness: seek: " + err.Error())
			}
			n, err := res.ReadFrom(rc.env.File)
			or.N, or.Err = n, errStr(err)
			off += op.N
		case OpRFL:
			if _, err := rc.env.File.Seek(int64(off), io.SeekStart); err != nil {
				panic("verif harness: seek: " + err.Error())
			}
			n, err := res.ReadFrom(&io.LimitedReader{R: rc.env.File, N: int64(op.N)})
			or.N, or.Err = n, errStr(err)
			off += op.N
		case OpOW:
			n, err := res.Write(Pat[off : off+op.N])
			or.N, or.Err = int64(n), errStr(err)
		case OpOWS:
			n, err := res.WriteString(PatStr[off : off+op.N])
			or.N, or.Err = int64(n), errStr(err)
		case OpORF:
			n, err := res.ReadFrom(bytes.NewReader(Pat[off : off+op.N]))
			or.N, or.Err = n, errStr(err)
		case OpRFX:
			if _, err := rc.env.File.Seek(int64(op.Off), io.SeekStart); err != nil {
				panic("verif harness: seek: " + err.Error())
			}
			n, err := res.ReadFrom(&io.LimitedReader{R: rc.env.File, N: int64(op.N)})
			or.N, or.Err = n, errStr(err)
			off += op.Count()
		default:
			panic("verif harness: unknown op " + op.K)
		}
		st := res.VerifState()
		or.Wire1 = len(rc.conn.Wire)
		or.Buffered = len(st.Buffer) + len(st.BodyBuffer)
		or.HeadEncoded = st.HeadEncoded
		or.Chunked = st.Chunked
		or.ContentLen = st.ContentLen
		or.Sendfile = rc.conn.NSF - sf0
		out.Ops = append(out.Ops, or)
	}
	st := res.VerifState()
	out.State = StateInfo{
		Buffered: len(st.Buffer) + len(st.BodyBuffer), BufNil: st.BufferNil, BodyNil: st.BodyBufferNil,
		HeadEncoded: st.HeadEncoded, Chunked: st.Chunked, ChunkChecked: st.ChunkChecked, HasBody: st.HasBody,
		StatusCode: st.StatusCode, ContentLen: st.ContentLen, BodyWritten: st.BodyWritten,
	}
	out.HandlerWire = len(rc.conn.Wire)
	d := dumpState(&st, rc.conn.Wire)
	out.Key = hashKey(d)
	if rc.keep {
		out.Dump = d
	}
}

// RFF reads the file from offset FileLen-N (N bytes remain); for the body pattern to line up
// the generator only offers RFF with N == FileLen - (body offset).

var (
	seedA = maphash.MakeSeed()
	seedB = maphash.MakeSeed()
)

func hashKey(s string) [2]uint64 {
	return [2]uint64{maphash.String(seedA, s), maphash.String(seedB, s)}
}

// canon renders a byte string that may start with a response head in a form that does not
// depend on the (randomised) map iteration order nbio uses for header lines nor on the clock:
// header lines sorted, the Date value masked; what follows the head is hashed.
func canon(b []byte) string {
	if b == nil {
		return "nil"
	}
	head := ""
	rest := b
	if bytes.HasPrefix(b, []byte("HTTP/")) {
		if i := bytes.Index(b, []byte("\r\n\r\n")); i >= 0 {
			lines := strings.Split(string(b[:i]), "\r\n")
			for j, l := range lines {
				if strings.HasPrefix(l, "Date: ") {
					lines[j] = "Date: *"
				}
			}
			if len(lines) > 1 {
				sort.Strings(lines[1:])
			}
			head = strings.Join(lines, "\n")
			rest = b[i+4:]
		}
	}
	return fmt.Sprintf("len=%d head=[%s] rest=%d:%x:%x", len(b), head, len(rest), maphash.Bytes(seedA, rest), maphash.Bytes(seedB, rest))
}

func dumpState(st *nbhttp.VerifResponseState, wire []byte) string {
	var sb strings.Builder
	fmt.Fprintf(&sb, "status=%q/%d cl=%d bw=%d ch=%v cc=%v he=%v hb=%v hj=%v ts=%d\n", st.Status, st.StatusCode, st.ContentLen, st.BodyWritten,
		st.Chunked, st.ChunkChecked, st.HeadEncoded, st.HasBody, st.Hijacked, st.TrailerSize)
	var ks []string
	for k := range st.Header {
		ks = append(ks, k)
	}
	sort.Strings(ks)
	for _, k := range ks {
		fmt.Fprintf(&sb, "h %s=%q\n", k, st.Header[k])
	}
	if st.TrailerNil {
		sb.WriteString("trailer nil\n")
	} else {
		ks = ks[:0]
		for k := range st.Trailer {
			ks = append(ks, k)
		}
		sort.Strings(ks)
		for _, k := range ks {
			fmt.Fprintf(&sb, "t %s=%q\n", k, st.Trailer[k])
		}
	}
	if st.BufferNil {
		sb.WriteString("buffer nil\n")
	} else {
		sb.WriteString("buffer " + canon(st.Buffer) + "\n")
	}
	if st.BodyBufferNil {
		sb.WriteString("body nil\n")
	} else {
		sb.WriteString("body " + canon(st.BodyBuffer) + "\n")
	}
	sb.WriteString("wire " + canon(wire) + "\n")
	return sb.String()
}

var watchdog = 30 * time.Second

// Run pushes the request of prog.Version through a fresh server-side Parser bound to a fresh
// fake connection; the engine's handler executes prog.Ops on the real *nbhttp.Response and the
// real ServerProcessor.flushResponse / release code runs after it, exactly as in production.
// Afterwards the connection is closed the way the engine does it (Parser.CloseAndClean).
func (e *Env) Run(prog Program, opt RunOpt, keepDump bool) *Result {
	out := &Result{Prog: prog, Opt: opt, PanicOp: -1}
	t := track.New(opt.Policy)
	t.MoveOnGrow = opt.Move
	out.T = t
	conn := &Conn{T: t, FailAt: opt.FailAt, Wire: e.getWire()}
	hc := &nbhttp.Conn{}
	switch prog.Conn {
	case "", ConnPlain:
		hc.Conn = conn
	case ConnSendfile, ConnNoSF:
		hc.Conn = SFConn{conn}
	default:
		panic("verif harness: unknown conn kind " + prog.Conn)
	}
	rc := &runCtx{prog: prog, conn: conn, hc: hc, t: t, alloc: opt.Allocator(t), out: out, env: e, keep: keepDump}
	request := Versions[prog.Version].Request
	if prog.Next {
		request += NextRequest
	}
	e.runGuarded(rc, func() {
		e.Engine.DisableSendfile = prog.Conn == ConnNoSF
		parser := nbhttp.NewParser(hc, e.Engine, nbhttp.NewServerProcessor(), false, nil)
		hc.Parser = parser
		rc.parser = parser
		err := parser.Parse([]byte(request))
		out.ParseErr = errStr(err)
		parser.CloseAndClean(err)
	})
	out.Wire, out.Writes, out.NWrite, out.Failed, out.Closed = conn.Wire, conn.Writes, conn.NWrite, conn.Failed, conn.Closed
	if out.Panic == "" {
		// Parser.Parse recovers panics and only logs them: one that is not the handler's happened
		// in flushResponse / release
		for _, l := range out.Logs {
			if strings.Contains(l, "HTTP Parse failed") {
				if i := strings.IndexByte(l, '\n'); i > 0 {
					l = l[:i]
				}
				out.Panic = "after the handler returned: " + l
				out.PanicOp = len(prog.Ops)
				break
			}
		}
	}
	if !out.Hang {
		// content oracle: the wire of this space is ASCII (head, chunk framing) and the body pattern
		// (lower-case letters), the allocator overwrites freed buffers with the poison byte and never
		// recycles memory: a poison byte on the wire was read out of a freed buffer (free, then copy
		// into a buffer that is live when it reaches conn.Write, so that the address check there is blind)
		if i := bytes.IndexByte(out.Wire, track.PoisonByte); i >= 0 {
			t.PoisonRead(nil, "conn.Write", fmt.Sprintf(" (wire byte %d of %d)", i, len(out.Wire)))
		}
		if opt.NoSweep {
			out.Viol = t.Found()
		} else {
			out.Viol = t.Violations()
		}
	}
	return out
}

// runGuarded installs the case's allocator and handler context, runs body on its own goroutine
// and turns a call that does not come back within the watchdog time into Result.Hang.
func (e *Env) runGuarded(rc *runCtx, body func()) {
	if rc.alloc == nil {
		rc.alloc = rc.t
	}
	mempool.DefaultMemPool = rc.alloc
	e.Engine.BodyAllocator = rc.alloc
	e.cur = rc
	e.TakeLogs()
	done := make(chan struct{})
	go func() {
		defer close(done)
		defer func() {
			if x := recover(); x != nil {
				rc.out.Panic = "escaped: " + fmt.Sprint(x)
				st := string(debug.Stack())
				rc.out.Logs = append(rc.out.Logs, "escaped panic stack: "+st)
				if addr, ok := track.FaultAddr(x); ok && rc.t.Guarded() {
					rc.t.Fault(addr, track.FaultSite(st))
				}
			}
		}()
		if rc.t.Guarded() {
			// per goroutine: a touch of a freed buffer panics instead of killing the process
			debug.SetPanicOnFault(true)
		}
		body()
	}()
	tm := time.NewTimer(watchdog)
	select {
	case <-done:
		tm.Stop()
	case <-tm.C:
		rc.out.Hang = true
		e.broken = true
	}
	e.cur = nil
	rc.out.Logs = append(rc.out.Logs, e.TakeLogs()...)
}

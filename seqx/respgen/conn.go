package respgen

import (
	"errors"
	"io"
	"net"
	"os"
	"time"

	"verif/track"
)

// ErrInjected is returned by the fake connection from the FailAt-th write on.
var ErrInjected = errors.New("verif: injected write error")

type fakeAddr struct{}

func (fakeAddr) Network() string { return "tcp" }
func (fakeAddr) String() string  { return "192.0.2.1:4711" }

// Conn is a recording fake net.Conn. Write appends to Wire and returns len(b), nil, or — from
// the FailAt-th call on (1-based, 0 = never) — returns 0 and an error, like a connection that
// broke. Every slice handed to Write passes through the ownership monitor first (read after
// free observation point).
type Conn struct {
	Wire     []byte
	Writes   []int // size of every successful write
	NWrite   int   // number of Write/Sendfile calls
	NSF      int   // number of Sendfile calls
	FailAt   int
	Failed   int // number of calls that returned the injected error
	Closed   int
	AfterCl  int // writes attempted after Close
	T        *track.T
	OnWrite  func(b []byte)
	ReadData []byte
}

func (c *Conn) Write(b []byte) (int, error) {
	c.NWrite++
	n := len(b)
	if c.T != nil {
		c.T.Use(b, "conn.Write")
		if c.T.Guarded() && c.T.InFreed(b) {
			// guard mode: reported by Use; the freed bytes cannot be read, nothing is appended to the wire
			b = nil
		}
	}
	if c.OnWrite != nil {
		c.OnWrite(b)
	}
	if c.Closed > 0 {
		c.AfterCl++
		return 0, net.ErrClosed
	}
	if c.FailAt > 0 && c.NWrite >= c.FailAt {
		c.Failed++
		return 0, ErrInjected
	}
	c.Wire = append(c.Wire, b...)
	c.Writes = append(c.Writes, n)
	return n, nil
}

func (c *Conn) Read(b []byte) (int, error)         { return 0, io.EOF }
func (c *Conn) Close() error                       { c.Closed++; return nil }
func (c *Conn) LocalAddr() net.Addr                { return fakeAddr{} }
func (c *Conn) RemoteAddr() net.Addr               { return fakeAddr{} }
func (c *Conn) SetDeadline(t time.Time) error      { return nil }
func (c *Conn) SetReadDeadline(t time.Time) error  { return nil }
func (c *Conn) SetWriteDeadline(t time.Time) error { return nil }

// SFConn is a Conn that also offers Sendfile with the contract of (*nbio.Conn).Sendfile: send
// remain bytes of f starting at its current offset (to the end of the file when remain <= 0 or
// larger than what is left); report the number of bytes taken.
type SFConn struct{ *Conn }

func (c SFConn) Sendfile(f *os.File, remain int64) (int64, error) {
	if f == nil {
		return 0, nil
	}
	c.NWrite++
	c.NSF++
	if c.Closed > 0 {
		c.AfterCl++
		return 0, net.ErrClosed
	}
	if c.FailAt > 0 && c.NWrite >= c.FailAt {
		c.Failed++
		return 0, ErrInjected
	}
	off, err := f.Seek(0, io.SeekCurrent)
	if err != nil {
		return 0, err
	}
	st, err := f.Stat()
	if err != nil {
		return 0, err
	}
	if remain <= 0 || remain > st.Size()-off {
		remain = st.Size() - off
	}
	buf := make([]byte, remain)
	n, err := f.ReadAt(buf, off)
	if err != nil && err != io.EOF {
		return 0, err
	}
	c.Wire = append(c.Wire, buf[:n]...)
	c.Writes = append(c.Writes, n)
	return int64(n), nil
}

package respgen

import (
	"testing"

	"verif/track"
)

// go test -tags verif -overlay /verif/.work/ov-C09/overlay.json ./seqx/respgen -bench . -run xxx
func BenchmarkRun(b *testing.B) {
	e := GetEnv()
	progs := []Program{
		{Version: 2, Ops: []Op{{K: OpW, N: 100}}},
		{Version: 2, Ops: []Op{{K: OpW, N: 70000}, {K: OpW, N: 131072}, {K: OpW, N: 1}}},
		{Version: 0, Ops: []Op{{K: OpCL, N: 131072}, {K: OpW, N: 70000}, {K: OpW, N: 61072}}},
	}
	for _, p := range progs {
		b.Run(p.Shape(), func(b *testing.B) {
			for i := 0; i < b.N; i++ {
				r := e.Run(p, RunOpt{Policy: track.Pooled}, false)
				m := ModelOf(p)
				_ = Judge(m, r, false)
				r.Release(e)
			}
		})
	}
}

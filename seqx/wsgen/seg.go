package wsgen

import "sort"

// Seg is one segmentation of a wire into Parse calls.
type Seg struct {
	Kind  string `json:"kind"`            // one | cut1 | cut2 | chunk
	Cuts  []int  `json:"cuts,omitempty"`  // ascending cut offsets
	Chunk int    `json:"chunk,omitempty"` // fixed chunk size (1 = byte at a time)
}

// Pieces calls fn for every piece [lo,hi) of a wire of length n until fn returns false.
func (s Seg) Pieces(n int, fn func(lo, hi int) bool) {
	if s.Chunk > 0 {
		for lo := 0; lo < n; lo += s.Chunk {
			hi := lo + s.Chunk
			if hi > n {
				hi = n
			}
			if !fn(lo, hi) {
				return
			}
		}
		return
	}
	lo := 0
	for _, c := range s.Cuts {
		if c <= lo || c >= n {
			continue
		}
		if !fn(lo, c) {
			return
		}
		lo = c
	}
	if lo < n {
		fn(lo, n)
	}
}

// NPieces is the number of Parse calls of the segmentation.
func (s Seg) NPieces(n int) int {
	k := 0
	s.Pieces(n, func(int, int) bool { k++; return true })
	return k
}

// Structural returns the structural cut set of the wire: every offset inside and just after
// each frame header (all header and mask bytes, +1, +2 into the payload), -2/-1 before each
// frame end, the frame boundaries, and ±2 at both ends. Only the first and last `frames` frames
// contribute when the wire has more (0: all frames).
func (w *Wire) Structural(frames int) []int {
	n := len(w.Bytes)
	set := map[int]bool{}
	add := func(x int) {
		if x > 0 && x < n {
			set[x] = true
		}
	}
	for i, s := range w.Starts {
		if frames > 0 && i >= frames && i < len(w.Starts)-frames {
			continue
		}
		end := n
		if i+1 < len(w.Starts) {
			end = w.Starts[i+1]
		}
		for k := 0; k <= w.Hdrs[i]+2; k++ {
			add(s + k)
		}
		add(end - 2)
		add(end - 1)
		add(end)
	}
	add(1)
	add(2)
	add(n - 2)
	add(n - 1)
	out := make([]int, 0, len(set))
	for x := range set {
		out = append(out, x)
	}
	sort.Ints(out)
	return out
}

// SegOpt selects the segmentations EachSeg enumerates.
type SegOpt struct {
	AllSingleMax int   // wires up to this length get every single cut; longer ones the structural cuts; <0: no single cuts
	BytesMax     int   // wires up to this length get the byte-at-a-time feed
	AllDoubleMax int   // wires up to this length get every double cut
	StructDouble bool  // longer wires: every pair from the (reduced) structural set
	StructFrames int   // frames at each end contributing structural cuts (0: all)
	DoubleFrames int   // same, for the set the structural double cuts are drawn from (default 2)
	Chunks       []int // extra fixed-size chunk feeds
	Singles      []int // explicit single cuts (used when AllSingleMax < 0)
}

// EachSeg enumerates the segmentations of w selected by o; fn returns false to stop.
func EachSeg(w *Wire, o SegOpt, fn func(Seg) bool) {
	n := len(w.Bytes)
	if !fn(Seg{Kind: "one"}) {
		return
	}
	if n <= 1 {
		return
	}
	var singles []int
	if o.AllSingleMax < 0 {
		singles = o.Singles
	} else if n <= o.AllSingleMax {
		singles = make([]int, 0, n-1)
		for c := 1; c < n; c++ {
			singles = append(singles, c)
		}
	} else {
		singles = w.Structural(o.StructFrames)
	}
	for _, c := range singles {
		if !fn(Seg{Kind: "cut1", Cuts: []int{c}}) {
			return
		}
	}
	if n <= o.AllDoubleMax {
		for a := 1; a < n; a++ {
			for b := a + 1; b < n; b++ {
				if !fn(Seg{Kind: "cut2", Cuts: []int{a, b}}) {
					return
				}
			}
		}
	} else if o.StructDouble {
		df := o.DoubleFrames
		if df == 0 {
			df = 2
		}
		st := w.Structural(df)
		for i := 0; i < len(st); i++ {
			for j := i + 1; j < len(st); j++ {
				if !fn(Seg{Kind: "cut2", Cuts: []int{st[i], st[j]}}) {
					return
				}
			}
		}
	}
	if n <= o.BytesMax {
		if !fn(Seg{Kind: "chunk", Chunk: 1}) {
			return
		}
	}
	for _, c := range o.Chunks {
		if c < n {
			if !fn(Seg{Kind: "chunk", Chunk: c}) {
				return
			}
		}
	}
}

package wsgen

import (
	"compress/flate"
	"errors"
	"fmt"
	"io"
	"net"
	"runtime"
	"strings"
	"sync"
	"time"

	"github.com/lesismal/nbio/logging"
	"github.com/lesismal/nbio/mempool"
	"github.com/lesismal/nbio/nbhttp"
	"github.com/lesismal/nbio/nbhttp/websocket"

	"verif/track"
)

// ---------------------------------------------------------------------------------------------
// fake net.Conn

type fakeAddr struct{}

func (fakeAddr) Network() string { return "fake" }
func (fakeAddr) String() string  { return "fake:0" }

// FakeConn records everything written to it.
type FakeConn struct {
	Writes           [][]byte
	Closed           bool
	CloseCalls       int
	WritesAfterClose int
	FailWriteAt      int // the k-th Write (1-based) and every later one fail; 0: never
	nWrites          int
	Observe          func(b []byte) // called with the caller's slice before it is copied
	// Unreadable (guard mode): b lies in freed, inaccessible memory (Observe has reported it): the
	// write is recorded as zeros of the same length instead of being copied.
	Unreadable func(b []byte) bool
}

// ErrInjected is the error of an injected write failure.
var ErrInjected = errors.New("injected write error")

func (f *FakeConn) Read(b []byte) (int, error) { return 0, io.EOF }
func (f *FakeConn) Write(b []byte) (int, error) {
	if f.Closed {
		f.WritesAfterClose++
		return 0, net.ErrClosed
	}
	f.nWrites++
	if f.FailWriteAt > 0 && f.nWrites >= f.FailWriteAt {
		return 0, ErrInjected
	}
	if f.Observe != nil {
		f.Observe(b)
	}
	if f.Unreadable != nil && f.Unreadable(b) {
		f.Writes = append(f.Writes, make([]byte, len(b)))
		return len(b), nil
	}
	f.Writes = append(f.Writes, append([]byte(nil), b...))
	return len(b), nil
}
func (f *FakeConn) Close() error {
	f.CloseCalls++
	f.Closed = true
	return nil
}
func (f *FakeConn) LocalAddr() net.Addr                { return fakeAddr{} }
func (f *FakeConn) RemoteAddr() net.Addr               { return fakeAddr{} }
func (f *FakeConn) SetDeadline(t time.Time) error      { return nil }
func (f *FakeConn) SetReadDeadline(t time.Time) error  { return nil }
func (f *FakeConn) SetWriteDeadline(t time.Time) error { return nil }

// Wire concatenates everything written.
func (f *FakeConn) Wire() []byte {
	var out []byte
	for _, w := range f.Writes {
		out = append(out, w...)
	}
	return out
}

// ---------------------------------------------------------------------------------------------
// logging capture (Parse and the executors recover panics and only log them)

type capLogger struct {
	mu   sync.Mutex
	errs []string
}

func (l *capLogger) Debug(string, ...interface{}) {}
func (l *capLogger) Info(string, ...interface{})  {}
func (l *capLogger) Warn(string, ...interface{})  {}
func (l *capLogger) Error(format string, v ...interface{}) {
	l.mu.Lock()
	full := fmt.Sprintf(format, v...)
	s := full
	if len(s) > 1500 {
		s = s[:1500]
	}
	l.errs = append(l.errs, s)
	l.mu.Unlock()
	// guard mode (Cfg.Guard): a recovered panic that is a memory fault carries the address
	if e := guardEP; e != nil && e.T.Guarded() {
		for _, x := range v {
			if addr, ok := track.FaultAddr(x); ok {
				e.T.Fault(addr, track.FaultSite(full))
			}
		}
	}
}

// guardEP is the endpoint whose tracker runs in guard mode (one at a time, see track.EnableGuard).
var guardEP *Endpoint

var theLogger = &capLogger{}
var logOnce sync.Once

// DrainLog returns and clears the error-level log lines captured so far (recovered panics).
func DrainLog() []string {
	theLogger.mu.Lock()
	defer theLogger.mu.Unlock()
	out := theLogger.errs
	theLogger.errs = nil
	return out
}

// ---------------------------------------------------------------------------------------------
// allocator spy: wraps the per-case tracker and records the longest buffer ever held

// Spy is a mempool.Allocator wrapper recording buffer lengths.
type Spy struct {
	A       mempool.Allocator
	MaxLen  int
	MaxCap  int
	handles []*[]byte
}

func (s *Spy) see(h *[]byte) *[]byte {
	if h != nil {
		if len(*h) > s.MaxLen {
			s.MaxLen = len(*h)
		}
		if cap(*h) > s.MaxCap {
			s.MaxCap = cap(*h)
		}
	}
	return h
}
func (s *Spy) Malloc(size int) *[]byte {
	h := s.see(s.A.Malloc(size))
	s.handles = append(s.handles, h)
	return h
}
func (s *Spy) Realloc(h *[]byte, size int) *[]byte {
	nh := s.see(s.A.Realloc(h, size))
	if nh != h {
		s.handles = append(s.handles, nh)
	}
	return nh
}
func (s *Spy) Append(h *[]byte, more ...byte) *[]byte {
	nh := s.see(s.A.Append(h, more...))
	if nh != h {
		s.handles = append(s.handles, nh)
	}
	return nh
}
func (s *Spy) AppendString(h *[]byte, more string) *[]byte {
	nh := s.see(s.A.AppendString(h, more))
	if nh != h {
		s.handles = append(s.handles, nh)
	}
	return nh
}
func (s *Spy) Free(h *[]byte) {
	s.see(h)
	s.A.Free(h)
}

// Final looks at every handle once more (buffers that were re-sliced without an allocator call,
// or leaked) and returns the longest length seen.
func (s *Spy) Final() int {
	for _, h := range s.handles {
		if len(*h) > s.MaxLen {
			s.MaxLen = len(*h)
		}
	}
	return s.MaxLen
}

// ---------------------------------------------------------------------------------------------
// endpoint harness

// Cfg configures one real websocket.Conn under test.
type Cfg struct {
	Client   bool `json:"client,omitempty"`   // role of this endpoint
	Compress bool `json:"compress,omitempty"` // permessage-deflate enabled locally (Upgrader/Options.EnableCompression) and, unless Negotiated says otherwise, negotiated
	// Negotiated separates what the handshake negotiated with this peer from the local setting:
	// 0 = same as Compress, 1 = the extension was negotiated, -1 = it was not (the peer did not offer
	// or accept it although it is enabled locally).
	Negotiated int `json:"negotiated,omitempty"`
	// Alloc selects one of nbio's own allocators instead of the tracking one: AllocAligned
	// (mempool.NewAligned(): an Append beyond the bucket capacity returns a NEW handle and frees
	// the old one) or AllocSTD (mempool.NewSTD()). "" = the tracking allocator (Policy, Move).
	Alloc string `json:"alloc,omitempty"`
	// Release turns payload release on the way an application does: "upgrader" =
	// Upgrader.ReleasePayload, "engine" = Engine.ReleaseWebsocketPayload ("" = off, the default; the
	// older ReleasePayload flag sets the connection's private field directly). With release on the
	// payload handed to a callback is only valid until the callback returns.
	Release string `json:"release,omitempty"`
	// Exec is the executor behind Conn.Execute: "" = inline; "call" = jobs are queued and run, in
	// order, after the Parse call that queued them has returned; "feed" = after the whole feed (a
	// poller's executor runs a job some time after the reader has gone on parsing).
	Exec string `json:"exec,omitempty"`
	// KeepRaw: events also keep the very slice the callback was handed (Event.Raw), so that the
	// caller can look at it again later (only meaningful while payload release is off).
	KeepRaw           bool `json:"keep_raw,omitempty"`
	Level             int  `json:"level,omitempty"` // compression level (only with Compress)
	F                 int  `json:"F,omitempty"`     // Engine.MaxWebsocketFramePayloadSize (0: default 32768)
	L                 int  `json:"L,omitempty"`     // MessageLengthLimit (0: unlimited)
	ReadLimit         int  `json:"read_limit,omitempty"`
	Policy            int  `json:"policy,omitempty"` // track.Policy
	NoOnMessage       bool `json:"no_on_message,omitempty"`
	OnDataFrame       bool `json:"on_data_frame,omitempty"`
	RecordCtl         bool `json:"record_ctl,omitempty"` // recording ping/close handlers that then act like the defaults
	ReleasePayload    bool `json:"release_payload,omitempty"`
	Blocking          bool `json:"blocking,omitempty"`
	CloseAfterHandler bool `json:"close_after_handler,omitempty"` // CloseAndClean runs right after the handler that closed the conn (inline engine executor) instead of after Parse returns
	Spy               bool `json:"spy,omitempty"`
	Observe           bool `json:"observe,omitempty"` // call track.Use at conn.Write and in the callbacks (C11; linear in the number of freed buffers)
	FailWriteAt       int  `json:"fail_write_at,omitempty"`
	Move              bool `json:"move,omitempty"`           // the allocator moves a buffer that has to grow (like mempool.NewAligned)
	Guard             bool `json:"guard,omitempty"`          // freed buffers become inaccessible memory instead of being poisoned (track guard mode); the caller sets debug.SetPanicOnFault on its goroutine, recovers around calls outside Parse and calls Endpoint.Release when the case is over
	PanicAtEvent      int  `json:"panic_at_event,omitempty"` // the k-th callback (1-based) panics
	ExecuteFalse      bool `json:"execute_false,omitempty"`  // Conn.Execute refuses every job (closed nbio.Conn)
	// Build is the construction path: "" = the Upgrader's Engine is the serving engine (limits and
	// allocator configured there) and the Conn is built from it; "rebind" = the Upgrader is left as
	// websocket.NewUpgrader() makes it (Engine = websocket.DefaultEngine with default limits), the
	// Conn is created from it and THEN bound to the serving engine (wsc.Engine = serving), which is
	// what Upgrader.Upgrade (poller-served connections) and Dialer.DialContext do.
	Build string `json:"build,omitempty"`
	// Decomp installs a custom Upgrader.WebsocketDecompressor: "eofdata" returns the last bytes
	// together with io.EOF, "onebyte" returns one byte per Read ("" = nbio's own flate reader).
	Decomp string `json:"decomp,omitempty"`
}

// nbio's own allocators as values of Cfg.Alloc.
const (
	AllocAligned = "aligned"
	AllocSTD     = "std"
	AllocLIFO    = "lifo" // Recycler: the next Malloc of a fitting size returns the buffer freed last
)

// Recycler is a mempool.Allocator that recycles immediately and deterministically: Free pushes
// the buffer on a stack, Malloc returns the most recently freed buffer whose capacity suffices
// (its old contents untouched beyond what the caller writes), else a fresh one. A payload that is
// released while somebody still reads it is overwritten by the very next allocation - what a
// sync.Pool based allocator does under load, made certain.
type Recycler struct {
	free           []*[]byte
	Mallocs, Reuse int
}

func (r *Recycler) Malloc(size int) *[]byte {
	r.Mallocs++
	for i := len(r.free) - 1; i >= 0; i-- {
		if h := r.free[i]; cap(*h) >= size {
			r.free = append(r.free[:i], r.free[i+1:]...)
			*h = (*h)[:size]
			r.Reuse++
			return h
		}
	}
	b := make([]byte, size)
	return &b
}
func (r *Recycler) Realloc(h *[]byte, size int) *[]byte {
	if size <= cap(*h) {
		*h = (*h)[:size]
		return h
	}
	*h = append((*h)[:cap(*h)], make([]byte, size-cap(*h))...)
	return h
}
func (r *Recycler) Append(h *[]byte, more ...byte) *[]byte { *h = append(*h, more...); return h }
func (r *Recycler) AppendString(h *[]byte, more string) *[]byte {
	*h = append(*h, more...)
	return h
}
func (r *Recycler) Free(h *[]byte) {
	if h == nil || cap(*h) == 0 {
		return
	}
	for _, x := range r.free {
		if x == h {
			return // a double free is C11's business; keep the stack sane
		}
	}
	r.free = append(r.free, h)
}

// RemoteCompress is what the handshake negotiated.
func (c Cfg) RemoteCompress() bool {
	switch c.Negotiated {
	case 1:
		return true
	case -1:
		return false
	}
	return c.Compress
}

// Endpoint is a real websocket.Conn over a FakeConn with recording callbacks.
type Endpoint struct {
	Cfg      Cfg
	T        *track.T
	Spy      *Spy
	Fake     *FakeConn
	U        *websocket.Upgrader
	C        *websocket.Conn
	Events   []Event
	Cleaned  bool
	OnCloses int
	nCb      int
	R        *Recycler
	pending  []func()
	// Scribble: Feed passes every piece to Parse in a buffer of its own and overwrites that buffer
	// with ScribbleByte afterwards, as the engine reuses its read buffer (C11).
	Scribble bool
	// LastErr is what the latest Parse call of Feed returned, LastPiece the buffer it was given
	// (readable from the after callback).
	LastErr   error
	LastPiece []byte
}

// ScribbleByte is what Feed overwrites its read buffer with after a Parse call (Endpoint.Scribble).
// Chosen so that neither it nor its XOR with a byte of the masking keys the checks use
// (0x11, 0x22..0x2f, 0x33, 0x44) equals the allocator's poison (0xDD) or stale (0xA5) byte: a Conn
// that unmasks a retained read buffer in place must not look like one that read freed memory.
const ScribbleByte = 0xEC

type engKey struct{ f, rl int }

var engines = map[engKey]*nbhttp.Engine{}

func engineFor(f, rl int) *nbhttp.Engine {
	k := engKey{f, rl}
	if e := engines[k]; e != nil {
		return e
	}
	inline := func(fn func()) { fn() }
	e := nbhttp.NewEngine(nbhttp.Config{
		Name:                         "wsgen",
		MaxWebsocketFramePayloadSize: f,
		ReadLimit:                    rl,
		ServerExecutor:               inline,
		ClientExecutor:               inline,
		NPoller:                      1,
	})
	engines[k] = e
	return e
}

// NewEndpoint builds a fresh endpoint with its own tracking allocator.
func NewEndpoint(cfg Cfg) *Endpoint {
	logOnce.Do(func() { logging.SetLogger(theLogger) })
	e := &Endpoint{Cfg: cfg, Fake: &FakeConn{FailWriteAt: cfg.FailWriteAt}}
	e.T = track.New(track.Policy(cfg.Policy))
	e.T.MoveOnGrow = cfg.Move
	guardEP = nil
	if cfg.Guard && e.T.EnableGuard() {
		guardEP = e
		e.Fake.Unreadable = e.T.InFreed
	}
	var alloc mempool.Allocator = e.T
	switch cfg.Alloc {
	case "":
	case AllocAligned:
		alloc = mempool.NewAligned()
	case AllocSTD:
		alloc = mempool.NewSTD()
	case AllocLIFO:
		e.R = &Recycler{}
		alloc = e.R
	default:
		panic("wsgen: unknown allocator " + cfg.Alloc)
	}
	if cfg.Spy {
		e.Spy = &Spy{A: alloc}
		alloc = e.Spy
	}
	eng := engineFor(cfg.F, cfg.ReadLimit)
	eng.BodyAllocator = alloc
	eng.ReleaseWebsocketPayload = cfg.Release == "engine"
	mempool.DefaultMemPool = alloc
	use := func(b []byte, where string) {}
	if cfg.Observe {
		use = e.T.Use
		e.Fake.Observe = func(b []byte) { e.T.Use(b, "conn.Write") }
	}

	u := websocket.NewUpgrader()
	var serving *nbhttp.Engine
	if cfg.Build == "rebind" {
		serving = eng // u.Engine stays websocket.DefaultEngine
	} else {
		u.Engine = eng
	}
	u.KeepaliveTime = 0
	u.ReleasePayload = cfg.Release == "upgrader"
	switch cfg.Decomp {
	case "eofdata":
		u.WebsocketDecompressor = func(c *websocket.Conn, r io.Reader) io.ReadCloser { return &EOFWithData{R: flate.NewReader(r)} }
	case "onebyte":
		u.WebsocketDecompressor = func(c *websocket.Conn, r io.Reader) io.ReadCloser { return &OneByte{R: flate.NewReader(r)} }
	}
	u.MessageLengthLimit = cfg.L
	u.EnableCompression(cfg.Compress)
	if cfg.Compress {
		if err := u.SetCompressionLevel(cfg.Level); err != nil {
			panic(err)
		}
	}
	cb := func() {
		e.nCb++
		if cfg.PanicAtEvent > 0 && e.nCb == cfg.PanicAtEvent {
			panic("injected handler panic")
		}
	}
	if !cfg.NoOnMessage {
		u.OnMessage(func(c *websocket.Conn, mt websocket.MessageType, data []byte) {
			use(data, "OnMessage")
			ev := Event{Kind: 'M', Type: byte(mt), Payload: e.readable(data)}
			if cfg.KeepRaw {
				ev.Raw = data
			}
			e.Events = append(e.Events, ev)
			cb()
		})
	}
	if cfg.OnDataFrame {
		u.OnDataFrame(func(c *websocket.Conn, mt websocket.MessageType, fin bool, data []byte) {
			use(data, "OnDataFrame")
			e.Events = append(e.Events, Event{Kind: 'F', Type: byte(mt), Fin: fin, Payload: e.readable(data)})
			cb()
		})
	}
	u.SetPongHandler(func(c *websocket.Conn, s string) {
		e.Events = append(e.Events, Event{Kind: 'O', Payload: []byte(s)})
		cb()
	})
	if cfg.RecordCtl {
		u.SetPingHandler(func(c *websocket.Conn, s string) {
			e.Events = append(e.Events, Event{Kind: 'P', Payload: []byte(s)})
			cb()
			if err := c.WriteMessage(websocket.PongMessage, []byte(s)); err != nil {
				_ = c.Close()
			}
		})
		u.SetCloseHandler(func(c *websocket.Conn, code int, text string) {
			e.Events = append(e.Events, Event{Kind: 'C', Code: code, Payload: []byte(text)})
			cb()
			if code == 1005 {
				_ = c.WriteMessage(websocket.CloseMessage, nil)
				return
			}
			_ = c.WriteClose(code, text)
		})
	}
	u.OnClose(func(c *websocket.Conn, err error) { e.OnCloses++ })
	e.U = u
	e.C = websocket.VerifSeqConn(u, e.Fake, websocket.VerifSeqConnOpt{
		Client: cfg.Client, RemoteCompress: cfg.RemoteCompress(), ReleasePayload: cfg.ReleasePayload || u.ReleasePayload, BlockingMod: cfg.Blocking, Serving: serving})
	e.C.Execute = func(f func()) bool {
		if cfg.ExecuteFalse {
			return false
		}
		if cfg.Exec != "" {
			e.pending = append(e.pending, f)
			return true
		}
		// like nbio.Conn.Execute, the executor recovers and logs a panicking job
		func() {
			defer func() {
				if x := recover(); x != nil {
					buf := make([]byte, 2048)
					buf = buf[:runtime.Stack(buf, false)]
					logging.Error("conn execute failed: %v\n%s", x, buf)
				}
			}()
			f()
		}()
		if cfg.CloseAfterHandler && e.Fake.Closed && !e.Cleaned {
			e.Clean(nil)
		}
		return true
	}
	return e
}

// RunPending runs the jobs a deferred executor (Cfg.Exec) has queued, in order; like
// nbio.Conn.Execute it recovers and logs a panicking job.
func (e *Endpoint) RunPending() {
	for len(e.pending) > 0 {
		f := e.pending[0]
		e.pending = e.pending[1:]
		func() {
			defer func() {
				if x := recover(); x != nil {
					buf := make([]byte, 2048)
					buf = buf[:runtime.Stack(buf, false)]
					logging.Error("conn execute failed: %v\n%s", x, buf)
				}
			}()
			f()
		}()
	}
}

// readable returns a copy of what a callback was handed - zeros of the same length in guard mode
// when it lies in freed, inaccessible memory (the observation point has reported it).
func (e *Endpoint) readable(data []byte) []byte {
	if e.T.Guarded() && e.T.InFreed(data) {
		return make([]byte, len(data))
	}
	return append([]byte{}, data...)
}

// Release ends a guard-mode case: the tracker's memory becomes inaccessible for good. Nothing of
// the endpoint may be used afterwards except the recorded events, writes and the tracker's counts.
func (e *Endpoint) Release() {
	e.T.Release()
	if guardEP == e {
		guardEP = nil
	}
}

// Clean does what the engine does when the connection is gone.
func (e *Endpoint) Clean(err error) {
	e.Cleaned = true
	e.C.CloseAndClean(err)
}

// FeedResult describes one segmented feed.
type FeedResult struct {
	Err         error // what Parse returned (first error)
	ErrCall     int   // index of the Parse call that returned it
	Calls       int   // Parse calls made
	Fed         int   // bytes handed to Parse
	ImplClosed  bool  // the implementation closed the underlying conn
	Panics      []string
	MaxCacheIn  int // max over calls of (cached before the call + chunk length)
	StoppedAt   int // offset where feeding stopped (== len(wire) when everything was fed)
	States      int // distinct private parser states seen after the Parse calls
	AfterReport string
}

// Failed reports whether the connection was failed (Parse error or conn closed).
func (r *FeedResult) Failed() bool { return r.Err != nil || r.ImplClosed }

// Feed feeds the wire in the given segmentation; after a Parse error or once the implementation
// has closed the conn it does what the engine does (CloseAndClean) and stops. after (may be nil)
// runs after every Parse call; a non-empty return stops the feed and is passed on.
func (e *Endpoint) Feed(wire []byte, s Seg, after func(call int, st websocket.VerifSeqState) string) *FeedResult {
	r := &FeedResult{ErrCall: -1}
	var seen map[websocket.VerifSeqState]struct{}
	var last websocket.VerifSeqState
	s.Pieces(len(wire), func(lo, hi int) bool {
		if c := e.C.VerifSeqState().Cached; c > 0 {
			if c+hi-lo > r.MaxCacheIn {
				r.MaxCacheIn = c + hi - lo
			}
		} else if hi-lo > r.MaxCacheIn {
			r.MaxCacheIn = hi - lo
		}
		piece := wire[lo:hi:hi]
		if e.Scribble {
			piece = append([]byte(nil), piece...)
		}
		err := e.C.Parse(piece)
		if e.Cfg.Exec == "call" {
			e.RunPending()
		}
		if e.Scribble {
			for i := range piece {
				piece[i] = ScribbleByte
			}
		}
		e.LastErr, e.LastPiece = err, piece
		r.Calls++
		r.Fed += hi - lo
		r.StoppedAt = hi
		if l := DrainLog(); len(l) > 0 {
			r.Panics = append(r.Panics, l...)
		}
		st := e.C.VerifSeqState()
		if r.Calls == 1 {
			r.States = 1
		} else if st != last {
			if seen == nil {
				seen = map[websocket.VerifSeqState]struct{}{last: {}}
			}
			if _, ok := seen[st]; !ok {
				seen[st] = struct{}{}
				r.States++
			}
		}
		last = st
		if after != nil {
			if msg := after(r.Calls-1, st); msg != "" {
				r.AfterReport = msg
			}
		}
		if err != nil {
			r.Err, r.ErrCall = err, r.Calls-1
			if !e.Cleaned {
				e.Clean(err)
			}
			return false
		}
		if e.Fake.Closed {
			r.ImplClosed = true
			if !e.Cleaned {
				e.Clean(nil)
			}
			return false
		}
		return r.AfterReport == ""
	})
	if len(e.pending) > 0 {
		// Exec "feed" (or a feed that stopped early): the executor gets to the queued jobs now
		e.RunPending()
		if l := DrainLog(); len(l) > 0 {
			r.Panics = append(r.Panics, l...)
		}
	}
	if e.Fake.Closed && r.Err == nil {
		r.ImplClosed = true
		if !e.Cleaned {
			e.Clean(nil)
		}
	}
	return r
}

// PanicSig condenses a recovered-panic log line into a signature fragment.
func PanicSig(line string) string {
	l := line
	if i := strings.IndexByte(l, '\n'); i >= 0 {
		l = l[:i]
	}
	if len(l) > 90 {
		l = l[:90]
	}
	return l
}

// RunWatched runs f with a watchdog; finished is false when f did not return within d (a hang);
// panicked carries the text of a panic that escaped f.
func RunWatched(d time.Duration, f func()) (finished bool, panicked string) {
	done := make(chan string, 1)
	go func() {
		defer func() {
			if x := recover(); x != nil {
				buf := make([]byte, 4096)
				buf = buf[:runtime.Stack(buf, false)]
				done <- fmt.Sprintf("%v\n%s", x, buf)
				return
			}
			done <- ""
		}()
		f()
	}()
	t := time.NewTimer(d)
	defer t.Stop()
	select {
	case p := <-done:
		return true, p
	case <-t.C:
		return false, ""
	}
}

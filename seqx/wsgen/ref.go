package wsgen

import (
	"bytes"
	"compress/flate"
	"encoding/binary"
	"fmt"
	"io"
	"unicode/utf8"
)

// Event is something a receiving endpoint is expected to (or did) surface.
type Event struct {
	Kind    byte // 'M' message, 'F' data frame, 'P' ping, 'O' pong, 'C' close
	Type    byte // message type of 'M' / 'F' (OpText, OpBinary)
	Fin     bool // 'F' only
	Code    int  // 'C' only (1005: empty body)
	Payload []byte
	// Raw (Cfg.KeepRaw): the slice the callback was handed, not a copy; not part of SameEvent
	Raw []byte `json:"-"`
}

func (e Event) String() string {
	p := e.Payload
	tail := ""
	if len(p) > 24 {
		tail = fmt.Sprintf("…(%d bytes)", len(p))
		p = p[:24]
	}
	switch e.Kind {
	case 'M':
		return fmt.Sprintf("msg(type=%d %q%s)", e.Type, p, tail)
	case 'F':
		return fmt.Sprintf("frame(type=%d fin=%v %q%s)", e.Type, e.Fin, p, tail)
	case 'C':
		return fmt.Sprintf("close(%d %q%s)", e.Code, p, tail)
	}
	return fmt.Sprintf("%c(%q%s)", e.Kind, p, tail)
}

// SameEvent compares two events.
func SameEvent(a, b Event) bool {
	return a.Kind == b.Kind && a.Type == b.Type && a.Fin == b.Fin && a.Code == b.Code && bytes.Equal(a.Payload, b.Payload)
}

// Inflate is the reference permessage-deflate decoder (RFC 7692 §7.2.2): append 00 00 ff ff and
// inflate; the stream has no final block, so the unexpected EOF after the sync marker is the
// regular end.
func Inflate(p []byte, max int) ([]byte, error) {
	r := flate.NewReader(io.MultiReader(bytes.NewReader(p), bytes.NewReader([]byte{0x00, 0x00, 0xff, 0xff})))
	defer r.Close()
	var out bytes.Buffer
	buf := make([]byte, 32*1024)
	for {
		n, err := r.Read(buf)
		out.Write(buf[:n])
		if max > 0 && out.Len() > max {
			return out.Bytes(), fmt.Errorf("inflates to more than %d bytes", max)
		}
		if err == io.EOF || err == io.ErrUnexpectedEOF {
			return out.Bytes(), nil
		}
		if err != nil {
			return out.Bytes(), err
		}
	}
}

// Deflate produces a permessage-deflate payload (tail removed) of data.
func Deflate(data []byte, level int) []byte {
	var b bytes.Buffer
	w, err := flate.NewWriter(&b, level)
	if err != nil {
		panic(err)
	}
	_, _ = w.Write(data)
	_ = w.Flush()
	out := b.Bytes()
	if len(out) >= 4 && bytes.Equal(out[len(out)-4:], []byte{0x00, 0x00, 0xff, 0xff}) {
		out = out[:len(out)-4]
	}
	return out
}

// Deflate-stream endings of a compressed message (RFC 7692).
const (
	EndSync   = ""       // sync flush, the trailing 00 00 ff ff removed (section 7.2.1)
	EndFinal  = "final"  // the last block has BFINAL=1 (flate.Writer.Close / Z_FINISH), nothing removed (section 7.2.3.4)
	EndFinal0 = "final0" // the same followed by the octet 00, the form the RFC's example gives
)

// DeflateEnd produces a permessage-deflate payload of data with the given stream ending.
func DeflateEnd(data []byte, level int, ending string) []byte {
	if ending == EndSync {
		return Deflate(data, level)
	}
	var b bytes.Buffer
	w, err := flate.NewWriter(&b, level)
	if err != nil {
		panic(err)
	}
	_, _ = w.Write(data)
	_ = w.Close()
	out := b.Bytes()
	if ending == EndFinal0 {
		out = append(out, 0x00)
	}
	return out
}

// EOFWithData is a deterministic decompressor that hands out the last bytes of the stream
// together with io.EOF (an io.Reader may do that; nbio's own flate reader does it only for
// streams that end with a final block).
type EOFWithData struct {
	R       io.ReadCloser
	pending []byte
	done    bool
}

func (e *EOFWithData) Read(p []byte) (int, error) {
	if len(p) == 0 {
		return 0, nil
	}
	if e.done {
		return 0, io.EOF
	}
	n := copy(p, e.pending)
	e.pending = e.pending[n:]
	for n < len(p) {
		m, err := e.R.Read(p[n:])
		n += m
		if err == io.EOF {
			e.done = true
			return n, io.EOF
		}
		if err != nil {
			return n, err
		}
	}
	// p is full: look one byte ahead to know whether these were the last bytes
	var one [1]byte
	for {
		m, err := e.R.Read(one[:])
		if m == 1 {
			e.pending = append(e.pending[:0], one[0])
			return n, nil
		}
		if err == io.EOF {
			e.done = true
			return n, io.EOF
		}
		if err != nil {
			return n, nil // delivered with the next call
		}
	}
}

func (e *EOFWithData) Close() error { return e.R.Close() }

// OneByte is a deterministic decompressor that returns one byte per Read.
type OneByte struct{ R io.ReadCloser }

func (o *OneByte) Read(p []byte) (int, error) {
	if len(p) == 0 {
		return 0, nil
	}
	return o.R.Read(p[:1])
}

func (o *OneByte) Close() error { return o.R.Close() }

// CloseCodeClass classifies a status code found in a close frame on the wire (RFC 6455 §7.4):
// "legal", "illegal" or "unjudged".
func CloseCodeClass(code int) string {
	switch {
	case code < 1000:
		return "illegal" // §7.4.2: 0-999 are not used
	case code >= 1000 && code <= 1003:
		return "legal"
	case code >= 1004 && code <= 1006:
		return "illegal" // reserved / must not be set as a status code in a close frame
	case code >= 1007 && code <= 1011:
		return "legal"
	case code >= 1012 && code <= 1015:
		return "unjudged" // registered after RFC 6455 (1012-1014) / 1015 must not appear but nbio lists it: outside RFC 6455 proper per DESIGN
	case code >= 1016 && code <= 2999:
		return "illegal" // reserved for the protocol, not defined
	case code >= 3000 && code <= 4999:
		return "legal"
	}
	return "unjudged" // >= 5000: RFC 6455 says nothing
}

// Rules configures the predicate.
type Rules struct {
	Compression bool // permessage-deflate negotiated
	ToServer    bool // the receiver is a server (frames should be masked)
}

// Verdict is the predicate's answer for a frame sequence.
type Verdict struct {
	Offender   int      // index of the first frame RFC 6455 forbids (-1: the sequence is legal)
	Reason     string   // class of the violation
	MayReject  []string // features met before the offender that are not judged (may be refused)
	Events     []Event  // what the frames before the offender surface, in order
	EventFrame []int    // frame index completing each event
	CloseAt    int      // index of the (legal) close frame, -1
	Open       bool     // a fragmented message is incomplete at the end
	EmptyMsgs  int      // complete data messages with an empty payload among Events
	OffMsg     []byte   // offender is a data frame: the (raw) message bytes assembled up to and including it
	OffInMsg   bool     // offender is a data frame
}

// Legal reports whether no frame is forbidden.
func (v *Verdict) Legal() bool { return v.Offender < 0 }

func (v *Verdict) may(s string) {
	for _, x := range v.MayReject {
		if x == s {
			return
		}
	}
	v.MayReject = append(v.MayReject, s)
}

// Judge is the independent RFC 6455 acceptance predicate. It walks the frames, stops at the
// first forbidden one and reports what the preceding frames must surface. Frames after a close
// frame are ignored.
func Judge(frames []Frame, r Rules) *Verdict {
	v := &Verdict{Offender: -1, CloseAt: -1}
	inMsg := false
	var mType byte
	var mComp bool
	var mBuf []byte
	bad := func(i int, why string) *Verdict {
		v.Offender, v.Reason = i, why
		v.Open = inMsg
		if f := &frames[i]; !f.IsControl() {
			v.OffInMsg = true
			if why == "bad-utf8" || why == "bad-deflate" {
				v.OffMsg = append([]byte{}, mBuf...) // the payload was already appended
			} else if f.Op == OpCont || !inMsg {
				v.OffMsg = append(append([]byte{}, mBuf...), f.Payload...)
			} else {
				v.OffMsg = append([]byte{}, f.Payload...)
			}
		}
		return v
	}
	for i := range frames {
		f := &frames[i]
		ctl := f.IsControl()
		// ---- header rules, §5.2
		if f.form() == Form64 && f.DeclaredLen()>>63 != 0 {
			return bad(i, "len-topbit")
		}
		if f.Rsv2 || f.Rsv3 {
			return bad(i, "rsv")
		}
		if f.Rsv1 && !r.Compression {
			return bad(i, "rsv")
		}
		switch f.Op {
		case OpCont, OpText, OpBinary, OpClose, OpPing, OpPong:
		default:
			return bad(i, "reserved-opcode")
		}
		if ctl {
			if !f.Fin {
				return bad(i, "ctl-fragmented")
			}
			if f.DeclaredLen() > 125 {
				return bad(i, "ctl-too-long")
			}
		}
		if f.Op == OpCont && !inMsg {
			return bad(i, "cont-without-start")
		}
		if (f.Op == OpText || f.Op == OpBinary) && inMsg {
			return bad(i, "data-in-fragmented")
		}
		// ---- not judged
		if f.Masked != r.ToServer {
			v.may("mask-direction")
		}
		if f.Form != FormMin {
			min := Frame{Payload: f.Payload, Decl: f.Decl, HasDecl: f.HasDecl}
			if min.form() != f.Form {
				v.may("non-minimal-length")
			}
		}
		if f.Rsv1 && (ctl || f.Op == OpCont) {
			v.may("rsv1-on-control-or-continuation")
		}
		// ---- semantics
		switch f.Op {
		case OpPing:
			v.Events = append(v.Events, Event{Kind: 'P', Payload: f.Payload})
			v.EventFrame = append(v.EventFrame, i)
		case OpPong:
			v.Events = append(v.Events, Event{Kind: 'O', Payload: f.Payload})
			v.EventFrame = append(v.EventFrame, i)
		case OpClose:
			code := 1005
			var reason []byte
			switch {
			case len(f.Payload) == 1:
				return bad(i, "close-len1")
			case len(f.Payload) >= 2:
				code = int(binary.BigEndian.Uint16(f.Payload))
				reason = f.Payload[2:]
				switch CloseCodeClass(code) {
				case "illegal":
					return bad(i, "close-code")
				case "unjudged":
					v.may("close-code-unjudged")
				}
				if !utf8.Valid(reason) {
					return bad(i, "close-utf8")
				}
			}
			v.Events = append(v.Events, Event{Kind: 'C', Code: code, Payload: reason})
			v.EventFrame = append(v.EventFrame, i)
			v.CloseAt = i
			v.Open = inMsg
			return v
		default: // data
			if f.Op != OpCont {
				inMsg, mType, mComp, mBuf = true, f.Op, f.Rsv1, nil
			}
			mBuf = append(mBuf, f.Payload...)
			if f.Fin {
				body := mBuf
				if mComp {
					if len(mBuf) == 0 {
						// a compressed message with a zero-length payload: "00 00 ff ff" alone lacks the
						// block header byte, so it is not a DEFLATE stream (RFC 7692 senders emit 0x00
						// for an empty message). RFC 6455 says nothing about it: not judged.
						v.may("compressed-empty-payload")
					}
					var err error
					body, err = Inflate(mBuf, 0)
					if err != nil {
						return bad(i, "bad-deflate")
					}
				}
				if mType == OpText && !utf8.Valid(body) {
					bad(i, "bad-utf8")
					v.OffMsg = append([]byte{}, body...) // the message as it would be delivered (inflated)
					return v
				}
				if len(body) == 0 {
					v.EmptyMsgs++
				}
				v.Events = append(v.Events, Event{Kind: 'M', Type: mType, Payload: append([]byte{}, body...)})
				v.EventFrame = append(v.EventFrame, i)
				inMsg, mBuf = false, nil
			}
		}
	}
	v.Open = inMsg
	return v
}

// Package wsgen is the shared library of the sequential WebSocket checks (C12, C13, C15 and the
// WebSocket part of C11): a hand-written RFC 6455 frame encoder/decoder, an independent message
// assembler (fragmentation + RFC 7692 inflate), an independent RFC 6455 acceptance predicate,
// payload generators, segmentation enumerators, a recording fake net.Conn and a harness around
// the real websocket.Conn. Nothing in the encoder/decoder/predicate calls into nbio.
package wsgen

import (
	"encoding/binary"
	"errors"
	"fmt"
)

// Opcodes.
const (
	OpCont   = 0x0
	OpText   = 0x1
	OpBinary = 0x2
	OpClose  = 0x8
	OpPing   = 0x9
	OpPong   = 0xA
)

// Length encodings.
const (
	FormMin = 0  // the minimal encoding RFC 6455 requires
	Form7   = 7  // 7-bit
	Form16  = 16 // 126 + 16-bit
	Form64  = 64 // 127 + 64-bit
)

// Frame is one RFC 6455 frame in clear (Payload is unmasked).
type Frame struct {
	Fin, Rsv1, Rsv2, Rsv3 bool
	Op                    byte
	Masked                bool
	Key                   [4]byte
	Payload               []byte
	Form                  int    // FormMin or a forced encoding
	Decl                  uint64 // declared length when HasDecl (a header that lies, e.g. top bit set)
	HasDecl               bool
}

// IsControl reports whether the opcode is in the control range (8..15).
func (f *Frame) IsControl() bool { return f.Op&0x8 != 0 }

// DeclaredLen is the payload length announced in the header.
func (f *Frame) DeclaredLen() uint64 {
	if f.HasDecl {
		return f.Decl
	}
	return uint64(len(f.Payload))
}

func (f *Frame) form() int {
	if f.Form != FormMin {
		return f.Form
	}
	n := f.DeclaredLen()
	switch {
	case n < 126:
		return Form7
	case n <= 0xFFFF:
		return Form16
	}
	return Form64
}

// HeaderLen is the encoded header size including the masking key.
func (f *Frame) HeaderLen() int {
	n := 2
	switch f.form() {
	case Form16:
		n = 4
	case Form64:
		n = 10
	}
	if f.Masked {
		n += 4
	}
	return n
}

// WireLen is the encoded size.
func (f *Frame) WireLen() int { return f.HeaderLen() + len(f.Payload) }

// Append encodes the frame.
func (f *Frame) Append(dst []byte) []byte {
	b0 := f.Op & 0x0F
	if f.Fin {
		b0 |= 0x80
	}
	if f.Rsv1 {
		b0 |= 0x40
	}
	if f.Rsv2 {
		b0 |= 0x20
	}
	if f.Rsv3 {
		b0 |= 0x10
	}
	var m byte
	if f.Masked {
		m = 0x80
	}
	n := f.DeclaredLen()
	switch f.form() {
	case Form7:
		dst = append(dst, b0, m|byte(n&0x7F))
	case Form16:
		dst = append(dst, b0, m|126, byte(n>>8), byte(n))
	default:
		dst = append(dst, b0, m|127)
		var l [8]byte
		binary.BigEndian.PutUint64(l[:], n)
		dst = append(dst, l[:]...)
	}
	if f.Masked {
		dst = append(dst, f.Key[:]...)
		at := len(dst)
		dst = append(dst, f.Payload...)
		for i := at; i < len(dst); i++ {
			dst[i] ^= f.Key[(i-at)&3]
		}
		return dst
	}
	return append(dst, f.Payload...)
}

// Wire is an encoded frame sequence with its structure.
type Wire struct {
	Bytes  []byte
	Starts []int // offset of every frame
	Hdrs   []int // header length of every frame
}

// Encode encodes a frame sequence.
func Encode(frames []Frame) *Wire {
	w := &Wire{}
	for i := range frames {
		w.Starts = append(w.Starts, len(w.Bytes))
		w.Hdrs = append(w.Hdrs, frames[i].HeaderLen())
		w.Bytes = frames[i].Append(w.Bytes)
	}
	return w
}

// ErrShort is returned by ParseFrames when the wire ends inside a frame.
var ErrShort = errors.New("wire ends inside a frame")

// ParseFrames is the reference frame decoder: it splits a wire into frames and unmasks the
// payloads. It validates nothing but the structure (that is Judge's job).
func ParseFrames(wire []byte) ([]Frame, *Wire, error) {
	var out []Frame
	w := &Wire{Bytes: wire}
	p := 0
	for p < len(wire) {
		start := p
		if len(wire)-p < 2 {
			return out, w, ErrShort
		}
		b0, b1 := wire[p], wire[p+1]
		p += 2
		f := Frame{Fin: b0&0x80 != 0, Rsv1: b0&0x40 != 0, Rsv2: b0&0x20 != 0, Rsv3: b0&0x10 != 0, Op: b0 & 0x0F, Masked: b1&0x80 != 0}
		var n uint64
		switch b1 & 0x7F {
		case 126:
			if len(wire)-p < 2 {
				return out, w, ErrShort
			}
			n = uint64(binary.BigEndian.Uint16(wire[p:]))
			p += 2
			f.Form = Form16
		case 127:
			if len(wire)-p < 8 {
				return out, w, ErrShort
			}
			n = binary.BigEndian.Uint64(wire[p:])
			p += 8
			f.Form = Form64
		default:
			n = uint64(b1 & 0x7F)
			f.Form = Form7
		}
		if f.Masked {
			if len(wire)-p < 4 {
				return out, w, ErrShort
			}
			copy(f.Key[:], wire[p:p+4])
			p += 4
		}
		if n > uint64(len(wire)-p) {
			return out, w, fmt.Errorf("%w: frame %d declares %d payload bytes, %d left", ErrShort, len(out), n, len(wire)-p)
		}
		f.Payload = append([]byte(nil), wire[p:p+int(n)]...)
		if f.Masked {
			for i := range f.Payload {
				f.Payload[i] ^= f.Key[i&3]
			}
		}
		// record whether the encoding was minimal
		min := Frame{Payload: f.Payload}
		if min.form() == f.Form {
			f.Form = FormMin
		}
		p += int(n)
		w.Starts = append(w.Starts, start)
		w.Hdrs = append(w.Hdrs, p-int(n)-start)
		out = append(out, f)
	}
	return out, w, nil
}

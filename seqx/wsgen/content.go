package wsgen

// Content classes of message payloads. All generators are pure functions of (class, n, text,
// salt): the "lowcomp" class is a fixed xorshift sequence, i.e. a fixed pattern, not sampling.
var Classes = []string{"ramp", "zero", "utf8", "lowcomp"}

// Content returns n payload bytes of the class. With text=true the result is valid UTF-8.
func Content(class string, n int, text bool, salt int) []byte {
	out := make([]byte, n)
	switch class {
	case "zero":
		// NUL is valid UTF-8
	case "ramp":
		for i := range out {
			if text {
				out[i] = byte(0x20 + (i+salt)%95)
			} else {
				out[i] = byte(i*7 + salt)
			}
		}
	case "utf8":
		// 3-byte code points (U+20AC, U+4E16, U+FFFD, U+0800, U+D7FF, U+E000), ASCII padding at the end
		cps := []rune{0x20AC, 0x4E16, 0xFFFD, 0x0800, 0xD7FF, 0xE000}
		i := 0
		for k := salt; i+3 <= n; k++ {
			r := cps[k%len(cps)]
			out[i] = byte(0xE0 | r>>12)
			out[i+1] = byte(0x80 | (r>>6)&0x3F)
			out[i+2] = byte(0x80 | r&0x3F)
			i += 3
		}
		for ; i < n; i++ {
			out[i] = '.'
		}
	case "lowcomp":
		x := uint64(0x9E3779B97F4A7C15) ^ uint64(salt+1)*0xBF58476D1CE4E5B9
		for i := range out {
			x ^= x << 13
			x ^= x >> 7
			x ^= x << 17
			if text {
				out[i] = byte(0x20 + (x>>33)%95)
			} else {
				out[i] = byte(x >> 29)
			}
		}
	default:
		panic("unknown content class " + class)
	}
	return out
}

// Marked returns n bytes drawn from one of 8 disjoint ASCII alphabets (8 symbols each), so that
// the frame a delivered byte came from can be identified. mark is taken modulo 8.
func Marked(n int, mark int) []byte {
	base := byte('0' + (mark%8)*8) // '0'..'o' in steps of 8: all printable ASCII
	out := make([]byte, n)
	for i := range out {
		out[i] = base + byte(i%8)
	}
	return out
}

// MarkOf returns the alphabet a byte belongs to (-1: none).
func MarkOf(b byte) int {
	if b < '0' || b >= '0'+64 {
		return -1
	}
	return int(b-'0') / 8
}

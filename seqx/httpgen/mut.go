package httpgen

import "fmt"

// MutAlphabet is the replacement alphabet of the single-mutation neighbourhood (DESIGN 2.4).
var MutAlphabet = []byte{'\r', '\n', ' ', '\t', ':', ';', ',', '0', '9', 'a', 'g', '-', '+', 0, 0x80, 0xFF}

// Neighbours enumerates the single-mutation neighbourhood of base: every position x
// (replacement by each alphabet byte different from the original, deletion, duplication).
// The slice passed to f is fresh.
func Neighbours(base []byte, f func(pos int, desc string, b []byte)) int {
	n := 0
	for i := range base {
		for _, a := range MutAlphabet {
			if a == base[i] {
				continue
			}
			m := append([]byte(nil), base...)
			m[i] = a
			f(i, fmt.Sprintf("replace@%d:%q->%q", i, base[i], a), m)
			n++
		}
		del := append(append([]byte(nil), base[:i]...), base[i+1:]...)
		f(i, fmt.Sprintf("delete@%d:%q", i, base[i]), del)
		dup := append(append(append([]byte(nil), base[:i+1]...), base[i]), base[i+1:]...)
		f(i, fmt.Sprintf("dup@%d:%q", i, base[i]), dup)
		n += 2
	}
	return n
}

package httpgen

import (
	"strings"
)

// This file holds the reference for the VALUE space of the framing header fields
// (Content-Length, Transfer-Encoding) used by C08 part (e). It encodes RFC 7230 3.3.1 - 3.3.3
// plus the wording of property C08 ("non-numeric or negative Content-Length, unsupported or
// repeated Transfer-Encoding ... is rejected with an error rather than guessed") and shares no
// code with nbhttp or net/http.

// FHLine is one framing header line; Val is the raw text between ':' and CR LF.
type FHLine struct{ Name, Val string }

// FHVerdict says what a recipient has to do with a header block.
type FHVerdict int

const (
	// FHAccept: the framing headers are valid; a recipient has no reason to refuse.
	FHAccept FHVerdict = iota
	// FHEither: RFC 7230 lets the recipient choose (reject, or repair / ignore): identical
	// repeated Content-Length values, a Content-Length list "3, 3", Content-Length next to a
	// valid "Transfer-Encoding: chunked", empty list elements around "chunked".
	FHEither
	// FHReject: the framing metadata is malformed, it must be refused with an error.
	FHReject
)

func (v FHVerdict) String() string { return [...]string{"accept", "either", "reject"}[v] }

// FHRef is the reference's verdict for a header block.
type FHRef struct {
	Verdict FHVerdict
	Reason  string // stable, used in signatures
	Framing string // for FHAccept / FHEither: "none", "content-length", "chunked" ("" when open)
	N       int64  // Content-Length value when Framing is "content-length"
}

func trimOWS(s string) string { return strings.Trim(s, " \t") }

func allDigits(s string) bool {
	if s == "" {
		return false
	}
	for i := 0; i < len(s); i++ {
		if s[i] < '0' || s[i] > '9' {
			return false
		}
	}
	return true
}

// CLClass classifies one raw Content-Length field value (RFC 7230 3.3.2: Content-Length =
// 1*DIGIT, surrounded by optional SP / HTAB): "valid" (with its value), or the way it is
// invalid: "empty", "blanks", "sign-plus", "sign-minus", "overflow", "hex", "list-identical",
// "list-differing", "inner-blank", "non-digit".
func CLClass(raw string) (class string, n int64) {
	v := trimOWS(raw)
	switch {
	case raw == "":
		return "empty", 0
	case v == "":
		return "blanks", 0
	case allDigits(v):
		d := strings.TrimLeft(v, "0")
		if len(d) > 19 || (len(d) == 19 && d > "9223372036854775807") {
			return "overflow", 0
		}
		for i := 0; i < len(d); i++ {
			n = n*10 + int64(d[i]-'0')
		}
		return "valid", n
	case v[0] == '+' && allDigits(v[1:]):
		return "sign-plus", 0
	case v[0] == '-' && allDigits(v[1:]):
		return "sign-minus", 0
	case strings.Contains(v, ","):
		var first string
		for i, e := range strings.Split(v, ",") {
			e = trimOWS(e)
			if !allDigits(e) {
				return "non-digit", 0
			}
			e = strings.TrimLeft(e, "0")
			if i == 0 {
				first = e
			} else if e != first {
				return "list-differing", 0
			}
		}
		return "list-identical", 0
	case strings.HasPrefix(v, "0x") || strings.HasPrefix(v, "0X"):
		return "hex", 0
	case allDigits(strings.NewReplacer(" ", "", "\t", "").Replace(v)):
		return "inner-blank", 0
	}
	return "non-digit", 0
}

// TEClass classifies one raw Transfer-Encoding field value (RFC 7230 3.3.1: 1#transfer-coding;
// nbhttp implements "chunked" only, every other coding is "unsupported" in the sense of the
// property): "chunked", "chunked+empty-list-element" ("chunked," - empty list elements must be
// ignored, RFC 7230 7), "empty" (no coding at all), "chunked-twice", "chunked-not-final",
// "unsupported".
func TEClass(raw string) string {
	var codings []string
	hadEmpty := false
	for _, e := range strings.Split(raw, ",") {
		e = strings.ToLower(trimOWS(e))
		if e == "" {
			hadEmpty = true
			continue
		}
		codings = append(codings, e)
	}
	switch {
	case len(codings) == 0:
		return "empty"
	case len(codings) == 1 && codings[0] == "chunked":
		if hadEmpty && strings.Contains(raw, ",") {
			return "chunked+empty-list-element"
		}
		return "chunked"
	}
	nChunked, other := 0, false
	for _, c := range codings {
		if c == "chunked" {
			nChunked++
		} else {
			other = true
		}
	}
	switch {
	case nChunked >= 2 && !other:
		return "chunked-twice"
	case nChunked >= 1 && codings[len(codings)-1] != "chunked":
		return "chunked-not-final"
	}
	return "unsupported"
}

// FramingHeaderRef decides a header block from its framing header lines (in wire order).
//
//   - Transfer-Encoding: two or more lines -> reject ("repeated Transfer-Encoding", the
//     property's wording; RFC 7230 would read them as one list, of which nbhttp could at best
//     support the single element "chunked"); one line: reject unless it is exactly the coding
//     "chunked" (case-insensitive, optional blanks).
//   - a valid "chunked" overrides any Content-Length (3.3.3 rule 3; "ought to be handled as an
//     error" - either).
//   - Content-Length without Transfer-Encoding (3.3.3 rule 4): any line with an invalid value,
//     or lines with differing values -> reject; identical values -> either.
func FramingHeaderRef(lines []FHLine) FHRef {
	var te, cl []string
	for _, l := range lines {
		switch strings.ToLower(trimOWS(l.Name)) {
		case "transfer-encoding":
			te = append(te, l.Val)
		case "content-length":
			cl = append(cl, l.Val)
		}
	}
	if len(te) > 1 {
		return FHRef{Verdict: FHReject, Reason: "transfer-encoding-repeated"}
	}
	if len(te) == 1 {
		switch c := TEClass(te[0]); c {
		case "chunked":
			if len(cl) > 0 {
				return FHRef{Verdict: FHEither, Reason: "content-length-with-chunked", Framing: "chunked"}
			}
			return FHRef{Verdict: FHAccept, Reason: "chunked", Framing: "chunked"}
		case "chunked+empty-list-element":
			return FHRef{Verdict: FHEither, Reason: "transfer-encoding-" + c, Framing: "chunked"}
		default:
			return FHRef{Verdict: FHReject, Reason: "transfer-encoding-" + c}
		}
	}
	switch len(cl) {
	case 0:
		return FHRef{Verdict: FHAccept, Reason: "no-framing-header", Framing: "none"}
	case 1:
		c, n := CLClass(cl[0])
		switch c {
		case "valid":
			return FHRef{Verdict: FHAccept, Reason: "content-length", Framing: "content-length", N: n}
		case "list-identical":
			return FHRef{Verdict: FHEither, Reason: "content-length-list-identical"}
		}
		return FHRef{Verdict: FHReject, Reason: "content-length-invalid value=" + c}
	}
	// repeated Content-Length: the reason names WHICH line is bad (a recipient that only looks
	// at the first line and one that mis-reads a value are different defects)
	var vals []int64
	for i, v := range cl {
		c, n := CLClass(v)
		if c != "valid" {
			if i > 0 {
				return FHRef{Verdict: FHReject, Reason: "content-length-repeated later-line-invalid"}
			}
			switch c {
			case "empty", "sign-plus", "sign-minus":
			default:
				c = "invalid"
			}
			return FHRef{Verdict: FHReject, Reason: "content-length-repeated first-line=" + c}
		}
		vals = append(vals, n)
	}
	for _, n := range vals[1:] {
		if n != vals[0] {
			return FHRef{Verdict: FHReject, Reason: "content-length-repeated-differing"}
		}
	}
	return FHRef{Verdict: FHEither, Reason: "content-length-repeated-identical", Framing: "content-length", N: vals[0]}
}

// Package httpgen is the shared library of the sequential HTTP/1.x parser checks (C06, C07,
// C08): a case runner that drives the real nbhttp.Parser with a recording Processor or with the
// real Server/ClientProcessor, segmentation enumerators, small grammar enumerators, the
// single-mutation neighbourhood, event-log comparison and a hang watchdog.
package httpgen

import (
	"encoding/json"
	"errors"
	"flag"
	"fmt"
	"io"
	"net"
	"net/http"
	"os"
	"sort"
	"strconv"
	"strings"
	"sync"
	"sync/atomic"
	"time"

	"github.com/lesismal/nbio/logging"
	"github.com/lesismal/nbio/mempool"
	"github.com/lesismal/nbio/nbhttp"

	"verif/track"
)

// Mode selects the Processor behind the parser.
type Mode int

const (
	// Rec: a Processor that only records every callback with its arguments.
	Rec Mode = iota
	// Real: nbhttp's ServerProcessor (+ a handler that dumps the request) on the server side,
	// nbhttp's ClientProcessor (+ a callback that dumps the response) on the client side.
	Real
)

func (m Mode) String() string {
	if m == Rec {
		return "rec"
	}
	return "real"
}

// Case is one (stream, segmentation, configuration) triple.
type Case struct {
	Stream []byte
	Cuts   []int // ascending offsets strictly inside (0,len(Stream)); nil: one piece
	Every  int   // >0: pieces of Every bytes (1: byte-at-a-time); Cuts is ignored
	Client bool
	Mode   Mode
	// ReadLimit: 0 = no limit (Engine.ReadLimit = 0), <0 = nbhttp's default (64 MiB).
	ReadLimit int
	MaxBody   int
	Policy    track.Policy
	// Lite: use the cheap per-case allocator instead of verif/track (see lite.go).
	Lite bool
	// Move: an Append / Realloc that outgrows the buffer's capacity relocates it (new handle, the
	// old one freed and poisoned), as mempool.NewAligned does when a size class is outgrown.
	Move bool
	// Probe: after an error (and the engine's reaction, CloseAndClean) keep feeding the rest of
	// the stream plus one valid message and record what the parser does (C08).
	Probe bool
}

// Pieces returns the number of Parse calls the segmentation makes.
func (c *Case) Pieces() int {
	if c.Every > 0 {
		return (len(c.Stream) + c.Every - 1) / c.Every
	}
	return len(c.Cuts) + 1
}

// ReqDump is what the handler saw (Real mode, server side).
type ReqDump struct {
	Method, RequestURI, Path, RawQuery, Proto string
	Major, Minor                              int
	Host                                      string
	Header                                    http.Header
	Body                                      []byte
	Trailer                                   http.Header
	Close                                     bool
	ContentLength                             int64
	At                                        int // bytes fed to the parser when the handler ran
}

// ResDump is what the client callback saw (Real mode, client side).
type ResDump struct {
	Status, Proto string
	Code          int
	Major, Minor  int
	Header        http.Header
	Body          []byte
	Trailer       http.Header
	ContentLength int64
	At            int
}

// Result is everything observed while running a Case.
type Result struct {
	Log         []byte // event log, one event per line
	NEvents     int
	Verdict     string // "" or the error class of the first error returned by Parse
	ErrFeed     int    // index of the feed that returned the error, -1 if none
	ErrOffset   int    // bytes fed up to and including the failing feed
	ErrState    int    // parser state enum right after the failing Parse call (before the close)
	Feeds       int
	Panics      []string // error-level log lines (recover() blocks) seen during the case
	CompleteAt  []int    // bytes fed when the i-th OnComplete fired
	CutStates   []int    // parser state enum after each feed (first 3 feeds)
	CarryOver   bool     // some feed ended with a non-empty carry-over buffer
	MaxCached   int      // max carry-over length after any feed
	RetainOver  int      // max over feeds of cached_after - (ReadLimit + len(read)) when ReadLimit>0 (<=0: within bound)
	MaxNeed     int      // max over feeds of cached_before + len(read) for feeds with cached_before>0
	LiveOver    int      // max over feeds of track live bytes - (ReadLimit+len(read)) in Rec mode (cross-check)
	MaxBodyHeld int      // max body bytes accepted for one message (OnBody calls that returned nil)
	PostEvents  int      // Probe: events logged after the error + close
	PostNil     int      // Probe: Parse calls after the close that returned nil
	PostFeeds   int
	TrackViol   []string
	Reqs        []*ReqDump
	Ress        []*ResDump
}

// Events splits the log into lines.
func (r *Result) Events() []string {
	if len(r.Log) == 0 {
		return nil
	}
	return strings.Split(strings.TrimSuffix(string(r.Log), "\n"), "\n")
}

// ---------------------------------------------------------------------------------------------
// capturing logger

type capLogger struct {
	mu    sync.Mutex
	lines []string
}

func (l *capLogger) Debug(string, ...interface{}) {}
func (l *capLogger) Info(string, ...interface{})  {}
func (l *capLogger) Warn(string, ...interface{})  {}
func (l *capLogger) Error(format string, v ...interface{}) {
	s := fmt.Sprintf(format, v...)
	l.mu.Lock()
	if len(l.lines) < 16 {
		l.lines = append(l.lines, s)
	}
	l.mu.Unlock()
}
func (l *capLogger) take() []string {
	l.mu.Lock()
	defer l.mu.Unlock()
	if len(l.lines) == 0 {
		return nil
	}
	x := l.lines
	l.lines = nil
	return x
}

// ---------------------------------------------------------------------------------------------
// environment (one per process)

type runState struct {
	log     []byte
	nev     int
	fed     int
	res     *Result
	t       allocator
	dump    bool
	msgBody int
}

func (s *runState) ev(kind string, args ...string) {
	s.log = append(s.log, kind...)
	for _, a := range args {
		s.log = append(s.log, ' ')
		s.log = strconv.AppendQuote(s.log, a)
	}
	s.log = append(s.log, '\n')
	s.nev++
}

var (
	envOnce sync.Once
	eng     *nbhttp.Engine
	clog    = &capLogger{}
	cur     *runState

	beat    uint64
	inParse int32
	curCase atomic.Value // *Case
)

func setup() {
	envOnce.Do(func() {
		logging.SetLogger(clog)
		inline := func(f func()) { f() }
		eng = nbhttp.NewEngine(nbhttp.Config{
			Name:           "httpgen",
			ServerExecutor: inline,
			ClientExecutor: inline,
			Handler:        http.HandlerFunc(serverHandler),
		})
	})
	// other code in the process (vkit.Main) may have installed its own logger after us
	logging.SetLogger(clog)
}

type allocator interface {
	mempool.Allocator
	LiveBytes() int
	Use(b []byte, where string)
}

// fake connection -------------------------------------------------------------------------------

type fakeAddr struct{}

func (fakeAddr) Network() string { return "tcp" }
func (fakeAddr) String() string  { return "192.0.2.1:4321" }

type fakeConn struct{ s *runState }

func (c *fakeConn) Read([]byte) (int, error) { return 0, io.EOF }
func (c *fakeConn) Write(b []byte) (int, error) {
	c.s.t.Use(b, "conn.Write")
	line := string(b)
	if i := strings.Index(line, "\r\n"); i >= 0 {
		line = line[:i]
	}
	c.s.ev("W", line)
	return len(b), nil
}
func (c *fakeConn) Close() error                     { c.s.ev("CONNCLOSE"); return nil }
func (c *fakeConn) LocalAddr() net.Addr              { return fakeAddr{} }
func (c *fakeConn) RemoteAddr() net.Addr             { return fakeAddr{} }
func (c *fakeConn) SetDeadline(time.Time) error      { return nil }
func (c *fakeConn) SetReadDeadline(time.Time) error  { return nil }
func (c *fakeConn) SetWriteDeadline(time.Time) error { return nil }

// recording processor ---------------------------------------------------------------------------

type recProc struct{ s *runState }

func (p *recProc) OnMethod(_ *nbhttp.Parser, m string)        { p.s.ev("M", m) }
func (p *recProc) OnURL(_ *nbhttp.Parser, u string) error     { p.s.ev("U", u); return nil }
func (p *recProc) OnProto(_ *nbhttp.Parser, v string) error   { p.s.ev("P", v); return nil }
func (p *recProc) OnStatus(_ *nbhttp.Parser, c int, s string) { p.s.ev("S", strconv.Itoa(c), s) }
func (p *recProc) OnHeader(_ *nbhttp.Parser, k, v string)     { p.s.ev("H", k, v) }
func (p *recProc) OnContentLength(_ *nbhttp.Parser, n int)    { p.s.ev("L", strconv.Itoa(n)) }
func (p *recProc) OnBody(_ *nbhttp.Parser, d []byte) error {
	p.s.t.Use(d, "OnBody")
	p.s.ev("B", string(d))
	p.s.msgBody += len(d)
	if p.s.msgBody > p.s.res.MaxBodyHeld {
		p.s.res.MaxBodyHeld = p.s.msgBody
	}
	return nil
}
func (p *recProc) OnTrailerHeader(_ *nbhttp.Parser, k, v string) { p.s.ev("T", k, v) }
func (p *recProc) OnComplete(_ *nbhttp.Parser) {
	p.s.ev("C")
	p.s.res.CompleteAt = append(p.s.res.CompleteAt, p.s.fed)
	p.s.msgBody = 0
}
func (p *recProc) Close(_ *nbhttp.Parser, err error) { p.s.ev("X") }
func (p *recProc) Clean(_ *nbhttp.Parser)            { p.s.ev("CLEAN") }

// bodyMeter wraps a real processor and measures how many body bytes it accepted per message
// (what the BodyReader holds: nothing reads the body before the message is complete).
type bodyMeter struct {
	nbhttp.Processor
	s *runState
}

func (p *bodyMeter) OnBody(ps *nbhttp.Parser, d []byte) error {
	err := p.Processor.OnBody(ps, d)
	if err == nil {
		p.s.msgBody += len(d)
		if p.s.msgBody > p.s.res.MaxBodyHeld {
			p.s.res.MaxBodyHeld = p.s.msgBody
		}
	}
	return err
}
func (p *bodyMeter) OnComplete(ps *nbhttp.Parser) {
	p.s.res.CompleteAt = append(p.s.res.CompleteAt, p.s.fed)
	p.s.msgBody = 0
	p.Processor.OnComplete(ps)
}

// real handlers ---------------------------------------------------------------------------------

func cloneHeader(h http.Header) http.Header {
	if h == nil {
		return nil
	}
	o := make(http.Header, len(h))
	for k, v := range h {
		o[k] = append([]string(nil), v...)
	}
	return o
}

// HeaderString renders a header multimap canonically (sorted keys, values in order).
func HeaderString(h http.Header) string {
	keys := make([]string, 0, len(h))
	for k := range h {
		keys = append(keys, k)
	}
	sort.Strings(keys)
	var sb strings.Builder
	for _, k := range keys {
		sb.WriteString(strconv.Quote(k))
		sb.WriteByte('=')
		for _, v := range h[k] {
			sb.WriteString(strconv.Quote(v))
			sb.WriteByte(',')
		}
		sb.WriteByte(';')
	}
	return sb.String()
}

func serverHandler(w http.ResponseWriter, r *http.Request) {
	s := cur
	if s == nil {
		return
	}
	var body []byte
	if r.Body != nil {
		body, _ = io.ReadAll(r.Body)
	}
	d := &ReqDump{Method: r.Method, RequestURI: r.RequestURI, Proto: r.Proto, Major: r.ProtoMajor, Minor: r.ProtoMinor,
		Host: r.Host, Header: cloneHeader(r.Header), Body: body, Trailer: cloneHeader(r.Trailer), Close: r.Close,
		ContentLength: r.ContentLength, At: s.fed}
	if r.URL != nil {
		d.Path, d.RawQuery = r.URL.Path, r.URL.RawQuery
	}
	if s.dump {
		s.res.Reqs = append(s.res.Reqs, d)
	}
	s.ev("REQ", d.Method, d.RequestURI, d.Path, d.RawQuery, d.Proto, strconv.Itoa(d.Major)+"."+strconv.Itoa(d.Minor), d.Host,
		HeaderString(d.Header), strconv.FormatInt(d.ContentLength, 10), strconv.FormatBool(d.Close), string(body), HeaderString(d.Trailer))
}

func clientHandler(res *http.Response, err error) {
	s := cur
	if s == nil {
		return
	}
	if res == nil {
		s.ev("RESERR", fmt.Sprint(err))
		return
	}
	var body []byte
	if res.Body != nil {
		body, _ = io.ReadAll(res.Body)
	}
	d := &ResDump{Status: res.Status, Proto: res.Proto, Code: res.StatusCode, Major: res.ProtoMajor, Minor: res.ProtoMinor,
		Header: cloneHeader(res.Header), Body: body, Trailer: cloneHeader(res.Trailer), ContentLength: res.ContentLength, At: s.fed}
	if s.dump {
		s.res.Ress = append(s.res.Ress, d)
	}
	s.ev("RES", d.Status, strconv.Itoa(d.Code), d.Proto, strconv.Itoa(d.Major)+"."+strconv.Itoa(d.Minor),
		HeaderString(d.Header), strconv.FormatInt(d.ContentLength, 10), string(body), HeaderString(d.Trailer))
}

// ---------------------------------------------------------------------------------------------
// error classes

var sentinels = []struct {
	e error
	n string
}{
	{nbhttp.ErrInvalidCRLF, "ErrInvalidCRLF"}, {nbhttp.ErrInvalidHTTPVersion, "ErrInvalidHTTPVersion"},
	{nbhttp.ErrInvalidHTTPStatusCode, "ErrInvalidHTTPStatusCode"}, {nbhttp.ErrInvalidHTTPStatus, "ErrInvalidHTTPStatus"},
	{nbhttp.ErrInvalidMethod, "ErrInvalidMethod"}, {nbhttp.ErrInvalidRequestURI, "ErrInvalidRequestURI"},
	{nbhttp.ErrInvalidHost, "ErrInvalidHost"}, {nbhttp.ErrInvalidPort, "ErrInvalidPort"}, {nbhttp.ErrInvalidPath, "ErrInvalidPath"},
	{nbhttp.ErrInvalidQueryString, "ErrInvalidQueryString"}, {nbhttp.ErrInvalidFragment, "ErrInvalidFragment"},
	{nbhttp.ErrCRExpected, "ErrCRExpected"}, {nbhttp.ErrLFExpected, "ErrLFExpected"},
	{nbhttp.ErrInvalidCharInHeader, "ErrInvalidCharInHeader"}, {nbhttp.ErrUnexpectedContentLength, "ErrUnexpectedContentLength"},
	{nbhttp.ErrInvalidContentLength, "ErrInvalidContentLength"}, {nbhttp.ErrInvalidChunkSize, "ErrInvalidChunkSize"},
	{nbhttp.ErrTrailerExpected, "ErrTrailerExpected"}, {nbhttp.ErrTooLong, "ErrTooLong"},
	{net.ErrClosed, "net.ErrClosed"},
}

// ErrClass maps an error to its class: the sentinel's name when it is (or wraps) one of
// nbhttp's Err* values, else "other:" + the message (the message of a rejection is a function of
// the input bytes only, so it has to be the same in every segmentation).
func ErrClass(err error) string {
	if err == nil {
		return ""
	}
	for _, s := range sentinels {
		if errors.Is(err, s.e) {
			return s.n
		}
	}
	return "other:" + err.Error()
}

// ErrKind is ErrClass without the message of non-sentinel errors (for signatures).
func ErrKind(class string) string {
	if class == "" {
		return "nil"
	}
	if strings.HasPrefix(class, "other:") {
		m := class[6:]
		// keep the constant prefix of the message (up to the first quote/digit/colon)
		if i := strings.IndexAny(m, "\"'0123456789:"); i >= 0 {
			m = m[:i]
		}
		return "other(" + strings.TrimSpace(m) + ")"
	}
	return class
}

// ---------------------------------------------------------------------------------------------
// the runner

// ValidTail is fed after an error in Probe mode (a complete valid request / response).
var (
	validReqTail = []byte("GET / HTTP/1.1\r\nHost: h\r\n\r\n")
	validResTail = []byte("HTTP/1.1 200 OK\r\nContent-Length: 0\r\n\r\n")
)

// Run executes one case on a fresh parser with a fresh tracking allocator.
func Run(c *Case, dump bool) *Result {
	setup()
	res := &Result{ErrFeed: -1, RetainOver: -1 << 30, LiveOver: -1 << 30}
	var t allocator
	var tt *track.T
	var lt *lite
	if c.Lite {
		lt = newLite(c.Policy)
		lt.move = c.Move
		t = lt
	} else {
		tt = track.New(c.Policy)
		tt.MoveOnGrow = c.Move
		t = tt
	}
	mempool.DefaultMemPool = t
	eng.BodyAllocator = t
	switch {
	case c.ReadLimit < 0:
		eng.ReadLimit = nbhttp.DefaultHTTPReadLimit
	default:
		eng.ReadLimit = c.ReadLimit
	}
	eng.MaxHTTPBodySize = c.MaxBody
	s := &runState{res: res, t: t, dump: dump}
	s.log = make([]byte, 0, 256)
	cur = s
	curCase.Store(c)
	conn := &fakeConn{s}
	var proc nbhttp.Processor
	switch {
	case c.Mode == Rec:
		proc = &recProc{s}
	case c.Client:
		proc = &bodyMeter{nbhttp.NewClientProcessor(&nbhttp.ClientConn{Engine: eng}, clientHandler), s}
	default:
		proc = &bodyMeter{nbhttp.NewServerProcessor(), s}
	}
	p := nbhttp.NewParser(conn, eng, proc, c.Client, nil)
	clog.take()

	n := len(c.Stream)
	maxPiece := n
	scratch := make([]byte, maxPiece)
	npieces := c.Pieces()
	pos := 0
	closed := false
	feed := func(piece []byte) error {
		buf := scratch[:len(piece)]
		copy(buf, piece)
		before := p.VerifC08CachedLen()
		atomic.AddUint64(&beat, 1)
		atomic.StoreInt32(&inParse, 1)
		err := p.Parse(buf)
		atomic.StoreInt32(&inParse, 0)
		// the engine reuses its read buffer for the next read: nothing may still point into it
		for i := range buf {
			buf[i] = 0xEE
		}
		if closed {
			return err
		}
		res.Feeds++
		after := p.VerifC08CachedLen()
		if after > 0 {
			res.CarryOver = true
		}
		if after > res.MaxCached {
			res.MaxCached = after
		}
		if before > 0 && before+len(piece) > res.MaxNeed {
			res.MaxNeed = before + len(piece)
		}
		// the retention bound is about what the parser keeps for the next read; after an error
		// the connection is closed and the buffer released, so only successful calls count
		if c.ReadLimit > 0 && err == nil {
			if o := after - (c.ReadLimit + len(piece)); o > res.RetainOver {
				res.RetainOver = o
			}
			if c.Mode == Rec {
				if o := t.LiveBytes() - (c.ReadLimit + len(piece)); o > res.LiveOver {
					res.LiveOver = o
				}
			}
		}
		if len(res.CutStates) < 3 {
			res.CutStates = append(res.CutStates, p.VerifC08State())
		}
		return err
	}
	for k := 0; k < npieces; k++ {
		end := n
		if c.Every > 0 {
			end = pos + c.Every
			if end > n {
				end = n
			}
		} else if k < len(c.Cuts) {
			end = c.Cuts[k]
		}
		s.fed = end
		err := feed(c.Stream[pos:end])
		pos = end
		if err != nil {
			res.Verdict = ErrClass(err)
			res.ErrFeed = k
			res.ErrOffset = end
			res.ErrState = p.VerifC08State()
			// what Engine.DataHandler does: close the connection, which closes the parser
			p.CloseAndClean(err)
			closed = true
			if c.Probe {
				mark := s.nev
				probe := func(b []byte) {
					if len(b) == 0 {
						return
					}
					res.PostFeeds++
					if e := feed(b); e == nil {
						res.PostNil++
					}
				}
				// the rest of the stream in the same segmentation, then a complete valid message
				for k++; k < npieces; k++ {
					end := n
					if c.Every > 0 {
						end = pos + c.Every
						if end > n {
							end = n
						}
					} else if k < len(c.Cuts) {
						end = c.Cuts[k]
					}
					probe(c.Stream[pos:end])
					pos = end
				}
				tail := validReqTail
				if c.Client {
					tail = validResTail
				}
				if len(tail) > len(scratch) {
					scratch = make([]byte, len(tail))
				}
				probe(tail)
				res.PostEvents = s.nev - mark
			}
			break
		}
	}
	if !closed {
		p.CloseAndClean(nil)
	}
	res.Panics = clog.take()
	res.Log = s.log
	res.NEvents = s.nev
	if tt != nil {
		for _, v := range tt.Violations() {
			res.TrackViol = append(res.TrackViol, v.Sig)
		}
	} else if lt.misuse > 0 {
		res.TrackViol = append(res.TrackViol, "lite-allocator-misuse")
	}
	cur = nil
	return res
}

// ---------------------------------------------------------------------------------------------
// watchdog: a Parse call that does not return within the limit is a hang

// Sink is the part of vkit.Part the watchdog needs.
type Sink interface {
	Report(sig, desc, scenario string, input interface{})
	Incompletef(format string, a ...interface{})
}

// CaseInput is the replayable form of a Case.
type CaseInput struct {
	Stream    string `json:"stream"` // Go-quoted
	Cuts      []int  `json:"cuts,omitempty"`
	Every     int    `json:"every,omitempty"`
	Client    bool   `json:"client,omitempty"`
	Mode      string `json:"mode"`
	ReadLimit int    `json:"read_limit"`
	MaxBody   int    `json:"max_body,omitempty"`
	Policy    string `json:"policy"`
	Lite      bool   `json:"lite,omitempty"`
	Move      bool   `json:"move,omitempty"`
	Probe     bool   `json:"probe,omitempty"`
	Note      string `json:"note,omitempty"`
}

// Input converts a case to its replayable form.
func (c *Case) Input(note string) *CaseInput {
	return &CaseInput{Stream: strconv.Quote(string(c.Stream)), Cuts: append([]int(nil), c.Cuts...), Every: c.Every, Client: c.Client,
		Mode: c.Mode.String(), ReadLimit: c.ReadLimit, MaxBody: c.MaxBody, Policy: c.Policy.String(), Lite: c.Lite, Move: c.Move, Probe: c.Probe, Note: note}
}

// Case converts back.
func (in *CaseInput) Case() (*Case, error) {
	s, err := strconv.Unquote(in.Stream)
	if err != nil {
		return nil, err
	}
	c := &Case{Stream: []byte(s), Cuts: in.Cuts, Every: in.Every, Client: in.Client, ReadLimit: in.ReadLimit, MaxBody: in.MaxBody, Probe: in.Probe, Lite: in.Lite, Move: in.Move}
	if in.Mode == "real" {
		c.Mode = Real
	}
	switch in.Policy {
	case "pooled":
		c.Policy = track.Pooled
	case "stale":
		c.Policy = track.Stale
	}
	return c, nil
}

// ParseInput decodes a replay input.
func ParseInput(raw json.RawMessage) (*Case, *CaseInput, error) {
	var in CaseInput
	if err := json.Unmarshal(raw, &in); err != nil {
		return nil, nil, err
	}
	c, err := in.Case()
	return c, &in, err
}

// StartWatchdog starts a goroutine that turns a Parse call which does not return within limit
// into a report: it records the finding in part, marks the run incomplete, writes the worker's
// result file itself (the worker's main goroutine is stuck) and exits the process.
func StartWatchdog(part Sink, scenario string, limit time.Duration) {
	go func() {
		last := atomic.LoadUint64(&beat)
		since := time.Now()
		for {
			time.Sleep(500 * time.Millisecond)
			b := atomic.LoadUint64(&beat)
			if b != last || atomic.LoadInt32(&inParse) == 0 {
				last, since = b, time.Now()
				continue
			}
			if time.Since(since) < limit {
				continue
			}
			var in interface{}
			if c, _ := curCase.Load().(*Case); c != nil {
				in = c.Input("hang")
			}
			part.Report("hang", fmt.Sprintf("a Parse call did not return within %v", limit), scenario, in)
			part.Incompletef("worker stopped after a hang; its remaining work items were not enumerated")
			out := ""
			if f := flag.Lookup("out"); f != nil {
				out = f.Value.String()
			}
			if out == "" {
				fmt.Println("hang: a Parse call did not return within", limit)
				os.Exit(1)
			}
			b2, _ := json.Marshal(part)
			_ = os.WriteFile(out, b2, 0o644)
			os.Exit(0)
		}
	}()
}

package httpgen

import (
	"fmt"
	"strconv"
	"strings"
)

// This file holds the systematic "framing CR/LF neighbourhood" used by C08 (d2): for a
// well-formed generated stream every CR and every LF that belongs to the message framing
// (Msg.EOLs, recorded by the builder) is deleted / replaced, and an independent strict
// recogniser decides whether the resulting stream has a framing error (so that it must be
// rejected) or is another well-formed / merely incomplete stream (so that it is not judged).

// ---------------------------------------------------------------------------------------------
// strict reference recogniser

// RefStatus is the verdict of StrictFraming on a byte stream.
type RefStatus int

const (
	// RefOK: the stream is a sequence of complete messages and nothing else.
	RefOK RefStatus = iota
	// RefIncomplete: the stream ends inside a message that is well-formed so far.
	RefIncomplete
	// RefFraming: a CR that is not followed by LF, an LF that is not preceded by CR, inside a
	// line of the message framing, or chunk data that is not followed by CR LF.
	RefFraming
	// RefOther: something else the recogniser does not accept (empty start line, bad
	// Content-Length / chunk size / Transfer-Encoding, header line without colon): never judged
	// by the CR/LF family.
	RefOther
)

func (s RefStatus) String() string {
	return [...]string{"well-formed", "incomplete", "framing-error", "other-error"}[s]
}

// Ref is the result of StrictFraming.
type Ref struct {
	Status   RefStatus
	Complete int    // messages complete before the stream ended / before the error
	Off      int    // offset of the offending byte (RefFraming, RefOther)
	Why      string // "bare-LF", "bare-CR", "chunk-data-not-followed-by-CR", ...
	Line     string // kind of line being read at the error: start-line, header-line, chunk-size-line, chunk-data-end, trailer-line
}

// StrictFraming walks a byte stream with the strict line discipline of RFC 7230: start line,
// header lines, chunk-size lines and trailer lines end with CR LF and contain neither CR nor LF
// anywhere else (no field of the grammar may: request-target, reason-phrase, field-value,
// chunk-ext / quoted-string all exclude CTLs; obs-fold is CR LF followed by SP/HT, i.e. an
// ordinary CR LF as far as the line discipline goes); chunk data of the announced size is
// followed by exactly CR LF. Body framing: "Transfer-Encoding: chunked" -> chunked, else
// "Content-Length: n" -> n bytes, else no body (the generator never emits responses that are
// delimited by connection close). It shares no code with nbhttp.
func StrictFraming(s []byte) Ref {
	pos, complete := 0, 0
	fail := func(st RefStatus, off int, why, line string) Ref {
		return Ref{Status: st, Complete: complete, Off: off, Why: why, Line: line}
	}
	// line reads one line starting at pos; ok=false means r holds the final verdict.
	line := func(kind string) (l []byte, r Ref, ok bool) {
		for i := pos; i < len(s); i++ {
			switch s[i] {
			case '\n':
				return nil, fail(RefFraming, i, "bare-LF", kind), false
			case '\r':
				if i+1 >= len(s) {
					return nil, fail(RefIncomplete, i, "", kind), false
				}
				if s[i+1] != '\n' {
					return nil, fail(RefFraming, i, "bare-CR", kind), false
				}
				l = s[pos:i]
				pos = i + 2
				return l, Ref{}, true
			}
		}
		return nil, fail(RefIncomplete, len(s), "", kind), false
	}
	for pos < len(s) {
		msgStart := pos
		l, r, ok := line("start-line")
		if !ok {
			return r
		}
		if len(l) == 0 {
			return fail(RefOther, msgStart, "empty-start-line", "start-line")
		}
		chunked, cl := false, -1
		for {
			at := pos
			l, r, ok = line("header-line")
			if !ok {
				return r
			}
			if len(l) == 0 {
				break
			}
			c := strings.IndexByte(string(l), ':')
			if c < 0 {
				return fail(RefOther, at, "header-line-without-colon", "header-line")
			}
			name := strings.ToLower(strings.Trim(string(l[:c]), " \t"))
			val := strings.Trim(string(l[c+1:]), " \t")
			switch name {
			case "transfer-encoding":
				if strings.ToLower(val) != "chunked" || chunked {
					return fail(RefOther, at, "transfer-encoding", "header-line")
				}
				chunked = true
			case "content-length":
				n, err := strconv.ParseUint(val, 10, 31)
				if err != nil || cl >= 0 {
					return fail(RefOther, at, "content-length", "header-line")
				}
				cl = int(n)
			}
		}
		switch {
		case chunked && cl >= 0:
			return fail(RefOther, pos, "content-length-with-chunked", "header-line")
		case chunked:
			for {
				at := pos
				l, r, ok = line("chunk-size-line")
				if !ok {
					return r
				}
				sz := string(l)
				if i := strings.IndexAny(sz, "; \t"); i >= 0 {
					sz = sz[:i]
				}
				n, err := strconv.ParseUint(sz, 16, 31)
				if err != nil {
					return fail(RefOther, at, "chunk-size", "chunk-size-line")
				}
				if n == 0 {
					break
				}
				if pos+int(n) > len(s) {
					return fail(RefIncomplete, len(s), "", "chunk-data")
				}
				pos += int(n)
				if pos >= len(s) {
					return fail(RefIncomplete, len(s), "", "chunk-data-end")
				}
				if s[pos] != '\r' {
					return fail(RefFraming, pos, "chunk-data-not-followed-by-CR", "chunk-data-end")
				}
				if pos+1 >= len(s) {
					return fail(RefIncomplete, len(s), "", "chunk-data-end")
				}
				if s[pos+1] != '\n' {
					return fail(RefFraming, pos, "bare-CR", "chunk-data-end")
				}
				pos += 2
			}
			for {
				l, r, ok = line("trailer-line")
				if !ok {
					return r
				}
				if len(l) == 0 {
					break
				}
			}
		case cl > 0:
			if pos+cl > len(s) {
				return fail(RefIncomplete, len(s), "", "body")
			}
			pos += cl
		}
		complete++
	}
	return Ref{Status: RefOK, Complete: complete}
}

// ---------------------------------------------------------------------------------------------
// the neighbourhood

// ByteName is the name of a byte in signatures.
func ByteName(b byte) string {
	switch b {
	case '\r':
		return "CR"
	case '\n':
		return "LF"
	case ' ':
		return "SP"
	case '\t':
		return "HT"
	case 0:
		return "NUL"
	}
	if b > 0x20 && b < 0x7f {
		return "'" + string(rune(b)) + "'"
	}
	return fmt.Sprintf("0x%02X", b)
}

// FramingNeighbour is one malformed-by-construction neighbour of a well-formed stream.
type FramingNeighbour struct {
	EOL EOL
	// Kind is the class used in signatures: "missing-CR", "missing-LF", "CR-replaced-by-LF",
	// "LF-replaced-by-CR", "CR-replaced-by-SP", "LF-replaced-by-SP", "CR-replaced-by-byte",
	// "LF-replaced-by-byte" (any other replacement byte), "CRLF-swapped", "missing-CRLF",
	// "CR-doubled", "LF-doubled".
	Kind string
	// Detail names the exact change, e.g. "CR-replaced-by-'X'".
	Detail string
	At     int    // offset of the changed byte in the base stream
	B      []byte // the neighbour (fresh slice)
}

// FramingNeighbours derives, for ONE framing CRLF of a base stream, every neighbour in which
// its CR or its LF is deleted, doubled, replaced by each byte of repl (a replacement equal to
// the original byte is skipped; CR is always also replaced by LF and LF by CR), or in which the
// two are swapped or both deleted.
func FramingNeighbours(base []byte, e EOL, repl []byte, f func(n *FramingNeighbour)) int {
	n := 0
	emit := func(kind, detail string, at int, b []byte) {
		f(&FramingNeighbour{EOL: e, Kind: kind, Detail: detail, At: at, B: b})
		n++
	}
	for _, which := range []struct {
		name  string
		at    int
		other byte
	}{{"CR", e.Off, '\n'}, {"LF", e.Off + 1, '\r'}} {
		at := which.at
		emit("missing-"+which.name, "missing-"+which.name, at, append(append([]byte(nil), base[:at]...), base[at+1:]...))
		seen := map[byte]bool{base[at]: true}
		for _, r := range append([]byte{which.other}, repl...) {
			if seen[r] {
				continue
			}
			seen[r] = true
			m := append([]byte(nil), base...)
			m[at] = r
			detail := which.name + "-replaced-by-" + ByteName(r)
			kind := detail
			if r != '\r' && r != '\n' && r != ' ' {
				kind = which.name + "-replaced-by-byte"
			}
			emit(kind, detail, at, m)
		}
		emit(which.name+"-doubled", which.name+"-doubled", at, append(append(append([]byte(nil), base[:at+1]...), base[at]), base[at+1:]...))
	}
	m := append([]byte(nil), base...)
	m[e.Off], m[e.Off+1] = '\n', '\r'
	emit("CRLF-swapped", "CRLF-swapped", e.Off, m)
	// both bytes gone: often another well-formed stream (two header lines merged, a longer
	// chunk size); the recogniser decides
	emit("missing-CRLF", "missing-CRLF", e.Off, append(append([]byte(nil), base[:e.Off]...), base[e.Off+2:]...))
	return n
}

package httpgen

import (
	"testing"

	"verif/track"
)

func benchCase(b *testing.B, mode Mode, pol track.Policy, lite bool) {
	ms := BaseRequests()
	m := ms[7]
	c := &Case{Stream: m.B, Mode: mode, ReadLimit: -1, Policy: pol, Cuts: []int{30, 70}, Lite: lite}
	b.ReportAllocs()
	for i := 0; i < b.N; i++ {
		Run(c, false)
	}
}
func BenchmarkRecPooledLite(b *testing.B)  { benchCase(b, Rec, track.Pooled, true) }
func BenchmarkRecExactLite(b *testing.B)   { benchCase(b, Rec, track.Exact, true) }
func BenchmarkRealPooledLite(b *testing.B) { benchCase(b, Real, track.Pooled, true) }

package httpgen

import (
	"bytes"
	"fmt"
	"strings"
)

// StateNames mirrors the iota block of nbhttp/state.go (pinned commit); used in descriptions only.
var StateNames = []string{"Close", "MethodBefore", "Method", "PathBefore", "Path", "ProtoBefore", "Proto", "ProtoLF",
	"ClientProtoBefore", "ClientProto", "StatusCodeBefore", "StatusCode", "StatusBefore", "Status", "StatusLF",
	"HeaderKeyBefore", "HeaderValueLF", "HeaderKey", "HeaderValueBefore", "HeaderValue", "BodyContentLength",
	"HeaderOverLF", "BodyChunkSizeBefore", "BodyChunkSize", "BodyChunkSizeLF", "BodyChunkData", "BodyChunkDataCR",
	"BodyChunkDataLF", "BodyTrailerHeaderValueLF", "BodyTrailerHeaderKeyBefore", "BodyTrailerHeaderKey",
	"BodyTrailerHeaderValueBefore", "BodyTrailerHeaderValue", "TailCR", "TailLF"}

// StateName renders a state enum value.
func StateName(s int) string {
	if s >= 0 && s < len(StateNames) {
		return StateNames[s]
	}
	return fmt.Sprint(s)
}

func evKind(line string) string {
	if i := strings.IndexByte(line, ' '); i >= 0 {
		return line[:i]
	}
	return line
}

// Diff compares the observable behaviour of a segmentation (got) with the reference feed (ref):
// the event log and the verdict class. It returns "" when they agree, else a signature that
// names the kind of divergence (first differing event kinds, verdict kinds) and a description.
func Diff(ref, got *Result) (sig, desc string) {
	if ref.Verdict == got.Verdict && bytes.Equal(ref.Log, got.Log) {
		return "", ""
	}
	a, b := ref.Events(), got.Events()
	i := 0
	for i < len(a) && i < len(b) && a[i] == b[i] {
		i++
	}
	ka, kb, ea, eb := "-", "-", "<end of log>", "<end of log>"
	if i < len(a) {
		ka, ea = evKind(a[i]), a[i]
	}
	if i < len(b) {
		kb, eb = evKind(b[i]), b[i]
	}
	if i == len(a) && i == len(b) {
		ka, kb = "=", "="
	}
	// the signature names what diverges, not the input: the kind of the first differing event,
	// how it differs, and whether the verdict class differs
	how, kind := "value-differs", ka
	switch {
	case ka == "=":
		how, kind = "none", "none"
	case ka == "-":
		how, kind = "extra-event", kb
	case kb == "-":
		how = "missing-event"
	case ka != kb:
		how = "other-event(" + kb + ")"
	}
	vd := "verdict-same"
	if ErrKind(ref.Verdict) != ErrKind(got.Verdict) {
		vd = "verdict-differs"
		if got.Verdict == "" {
			vd = "verdict-accepts-what-one-piece-rejects"
		} else if ref.Verdict == "" {
			vd = "verdict-rejects-what-one-piece-accepts"
		}
	} else if ref.Verdict != got.Verdict {
		vd = "verdict-text-differs"
	}
	sig = fmt.Sprintf("first-diff=%s:%s %s", kind, how, vd)
	var st []string
	for _, s := range got.CutStates {
		st = append(st, StateName(s))
	}
	desc = fmt.Sprintf("event #%d: reference %s, this segmentation %s; verdict reference %q, this segmentation %q; parser states after the first feeds: %s",
		i, ea, eb, ref.Verdict, got.Verdict, strings.Join(st, ","))
	return sig, desc
}

// PanicSig turns an error-level log line of a recover() block ("... failed: <value>\n<stack>")
// into a signature: the panic value with numbers normalised plus the first nbio frame below the
// panic() call.
func PanicSig(line string) string {
	head := line
	if i := strings.IndexByte(line, '\n'); i >= 0 {
		head = line[:i]
	}
	var nb strings.Builder
	prevDigit := false
	for i := 0; i < len(head); i++ {
		c := head[i]
		if c >= '0' && c <= '9' {
			if !prevDigit {
				nb.WriteByte('N')
			}
			prevDigit = true
			continue
		}
		prevDigit = false
		nb.WriteByte(c)
	}
	frame := ""
	lines := strings.Split(line, "\n")
	seenPanic := false
	for _, l := range lines {
		if strings.HasPrefix(l, "panic(") {
			seenPanic = true
			continue
		}
		if seenPanic && strings.Contains(l, "lesismal/nbio") && !strings.HasPrefix(l, "\t") {
			frame = l[strings.LastIndex(l, "/")+1:]
			if j := strings.IndexByte(frame, '('); j > 0 && !strings.HasPrefix(frame[j:], "(*") {
				frame = frame[:j]
			} else if j := strings.LastIndexByte(frame, '('); j > 0 {
				frame = frame[:j]
			}
			break
		}
	}
	return "panic: " + nb.String() + " @ " + frame
}

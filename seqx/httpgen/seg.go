package httpgen

import "sort"

// Segmentation enumerators. Every function calls f with a cut list that is only valid during
// the call (the slice is reused).

// SingleCuts enumerates every single cut position 1..n-1.
func SingleCuts(n int, f func(cuts []int)) {
	c := make([]int, 1)
	for a := 1; a < n; a++ {
		c[0] = a
		f(c)
	}
}

// DoubleCutsAll enumerates all C(n-1,2) double cuts.
func DoubleCutsAll(n int, f func(cuts []int)) {
	c := make([]int, 2)
	for a := 1; a < n; a++ {
		for b := a + 1; b < n; b++ {
			c[0], c[1] = a, b
			f(c)
		}
	}
}

// TripleCutsAll enumerates all C(n-1,3) triple cuts.
func TripleCutsAll(n int, f func(cuts []int)) {
	c := make([]int, 3)
	for a := 1; a < n; a++ {
		for b := a + 1; b < n; b++ {
			for d := b + 1; d < n; d++ {
				c[0], c[1], c[2] = a, b, d
				f(c)
			}
		}
	}
}

// StructuralCutSet is the set of "interesting" cut offsets of a long stream: every offset in
// the first 16 bytes of each element (token / line / chunk header, given by marks), +-2 around
// every element boundary and +-2 around both ends.
func StructuralCutSet(n int, marks []int) []int {
	set := map[int]bool{}
	add := func(x int) {
		if x >= 1 && x <= n-1 {
			set[x] = true
		}
	}
	for _, m := range marks {
		for d := -2; d <= 16; d++ {
			add(m + d)
		}
	}
	for d := 0; d <= 2; d++ {
		add(1 + d)
		add(n - 1 - d)
	}
	out := make([]int, 0, len(set))
	for x := range set {
		out = append(out, x)
	}
	sort.Ints(out)
	return out
}

// DoubleCutsFrom enumerates all pairs a<b drawn from set.
func DoubleCutsFrom(set []int, f func(cuts []int)) {
	c := make([]int, 2)
	for i := 0; i < len(set); i++ {
		for j := i + 1; j < len(set); j++ {
			c[0], c[1] = set[i], set[j]
			f(c)
		}
	}
}

// DoubleCuts enumerates all double cuts for streams up to limit bytes, structural ones beyond.
// It returns true when the enumeration was the complete C(n-1,2).
func DoubleCuts(n int, marks []int, limit int, f func(cuts []int)) bool {
	if n <= limit {
		DoubleCutsAll(n, f)
		return true
	}
	DoubleCutsFrom(StructuralCutSet(n, marks), f)
	return false
}

package httpgen

import "verif/track"

// lite is a cheap per-case allocator with the same isolation guarantees as verif/track (fresh
// per case, never recycles memory, same capacity policies, poisons freed memory) but without
// call-site attribution: track.site() walks the stack on every call, which costs ~80 us per case
// and would shrink the enumerable space 20x. The mass segmentations (double/triple cuts, mutant
// single cuts) use lite; one-piece, byte-at-a-time, fixed-size pieces and the grammar's single
// cuts use the real track allocator. Misuse seen by lite is only counted (C11 owns ownership).
type lite struct {
	policy    track.Policy
	move      bool             // an Append / Realloc that outgrows the capacity relocates (new handle, old one freed and poisoned), as mempool.NewAligned does
	state     map[*[]byte]bool // true: live, false: freed
	live      int
	misuse    int
	foreign   int
	keepAlive [][]byte
}

func newLite(p track.Policy) *lite { return &lite{policy: p, state: make(map[*[]byte]bool, 8)} }

func (t *lite) Malloc(size int) *[]byte {
	if size < 0 {
		size = 0
	}
	c := size
	if t.policy != track.Exact && c < 1024 {
		c = 1024
	}
	arr := make([]byte, c)
	if t.policy == track.Stale {
		for i := range arr {
			arr[i] = 0xA5
		}
	}
	arr = arr[:size]
	h := &arr
	t.state[h] = true
	t.live += size
	return h
}

func (t *lite) Free(h *[]byte) {
	if h == nil {
		return
	}
	live, ok := t.state[h]
	if !ok {
		t.foreign++
		return
	}
	if !live {
		t.misuse++
		return
	}
	t.state[h] = false
	full := (*h)[:cap(*h)]
	for i := range full {
		full[i] = 0xDD
	}
	t.live -= len(*h)
}

func (t *lite) Append(h *[]byte, more ...byte) *[]byte {
	if live, ok := t.state[h]; ok {
		if !live {
			t.misuse++
			cp := append(append([]byte(nil), (*h)...), more...)
			return &cp
		}
		t.live += len(more)
	}
	if t.move && len(*h)+len(more) > cap(*h) {
		return t.relocate(h, more, "")
	}
	*h = append(*h, more...)
	return h
}

// relocate moves the contents to a fresh buffer, as an allocator with size classes does when an
// append outgrows the class; the old handle is freed (and poisoned).
func (t *lite) relocate(h *[]byte, more []byte, mores string) *[]byte {
	old := len(*h)
	nh := t.Malloc(old + len(more) + len(mores))
	copy(*nh, *h)
	copy((*nh)[old:], more)
	copy((*nh)[old+len(more):], mores)
	if _, ok := t.state[h]; ok {
		t.live -= len(more) + len(mores) // Malloc counted the whole new length, Free gives back the old one
		t.Free(h)
	}
	return nh
}

func (t *lite) AppendString(h *[]byte, more string) *[]byte {
	if live, ok := t.state[h]; ok {
		if !live {
			t.misuse++
			cp := append(append([]byte(nil), (*h)...), more...)
			return &cp
		}
		t.live += len(more)
	}
	if t.move && len(*h)+len(more) > cap(*h) {
		return t.relocate(h, nil, more)
	}
	*h = append(*h, more...)
	return h
}

func (t *lite) Realloc(h *[]byte, size int) *[]byte {
	live, ok := t.state[h]
	if ok && !live {
		t.misuse++
		n := make([]byte, size)
		return &n
	}
	if size <= cap(*h) {
		if ok {
			t.live += size - len(*h)
		}
		*h = (*h)[:size]
		return h
	}
	nh := t.Malloc(size)
	copy(*nh, *h)
	if ok {
		t.Free(h)
	}
	return nh
}

func (t *lite) LiveBytes() int         { return t.live }
func (t *lite) Use(b []byte, _ string) {}

package track

import (
	"strings"
	"testing"
)

func TestBasics(t *testing.T) {
	tr := New(Pooled)
	a := tr.Malloc(10)
	if len(*a) != 10 || cap(*a) != 1024 {
		t.Fatalf("len/cap %d/%d", len(*a), cap(*a))
	}
	a = tr.Append(a, 1, 2, 3)
	view := *a
	tr.Free(a)
	tr.Free(a)
	tr.Use(view[:4], "obs")
	view[0] = 7
	_ = tr.Append(a, 9)
	vs := tr.Violations()
	kinds := map[string]bool{}
	for _, v := range vs {
		kinds[v.Kind] = true
		if !strings.Contains(v.Sig, v.Kind) {
			t.Errorf("sig %q", v.Sig)
		}
	}
	for _, k := range []string{"double-free", "read-after-free", "write-after-free", "append-after-free"} {
		if !kinds[k] {
			t.Errorf("missing %s in %v", k, vs)
		}
	}
}

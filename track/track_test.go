package track

import (
	"runtime"
	"runtime/debug"
	"strings"
	"testing"
)

func TestBasics(t *testing.T) {
	tr := New(Pooled)
	a := tr.Malloc(10)
	if len(*a) != 10 || cap(*a) != 1024 {
		t.Fatalf("len/cap %d/%d", len(*a), cap(*a))
	}
	a = tr.Append(a, 1, 2, 3)
	view := *a
	tr.Free(a)
	tr.Free(a)
	tr.Use(view[:4], "obs")
	view[0] = 7
	_ = tr.Append(a, 9)
	vs := tr.Violations()
	kinds := map[string]bool{}
	for _, v := range vs {
		kinds[v.Kind] = true
		if !strings.Contains(v.Sig, v.Kind) {
			t.Errorf("sig %q", v.Sig)
		}
	}
	for _, k := range []string{"double-free", "read-after-free", "write-after-free", "append-after-free"} {
		if !kinds[k] {
			t.Errorf("missing %s in %v", k, vs)
		}
	}
}

var sink byte

func TestGuard(t *testing.T) {
	tr := New(Pooled)
	if !tr.EnableGuard() {
		t.Skip("guard arena unavailable")
	}
	defer tr.Release()
	a := tr.Malloc(10)
	copy(*a, "0123456789")
	view := *a
	b := tr.Malloc(5000)
	(*b)[4999] = 1
	tr.Free(a)
	debug.SetPanicOnFault(true)
	defer debug.SetPanicOnFault(false)
	var addr uintptr
	func() {
		defer func() {
			if x := recover(); x != nil {
				if e, ok := x.(interface{ Addr() uintptr }); ok {
					addr = e.Addr()
				}
			}
		}()
		sink = view[3]
	}()
	if addr == 0 {
		t.Fatal("no fault on a read of a freed buffer")
	}
	if !tr.Fault(addr, "test") {
		t.Fatal("fault address not recognised")
	}
	vs := tr.Violations()
	if len(vs) != 1 || vs[0].Kind != "access-after-free" {
		t.Fatalf("%v", vs)
	}
	if (*b)[4999] != 1 {
		t.Fatal("live buffer damaged")
	}
	tr.Free(b)
	tr.Release()
	tr2 := New(Exact)
	if !tr2.EnableGuard() {
		t.Fatal("arena not released")
	}
	c := tr2.Malloc(3)
	if (*c)[0] != 0 {
		t.Fatal("not zero")
	}
	tr2.Release()
}

// The freeing site of a buffer that MoveOnGrow relocates is the caller of Append / AppendString
// (resolved lazily, one call deeper than the other sites).
func TestMoveSite(t *testing.T) {
	tr := New(Exact)
	tr.MoveOnGrow = true
	for _, str := range []bool{false, true} {
		a := tr.Malloc(4)
		var b *[]byte
		if str {
			b = tr.AppendString(a, "xy")
		} else {
			b = tr.Append(a, 1, 2)
		}
		if a == b || !tr.IsFreed(a) || len(*b) != 6 {
			t.Fatalf("not moved")
		}
		fr, _ := runtime.CallersFrames(tr.bufs[a].freePC[:1]).Next()
		if !strings.HasSuffix(fr.Function, "track.TestMoveSite") {
			t.Errorf("free site %q", fr.Function)
		}
		al, _ := runtime.CallersFrames(tr.bufs[a].allocPC[:1]).Next()
		if !strings.HasSuffix(al.Function, "track.TestMoveSite") {
			t.Errorf("alloc site %q", al.Function)
		}
	}
}

package track

// Guard mode: buffers are carved out of a page-granular arena that does not belong to the Go heap,
// and Free makes the pages of a buffer inaccessible (mprotect PROT_NONE) instead of poisoning
// them. Every later access by the code under test - a read that only steers a decision (the
// parser scanning a released cache for the next CRLF), a copy, a write - faults at the accessing
// instruction. With runtime/debug.SetPanicOnFault(true) on the executing goroutine the fault
// becomes a panic whose value has an Addr() method; nbio's entry points recover and log it, the
// harness' capturing logger passes the address to T.Fault, which maps it back to the buffer
// (allocation site, freeing site) and records an access-after-free violation. Poisoning needs an
// observation point or a copy that reaches one; guard mode needs neither.
//
// The arena is one per process and used by one tracker at a time (the sequential checks run one
// case after the other). A tracker releases its range when its case is over (T.Release): the whole
// range stays inaccessible, so a pointer kept in a recycled object and used by a later case
// faults too (reported as stale-access), until the arena wraps around after many thousand cases.

import (
	"fmt"
	"strings"
	"sync"
	"syscall"
	"unsafe"
)

const (
	pageSize  = 4096
	arenaSize = 256 << 20 // virtual; physical pages are given back at Release
)

type guardArena struct {
	mem   []byte
	off   int  // bump pointer
	inUse bool // a tracker is between EnableGuard and Release
	bad   bool // mmap failed: guard mode unavailable
}

var (
	arenaMu sync.Mutex
	arena   guardArena
)

// guardState is the per-tracker part of guard mode.
type guardState struct {
	on    bool
	start int // this tracker's range in the arena: [start, arena.off) while it is in use
	end   int
	done  bool
}

// EnableGuard switches the tracker to guard mode; call it before the first Malloc and call
// Release when the case is over. It returns false (and the tracker stays in poison mode) when the
// arena is unavailable or another tracker has not released it.
func (t *T) EnableGuard() bool {
	arenaMu.Lock()
	defer arenaMu.Unlock()
	if arena.bad || arena.inUse {
		return false
	}
	if arena.mem == nil {
		m, err := syscall.Mmap(-1, 0, arenaSize, syscall.PROT_READ|syscall.PROT_WRITE, syscall.MAP_PRIVATE|syscall.MAP_ANON)
		if err != nil {
			arena.bad = true
			return false
		}
		arena.mem = m
	}
	if arena.off > arenaSize/2 {
		// wrap around: everything becomes accessible (and zero: the pages were given back) again
		if syscall.Mprotect(arena.mem, syscall.PROT_READ|syscall.PROT_WRITE) != nil {
			arena.bad = true
			return false
		}
		_ = syscall.Madvise(arena.mem[:arena.off], syscall.MADV_DONTNEED)
		arena.off = 0
	}
	arena.inUse = true
	t.guard = guardState{on: true, start: arena.off}
	return true
}

// Guarded reports whether the tracker runs in guard mode.
func (t *T) Guarded() bool { return t.guard.on }

// guardAlloc returns c bytes of arena memory (nil when the arena is exhausted: the caller falls
// back to the heap for this buffer).
func (t *T) guardAlloc(c int) []byte {
	arenaMu.Lock()
	defer arenaMu.Unlock()
	n := (c + pageSize - 1) / pageSize * pageSize
	if n == 0 {
		n = pageSize
	}
	if arena.off+n > arenaSize {
		return nil
	}
	m := arena.mem[arena.off : arena.off+c : arena.off+c]
	arena.off += n
	return m
}

func inArena(a uintptr) (int, bool) {
	if arena.mem == nil {
		return 0, false
	}
	base := uintptr(unsafe.Pointer(unsafe.SliceData(arena.mem)))
	if a < base || a >= base+arenaSize {
		return 0, false
	}
	return int(a - base), true
}

// guardFree makes the pages of a freed arena buffer inaccessible; reports whether it did (false:
// a heap buffer, to be poisoned as usual).
func (t *T) guardFree(full []byte) bool {
	if cap(full) == 0 {
		return false
	}
	off, ok := inArena(uintptr(unsafe.Pointer(unsafe.SliceData(full))))
	if !ok {
		return false
	}
	n := (cap(full) + pageSize - 1) / pageSize * pageSize
	return syscall.Mprotect(arena.mem[off:off+n], syscall.PROT_NONE) == nil
}

// Release ends the tracker's use of the arena: its whole range becomes inaccessible and its
// physical pages are given back. The buffers of the tracker must not be touched afterwards (the
// case is over). No-op outside guard mode.
func (t *T) Release() {
	if !t.guard.on || t.guard.done {
		return
	}
	arenaMu.Lock()
	defer arenaMu.Unlock()
	t.guard.done = true
	t.guard.end = arena.off
	if t.guard.end > t.guard.start {
		r := arena.mem[t.guard.start:t.guard.end]
		_ = syscall.Mprotect(r, syscall.PROT_NONE)
		_ = syscall.Madvise(r, syscall.MADV_DONTNEED)
	}
	arena.inUse = false
}

// Fault records a memory fault at addr, observed at use (the function that touched the memory):
// inside a buffer this tracker handed out and got back it is an access after free; inside the
// range of an earlier, released tracker it is a stale access across cases. It reports whether
// addr lies in the arena at all (false: not ours - a nil dereference or the like).
func (t *T) Fault(addr uintptr, use string) bool {
	off, ok := inArena(addr)
	if !ok {
		return false
	}
	t.mu.Lock()
	defer t.mu.Unlock()
	base := uintptr(unsafe.Pointer(unsafe.SliceData(arena.mem)))
	for _, b := range t.freed {
		if !b.guarded {
			continue
		}
		b0 := uintptr(unsafe.Pointer(unsafe.SliceData(b.arr)))
		n := uintptr((cap(b.arr) + pageSize - 1) / pageSize * pageSize)
		if addr >= b0 && addr < b0+n {
			allocSite, freeSite := b.allocPC.String(), b.freePC.String()
			sig := "access-after-free alloc=" + topSite(allocSite) + " free=" + topSite(freeSite) + " use=" + use
			t.note("access-after-free", sig, fmt.Sprintf("access-after-free (memory fault, guard pages): byte %d of buffer #%d (size %d) allocated at [%s], freed at [%s], was read or written at [%s] after the buffer went back to the pool",
				addr-b0, b.id, b.size, allocSite, freeSite, use))
			return true
		}
	}
	kind := "stale-access"
	what := "memory handed out to an earlier case (a pointer survived in a recycled object)"
	if off >= t.guard.start && (!t.guard.done || off < t.guard.end) {
		what = "arena memory of this case that belongs to no freed buffer (padding of a page or a live buffer made inaccessible by Release)"
	}
	t.note(kind, kind+" use="+use, fmt.Sprintf("%s (memory fault, guard pages) at arena offset %d (address %#x), accessed at [%s]: %s", kind, off, base+uintptr(off), use, what))
	return true
}

func (t *T) note(kind, sig, desc string) {
	for _, v := range t.viol {
		if v.Sig == sig {
			return
		}
	}
	t.viol = append(t.viol, Violation{Kind: kind, Sig: sig, Desc: desc})
}

// FaultSite extracts from a stack dump taken in a deferred function after a memory fault
// (runtime.Stack / debug.Stack text) the function that touched the memory: the first frame below
// the panic that belongs to nbio or to the harness. Function name only, shortened like the
// allocation sites ("nbhttp.(*Parser).Parse").
func FaultSite(stack string) string {
	lines := strings.Split(stack, "\n")
	below := false
	for _, l := range lines {
		if l == "" || l[0] == '\t' || l[0] == ' ' {
			continue
		}
		if strings.HasPrefix(l, "panic(") {
			below = true
			continue
		}
		if !below {
			continue
		}
		// the code under test or the harness (an observation point reading what it was handed);
		// runtime and library routines doing a copy on behalf of their caller are skipped
		if !strings.Contains(l, "github.com/lesismal/nbio") && !strings.HasPrefix(l, "verif/") && !strings.HasPrefix(l, "main.") {
			continue
		}
		if strings.HasPrefix(l, "verif/track.") {
			continue
		}
		if i := strings.LastIndex(l, "("); i > 0 {
			l = l[:i]
		}
		return l[strings.LastIndex(l, "/")+1:]
	}
	return "?"
}

// FaultAddr returns the faulting address carried by a recovered panic value (the runtime's
// error for a memory fault under debug.SetPanicOnFault has an Addr method); ok is false for any
// other value.
func FaultAddr(x interface{}) (addr uintptr, ok bool) {
	if a, is := x.(interface{ Addr() uintptr }); is {
		return a.Addr(), true
	}
	return 0, false
}

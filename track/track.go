// Package track is an ownership-tracking, poisoning implementation of mempool.Allocator. It is
// installed through nbio's public allocator seams and never recycles memory, so every misuse of
// a pooled buffer (double free, use after free, write after free) is observable and
// attributable. One fresh instance per execution / case.
package track

import (
	"fmt"
	"runtime"
	"strings"
	"sync"
	"unsafe"
)

// Policy selects the capacity behaviour of Malloc.
type Policy int

const (
	// Exact: cap == size.
	Exact Policy = iota
	// Pooled: cap = max(size, 1024), like mempool.New(1024, ...) handing out a pooled buffer.
	Pooled
	// Stale: Pooled, and the memory beyond (and including) the requested size is pre-filled with
	// a sentinel, as a recycled buffer would carry stale bytes.
	Stale
)

func (p Policy) String() string { return [...]string{"exact", "pooled", "stale"}[p] }

const (
	poisonByte = 0xDD
	staleByte  = 0xA5
)

// PoisonByte is written over the whole capacity of a buffer when it is freed; StaleByte pre-fills
// a buffer handed out under the Stale policy. Exported for content oracles (see PoisonRead).
const (
	PoisonByte = poisonByte
	StaleByte  = staleByte
)

// Violation is one detected ownership error.
type Violation struct {
	Kind string // double-free | append-after-free | realloc-after-free | read-after-free | write-after-free
	Sig  string // kind + call sites (function names only)
	Desc string
}

// pcs is a raw call stack; it is resolved to function names only when a violation is reported.
type pcs [12]uintptr

type buf struct {
	h       *[]byte
	freed   bool
	arr     []byte // full-capacity view of the array at the time of free (kept alive)
	allocPC pcs
	freePC  pcs
	hasFree bool
	id      int
	size    int
	// position of the allocation / the free in the allocator's event order (PoisonRead attributes
	// copied-out poison to the buffer freed last before the holder was allocated)
	allocSeq int
	freeSeq  int
	guarded  bool // guard mode: the pages of the freed buffer are inaccessible (not poisoned)
}

// T is the tracking allocator.
type T struct {
	mu         sync.Mutex
	Policy     Policy
	MoveOnGrow bool // Append that has to grow returns a new handle and frees the old one
	bufs       map[*[]byte]*buf
	freed      []*buf
	viol       []Violation
	nextID     int
	seq        int
	guard      guardState

	Mallocs, Frees, Appends, Reallocs, ForeignFrees int
	liveBytes, PeakLive, MaxRequest                 int
}

// New creates a tracker.
func New(p Policy) *T {
	return &T{Policy: p, bufs: map[*[]byte]*buf{}}
}

func here() (p pcs) {
	runtime.Callers(3, p[:])
	return
}

// hereUp is here() for a helper one call below the allocator method.
func hereUp() (p pcs) {
	runtime.Callers(4, p[:])
	return
}

func (p pcs) String() string {
	n := 0
	for n < len(p) && p[n] != 0 {
		n++
	}
	if n == 0 {
		return ""
	}
	frames := runtime.CallersFrames(p[:n])
	var chain []string
	for {
		f, more := frames.Next()
		fn := f.Function
		if fn != "" && !strings.Contains(fn, "verif/track") && !strings.HasPrefix(fn, "runtime.") {
			if strings.Contains(fn, "github.com/lesismal/nbio") {
				short := fn[strings.LastIndex(fn, "/")+1:]
				if !strings.HasPrefix(short, "mempool.") {
					chain = append(chain, short)
					if len(chain) == 2 {
						break
					}
				}
			}
		}
		if !more {
			break
		}
	}
	if len(chain) == 0 {
		return "harness"
	}
	return strings.Join(chain, "<")
}

func topSite(s string) string {
	if i := strings.Index(s, "<"); i >= 0 {
		return s[:i]
	}
	return s
}

func (t *T) report(kind string, b *buf, usePC *pcs, extra string) {
	allocSite, freeSite, use := b.allocPC.String(), "", ""
	if b.hasFree {
		freeSite = b.freePC.String()
	}
	if usePC != nil {
		use = usePC.String()
	}
	sig := kind + " alloc=" + topSite(allocSite)
	if freeSite != "" {
		sig += " free=" + topSite(freeSite)
	}
	if use != "" {
		sig += " use=" + topSite(use)
	}
	for _, v := range t.viol {
		if v.Sig == sig {
			return
		}
	}
	t.viol = append(t.viol, Violation{Kind: kind, Sig: sig,
		Desc: fmt.Sprintf("%s of buffer #%d (size %d) allocated at [%s], freed at [%s], used at [%s]%s", kind, b.id, b.size, allocSite, freeSite, use, extra)})
}

// reportNamed is report with a use site given by name (observation points of the harness).
func (t *T) reportNamed(kind string, b *buf, use string) {
	allocSite, freeSite := b.allocPC.String(), b.freePC.String()
	sig := kind + " alloc=" + topSite(allocSite) + " free=" + topSite(freeSite) + " use=" + use
	for _, v := range t.viol {
		if v.Sig == sig {
			return
		}
	}
	t.viol = append(t.viol, Violation{Kind: kind, Sig: sig,
		Desc: fmt.Sprintf("%s of buffer #%d (size %d) allocated at [%s], freed at [%s], observed at [%s]", kind, b.id, b.size, allocSite, freeSite, use)})
}

func (t *T) capFor(size int) int {
	if t.Policy == Exact {
		return size
	}
	c := size
	if c < 1024 {
		c = 1024
	}
	return c
}

func (t *T) alloc(size int, where pcs) *[]byte {
	c := t.capFor(size)
	var arr []byte
	if t.guard.on && !t.guard.done {
		arr = t.guardAlloc(c) // fresh or given-back pages: zero
	}
	if arr == nil {
		arr = make([]byte, c)
	}
	if t.Policy == Stale {
		for i := range arr {
			arr[i] = staleByte
		}
	}
	arr = arr[:size]
	h := &arr
	t.nextID++
	t.seq++
	t.bufs[h] = &buf{h: h, allocPC: where, id: t.nextID, size: size, allocSeq: t.seq}
	t.liveBytes += size
	if t.liveBytes > t.PeakLive {
		t.PeakLive = t.liveBytes
	}
	if size > t.MaxRequest {
		t.MaxRequest = size
	}
	return h
}

// Malloc implements mempool.Allocator.
func (t *T) Malloc(size int) *[]byte {
	t.mu.Lock()
	defer t.mu.Unlock()
	t.Mallocs++
	if size < 0 {
		size = 0
	}
	return t.alloc(size, here())
}

func (t *T) free(b *buf, where pcs) {
	b.freed = true
	b.freePC = where
	b.hasFree = true
	full := (*b.h)[:cap(*b.h)]
	if t.guard.on && !t.guard.done && t.guardFree(full) {
		b.guarded = true
	} else {
		for i := range full {
			full[i] = poisonByte
		}
	}
	b.arr = full
	t.seq++
	b.freeSeq = t.seq
	t.liveBytes -= len(*b.h)
	t.freed = append(t.freed, b)
}

// Free implements mempool.Allocator.
func (t *T) Free(h *[]byte) {
	if h == nil {
		return
	}
	t.mu.Lock()
	defer t.mu.Unlock()
	b := t.bufs[h]
	if b == nil {
		t.ForeignFrees++
		return
	}
	where := here()
	if b.freed {
		t.report("double-free", b, &where, "")
		return
	}
	t.Frees++
	t.free(b, where)
}

func (t *T) grow(h *[]byte, b *buf, more int) *[]byte {
	// called with lock held; h live. The call site is only resolved when the buffer really moves
	// (walking the stack is the most expensive part of an Append).
	old := *h
	if cap(old)-len(old) >= more || !t.MoveOnGrow {
		return h
	}
	where := hereUp()
	nh := t.alloc(len(old)+more, b.allocPC)
	*nh = (*nh)[:len(old)]
	copy(*nh, old)
	t.liveBytes -= more // alloc counted len+more; the caller adds more again
	t.free(b, where)
	return nh
}

// detached returns a copy of the contents of a freed buffer for the caller to keep going with
// (zeros in guard mode: the freed pages cannot be read).
func (t *T) detached(b *buf, h *[]byte) []byte {
	if b.guarded {
		return make([]byte, len(*h))
	}
	return append([]byte(nil), (*h)...)
}

// Append implements mempool.Allocator.
func (t *T) Append(h *[]byte, more ...byte) *[]byte {
	t.mu.Lock()
	defer t.mu.Unlock()
	t.Appends++
	b := t.bufs[h]
	if b == nil {
		*h = append(*h, more...)
		return h
	}
	if b.freed {
		where := here()
		t.report("append-after-free", b, &where, "")
		// do not touch the poisoned array; give the caller a detached copy to keep going
		cp := append(t.detached(b, h), more...)
		return &cp
	}
	h = t.grow(h, b, len(more))
	*h = append(*h, more...)
	t.liveBytes += len(more)
	if t.liveBytes > t.PeakLive {
		t.PeakLive = t.liveBytes
	}
	return h
}

// AppendString implements mempool.Allocator.
func (t *T) AppendString(h *[]byte, more string) *[]byte {
	t.mu.Lock()
	defer t.mu.Unlock()
	t.Appends++
	b := t.bufs[h]
	if b == nil {
		*h = append(*h, more...)
		return h
	}
	if b.freed {
		where := here()
		t.report("append-after-free", b, &where, "")
		cp := append(t.detached(b, h), more...)
		return &cp
	}
	h = t.grow(h, b, len(more))
	*h = append(*h, more...)
	t.liveBytes += len(more)
	if t.liveBytes > t.PeakLive {
		t.PeakLive = t.liveBytes
	}
	return h
}

// Realloc implements mempool.Allocator.
func (t *T) Realloc(h *[]byte, size int) *[]byte {
	t.mu.Lock()
	defer t.mu.Unlock()
	t.Reallocs++
	b := t.bufs[h]
	if b == nil {
		if size <= cap(*h) {
			*h = (*h)[:size]
			return h
		}
		n := make([]byte, size)
		copy(n, *h)
		return &n
	}
	where := here()
	if b.freed {
		t.report("realloc-after-free", b, &where, "")
		n := make([]byte, size)
		return &n
	}
	if size <= cap(*h) {
		t.liveBytes += size - len(*h)
		*h = (*h)[:size]
		return h
	}
	nh := t.alloc(size, b.allocPC)
	copy(*nh, *h)
	t.free(b, where)
	return nh
}

func overlaps(a []byte, b []byte) bool {
	if len(a) == 0 || cap(b) == 0 {
		return false
	}
	a0 := uintptr(unsafe.Pointer(unsafe.SliceData(a)))
	a1 := a0 + uintptr(len(a))
	b0 := uintptr(unsafe.Pointer(unsafe.SliceData(b)))
	b1 := b0 + uintptr(cap(b))
	return a0 < b1 && b0 < a1
}

// Use is an observation point: data is about to be read by somebody who relies on it (a write
// to the wire, a user callback). A slice that overlaps a freed buffer is a read after free.
func (t *T) Use(data []byte, where string) {
	if len(data) == 0 {
		return
	}
	t.mu.Lock()
	defer t.mu.Unlock()
	for _, b := range t.freed {
		if overlaps(data, b.arr) {
			t.reportNamed("read-after-free", b, where)
		}
	}
}

// Overlaps reports whether the memory of a (its length) and of b (its whole capacity) intersect.
func Overlaps(a, b []byte) bool { return overlaps(a, b) }

// HasPoison reports the index of the first poison byte in data (-1: none).
func HasPoison(data []byte) int {
	for i, c := range data {
		if c == poisonByte {
			return i
		}
	}
	return -1
}

// PoisonRead is a content observation point: data - something the code under test reported (a
// callback argument, an error text) or retains (a carry-over buffer) - contains the poison
// pattern although the input it was derived from does not, i.e. it was read out of a buffer after
// that buffer went back to the pool, with no observation point between the Free and the read
// (free, then copy the tail out of the freed buffer). The caller has established that the poison
// cannot be legitimate (the poison byte does not occur in its input at that place). The
// allocator never recycles memory and writes the pattern only in Free, so the source is a freed
// buffer. When data lies in a live tracked buffer (the holder) the source is attributed to the
// buffer freed last before the holder was allocated and named in the signature; otherwise (a
// string the code under test built at some earlier point) the signature names only the
// observation point and the buffer freed last is given as a hint. It reports false, and records
// nothing, when no buffer had been poisoned before: the byte then has another origin.
func (t *T) PoisonRead(data []byte, where, detail string) bool {
	t.mu.Lock()
	defer t.mu.Unlock()
	var holder *buf
	if len(data) > 0 {
		for _, b := range t.bufs {
			if !b.freed && overlaps(data, *b.h) {
				if holder == nil || b.id < holder.id {
					holder = b
				}
			}
		}
	}
	before := t.seq + 1
	if holder != nil {
		before = holder.allocSeq
	}
	var src *buf
	for i := len(t.freed) - 1; i >= 0; i-- {
		if b := t.freed[i]; !b.guarded && b.freeSeq < before && (src == nil || b.freeSeq > src.freeSeq) {
			src = b
		}
	}
	if src == nil {
		return false // nothing was poisoned before: the byte has another origin
	}
	allocSite, freeSite := src.allocPC.String(), src.freePC.String()
	sig := "read-after-free use=" + where
	hint := "freed last before the observation"
	if holder != nil {
		// the holder was filled right after it was allocated: the buffer freed last before that is the
		// source (free, allocate the replacement, copy)
		sig = "read-after-free alloc=" + topSite(allocSite) + " free=" + topSite(freeSite) + " use=" + where
		hint = "freed last before the buffer holding the poison was allocated"
	}
	desc := fmt.Sprintf("read-after-free: poison bytes (0x%02X, written over a buffer when it is freed) in %s%s: the bytes were read out of a buffer after it went back to the pool; %s: buffer #%d (size %d) allocated at [%s], freed at [%s]",
		poisonByte, where, detail, hint, src.id, src.size, allocSite, freeSite)
	if holder != nil {
		desc += fmt.Sprintf("; the poisoned bytes sit in live buffer #%d (size %d) allocated at [%s]", holder.id, holder.size, holder.allocPC.String())
	}
	for _, v := range t.viol {
		if v.Sig == sig {
			return true
		}
	}
	t.viol = append(t.viol, Violation{Kind: "read-after-free", Sig: sig, Desc: desc})
	return true
}

// Note records a violation found by a content oracle of the harness under the allocator's
// bookkeeping (deduplicated by signature like the others).
func (t *T) Note(kind, sig, desc string) {
	t.mu.Lock()
	defer t.mu.Unlock()
	for _, v := range t.viol {
		if v.Sig == sig {
			return
		}
	}
	t.viol = append(t.viol, Violation{Kind: kind, Sig: sig, Desc: desc})
}

// InFreed reports whether data overlaps a buffer that was freed (an address comparison: data is
// not read). Harness code uses it before looking into memory the code under test still points to.
func (t *T) InFreed(data []byte) bool {
	if len(data) == 0 {
		return false
	}
	t.mu.Lock()
	defer t.mu.Unlock()
	for _, b := range t.freed {
		if overlaps(data, b.arr) {
			return true
		}
	}
	return false
}

// Sweep verifies that no freed buffer was written to after it was freed.
func (t *T) Sweep() {
	t.mu.Lock()
	defer t.mu.Unlock()
	for _, b := range t.freed {
		if b.guarded {
			continue // inaccessible: a write faults where it happens (Fault)
		}
		for i, c := range b.arr {
			if c != poisonByte {
				t.report("write-after-free", b, nil, fmt.Sprintf(" (byte %d of the freed array changed to 0x%02x)", i, c))
				break
			}
		}
	}
}

// Violations runs Sweep and returns everything found so far.
func (t *T) Violations() []Violation {
	t.Sweep()
	t.mu.Lock()
	defer t.mu.Unlock()
	return append([]Violation(nil), t.viol...)
}

// Found returns what has been found so far without sweeping the freed buffers.
func (t *T) Found() []Violation {
	t.mu.Lock()
	defer t.mu.Unlock()
	return append([]Violation(nil), t.viol...)
}

// LiveBytes is the sum of the lengths of the live buffers.
func (t *T) LiveBytes() int {
	t.mu.Lock()
	defer t.mu.Unlock()
	return t.liveBytes
}

// LiveCount is the number of live (not yet freed) buffers.
func (t *T) LiveCount() int {
	t.mu.Lock()
	defer t.mu.Unlock()
	n := 0
	for _, b := range t.bufs {
		if !b.freed {
			n++
		}
	}
	return n
}

// LiveSites lists the allocation sites of live buffers (leak diagnostics; leaks are not C11
// violations, the pools are garbage collected).
func (t *T) LiveSites() []string {
	t.mu.Lock()
	defer t.mu.Unlock()
	var out []string
	for _, b := range t.bufs {
		if !b.freed {
			out = append(out, b.allocPC.String())
		}
	}
	return out
}

// IsFreed reports whether h is a handle this allocator handed out and got back (false for live
// handles and for memory it never handed out).
func (t *T) IsFreed(h *[]byte) bool {
	t.mu.Lock()
	defer t.mu.Unlock()
	b := t.bufs[h]
	return b != nil && b.freed
}

// IsLive reports whether h is a live tracked handle.
func (t *T) IsLive(h *[]byte) bool {
	t.mu.Lock()
	defer t.mu.Unlock()
	b := t.bufs[h]
	return b != nil && !b.freed
}

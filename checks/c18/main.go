// C18: Stop / Shutdown always terminate and reclaim connections, goroutines and descriptors.
//
// Scheduled exploration (vsched) of the real nbio.Engine and nbhttp.Engine on the simulated kernel
// (vsys) with virtual time (vtime). One scenario = engine configuration x history of connection
// activity that is settled before Stop x one activity racing with Stop x the stopping call
// (Stop, Shutdown(context.Background()), Shutdown(live cancel context)). Every interleaving within
// the preemption bound is executed.
//
// Oracle (per execution):
//   - the stopping call returns (otherwise: which thread is blocked where, wait-group counters);
//   - core engine, at the instant the call returns: every connection that got an open
//     notification (OnOpen, or a dial callback reporting success) has got its close notification;
//   - at quiescence afterwards (every latch the harness holds is released, the system ran idle):
//     no thread other than the harness's own is left, no simulated descriptor is open except the
//     sockets the fake listener never handed out, no virtual timer is armed, every fake listener
//     saw Close, every connection handed to the engine is closed, and no system call was issued on
//     a closed descriptor number.
//
// Deviations from DESIGN §4 C18 (spirit kept):
//   - the fake listener refuses to hand out a connection once Close was called (Accept then returns
//     net.ErrClosed even if a connection is queued), so every connection it did hand out was
//     accepted before listener.Close() and is inside the obligation; what stays in its queue is the
//     harness's own and excluded from the descriptor check;
//   - nbhttp.Engine.Shutdown polls with a 200 ms ticker: the harness fires the ticker from its main
//     thread whenever the system is idle (AutoTimers would offer the tick at every switch and only
//     multiply equivalent interleavings). A connection deadline (keep-alive 120 s, read deadline)
//     is never fired by the harness unless the scenario's racer is "fire": a Stop that can only
//     finish because a deadline expires is reported as a hang (with the armed timers listed);
//   - "a callback still running": the data callback / HTTP handler parks on a harness latch; the
//     latch is released when the whole system is idle (so the callback runs through all of Stop),
//     or by a racing thread (racer "blocked-race", thorough tier);
//   - user calls racing with Stop (AddConn, DialAsync, Write) are explored as their own scenario
//     families ("addconn-racing-stop", ...): the statement lists dials and transferred connections
//     "racing with it";
//   - the overlay turns nbio's unsynchronised shutdown flags and descriptor table into scheduling
//     points and happens-before objects (vsched.Touch in cmd/ovgen; Conn.closed is deliberately not
//     one of them). The fake listener additionally records its Accept-entry / Close-entry steps
//     before its own scheduling point, so that they lie in the same scheduling segment as the
//     caller's flag access. As a cross-check of the happens-before cache every single-event core
//     family is also run with the cache off (scenario names "core/nocache ...", "http/nocache ...");
//     cached and uncached explorations report the same signature sets (notes/mutations_C18.md).
package main

import (
	"context"
	"fmt"
	"io"
	"net"
	"net/http"
	"sort"
	"strconv"
	"strings"
	"time"

	"github.com/lesismal/nbio"
	"github.com/lesismal/nbio/mempool"
	"github.com/lesismal/nbio/nbhttp"

	"verif/ekit"
	"verif/track"
	"verif/vkit"
	"verif/vsched"
	"verif/vshim/vsys"
	"verif/vshim/vtime"
)

// ---------------------------------------------------------------------------------------------
// harness objects shared between threads: every access that can influence behaviour is a recorded
// step on a vsched.Obj, otherwise the happens-before cache would merge different states.

var (
	kTick  = vsched.HashString("c18.tick")
	kLn    = vsched.HashString("c18.listener")
	kLatch = vsched.HashString("c18.latch")
)

type fakeListener struct {
	o      vsched.Obj
	id     int
	q      []*nbio.Conn
	closed bool
	closes int
	handed []*nbio.Conn
}

// Accept blocks (as a disabled thread) until a connection is queued or the listener is closed.
// The entry step is recorded before the blocking point so that it lies in the same scheduling
// segment as the caller's unsynchronised read of its shutdown flag (see Close).
func (l *fakeListener) Accept() (net.Conn, error) {
	vsched.Record(&l.o, kLn, true, 1)
	vsched.Block("accept", func() bool { return len(l.q) > 0 || l.closed })
	if l.closed {
		vsched.Record(&l.o, kLn, true, 2)
		return nil, net.ErrClosed
	}
	c := l.q[0]
	l.q = l.q[1:]
	l.handed = append(l.handed, c)
	vsched.Record(&l.o, kLn, true, 3+uint64(c.VerifFD())<<8)
	return c, nil
}

func (l *fakeListener) Close() error {
	// recorded before the point: same segment as the caller's unsynchronised "shutdown = true"
	vsched.Record(&l.o, kLn, true, 4)
	vsched.Point()
	l.closed = true
	l.closes++
	vsched.Record(&l.o, kLn, true, 5)
	return nil
}

func (l *fakeListener) Addr() net.Addr {
	return &net.TCPAddr{IP: net.IPv4(127, 0, 0, 1), Port: 80 + l.id}
}

// push queues a connection (the network delivering a SYN+ACK); a scheduling point.
func (l *fakeListener) push(c *nbio.Conn) {
	vsched.Point()
	l.q = append(l.q, c)
	vsched.Record(&l.o, kLn, true, 6+uint64(c.VerifFD())<<8)
}

type latch struct {
	o       vsched.Obj
	open    bool
	waiting int
	passed  int
}

func (l *latch) wait() {
	l.waiting++
	vsched.Record(&l.o, kLatch, true, 1)
	vsched.Block("h.latch", func() bool { return l.open })
	l.waiting--
	l.passed++
	vsched.Record(&l.o, kLatch, true, 2)
}

func (l *latch) release() {
	vsched.Point()
	l.open = true
	vsched.Record(&l.o, kLatch, true, 3)
}

type connInfo struct {
	c       *nbio.Conn
	fd      int
	peer    *vsys.Peer
	origin  string
	opens   int
	closes  int
	dialN   int
	dialOK  bool
	httpOn  int
	httpOff int
	// the history ended this connection before Stop
	goneBeforeStop bool
}

type verdict struct {
	family       string
	http         bool
	complete     bool
	stopStarted  bool
	stopReturned bool
	onStopCalled bool
	fails        []string
	stopPanicked string
	badfd        string
	info         string
	counters     map[string]int
	outcome      string
}

var lastV *verdict

type world struct {
	o     vsched.Obj
	seq   int
	v     *verdict
	conns []*connInfo
	by    map[*nbio.Conn]*connInfo
	lt    *latch
	// the next data callback / handler parks on the latch
	blockNext bool
	dataCalls int
	stopErr   error
	// connections that had an open but no close notification when the stopping call returned
	missingAtReturn []string
	// descriptors the harness kept for itself
	ownFD map[int]bool
	// connections reported open / close notifications they got, at the instant of return
	opensAtReturn, closesAtReturn int
}

func newWorld(family string, isHTTP bool) *world {
	v := &verdict{family: family, http: isHTTP, counters: map[string]int{}}
	lastV = v
	return &world{v: v, by: map[*nbio.Conn]*connInfo{}, lt: &latch{}, ownFD: map[int]bool{}}
}

func (w *world) tick(kind uint64) {
	w.seq++
	vsched.Record(&w.o, kTick, true, uint64(w.seq)<<8|kind)
}

func (w *world) fail(format string, a ...interface{}) {
	w.v.fails = append(w.v.fails, fmt.Sprintf(format, a...))
}

func (w *world) info(c *nbio.Conn, origin string) *connInfo {
	ci := w.by[c]
	if ci == nil {
		ci = &connInfo{c: c, fd: c.VerifFD(), origin: origin}
		w.by[c] = ci
		w.conns = append(w.conns, ci)
	}
	return ci
}

func (w *world) newStream(origin string, sndCap int) *connInfo {
	c, peer := ekit.Stream(false, sndCap, 256)
	ci := w.info(c, origin)
	ci.peer = peer
	return ci
}

// userThread runs a user-level call racing with Stop on its own thread; a panic that escapes the
// call is a failure of its own (vkit would only report the coarse signature "panic").
func (w *world) userThread(name, what string, fn func()) {
	vsched.GoNamed(name, func() {
		defer func() {
			if vsched.Aborting() {
				return
			}
			if r := recover(); r != nil {
				w.fail("user-call-panicked %s|%s panicked: %v", w.v.family, what, r)
				w.tick(40)
			}
		}()
		fn()
	})
}

// stopPanic is deferred on the stopping thread: a panic escaping Stop / Shutdown is a failure of
// its own (e.g. "sync: negative WaitGroup counter" after a connection was torn down twice).
func (w *world) stopPanic() {
	if vsched.Aborting() {
		return
	}
	if r := recover(); r != nil {
		w.v.stopPanicked = fmt.Sprint(r)
		w.fail("stop-panicked %s|the stopping call panicked: %v", w.v.family, r)
		w.tick(42)
	}
}

// afterReturn tells a user-level racer that the stopping call has already returned: a call that
// only starts then is not "racing with Stop" (using a stopped engine is the caller's error) and
// is skipped. The read is a recorded step; no scheduling point lies between it and the call.
func (w *world) afterReturn() bool {
	w.tick(41)
	if w.v.stopReturned {
		w.v.counters["user_call_skipped_after_return"]++
		return true
	}
	return false
}

// maybePark parks the calling callback on the latch if the scenario asked for it.
func (w *world) maybePark() {
	if w.blockNext {
		w.blockNext = false
		w.tick(20)
		w.lt.wait()
	}
}

// snapshotAtReturn runs on the stopping thread immediately after the call returned (no
// scheduling point in between).
func (w *world) snapshotAtReturn() {
	w.v.stopReturned = true
	for _, ci := range w.conns {
		if (ci.opens > 0 || ci.dialOK) && ci.closes == 0 {
			w.missingAtReturn = append(w.missingAtReturn, fmt.Sprintf("%s fd=%d", ci.origin, ci.fd))
		}
		if ci.opens > 0 || ci.dialOK {
			w.opensAtReturn++
			w.closesAtReturn += ci.closes
		}
	}
	w.tick(31)
}

func fdOf(s string) int {
	n, _ := strconv.Atoi(s[:strings.IndexByte(s, ':')])
	return n
}

var lineSuffix = func(s string) string {
	if i := strings.LastIndexByte(s, ':'); i >= 0 {
		if _, err := strconv.Atoi(s[i+1:]); err == nil {
			return s[:i]
		}
	}
	return s
}

// badFDSig turns one entry of vsys.BadFDCalls ("write(fd=65) by name:line") into a signature part.
func badFDSig(entry string, epfds, evtfds []int) string {
	call := entry
	if i := strings.IndexByte(entry, '('); i >= 0 {
		call = entry[:i]
	}
	fd := -1
	if i := strings.Index(entry, "fd="); i >= 0 {
		j := i + 3
		for j < len(entry) && entry[j] >= '0' && entry[j] <= '9' {
			j++
		}
		fd, _ = strconv.Atoi(entry[i+3 : j])
	}
	kind := "socket"
	for _, e := range epfds {
		if e == fd {
			kind = "epollfd"
		}
	}
	for _, e := range evtfds {
		if e == fd {
			kind = "eventfd"
		}
	}
	by := ""
	if i := strings.Index(entry, " by "); i >= 0 {
		by = lineSuffix(entry[i+4:])
	}
	switch {
	case by == "h.stopper" || strings.Contains(by, "Shutdown"):
		by = "stopping-thread"
	case strings.HasPrefix(by, "h."):
		by = "user-thread"
	default:
		by = "engine-thread"
	}
	return fmt.Sprintf("%s %s by %s", call, kind, by)
}

// quiescenceOracle is shared by the core and the HTTP bodies. owned: descriptors the harness still
// owns (connections never handed out by a listener).
func (w *world) quiescenceOracle(lns []*fakeListener, epfds, evtfds []int, extraOwned map[int]bool) {
	v := w.v
	fam := v.family
	if !v.stopReturned {
		return // reported by check() with the blocked threads
	}
	if len(w.missingAtReturn) > 0 && !v.http {
		w.fail("close-notification-missing-at-return %s|the stopping call returned while %d connection(s) that had been reported open had no close notification yet: %v",
			fam, len(w.missingAtReturn), w.missingAtReturn)
	}
	if w.closesAtReturn != w.opensAtReturn && len(w.missingAtReturn) == 0 && !v.http {
		w.fail("close-notification-count-at-return %s|when the stopping call returned %d connections had been reported open and they had got %d close notifications", fam, w.opensAtReturn, w.closesAtReturn)
	}
	if w.stopErr != nil {
		w.fail("shutdown-error %s|Shutdown with a live context returned %v", fam, w.stopErr)
	}
	owned := map[int]bool{}
	for k := range extraOwned {
		owned[k] = true
	}
	for k := range w.ownFD {
		owned[k] = true
	}
	for _, l := range lns {
		for _, c := range l.q {
			owned[c.VerifFD()] = true
		}
		if l.closes == 0 {
			w.fail("listener-not-closed %s|listener %d never saw Close", fam, l.id)
		}
	}
	// every connection handed to the engine is closed, and was notified
	for _, ci := range w.conns {
		if owned[ci.fd] {
			continue
		}
		if (ci.opens > 0 || ci.dialOK) && ci.closes == 0 && !v.http {
			w.fail("close-notification-missing %s origin=%s|at quiescence after the stopping call returned, the %s connection fd=%d was reported open but never reported closed", fam, ci.origin, ci.origin, ci.fd)
		}
	}
	var leaks []string
	kinds := map[string]bool{}
	for _, s := range vsys.OpenFDs() {
		fd := fdOf(s)
		if owned[fd] {
			continue
		}
		what := s
		kind := s[strings.IndexByte(s, ':')+1:]
		for _, e := range epfds {
			if e == fd && kind == "epoll" {
				what += "(poller epoll fd)"
			}
		}
		for _, e := range evtfds {
			if e == fd && kind == "eventfd" {
				what += "(poller eventfd)"
			}
		}
		for _, ci := range w.conns {
			// descriptor numbers are reused: only a connection that nbio has not closed owns fd
			if cl, _ := ci.c.IsClosed(); ci.fd == fd && !cl && (kind == "sock" || kind == "dgram") {
				what += fmt.Sprintf("(%s connection, opens=%d closes=%d)", ci.origin, ci.opens, ci.closes)
				kind = "sock " + ci.origin
			}
		}
		kinds[kind] = true
		leaks = append(leaks, what)
	}
	if len(leaks) > 0 {
		var ks []string
		for k := range kinds {
			ks = append(ks, k)
		}
		sort.Strings(ks)
		w.fail("fd-leak %s %s|at quiescence after the stopping call returned these descriptors are still open: %v", strings.Join(ks, "+"), fam, leaks)
	}
	if n := vtime.Armed(); n > 0 {
		w.fail("timer-left %s|%d virtual timer(s) still armed at quiescence after the stopping call returned: %v", fam, n, vtime.ArmedNames())
	}
	if bad := vsys.BadFDCalls(); len(bad) > 0 {
		v.counters["closed_fd_syscalls"] += len(bad)
		sigs := map[string]bool{}
		for _, b := range bad {
			sigs[badFDSig(b, epfds, evtfds)] = true
		}
		var ss []string
		for s := range sigs {
			ss = append(ss, s)
		}
		// one component names the signature (combinations would multiply the signatures): any
		// other kind goes before the ubiquitous eventfd write of the stopping thread
		sort.Slice(ss, func(i, j int) bool {
			ei, ej := ss[i] == evtfdSig, ss[j] == evtfdSig
			if ei != ej {
				return ej
			}
			return ss[i] < ss[j]
		})
		// judged last (see check): it must not hide another failure of the same execution
		v.badfd = fmt.Sprintf("closed-fd-syscall %s|system call(s) on a closed descriptor number (fd-reuse hazard): %v", ss[0], bad)
	}
	for _, e := range vkit.Log.TakeErrors() {
		if strings.Contains(e, "call failed") || strings.Contains(e, "execute failed") || strings.Contains(e, "execute ParserCloser failed") {
			w.fail("recovered-panic %s|nbio recovered a panic: %s", fam, firstLine(e))
		}
	}
}

const evtfdSig = "write eventfd by stopping-thread"

func firstLine(s string) string {
	if i := strings.IndexByte(s, '\n'); i >= 0 {
		return s[:i]
	}
	return s
}

// ---------------------------------------------------------------------------------------------
// core engine

type ccfg struct {
	mode  ekit.Mode
	np    int
	nl    int
	read  string // sync | pool | go | inline
	hist  []string
	racer string
	stop  string // stop | shutdown-bg | shutdown-ctx
	p     int
	noc   bool
}

func (c ccfg) name() string {
	eng := "core"
	if c.noc {
		eng = "core/nocache" // (not a suffix: -only with a cached scenario's name must not select this one too)
	}
	return fmt.Sprintf("%s %s np=%d nl=%d read=%s hist=%s racer=%s %s P=%d", eng, c.mode, c.np, c.nl, c.read, strings.Join(c.hist, "+"), c.racer, c.stop, c.p)
}

var families = map[string]string{
	"none": "quiet", "accept": "accept-racing-stop", "close": "close-racing-stop", "fin": "fin-racing-stop",
	"data": "data-racing-stop", "blocked": "callback-running", "blocked-race": "callback-running",
	"resolve": "dial-resolving", "refuse": "dial-resolving", "fire": "timer-firing",
	"addconn": "addconn-racing-stop", "dial": "dial-racing-stop", "write": "write-racing-stop", "sendfile": "sendfile-racing-stop",
	"udpdata": "udp-datagram-racing-stop", "request": "request-racing-stop",
}

func coreBody(c ccfg) func() {
	return func() {
		vsys.Configure(false, false)
		_ = vkit.Log.TakeErrors()
		w := newWorld(families[c.racer], false)
		v := w.v
		defer func() { v.complete = true }()
		tr := track.New(track.Exact)
		conf := nbio.Config{Name: "c18", NPoller: c.np, ReadBufferSize: 8, BodyAllocator: tr}
		c.mode.Apply(&conf)
		switch c.read {
		case "pool":
			conf.AsyncReadInPoller = true
		case "go":
			conf.AsyncReadInPoller = true
			conf.IOExecute = func(f func(*[]byte)) {
				vsched.GoNamed("x.iotask", func() { buf := make([]byte, 8); f(&buf) })
			}
		case "inline":
			conf.AsyncReadInPoller = true
			conf.IOExecute = func(f func(*[]byte)) { buf := make([]byte, 8); f(&buf) }
		}
		var lns []*fakeListener
		if c.nl > 0 {
			conf.Network = "tcp"
			for i := 0; i < c.nl; i++ {
				lns = append(lns, &fakeListener{id: i})
				conf.Addrs = append(conf.Addrs, fmt.Sprintf("127.0.0.1:%d", 80+i))
			}
			nlisten := 0
			conf.Listen = func(network, addr string) (net.Listener, error) {
				l := lns[nlisten%len(lns)]
				nlisten++
				return l, nil
			}
		}
		g := nbio.NewEngine(conf)
		g.OnOpen(func(cc *nbio.Conn) {
			ci := w.info(cc, "udp-session")
			ci.opens++
			w.tick(1)
			vsched.Point()
		})
		g.OnClose(func(cc *nbio.Conn, err error) {
			// a point before the notification is counted: "the callback has been invoked but has
			// not done anything yet" must be separable from whatever released Stop
			vsched.Point()
			ci := w.info(cc, "unknown")
			ci.closes++
			if ci.closes > 1 {
				w.fail("close-notification-duplicated %s|the %s connection fd=%d got its close notification %d times (each one releases the open-connection wait group)", v.family, ci.origin, ci.fd, ci.closes)
			}
			w.tick(2)
		})
		g.OnData(func(cc *nbio.Conn, data []byte) {
			w.dataCalls++
			w.tick(3)
			w.maybePark()
			vsched.Point()
		})
		g.OnStop(func() { v.onStopCalled = true; w.tick(4) })
		if err := g.Start(); err != nil {
			w.fail("harness|engine start: %v", err)
			return
		}
		epfds, evtfds := g.VerifPollerFDs()
		dialCB := func(cc *nbio.Conn, err error) {
			ci := w.info(cc, "dial")
			ci.dialN++
			if err == nil {
				ci.dialOK = true
			}
			w.tick(5)
		}

		// ---- history (each event settles before the next one)
		var target *connInfo // first stream connection of the history
		var udpPeer *vsys.UDPPeer
		nacc := 0
		setTarget := func(ci *connInfo) {
			if target == nil {
				target = ci
			}
		}
		for _, ev := range c.hist {
			switch ev {
			case "accept":
				ci := w.newStream("accept", 64)
				lns[nacc%len(lns)].push(ci.c)
				nacc++
				setTarget(ci)
			case "add":
				ci := w.newStream("add", 64)
				if _, err := g.AddConn(ci.c); err != nil {
					w.fail("harness|AddConn: %v", err)
					return
				}
				setTarget(ci)
			case "backlog":
				ci := w.newStream("add", 3)
				if _, err := g.AddConn(ci.c); err != nil {
					w.fail("harness|AddConn: %v", err)
					return
				}
				if n, err := ci.c.Write(make([]byte, 5)); n != 5 || err != nil {
					w.fail("harness|Write = %d, %v", n, err)
					return
				}
				setTarget(ci)
			case "sendfile":
				// a file range queued behind a backlog: nbio dups the file descriptor and owes its close
				ci := w.newStream("add", 3)
				if _, err := g.AddConn(ci.c); err != nil {
					w.fail("harness|AddConn: %v", err)
					return
				}
				if n, err := ci.c.Write(make([]byte, 5)); n != 5 || err != nil {
					w.fail("harness|Write = %d, %v", n, err)
					return
				}
				if n, err := ci.c.Sendfile(ekit.OpenDataFile(3, 8, 0), 0); n != 8 || err != nil {
					w.fail("harness|Sendfile = %d, %v", n, err)
					return
				}
				dups := 0
				for _, s := range vsys.OpenFDs() {
					if strings.HasSuffix(s, ":realdup") {
						dups++
					}
				}
				if dups != 1 {
					w.fail("harness|history: expected one dup'ed file descriptor, have %v", vsys.OpenFDs())
					return
				}
				v.counters["dup_fd_at_stop"]++
				setTarget(ci)
			case "sendfile-only", "sendfile-drained", "small":
				// "sendfile-only": Sendfile to a peer that does not read: the kernel takes what fits,
				// the rest of the file is queued as a dup'ed descriptor; the write queue holds NO
				// buffered bytes (c.left == 0). "sendfile-drained": the same after a buffer backlog
				// was flushed completely. "small": just the small-capacity connection (for the
				// Sendfile racing with Stop).
				ci := w.newStream("add", 3)
				if _, err := g.AddConn(ci.c); err != nil {
					w.fail("harness|AddConn: %v", err)
					return
				}
				setTarget(ci)
				if ev == "small" {
					break
				}
				if ev == "sendfile-drained" {
					if n, err := ci.c.Write(make([]byte, 5)); n != 5 || err != nil {
						w.fail("harness|Write = %d, %v", n, err)
						return
					}
					vsched.WaitIdle()
					ci.peer.Read(0)
					vsched.WaitIdle()
					if sn := ci.c.VerifSnapshot(); sn.QueueLen != 0 || sn.Left != 0 {
						w.fail("harness|history: the buffer backlog was not flushed (queue %v, left %d)", sn.Queue, sn.Left)
						return
					}
				}
				if n, err := ci.c.Sendfile(ekit.OpenDataFile(3, 8, 0), 0); n != 8 || err != nil {
					w.fail("harness|Sendfile = %d, %v", n, err)
					return
				}
				sn := ci.c.VerifSnapshot()
				if sn.Left != 0 || len(sn.Queue) != 1 || sn.Queue[0] != -1 || countDups() != 1 {
					w.fail("harness|history: expected a file-only write queue and one dup'ed descriptor: queue %v, left %d, fds %v", sn.Queue, sn.Left, vsys.OpenFDs())
					return
				}
				v.counters["file_only_backlog_at_stop"]++
			case "backlog-rst":
				// a connection with a write backlog whose peer resets it: the poller's flush hits the
				// hard error and tears the connection down before Stop
				ci := w.newStream("add", 3)
				if _, err := g.AddConn(ci.c); err != nil {
					w.fail("harness|AddConn: %v", err)
					return
				}
				if n, err := ci.c.Write(make([]byte, 5)); n != 5 || err != nil {
					w.fail("harness|Write = %d, %v", n, err)
					return
				}
				ci.peer.Reset()
				ci.goneBeforeStop = true
			case "fin-closed":
				ci := w.newStream("add", 64)
				if _, err := g.AddConn(ci.c); err != nil {
					w.fail("harness|AddConn: %v", err)
					return
				}
				ci.peer.CloseWrite()
				ci.goneBeforeStop = true
			case "user-closed":
				ci := w.newStream("add", 64)
				if _, err := g.AddConn(ci.c); err != nil {
					w.fail("harness|AddConn: %v", err)
					return
				}
				_ = ci.c.Close()
				ci.goneBeforeStop = true
			case "deadline":
				ci := w.newStream("add", 64)
				if _, err := g.AddConn(ci.c); err != nil {
					w.fail("harness|AddConn: %v", err)
					return
				}
				_ = ci.c.SetReadDeadline(vtime.Now().Add(5 * time.Second))
				setTarget(ci)
			case "dialpend":
				if err := g.DialAsync("tcp", "127.0.0.1:9", dialCB); err != nil {
					w.fail("harness|DialAsync: %v", err)
					return
				}
			case "dialto":
				if err := g.DialAsyncTimeout("tcp", "127.0.0.1:9", 5*time.Second, dialCB); err != nil {
					w.fail("harness|DialAsyncTimeout: %v", err)
					return
				}
			case "dialok":
				if err := g.DialAsync("tcp", "127.0.0.1:9", dialCB); err != nil {
					w.fail("harness|DialAsync: %v", err)
					return
				}
				ds := vsys.Dials()
				peer := ds[len(ds)-1].Accept()
				vsched.WaitIdle()
				for _, ci := range w.conns {
					if ci.origin == "dial" && ci.dialOK && ci.peer == nil {
						ci.peer = peer
						setTarget(ci)
					}
				}
			case "udp":
				var fd int
				fd, udpPeer = vsys.NewUDPSocket(9000)
				server := nbio.VerifNewConn(fd, nbio.ConnTypeUDPServer, &net.UDPAddr{IP: net.IPv4(127, 0, 0, 1), Port: 9000}, nil)
				w.info(server, "udp-server")
				if _, err := g.AddConn(server); err != nil {
					w.fail("harness|AddConn(udp): %v", err)
					return
				}
				udpPeer.Send(7001, []byte{1})
			default:
				panic("unknown history event " + ev)
			}
			vsched.WaitIdle()
		}
		// sanity: the history is in place
		for _, ci := range w.conns {
			switch ci.origin {
			case "accept", "add", "udp-session":
				if ci.opens != 1 {
					w.fail("harness|history: %s connection fd=%d has %d open notifications", ci.origin, ci.fd, ci.opens)
					return
				}
			}
		}
		for _, ci := range w.conns {
			if ci.goneBeforeStop {
				if ci.closes == 0 {
					w.fail("harness|history: the %s connection fd=%d was not closed before Stop", ci.origin, ci.fd)
					return
				}
				v.counters["conns_closed_before_stop"]++
			}
		}
		v.counters["timers_armed_at_stop"] = vtime.Armed()
		v.counters["conns_at_stop"] = len(g.VerifTable())

		// ---- racer preparation that has to be settled before Stop
		if c.racer == "blocked" || c.racer == "blocked-race" {
			if target == nil || target.peer == nil {
				panic("racer needs a stream connection in the history: " + c.name())
			}
			w.blockNext = true
			target.peer.Write([]byte{7})
			vsched.WaitIdle()
			if w.lt.waiting != 1 {
				w.fail("harness|the data callback did not park (waiting=%d, data callbacks=%d)", w.lt.waiting, w.dataCalls)
				return
			}
		}

		// ---- the stopping call and the racer
		vsched.GoNamed("h.stopper", func() {
			defer w.stopPanic()
			v.stopStarted = true
			w.tick(30)
			switch c.stop {
			case "stop":
				g.Stop()
			case "shutdown-bg":
				w.stopErr = g.Shutdown(context.Background())
			case "shutdown-ctx":
				ctx, cancel := context.WithCancel(context.Background())
				w.stopErr = g.Shutdown(ctx)
				_ = cancel // live for the whole call
			}
			w.snapshotAtReturn()
		})
		var late *connInfo
		switch c.racer {
		case "none", "blocked":
		case "blocked-race":
			vsched.GoNamed("h.release", func() { w.lt.release() })
		case "accept":
			late = w.newStream("late-accept", 64)
			vsched.GoNamed("h.net", func() { lns[0].push(late.c) })
		case "close":
			vsched.GoNamed("h.closer", func() { _ = target.c.Close() })
		case "fin":
			vsched.GoNamed("h.peer", func() { target.peer.CloseWrite() })
		case "data":
			vsched.GoNamed("h.peer", func() { target.peer.Write([]byte{1, 2}) })
		case "resolve":
			vsched.GoNamed("h.net", func() { ds := vsys.Dials(); _ = ds[len(ds)-1].Accept() })
		case "refuse":
			vsched.GoNamed("h.net", func() { ds := vsys.Dials(); ds[len(ds)-1].Refuse() })
		case "fire":
			vsched.GoNamed("h.clock", func() { vsched.Point(); vtime.FireNext() })
		case "addconn":
			late = w.newStream("late-add", 64)
			w.userThread("h.user", "AddConn", func() {
				if w.afterReturn() {
					w.ownFD[late.fd] = true // never given to the engine
					return
				}
				_, err := g.AddConn(late.c)
				if err != nil {
					v.counters["late_add_rejected"]++
				}
				w.tick(6)
			})
		case "dial":
			w.userThread("h.user", "DialAsync", func() {
				if w.afterReturn() {
					return
				}
				err := g.DialAsync("tcp", "127.0.0.1:9", dialCB)
				if err != nil {
					v.counters["late_dial_rejected"]++
				}
				w.tick(7)
			})
		case "write":
			w.userThread("h.user", "Write", func() {
				if w.afterReturn() {
					return
				}
				_, err := target.c.Write(make([]byte, 5))
				if err != nil {
					v.counters["late_write_rejected"]++
				}
				w.tick(8)
			})
		case "sendfile":
			w.userThread("h.user", "Sendfile", func() {
				if w.afterReturn() {
					return
				}
				_, err := target.c.Sendfile(ekit.OpenDataFile(3, 8, 0), 0)
				if err != nil {
					v.counters["late_sendfile_rejected"]++
				} else if countDups() > 0 {
					v.counters["late_sendfile_queued_file"]++
				}
				w.tick(9)
			})
		case "udpdata":
			vsched.GoNamed("h.net", func() { udpPeer.Send(7002, []byte{2}) })
		default:
			panic("unknown racer " + c.racer)
		}

		// ---- run to quiescence, releasing what the harness holds
		for i := 0; i < 4; i++ {
			vsched.WaitIdle()
			if w.lt.waiting > 0 && !w.lt.open {
				if !v.stopReturned {
					v.counters["stop_waited_for_callback"]++
				} else {
					v.counters["stop_returned_with_callback_running"]++
				}
				w.lt.release()
				continue
			}
			break
		}
		vsched.WaitIdle()

		// ---- oracle
		owned := map[int]bool{}
		if late != nil && c.racer == "accept" {
			handed := false
			for _, h := range lns[0].handed {
				if h == late.c {
					handed = true
				}
			}
			if handed {
				v.counters["late_conn_handed_out_before_close"]++
			} else {
				v.counters["late_conn_not_handed_out"]++
			}
		}
		if late != nil && c.racer == "addconn" && late.opens == 0 {
			// AddConn failed before registering: nbio closed the descriptor or left it to the caller
			v.counters["late_add_not_opened"]++
		}
		w.quiescenceOracle(lns, epfds, evtfds, owned)
		nclosed := 0
		for _, ci := range w.conns {
			nclosed += ci.closes
		}
		v.counters["close_notifications"] = nclosed
		if v.stopStarted {
			v.counters["stop_started"] = 1
		}
		if v.stopReturned {
			v.counters["stop_returned"] = 1
		}
		if w.lt.passed > 0 {
			v.counters["callback_parked_and_released"]++
		}
		v.info = fmt.Sprintf("wgConn=%d wg=%d table=%v openfds=%v armed=%v listenersClosed=%v", g.VerifWgConn(), g.VerifWg(), g.VerifTable(), vsys.OpenFDs(), vtime.ArmedNames(), lnState(lns))
		v.outcome = fmt.Sprintf("core ret=%v conns=%d closes=%d badfd=%d fails=%d", v.stopReturned, len(w.conns), nclosed, len(vsys.BadFDCalls()), len(v.fails))
	}
}

// countDups counts the real descriptors nbio obtained from dup() (queued Sendfile ranges) that
// are still open.
func countDups() int {
	n := 0
	for _, s := range vsys.OpenFDs() {
		if strings.HasSuffix(s, ":realdup") {
			n++
		}
	}
	return n
}

func lnState(lns []*fakeListener) []string {
	var out []string
	for _, l := range lns {
		out = append(out, fmt.Sprintf("ln%d{closed=%v queued=%d handed=%d}", l.id, l.closed, len(l.q), len(l.handed)))
	}
	return out
}

// ---------------------------------------------------------------------------------------------
// HTTP engine

type hcfg struct {
	mode   ekit.Mode
	exec   string // pool | inline
	iomod  string // nb | mixed
	listen bool
	hist   []string // inject | accept | request | partial
	racer  string   // none | accept | close | fin | request | blocked
	stop   string
	// client executor: "" = SupportServerOnly (none), "pool" = the engine's own client pool (the
	// default configuration), "user" = a user-supplied Config.ClientExecutor
	client string
	p      int
	noc    bool
}

func (c hcfg) name() string {
	eng := "http"
	if c.noc {
		eng = "http/nocache"
	}
	s := fmt.Sprintf("%s %s exec=%s io=%s listen=%v hist=%s racer=%s %s P=%d", eng, c.mode, c.exec, c.iomod, c.listen, strings.Join(c.hist, "+"), c.racer, c.stop, c.p)
	if c.client != "" {
		s += " client" + c.client
	}
	return s
}

const httpReq = "GET / HTTP/1.1\r\nHost: a\r\n\r\n"
const httpFileReq = "GET /file HTTP/1.1\r\nHost: a\r\n\r\n"

func httpBody(c hcfg) func() {
	return func() {
		vsys.Configure(false, false)
		_ = vkit.Log.TakeErrors()
		fam := "http "
		if c.exec == "inline" {
			fam = "http/inline-executor "
		}
		if c.iomod == "mixed" {
			fam = "http/mixed "
		}
		w := newWorld(fam+families[c.racer], true)
		v := w.v
		defer func() { v.complete = true }()
		tr := track.New(track.Exact)
		saved := mempool.DefaultMemPool
		mempool.DefaultMemPool = tr
		vsched.OnCleanup(func() { mempool.DefaultMemPool = saved })
		handled := 0
		conf := nbhttp.Config{Name: "c18h", NPoller: 1, ReadBufferSize: 64, BodyAllocator: tr, SupportServerOnly: c.client == "",
			Handler: http.HandlerFunc(func(rw http.ResponseWriter, r *http.Request) {
				handled++
				w.tick(10)
				w.maybePark()
				if r.URL.Path == "/file" {
					// identity-framed file body through the sendfile fast path
					rw.Header().Set("Content-Length", "400")
					_, _ = rw.(io.ReaderFrom).ReadFrom(ekit.OpenDataFile(4, 400, 0))
					return
				}
				_, _ = rw.Write([]byte("ok"))
			})}
		conf.EpollMod, conf.EPOLLONESHOT = coreModeOf(c.mode)
		if c.client == "user" {
			conf.ClientExecutor = func(f func()) { vsched.GoNamed("x.client", f) }
		}
		switch c.exec {
		case "inline":
			conf.ServerExecutor = func(f func()) { f() }
		case "go":
			conf.ServerExecutor = func(f func()) { vsched.GoNamed("x.handler", f) }
		}
		if c.iomod == "mixed" {
			conf.IOMod = nbhttp.IOModMixed
			conf.MaxBlockingOnline = 1
		} else {
			conf.IOMod = nbhttp.IOModNonBlocking
		}
		var lns []*fakeListener
		if c.listen {
			ln := &fakeListener{id: 0}
			lns = append(lns, ln)
			conf.Network = "tcp"
			conf.Addrs = []string{"127.0.0.1:80"}
			conf.Listen = func(network, addr string) (net.Listener, error) { return ln, nil }
		}
		e := nbhttp.NewEngine(conf)
		e.OnOpen(func(nc net.Conn) {
			if cc, ok := nc.(*nbio.Conn); ok {
				w.info(cc, "http").httpOn++
			}
			w.tick(11)
		})
		e.OnClose(func(nc net.Conn, err error) {
			if cc, ok := nc.(*nbio.Conn); ok {
				w.info(cc, "http").httpOff++
			}
			w.tick(12)
		})
		e.OnStop(func() { v.onStopCalled = true; w.tick(4) })
		if err := e.Start(); err != nil {
			w.fail("harness|engine start: %v", err)
			return
		}
		epfds, evtfds := e.Engine.VerifPollerFDs()
		extraOwned := map[int]bool{}

		var target *connInfo
		for _, ev := range c.hist {
			ci := w.newStream("http", 256)
			if target == nil {
				target = ci
			}
			switch ev {
			case "transfer":
				// a connection transferred from elsewhere (as the websocket upgrade does)
				ci.c.OnData(func(cc *nbio.Conn, data []byte) { w.dataCalls++; w.tick(13) })
				if err := e.AddTransferredConn(ci.c); err != nil {
					w.fail("harness|AddTransferredConn: %v", err)
					return
				}
			case "inject", "request", "partial", "filereq":
				e.AddConnNonTLSNonBlocking(&nbhttp.Conn{Conn: ci.c}, nil, func() {})
			case "accept":
				lns[0].push(ci.c)
			default:
				panic("unknown history event " + ev)
			}
			vsched.WaitIdle()
			switch ev {
			case "request":
				ci.peer.Write([]byte(httpReq))
				vsched.WaitIdle()
				if handled == 0 {
					w.fail("harness|the request was not handled")
					return
				}
			case "partial":
				ci.peer.Write([]byte(httpReq[:9]))
				vsched.WaitIdle()
			case "filereq":
				// the handler's ReadFrom(file): head written, the file only partly (peer not reading):
				// a file-only write queue with a dup'ed descriptor
				ci.peer.Write([]byte(httpFileReq))
				vsched.WaitIdle()
				sn := ci.c.VerifSnapshot()
				if handled == 0 || sn.Left != 0 || len(sn.Queue) != 1 || sn.Queue[0] != -1 || countDups() != 1 {
					w.fail("harness|history: expected a file-only write queue after ReadFrom: handled %d queue %v left %d fds %v peer-queued %d", handled, sn.Queue, sn.Left, vsys.OpenFDs(), ci.peer.Queued())
					return
				}
				v.counters["file_only_backlog_at_stop"]++
			}
		}
		if len(c.hist) > 0 && c.iomod != "mixed" && e.Online() != len(c.hist) {
			w.fail("harness|history: Online() = %d, want %d", e.Online(), len(c.hist))
			return
		}
		v.counters["timers_armed_at_stop"] = vtime.Armed()
		v.counters["conns_at_stop"] = e.Online()

		if c.racer == "blocked" {
			w.blockNext = true
			target.peer.Write([]byte(httpReq))
			vsched.WaitIdle()
			if w.lt.waiting != 1 {
				w.fail("harness|the handler did not park (waiting=%d handled=%d)", w.lt.waiting, handled)
				return
			}
		}

		vsched.GoNamed("h.stopper", func() {
			defer w.stopPanic()
			v.stopStarted = true
			w.tick(30)
			switch c.stop {
			case "stop":
				e.Stop()
			case "shutdown-bg":
				w.stopErr = e.Shutdown(context.Background())
			case "shutdown-ctx":
				ctx, cancel := context.WithCancel(context.Background())
				w.stopErr = e.Shutdown(ctx)
				_ = cancel
			}
			w.snapshotAtReturn()
		})
		var late *connInfo
		switch c.racer {
		case "none", "blocked":
		case "accept":
			late = w.newStream("late-accept", 256)
			vsched.GoNamed("h.net", func() { lns[0].push(late.c) })
		case "close":
			vsched.GoNamed("h.closer", func() { _ = target.c.Close() })
		case "fin":
			vsched.GoNamed("h.peer", func() { target.peer.CloseWrite() })
		case "request":
			vsched.GoNamed("h.peer", func() { target.peer.Write([]byte(httpReq)) })
		default:
			panic("unknown racer " + c.racer)
		}

		// ---- run to quiescence: release the latch, tick the Shutdown poll loop
		tickerArmed := func() bool {
			for _, n := range vtime.ArmedNames() {
				if strings.HasPrefix(n, "ticker@") {
					return true
				}
			}
			return false
		}
		for i := 0; i < 8; i++ {
			vsched.WaitIdle()
			if w.lt.waiting > 0 && !w.lt.open {
				if !v.stopReturned {
					v.counters["stop_waited_for_callback"]++
				} else {
					v.counters["stop_returned_with_callback_running"]++
				}
				w.lt.release()
				continue
			}
			if !v.stopReturned && c.stop != "stop" && tickerArmed() {
				t0 := vtime.VNow()
				vtime.FireNext()
				if vtime.VNow().Sub(t0) > time.Second {
					v.counters["deadline_fired_by_clock"]++
					w.fail("shutdown-needed-deadline %s|the Shutdown poll ticker was not the next timer: a connection deadline had to fire (virtual time jumped %v)", v.family, vtime.VNow().Sub(t0))
				}
				v.counters["ticks"]++
				continue
			}
			break
		}
		vsched.WaitIdle()

		if late != nil {
			handed := false
			for _, h := range lns[0].handed {
				if h == late.c {
					handed = true
				}
			}
			if handed {
				v.counters["late_conn_handed_out_before_close"]++
			} else {
				v.counters["late_conn_not_handed_out"]++
			}
		}
		w.quiescenceOracle(lns, epfds, evtfds, extraOwned)
		if v.stopReturned {
			// HTTP-level bookkeeping after the stop: observed, not judged (the statement asks for
			// closed connections and the core engine's notifications; see the final report)
			if n := e.Online() + e.DialerOnline(); n != 0 {
				v.counters["http_online_table_not_empty_after_stop"]++
			}
			for _, ci := range w.conns {
				if ci.httpOn > 0 && ci.httpOff == 0 {
					v.counters["http_onclose_never_delivered_after_stop"]++
				}
			}
		}
		if v.stopStarted {
			v.counters["stop_started"] = 1
		}
		if v.stopReturned {
			v.counters["stop_returned"] = 1
		}
		if w.lt.passed > 0 {
			v.counters["callback_parked_and_released"]++
		}
		v.counters["requests_handled"] = handled
		g := e.Engine
		v.info = fmt.Sprintf("wgConn=%d wg=%d table=%v online=%d openfds=%v armed=%v listeners=%v", g.VerifWgConn(), g.VerifWg(), g.VerifTable(), e.Online(), vsys.OpenFDs(), vtime.ArmedNames(), lnState(lns))
		v.outcome = fmt.Sprintf("http ret=%v conns=%d handled=%d badfd=%d fails=%d", v.stopReturned, len(w.conns), handled, len(vsys.BadFDCalls()), len(v.fails))
	}
}

func coreModeOf(m ekit.Mode) (uint32, uint32) {
	var c nbio.Config
	m.Apply(&c)
	return c.EpollMod, c.EPOLLONESHOT
}

// ---------------------------------------------------------------------------------------------
// verdict

func check(r *vsched.Result) string {
	v := lastV
	if v == nil {
		return ""
	}
	var engineLeft, engineLeftSig []string
	var all []string
	harnessStuck := ""
	stopperWhy := ""
	coreStopThread := false
	for _, b := range r.Blocked {
		// only the kind of wait goes into signatures (replays add the mutex owner to Why)
		whyKind := b.Why
		if i := strings.IndexByte(whyKind, ' '); i >= 0 {
			whyKind = whyKind[:i]
		}
		all = append(all, fmt.Sprintf("%s(%s)", b.Name, b.Why))
		if strings.HasPrefix(b.Name, "h.") || b.Name == "main" {
			if b.Name != "h.stopper" {
				harnessStuck = fmt.Sprintf("%s(%s)", b.Name, b.Why)
			} else {
				stopperWhy = whyKind
			}
			continue
		}
		if strings.Contains(b.Name, "Engine).Shutdown") {
			coreStopThread = true
		}
		if strings.HasPrefix(b.Name, "x.") {
			// a thread created by the user-supplied executor is the user's, not the engine's
			continue
		}
		engineLeft = append(engineLeft, fmt.Sprintf("%s(%s)", b.Name, b.Why))
		engineLeftSig = append(engineLeftSig, fmt.Sprintf("%s(%s)", lineSuffix(b.Name), whyKind))
	}
	for _, f := range v.fails {
		if strings.HasPrefix(f, "harness|") {
			return f
		}
	}
	if !v.complete {
		return fmt.Sprintf("harness-incomplete|the harness main thread did not finish; blocked: %v", all)
	}
	if v.stopPanicked != "" {
		for _, f := range v.fails {
			if strings.HasPrefix(f, "close-notification-duplicated") {
				return f + " [then the stopping call panicked: " + v.stopPanicked + "]"
			}
		}
		for _, f := range v.fails {
			if strings.HasPrefix(f, "stop-panicked") {
				return f + " [" + v.info + "]"
			}
		}
	}
	if v.stopStarted && !v.stopReturned {
		phase := "wgConn.Wait"
		switch {
		case v.onStopCalled:
			phase = "Engine.Wait"
		case v.http && !coreStopThread && stopperWhy == "chan":
			phase = "http-shutdown-poll-loop"
		}
		return fmt.Sprintf("stop-hangs %s %s|the stopping call never returned (phase: %s); blocked threads at the end: %v; %s", phase, v.family, phase, all, v.info)
	}
	if len(v.fails) > 0 {
		return v.fails[0] + " [" + v.info + "]"
	}
	if harnessStuck != "" {
		return fmt.Sprintf("harness-stuck|harness thread %s blocked at the end; all blocked: %v", harnessStuck, all)
	}
	if len(engineLeft) > 0 {
		sort.Strings(engineLeftSig)
		return fmt.Sprintf("goroutine-left %s %s|engine thread(s) still blocked at quiescence after the stopping call returned: %v; %s", strings.Join(dedup(engineLeftSig), "+"), v.family, engineLeft, v.info)
	}
	if v.badfd != "" {
		return v.badfd + " [" + v.info + "]"
	}
	return ""
}

func dedup(s []string) []string {
	var out []string
	for i, x := range s {
		if i == 0 || x != s[i-1] {
			out = append(out, x)
		}
	}
	return out
}

// ---------------------------------------------------------------------------------------------
// scenario matrix

type ecfg struct {
	mode ekit.Mode
	np   int
	read string
}

type ccase struct {
	hist  []string
	racer string
	nl    int
}

type hcase struct {
	hist   []string
	racer  string
	listen bool
}

func h(ev ...string) []string { return ev }

var (
	cheapE = []ecfg{{ekit.LT, 1, "sync"}, {ekit.ET, 1, "sync"}, {ekit.ONESHOT, 1, "sync"}, {ekit.ET, 1, "go"}, {ekit.ET, 1, "inline"}, {ekit.ONESHOT, 1, "go"}}
	midE   = []ecfg{{ekit.LT, 2, "sync"}}
	heavyE = []ecfg{{ekit.ET, 1, "pool"}, {ekit.ONESHOT, 1, "pool"}, {ekit.ET, 2, "pool"}}
	fewE   = []ecfg{{ekit.LT, 1, "sync"}, {ekit.ET, 1, "go"}, {ekit.ONESHOT, 1, "sync"}}

	singles = []ccase{
		{nil, "none", 0}, {nil, "none", 1}, {nil, "none", 2}, {nil, "accept", 1}, {nil, "addconn", 0}, {nil, "dial", 0},
		{h("accept"), "none", 1}, {h("accept"), "accept", 1}, {h("accept"), "close", 1}, {h("accept"), "fin", 1},
		{h("accept"), "data", 1}, {h("accept"), "blocked", 1},
		{h("add"), "none", 0}, {h("add"), "close", 0}, {h("add"), "fin", 0}, {h("add"), "data", 0},
		{h("add"), "blocked", 0}, {h("add"), "write", 0}, {h("add"), "addconn", 0},
		{h("backlog"), "none", 0}, {h("backlog"), "close", 0}, {h("backlog"), "fin", 0}, {h("backlog"), "write", 0},
		{h("deadline"), "none", 0}, {h("deadline"), "fire", 0}, {h("deadline"), "close", 0},
		{h("dialpend"), "none", 0}, {h("dialpend"), "resolve", 0}, {h("dialpend"), "refuse", 0},
		{h("dialto"), "none", 0}, {h("dialto"), "resolve", 0}, {h("dialto"), "fire", 0},
		{h("dialok"), "none", 0}, {h("dialok"), "close", 0}, {h("dialok"), "fin", 0}, {h("dialok"), "data", 0},
		{h("udp"), "none", 0}, {h("udp"), "udpdata", 0},
		{h("sendfile"), "none", 0}, {h("sendfile"), "close", 0}, {h("sendfile"), "fin", 0},
		{h("backlog-rst"), "none", 0}, {h("fin-closed"), "none", 0}, {h("user-closed"), "none", 0},
		{h("sendfile-only"), "none", 0}, {h("sendfile-only"), "close", 0}, {h("sendfile-only"), "fin", 0},
		{h("sendfile-drained"), "none", 0}, {h("small"), "sendfile", 0},
	}
	extraSingles = []ccase{{h("add"), "blocked-race", 0}, {h("accept"), "blocked-race", 1}, {h("dialok"), "blocked", 0}, {h("backlog"), "blocked-race", 0}}
	doubles      = []ccase{
		{h("accept", "accept"), "none", 2}, {h("accept", "accept"), "accept", 2}, {h("accept", "add"), "accept", 1}, {h("accept", "add"), "fin", 1},
		{h("add", "add"), "close", 0}, {h("add", "add"), "none", 0}, {h("backlog", "deadline"), "fire", 0}, {h("backlog", "deadline"), "none", 0},
		{h("dialpend", "accept"), "resolve", 1}, {h("dialpend", "accept"), "accept", 1}, {h("udp", "add"), "udpdata", 0}, {h("udp", "add"), "fin", 0},
		{h("dialok", "backlog"), "fin", 0}, {h("add", "dialto"), "fire", 0}, {h("add", "dialto"), "close", 0}, {h("accept", "udp"), "none", 1},
		{h("dialto", "deadline"), "none", 0}, {h("add", "dialpend"), "dial", 0}, {h("backlog", "add"), "blocked", 0},
		{h("backlog-rst", "add"), "none", 0}, {h("backlog-rst", "add"), "close", 0}, {h("fin-closed", "accept"), "none", 1}, {h("user-closed", "backlog"), "none", 0},
	}
	triples = []ccase{
		{h("accept", "add", "dialpend"), "accept", 1}, {h("accept", "add", "dialpend"), "resolve", 1}, {h("accept", "add", "dialpend"), "close", 1},
		{h("backlog", "deadline", "udp"), "fire", 0}, {h("backlog", "deadline", "udp"), "udpdata", 0}, {h("backlog", "deadline", "udp"), "none", 0},
		{h("accept", "accept", "add"), "accept", 2}, {h("accept", "accept", "add"), "fin", 2},
		{h("dialok", "dialto", "add"), "fire", 0}, {h("dialok", "dialto", "add"), "data", 0}, {h("dialok", "dialto", "add"), "none", 0},
		{h("add", "backlog", "dialpend"), "write", 0}, {h("udp", "accept", "deadline"), "accept", 1}, {h("add", "add", "add"), "blocked", 0},
		{h("backlog-rst", "fin-closed", "add"), "none", 0}, {h("backlog-rst", "add", "dialpend"), "resolve", 0},
	}
	shutdownCases = []ccase{
		{nil, "none", 1}, {h("accept"), "none", 1}, {h("accept"), "accept", 1}, {h("add"), "fin", 0}, {h("add"), "blocked", 0},
		{h("backlog"), "close", 0}, {h("dialpend"), "resolve", 0}, {h("udp"), "udpdata", 0}, {h("deadline"), "fire", 0}, {nil, "accept", 1},
	}

	hsingles = []hcase{
		{nil, "none", false}, {nil, "none", true}, {nil, "accept", true},
		{h("inject"), "none", false}, {h("inject"), "close", false}, {h("inject"), "fin", false}, {h("inject"), "request", false}, {h("inject"), "blocked", false},
		{h("accept"), "none", true}, {h("accept"), "request", true}, {h("accept"), "close", true},
		{h("request"), "none", false}, {h("request"), "request", false}, {h("request"), "fin", false}, {h("request"), "blocked", false},
		{h("partial"), "none", false}, {h("partial"), "fin", false}, {h("partial"), "request", false},
		{h("transfer"), "none", false}, {h("transfer"), "fin", false}, {h("transfer"), "close", false},
		{h("filereq"), "none", false}, {h("filereq"), "close", false},
	}
	// two HTTP connections: only with plain Stop (Shutdown ranges over the connection map)
	hdoubles = []hcase{
		{h("accept"), "accept", true}, {h("inject", "request"), "request", false}, {h("accept", "inject"), "fin", true}, {h("request", "partial"), "close", false},
	}
)

func build(tier string) []*vkit.Scenario {
	thorough := tier == "thorough"
	var out []*vkit.Scenario
	seen := map[string]bool{}
	add := func(name string, body func(), p int, noc bool) {
		if seen[name] {
			return
		}
		seen[name] = true
		out = append(out, &vkit.Scenario{Name: name, Body: body, Check: check, P: p, D: 0, NoCache: noc,
			Opts:     vsched.Options{Horizon: 6000},
			Counters: func() map[string]int { return lastV.counters }, Outcome: func() string { return lastV.outcome },
			NonTrivial: func(m map[string]int) bool { return m["stop_started"] > 0 }})
	}
	core := func(es []ecfg, cs []ccase, stop string, p int, noc bool) {
		for _, e := range es {
			for _, c := range cs {
				cc := ccfg{mode: e.mode, np: e.np, nl: c.nl, read: e.read, hist: c.hist, racer: c.racer, stop: stop, p: p, noc: noc}
				add(cc.name(), coreBody(cc), p, noc)
			}
		}
	}
	type hexec struct {
		mode   ekit.Mode
		exec   string
		client string
	}
	httpS := func(es []hexec, cs []hcase, iomod, stop string, p int, noc bool) {
		for _, e := range es {
			for _, c := range cs {
				hc := hcfg{mode: e.mode, exec: e.exec, iomod: iomod, listen: c.listen, hist: c.hist, racer: c.racer, stop: stop, client: e.client, p: p, noc: noc}
				add(hc.name(), httpBody(hc), p, noc)
			}
		}
	}
	hCheap := []hexec{{ekit.LT, "inline", ""}, {ekit.LT, "go", ""}, {ekit.ET, "go", ""}, {ekit.ONESHOT, "inline", ""}}
	hPool := []hexec{{ekit.LT, "pool", "pool"}}
	hOther := []hexec{{ekit.ET, "inline", ""}, {ekit.ONESHOT, "go", ""}, {ekit.LT, "go", "pool"}}
	// the executor product {server executor: engine's own pool, user-supplied (goroutine per job,
	// inline)} x {client executor: engine's own pool, user-supplied, none (SupportServerOnly)}:
	// every pool the ENGINE created must be stopped by its OnStop hook whoever supplied the other
	var hProduct []hexec
	for _, se := range []string{"pool", "go", "inline"} {
		for _, ce := range []string{"pool", "user", ""} {
			hProduct = append(hProduct, hexec{ekit.LT, se, ce})
		}
	}
	productCases := []hcase{{nil, "none", false}, {h("inject"), "none", false}, {h("request"), "none", false}}
	mixedCases := []hcase{{nil, "none", true}, {nil, "accept", true}, {h("accept"), "none", true}}
	// light(cs, true): the cases whose racer does not multiply the interleavings too much;
	// light(cs, false): the others (peer traffic / one more accepted connection racing with Stop)
	light := func(cs []ccase, want bool) []ccase {
		var out []ccase
		for _, c := range cs {
			heavy := c.racer == "fin" || c.racer == "data" || c.racer == "accept"
			if heavy != want {
				out = append(out, c)
			}
		}
		return out
	}
	poolQuick := []hcase{{nil, "none", false}, {nil, "none", true}, {h("inject"), "none", false}, {h("inject"), "blocked", false}, {h("request"), "none", false}, {h("accept"), "none", true}}
	if !thorough {
		// quick: full bound (P<=2) on three representative poller configurations, P<=1 on the
		// others; the whole matrix at the higher bounds is the thorough tier
		quiet := func(cs []ccase) []ccase {
			var out []ccase
			for _, c := range cs {
				if c.nl == 2 {
					continue // two acceptors and two pollers: thorough tier
				}
				if c.racer == "none" || c.racer == "close" || c.racer == "blocked" || len(c.hist) == 0 {
					out = append(out, c)
				}
			}
			return out
		}
		core(fewE, light(singles, true), "stop", 2, false)
		core(fewE[:1], light(singles, false), "stop", 2, false)
		core(fewE[1:], light(singles, false), "stop", 1, false)
		core(cheapE, singles, "stop", 1, false)
		core(midE, singles, "stop", 1, false)
		core(midE, quiet(light(singles, true)), "stop", 2, false)
		core(heavyE[:2], light(singles, true), "stop", 1, false)
		core(heavyE[2:], quiet(light(singles, true)), "stop", 1, false)
		core(fewE[:1], light(doubles, true), "stop", 2, false)
		core(fewE, doubles, "stop", 1, false)
		core(fewE[:1], shutdownCases, "shutdown-bg", 2, false)
		core(fewE[:1], light(shutdownCases, true), "shutdown-ctx", 2, false)
		core(fewE[1:2], shutdownCases, "shutdown-bg", 1, false)
		core(fewE[:1], singles, "stop", 1, true)
		core(fewE[:1], quiet(light(singles, true)), "stop", 2, true)
		// the accepted connection with a request racing is by far the largest HTTP scenario with
		// the goroutine-per-job executor: full bound with the inline executor, P<=1 with "go"
		// (thorough runs it at P<=3)
		var hsNoBig []hcase
		for _, c := range hsingles {
			if !(c.listen && len(c.hist) == 1 && c.racer == "request") {
				hsNoBig = append(hsNoBig, c)
			}
		}
		httpS(hCheap[:1], hsingles, "nb", "stop", 2, false)
		httpS(hCheap[1:2], hsNoBig, "nb", "stop", 2, false)
		httpS(hCheap[1:], hsingles, "nb", "stop", 1, false)
		httpS(hCheap[:1], hsingles, "nb", "shutdown-bg", 2, false)
		httpS(hCheap[1:2], hsNoBig, "nb", "shutdown-bg", 2, false)
		httpS(hCheap[1:], hsingles, "nb", "shutdown-bg", 1, false)
		httpS(hCheap[:1], hsingles[:8], "nb", "shutdown-ctx", 2, false)
		httpS(hCheap[:2], hdoubles, "nb", "stop", 1, false)
		httpS(hPool, poolQuick, "nb", "stop", 1, false)
		httpS(hPool, poolQuick[:4], "nb", "shutdown-bg", 1, false)
		httpS(hProduct, productCases[:2], "nb", "stop", 1, false)
		httpS(hProduct, productCases[:2], "nb", "shutdown-bg", 1, false)
		httpS(hCheap[1:2], mixedCases, "mixed", "stop", 0, false)
		httpS(hCheap[1:2], mixedCases[:1], "mixed", "shutdown-bg", 0, false)
		httpS(hCheap[:1], hsingles, "nb", "stop", 1, true)
		httpS(hCheap[1:2], hsNoBig, "nb", "stop", 1, true)
		return spread(out)
	}
	// thorough: one more preemption everywhere it is affordable; the families whose interleaving
	// count explodes (a second connection plus peer traffic) stay at the quick bound
	core(cheapE, singles, "stop", 3, false)
	core(cheapE, extraSingles, "stop", 3, false)
	core(midE, light(singles, true), "stop", 3, false)
	core(midE, light(singles, false), "stop", 2, false)
	core(heavyE[:2], singles, "stop", 2, false)
	core(heavyE[2:], light(singles, true), "stop", 2, false)
	core(heavyE[2:], light(singles, false), "stop", 1, false)
	core(cheapE, light(doubles, true), "stop", 3, false)
	core(cheapE, light(doubles, false), "stop", 2, false)
	core(midE, doubles, "stop", 2, false)
	core(heavyE[:2], light(doubles, true), "stop", 2, false)
	core(heavyE[:2], light(doubles, false), "stop", 1, false)
	core(fewE, light(triples, true), "stop", 3, false)
	core(fewE, light(triples, false), "stop", 2, false)
	core(midE, light(triples, true), "stop", 2, false)
	core(midE, light(triples, false), "stop", 1, false)
	core(heavyE[:1], light(triples, true), "stop", 2, false)
	core(heavyE[:1], light(triples, false), "stop", 1, false)
	core(cheapE, shutdownCases, "shutdown-bg", 3, false)
	core(cheapE, shutdownCases, "shutdown-ctx", 3, false)
	core(cheapE, singles, "stop", 2, true)
	core(midE, singles, "stop", 1, true)
	core(fewE, doubles, "stop", 1, true)
	allH := append(append([]hexec{}, hCheap...), hOther[:2]...)
	httpS(hCheap, hsingles, "nb", "stop", 3, false)
	httpS(hOther[:2], hsingles, "nb", "stop", 2, false)
	httpS(hOther[2:], hsingles, "nb", "stop", 2, false)
	httpS(hCheap, hsingles, "nb", "shutdown-bg", 3, false)
	httpS(hOther, hsingles, "nb", "shutdown-bg", 2, false)
	httpS(allH, hsingles, "nb", "shutdown-ctx", 2, false)
	httpS(allH, hdoubles, "nb", "stop", 2, false)
	httpS(hPool, poolQuick, "nb", "stop", 2, false)
	httpS(hPool, poolQuick, "nb", "shutdown-bg", 2, false)
	httpS(hProduct, productCases, "nb", "stop", 2, false)
	httpS(hProduct, productCases, "nb", "shutdown-bg", 2, false)
	httpS(hProduct, productCases[:2], "nb", "shutdown-ctx", 1, false)
	httpS(hPool, hsingles, "nb", "stop", 1, false)
	httpS(hPool, hsingles, "nb", "shutdown-bg", 1, false)
	httpS(hCheap[1:2], mixedCases, "mixed", "stop", 1, false)
	httpS(hCheap[1:2], mixedCases, "mixed", "shutdown-bg", 1, false)
	httpS(hCheap[:1], hsingles, "nb", "stop", 2, true)
	httpS(hCheap[1:], hsingles, "nb", "stop", 1, true)
	return spread(out)
}

// spread orders the scenarios by a hash of their names: vkit deals them out round-robin, and the
// matrix order is periodic (the expensive cases of every configuration would land on the same
// worker).
func spread(scs []*vkit.Scenario) []*vkit.Scenario {
	sort.SliceStable(scs, func(i, j int) bool {
		return vsched.HashString(scs[i].Name) < vsched.HashString(scs[j].Name)
	})
	return scs
}

const blockingPartNote = "bounded-exhaustive enumeration of histories on real socket pairs with a free-running schedule (every history up to the depth executed once; schedules not enumerated); counters histories_mode_*, histories_ending_*, histories_depth_*, histories_with_transfer, waits_that_hit_the_cap belong to it"

func main() {
	defer ekit.CleanupFiles()
	vkit.Main(&vkit.Spec{
		Property: "C18", Level: "model_checking",
		Rule: "one scenario = engine (core nbio.Engine / nbhttp.Engine) x configuration (epoll mode LT/ET/ONESHOT, NPoller 1-2, 0-2 fake listeners, sync read or async read with pool / goroutine-per-task / inline executor; HTTP: server executor {engine's own pool, user-supplied goroutine-per-job, user-supplied inline} x client executor {engine's own pool, user-supplied, none (SupportServerOnly)}, IOModNonBlocking / IOModMixed) x settled history of 0-3 events (accepted connection, AddConn, connection already ended before Stop by a peer reset of a write backlog / peer FIN / user Close, write backlog, Sendfile range queued behind a buffer backlog / as a file-only write queue (peer not reading) / after a drained buffer, each with its dup'ed descriptor, read deadline, pending / timed / connected async dial, UDP listener with a session; HTTP: injected, accepted or transferred connection, handled request, request answered with ReadFrom(file) to a peer that does not read, partial request) x one activity racing with the stopping call (listener hands out one more connection, user Close, peer FIN, peer data / request, callback parked on a latch, dial resolving, deadline firing, AddConn / DialAsync / Write / Sendfile by the user, datagram of a new remote) x stopping call (Stop, Shutdown(Background), Shutdown(live cancel ctx)); every interleaving within the preemption bound; non-trivial = the stopping call was started. SECOND PART (scenario name \"blocking-modes/real-sockets/history-enumeration\", a different and weaker kind of claim): bounded-exhaustive enumeration of HISTORIES, free-running schedule - one case = I/O mode (IOModBlocking, IOModMixed with the history in its blocking-first dispatch, IOModMixed with every connection of the history in the poller half, IOModNonBlocking as control) x WebSocket upgrader variant (plain / BlockingModAsyncWrite / BlockingModTrasferConnToPoller) x every event sequence of length <= 3 (thorough: 4) on <= 2 real AF_UNIX socket-pair connections over {open, keep-alive request, HTTP/1.0 request, request whose 70000-byte response is left in flight against a 4096-byte send buffer, partial request, its completion, WebSocket handshake, message echo, close handshake, peer close, peer half-close} x ending (Stop, Shutdown with a live 45 s context, all peers close then Stop; in the blocking and the non-blocking mode also Stop / Shutdown with a connection that the pending Accept of the closed listener still returns 20 ms after the close - whoever takes it out of the listener owns it); each case is executed ONCE on the real code with real goroutines and the real kernel, schedules are not enumerated",
		Assumptions: []string{
			"a connection that a listener's Accept returned before listener.Close() was called is the engine's to close; the fake listener never hands out a connection after Close (what stays queued is the harness's own)",
			"'close notification delivered before Stop returns' is judged per connection that got an open notification (OnOpen or a dial callback with nil error), counted when the close callback is entered; applied to the core engine only, as the statement says; a second close notification for the same connection is a violation too (it releases the wait group Stop relies on)",
			"a callback that the user blocks is released by the harness before the final verdict; Stop may or may not wait for it",
			"time is virtual: no connection deadline fires unless the scenario says so; a stopping call that can only return after a keep-alive / read deadline expires counts as not returning; the nbhttp Shutdown poll ticker is fired whenever the system is idle",
			"a system call on a closed descriptor number is reported (fd-reuse hazard) even if it fails harmlessly with EBADF in the model",
			"IOModBlocking / TLS / real net.TCPConn paths are not reachable under the cooperative scheduler (DESIGN §5); in the scheduled scenarios IOModMixed is run with fake connections, which its blocking half rejects",
			"second part (blocking modes on real sockets): EVERY HISTORY up to the depth is run, NOT every schedule - silence there means 'no history of that shape fails under the schedules the runtime produced', not 'no interleaving fails'. Oracles: the stopping call returns within 60 s and Shutdown with a live context returns nil; afterwards every connection handed to the engine is closed from its peer's point of view, no goroutine running nbio code that did not exist before NewEngine is left, no descriptor opened since then is left, nbio logged no error; and whenever the history is quiet engine.Online() equals the number of connections neither side has closed (the bookkeeping Shutdown's wait loop relies on). Waits of the harness are capped generously (30 s); an expired harness wait marks the run incomplete, it is never a violation. A wait for something that is not going to happen ends early only on positive evidence taken from a goroutine dump (every engine goroutine parked in 5 consecutive samples 10 ms apart - 25 ms apart for async-write WebSocket configurations, whose close delay the harness sets to 1 ms - confirmed by a direct read of the peer's descriptor), never on a short timeout",
			"second part: connections are AF_UNIX socket pairs; the server end is a *net.UnixConn handed out by a fake net.Listener to the engine's own accept loop (Config.Listen), so AddConnNonTLSBlocking/-NonBlocking and lmux are driven by nbio itself. websocket.Upgrader transfers only *net.TCPConn to the poller: for the transfer variants the same AF_UNIX socket is handed over under the static type *net.TCPConn (identical layout struct{conn{fd *netFD}}, verified by reflection at start-up; every method nbio calls is the embedded conn's). TLS blocking connections (readTLSConnBlocking) are not covered by any part",
			"interleavings are sequentially consistent and switch at lock/unlock, atomic, channel, timer, system-call, harness-callback points and at the accesses to the unsynchronised fields listed in cmd/ovgen (shutdown flags, descriptor table, HTTP connection maps); Conn.closed read without the mutex is not a switching point of its own",
		},
		Build: build, QuickBudget: 60 * time.Second, ThoroughBudget: 12 * time.Minute, MinNonTrivial: 20,
		Seq: seqBlocking, ReplaySeq: replayBlocking,
		Extra: map[string]interface{}{"second_part_blocking_modes": blockingPartNote},
	})
}

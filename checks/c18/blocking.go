// C18, second part: the goroutine-per-connection I/O modes (IOModBlocking, both halves of
// IOModMixed; IOModNonBlocking as a control) on real socket pairs.
//
// Strength (different from the scheduled scenarios above, and labelled as such in the evidence):
// BOUNDED-EXHAUSTIVE ENUMERATION OF HISTORIES with a FREE-RUNNING schedule. Every history over
// the alphabet of verif/blkkit up to the depth of the tier is executed once, for every engine
// configuration and every ending; schedules are NOT enumerated (each history sees the one
// interleaving the Go runtime and the kernel produce). No cooperative scheduler and no
// simulated kernel are involved: the shims of the overlay are in native pass-through mode.
package main

import (
	"encoding/json"

	"verif/blkkit"
	"verif/vkit"
)

const blkScenario = "blocking-modes/real-sockets/history-enumeration"

var c18Alphabet = []string{"ka", "v10", "bigstall", "partial", "finish", "ws", "wsmsg", "wsclose", "pclose", "phalf"}

// c18Cases lists the cases of a tier in a fixed order.
func c18Cases(tier string, visit func(blkkit.Case)) {
	depth := 3
	if tier == "thorough" {
		depth = 4
	}
	hists := blkkit.Histories(depth, 2, c18Alphabet)
	for _, h := range hists {
		ws := blkkit.Has(h, "ws")
		for _, mode := range []string{"blocking", "mixed", "mixed-nb", "nonblocking"} {
			cfgs := []blkkit.Cfg{{Mode: mode}}
			inA := mode == "blocking" || mode == "mixed"
			if ws && inA {
				// a *net.UnixConn is never transferred (upgrader.go switches on *net.TCPConn): the
				// transfer variants hand the server end over relabelled as *net.TCPConn
				cfgs = append(cfgs, blkkit.Cfg{Mode: mode, Async: true}, blkkit.Cfg{Mode: mode, TCP: true, Transfer: true})
				if tier == "thorough" {
					cfgs = append(cfgs, blkkit.Cfg{Mode: mode, TCP: true}, blkkit.Cfg{Mode: mode, TCP: true, Transfer: true, Async: true})
				}
			} else if tier == "thorough" && inA && len(h) > 0 {
				cfgs = append(cfgs, blkkit.Cfg{Mode: mode, TCP: true})
			}
			for _, cfg := range cfgs {
				if blkkit.Has(h, "bigstall") {
					// a 70000-byte response against a 4096-byte send buffer and a peer that does not read:
					// the write is in flight (blocked in the reader goroutine, or queued by the poller)
					cfg.SndBuf = 4096
				}
				for _, end := range []string{"stop", "shutdown", "peersclose-stop"} {
					visit(blkkit.Case{Cfg: cfg, Hist: h, End: end})
				}
				// a connection that the listener's pending Accept still returns after the stopping
				// call has closed the listener (Accept and Close race): it must not be left open.
				// Only where the engine accepts from the given listener itself (in IOModMixed the
				// listener mux sits in between and owns that race).
				if (mode == "blocking" || mode == "nonblocking") && !cfg.TCP && !cfg.Async && (len(h) <= 1 || tier == "thorough") {
					for _, end := range []string{"stop-late", "shutdown-late"} {
						visit(blkkit.Case{Cfg: cfg, Hist: h, End: end})
					}
				}
			}
		}
	}
}

func c18Caps() blkkit.Caps {
	c := blkkit.DefaultCaps
	c.Own = "c18"
	return c
}

func seqBlocking(tier string, sh *vkit.Shard, p *vkit.Part) {
	d := &blkkit.Driver{Part: p, Shard: sh, Class: "c18", Property: "C18", Scenario: blkScenario, Caps: c18Caps(), MaxViolating: 2}
	c18Cases(tier, d.Do)
	d.Finish()
}

func replayBlocking(scenario string, input json.RawMessage) string {
	return blkkit.Replay("c18", input, c18Caps())
}

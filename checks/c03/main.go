// C03: connection lifecycle. Real engine on the simulated kernel. A connection of some origin
// (AddConn, accepted through a listener, asynchronous dial, UDP peer session) is ended by 1-3
// causes raised concurrently (Close / CloseWithError from several threads, peer FIN, peer RST
// followed by a write, write-buffer overflow, read/write deadline, Engine.Stop). Oracle: at
// most one open and exactly one close notification, close never before open, the reported
// error is one of the causes raised (and the first one when it was complete before the others
// were raised), Close is idempotent, after Close returned every operation fails without a
// system call on the descriptor; an async dial reports exactly once and success only if the
// connection was established.
package main

import (
	"errors"
	"fmt"
	"io"
	"net"
	"strings"
	"time"

	"github.com/lesismal/nbio"

	"verif/ekit"
	"verif/vkit"
	"verif/vsched"
	"verif/vshim/vsys"
	"verif/vshim/vtime"
)

var errE1 = errors.New("user error one")
var errE2 = errors.New("user error two")

type cfg struct {
	mode   ekit.Mode
	origin string   // add | accept | udp
	causes []string // close close2 e1 e2 fin data+fin rst+write overflow rdeadline wdeadline stop
	p, d   int
	async  string // "" (synchronous read) | go | default | inline: AsyncReadInPoller with that executor (edge-triggered only)
}

func (c cfg) name() string {
	n := fmt.Sprintf("%s origin=%s causes=%s", c.mode, c.origin, strings.Join(c.causes, "+"))
	if c.async != "" {
		n += " read=async/" + c.async
	}
	return n
}

var lastCounters map[string]int
var lastOutcome string

type fakeListener struct {
	q      []net.Conn
	closed bool
}

func (l *fakeListener) Accept() (net.Conn, error) {
	vsched.Block("accept", func() bool { return len(l.q) > 0 || l.closed })
	if l.closed {
		return nil, net.ErrClosed
	}
	c := l.q[0]
	l.q = l.q[1:]
	return c, nil
}
func (l *fakeListener) Close() error   { vsched.Point(); l.closed = true; return nil }
func (l *fakeListener) Addr() net.Addr { return &net.TCPAddr{IP: net.IPv4(127, 0, 0, 1), Port: 80} }

type world struct {
	log      vsched.Obj
	seq      int
	opens    map[*nbio.Conn][]int
	closes   map[*nbio.Conn][]int
	closeErr map[*nbio.Conn][]error
	fails    []string
}

func (w *world) tick() int {
	w.seq++
	vsched.Record(&w.log, 1, true, uint64(w.seq))
	return w.seq
}

type causeRec struct {
	name     string
	raisedAt int
	doneAt   int
	err      error // the error this cause would report (nil for Close)
	anyErr   bool  // the cause may report one of several errors
	ret      error
	hasRet   bool
}

func errClass(err error) string {
	switch {
	case err == nil:
		return "nil"
	case errors.Is(err, errE1):
		return "E1"
	case errors.Is(err, errE2):
		return "E2"
	case errors.Is(err, io.EOF):
		return "EOF"
	case errors.Is(err, nbio.ErrOverflow):
		return "overflow"
	case errors.Is(err, nbio.ErrReadTimeout):
		return "rtimeout"
	case errors.Is(err, nbio.ErrWriteTimeout):
		return "wtimeout"
	case errors.Is(err, vsys.EPIPE), errors.Is(err, vsys.ECONNRESET):
		return "ioerr"
	case errors.Is(err, nbio.ErrDialTimeout):
		return "dialtimeout"
	}
	return "other:" + err.Error()
}

// which error classes may a cause report?
var causeClasses = map[string][]string{
	"close": {"nil"}, "close2": {"nil"}, "e1": {"E1"}, "e2": {"E2"}, "fin": {"EOF"}, "data+fin": {"EOF"},
	"rst+write": {"EOF", "ioerr"}, "rst+writev": {"EOF", "ioerr"}, "overflow-writev": {"overflow"}, "backlog+rst": {"EOF", "ioerr"}, "rst+sendfile": {"EOF", "ioerr"}, "overflow": {"overflow"}, "rdeadline": {"rtimeout"}, "wdeadline": {"wtimeout"}, "stop": {"nil"},
}

func body(c cfg) func() {
	return func() {
		vsys.Configure(false, false)
		w := &world{opens: map[*nbio.Conn][]int{}, closes: map[*nbio.Conn][]int{}, closeErr: map[*nbio.Conn][]error{}}
		conf := nbio.Config{Name: "c03", NPoller: 1, ReadBufferSize: 8}
		c.mode.Apply(&conf)
		hasOverflow := false
		for _, cs := range c.causes {
			if cs == "overflow" || cs == "overflow-writev" {
				hasOverflow = true
			}
		}
		if hasOverflow {
			conf.MaxWriteBufferSize = 4
		}
		var ln *fakeListener
		if c.origin == "accept" || c.origin == "accept-racing" {
			ln = &fakeListener{}
			conf.Network = "tcp"
			conf.Addrs = []string{"127.0.0.1:80"}
			conf.Listen = func(network, addr string) (net.Listener, error) { return ln, nil }
		}
		if c.async != "" {
			// asynchronous reading: the read task runs on an executor thread, so a peer shutdown can
			// be reported to the poller while a task of the same connection is in flight
			conf.AsyncReadInPoller = true
			switch c.async {
			case "go":
				conf.IOExecute = func(f func(*[]byte)) {
					vsched.GoNamed("iotask", func() { buf := make([]byte, 8); f(&buf) })
				}
			case "inline":
				conf.IOExecute = func(f func(*[]byte)) { buf := make([]byte, 8); f(&buf) }
			}
		}
		g := nbio.NewEngine(conf)
		g.OnData(func(cc *nbio.Conn, data []byte) { vsched.Point() }) // a handler that takes a while
		g.OnOpen(func(cc *nbio.Conn) { w.opens[cc] = append(w.opens[cc], w.tick()); vsched.Point() })
		g.OnClose(func(cc *nbio.Conn, err error) {
			w.closes[cc] = append(w.closes[cc], w.tick())
			w.closeErr[cc] = append(w.closeErr[cc], err)
		})
		if err := g.Start(); err != nil {
			vsched.Fail("harness|engine start: %v", err)
			return
		}
		var conn *nbio.Conn
		var peer *vsys.Peer
		var up *vsys.UDPPeer
		switch c.origin {
		case "add":
			conn, peer = ekit.Stream(false, 3, 64)
			if _, err := g.AddConn(conn); err != nil {
				vsched.Fail("harness|AddConn: %v", err)
				return
			}
		case "accept":
			conn, peer = ekit.Stream(false, 3, 64)
			ln.q = append(ln.q, conn)
			vsched.WaitIdle()
		case "udp-dial":
			// a datagram socket that reads for itself (what a dialed UDP connection handed to
			// AddConn becomes), after one completed read round
			var fd int
			fd, up = vsys.NewUDPSocket(9001)
			conn = nbio.VerifNewConn(fd, nbio.ConnTypeUDPClientFromDial, &net.UDPAddr{IP: net.IPv4(127, 0, 0, 1), Port: 9001}, &net.UDPAddr{IP: net.IPv4(10, 0, 0, 1), Port: 7001})
			if _, err := g.AddConn(conn); err != nil {
				vsched.Fail("harness|AddConn: %v", err)
				return
			}
			up.Send(7001, []byte{1})
			vsched.WaitIdle()
		case "add-racing":
			// the causes are raised while the registration is still going on (the open handler has
			// a scheduling point inside)
			conn, peer = ekit.Stream(false, 3, 64)
			cc := conn
			vsched.GoNamed("adder", func() { _, _ = g.AddConn(cc) })
		case "accept-racing":
			conn, peer = ekit.Stream(false, 3, 64)
			ln.q = append(ln.q, conn)
		case "udp":
			var fd int
			fd, up = vsys.NewUDPSocket(9000)
			server := nbio.VerifNewConn(fd, nbio.ConnTypeUDPServer, &net.UDPAddr{IP: net.IPv4(127, 0, 0, 1), Port: 9000}, nil)
			if _, err := g.AddConn(server); err != nil {
				vsched.Fail("harness|AddConn: %v", err)
				return
			}
			up.Send(7001, []byte{1})
			vsched.WaitIdle()
			for cc := range w.opens {
				conn = cc
			}
			if conn == nil {
				vsched.Fail("harness|no udp session opened")
				return
			}
		}
		racing := strings.HasSuffix(c.origin, "-racing")
		if len(w.opens[conn]) != 1 && !racing {
			vsched.Fail("open-count|connection of origin %s got %d open notifications before any traffic", c.origin, len(w.opens[conn]))
			return
		}
		fdnum := conn.VerifFD()
		// raise the causes concurrently
		var recs []*causeRec
		stopped := false
		for i, cs := range c.causes {
			cs := cs
			r := &causeRec{name: cs}
			recs = append(recs, r)
			switch cs {
			case "rdeadline":
				r.raisedAt = w.tick()
				_ = conn.SetReadDeadline(vtime.Now().Add(5 * time.Second))
				continue
			case "wdeadline":
				r.raisedAt = w.tick()
				_ = conn.SetWriteDeadline(vtime.Now().Add(7 * time.Second))
				continue
			}
			vsched.GoNamed(fmt.Sprintf("cause%d-%s", i, cs), func() {
				r.raisedAt = w.tick()
				switch cs {
				case "close", "close2":
					r.ret = conn.Close()
					r.hasRet = true
				case "e1":
					r.ret = conn.CloseWithError(errE1)
					r.hasRet = true
				case "e2":
					r.ret = conn.CloseWithError(errE2)
					r.hasRet = true
				case "fin":
					if peer != nil {
						peer.CloseWrite()
					}
				case "data+fin":
					// input is being handled when the shutdown arrives
					if peer != nil {
						peer.Write([]byte{7})
						peer.CloseWrite()
					}
				case "rst+write":
					if peer != nil {
						peer.Reset()
						_, _ = conn.Write([]byte{9})
					}
				case "rst+writev":
					// the vectored call is the operation that meets the broken connection
					if peer != nil {
						peer.Reset()
						_, _ = conn.Writev([][]byte{{9}, {8, 7}})
					}
				case "overflow-writev":
					_, _ = conn.Writev([][]byte{make([]byte, 3+2), make([]byte, 3)})
				case "backlog+rst":
					// the poller's flush (not a Write) hits the broken connection
					if peer != nil {
						_, _ = conn.Write(make([]byte, 3+2))
						peer.Reset()
					}
				case "rst+sendfile":
					if peer != nil {
						peer.Reset()
						_, _ = conn.Sendfile(ekit.OpenDataFile(2, 4, 0), 0)
					}
				case "overflow":
					_, _ = conn.Write(make([]byte, 3+4+1))
				case "stop":
					g.Stop()
					stopped = true
				}
				r.doneAt = w.tick()
			})
		}
		vsched.WaitIdle()
		// let deadline timers fire if the connection is still open
		for vtime.FireNext() {
			vsched.WaitIdle()
		}
		// ---- oracle
		judge := func(cc *nbio.Conn, what string) {
			if n := len(w.opens[cc]); n > 1 {
				w.fails = append(w.fails, fmt.Sprintf("open-count|%s got %d open notifications", what, n))
			}
			if racing && len(w.opens[cc]) == 0 && len(w.closes[cc]) == 0 {
				// the registration lost against the cause: never opened, nothing owed
				return
			}
			if n := len(w.closes[cc]); n != 1 {
				w.fails = append(w.fails, fmt.Sprintf("close-count %d|%s (origin %s, causes %v) got %d close notifications", n, what, c.origin, c.causes, n))
			}
			if len(w.opens[cc]) > 0 && len(w.closes[cc]) > 0 && w.closes[cc][0] < w.opens[cc][0] {
				w.fails = append(w.fails, fmt.Sprintf("close-before-open|%s was notified closed before open", what))
			}
		}
		judge(conn, "the connection")
		if len(w.closeErr[conn]) == 1 {
			got := errClass(w.closeErr[conn][0])
			allowed := map[string]bool{}
			for _, r := range recs {
				for _, k := range causeClasses[r.name] {
					allowed[k] = true
				}
			}
			if c.origin == "udp" {
				allowed["EOF"] = true
			}
			if !allowed[got] {
				w.fails = append(w.fails, fmt.Sprintf("close-error-foreign|close notification reported %q, causes raised were %v", got, c.causes))
			}
			// first cause: a closing call that returned before every other cause was raised
			for _, a := range recs {
				if !a.hasRet || a.doneAt == 0 {
					continue
				}
				first := true
				for _, b := range recs {
					if b != a && (b.raisedAt == 0 || b.raisedAt < a.doneAt) {
						first = false
					}
				}
				if first && len(causeClasses[a.name]) == 1 && got != causeClasses[a.name][0] {
					w.fails = append(w.fails, fmt.Sprintf("close-error-not-first|%s completed before any other cause was raised but the notification reported %q", a.name, got))
				}
			}
		}
		for _, r := range recs {
			if r.hasRet && r.ret != nil {
				w.fails = append(w.fails, fmt.Sprintf("close-returned-error|%s returned %v", r.name, r.ret))
			}
			if r.doneAt == 0 && r.name != "rdeadline" && r.name != "wdeadline" {
				w.fails = append(w.fails, fmt.Sprintf("stuck|cause %s never completed", r.name))
			}
		}
		// after the close: operations fail and do not touch the descriptor
		if cl, _ := conn.IsClosed(); cl {
			before := len(vsys.BadFDCalls())
			wr0 := vsys.GetStats().Writes
			if err := conn.Close(); err != nil {
				w.fails = append(w.fails, fmt.Sprintf("close-not-idempotent|a second Close returned %v", err))
			}
			// every argument shape, the degenerate ones included: "nothing to send" is not a
			// reason to skip the closed indication
			for _, b := range [][]byte{{1}, nil, {}, {1, 2, 3}} {
				if _, err := conn.Write(b); err == nil {
					w.fails = append(w.fails, fmt.Sprintf("op-after-close|Write of %d bytes (nil=%v) succeeded on a closed connection", len(b), b == nil))
				}
			}
			for _, v := range [][][]byte{{{1}, {2}}, nil, {}, {{}}, {nil}, {{}, {}}, {{1}}, {{}, {1}}} {
				if _, err := conn.Writev(v); err == nil {
					w.fails = append(w.fails, fmt.Sprintf("op-after-close|Writev of %d buffers (%v) succeeded on a closed connection", len(v), v))
				}
			}
			if c.origin != "udp" && c.origin != "udp-dial" {
				if _, err := conn.Sendfile(ekit.OpenDataFile(1, 4, 0), 0); err == nil {
					w.fails = append(w.fails, "op-after-close|Sendfile succeeded on a closed connection")
				}
			}
			ran := false
			if conn.Execute(func() { ran = true }) {
				w.fails = append(w.fails, "op-after-close|Execute returned true on a closed connection")
			}
			vsched.WaitIdle()
			if ran {
				w.fails = append(w.fails, "op-after-close|Execute ran a job on a closed connection")
			}
			if n := len(vsys.BadFDCalls()); n > before || vsys.GetStats().Writes > wr0 {
				w.fails = append(w.fails, fmt.Sprintf("fd-touched-after-close|operations on the closed connection issued system calls on descriptor %d: %v", fdnum, vsys.BadFDCalls()[before:]))
			}
			if c.origin != "udp" && c.origin != "udp-dial" {
				for _, o := range vsys.OpenFDs() {
					if strings.HasPrefix(o, fmt.Sprintf("%d:sock", fdnum)) {
						w.fails = append(w.fails, fmt.Sprintf("fd-leak|the connection is closed but descriptor %d is still open", fdnum))
					}
				}
			}
		}
		for _, b := range vsys.BadFDCalls() {
			// only the connection's own descriptor is this property's subject (the engine's
			// eventfd/epoll descriptors belong to C18)
			if strings.Contains(b, fmt.Sprintf("(fd=%d)", fdnum)) {
				w.fails = append(w.fails, fmt.Sprintf("ebadf|system call on the connection's closed descriptor: %s", b))
			}
		}
		lastCounters = map[string]int{"closed": len(w.closes[conn]), "timers_fired": vtime.Fired()}
		if stopped {
			lastCounters["stopped"] = 1
		}
		if len(w.closeErr[conn]) == 1 {
			lastOutcome = errClass(w.closeErr[conn][0])
		} else {
			lastOutcome = fmt.Sprintf("closes=%d", len(w.closes[conn]))
		}
		for _, f := range w.fails {
			vsched.Fail("%s", f)
		}
	}
}

// ---------------------------------------------------------------------------------------------
// asynchronous dial

type dcfg struct {
	mode    ekit.Mode
	outcome string // accept | refuse | never | immediate
	timeout bool
	then    string // after a successful dial: close | fin | none; for a pending one: stop
	p       int
}

func (c dcfg) name() string {
	return fmt.Sprintf("%s dial outcome=%s timeout=%v then=%s", c.mode, c.outcome, c.timeout, c.then)
}

func dialBody(c dcfg) func() {
	return func() {
		vsys.Configure(false, false)
		conf := nbio.Config{Name: "c03d", NPoller: 1, ReadBufferSize: 8}
		c.mode.Apply(&conf)
		g := nbio.NewEngine(conf)
		closes := 0
		var closeErr error
		g.OnClose(func(cc *nbio.Conn, err error) { closes++; closeErr = err })
		if err := g.Start(); err != nil {
			vsched.Fail("harness|engine start: %v", err)
			return
		}
		if c.outcome == "immediate" {
			vsys.SetDialPlan(vsys.DialPlan{Immediate: true})
		}
		calls := 0
		var cbErr error
		var cbConn *nbio.Conn
		estAtCB := false
		cb := func(cc *nbio.Conn, err error) {
			calls++
			cbErr = err
			cbConn = cc
			if ds := vsys.Dials(); len(ds) > 0 {
				estAtCB = ds[0].Established()
			}
		}
		var derr error
		if c.timeout {
			derr = g.DialAsyncTimeout("tcp", "127.0.0.1:80", 5*time.Second, cb)
		} else {
			derr = g.DialAsync("tcp", "127.0.0.1:80", cb)
		}
		if derr != nil {
			vsched.Fail("harness|DialAsync returned %v", derr)
			return
		}
		var peer *vsys.Peer
		vsched.GoNamed("network", func() {
			ds := vsys.Dials()
			if len(ds) == 0 {
				return
			}
			switch c.outcome {
			case "accept":
				peer = ds[0].Accept()
			case "refuse":
				ds[0].Refuse()
			case "immediate":
				peer = ds[0].Peer()
			}
		})
		vsched.WaitIdle()
		for vtime.FireNext() {
			vsched.WaitIdle()
		}
		if c.then == "stop" && calls == 0 {
			// the engine is stopped while the connect is still pending
			g.Stop()
			vsched.WaitIdle()
		}
		var fails []string
		expectSuccess := c.outcome == "accept" || c.outcome == "immediate"
		owed := c.outcome != "never" || c.timeout || c.then == "stop"
		if calls == 0 && !owed {
			// a connect that never completes and has no timeout owes no callback yet
		} else if calls != 1 {
			fails = append(fails, fmt.Sprintf("dial-callback-count %d outcome=%s timeout=%v|the dial callback was invoked %d times (connect outcome: %s, timeout armed: %v)", calls, c.outcome, c.timeout, calls, c.outcome, c.timeout))
		} else {
			if cbErr == nil && !estAtCB {
				fails = append(fails, fmt.Sprintf("dial-false-success outcome=%s|the dial callback reported success but the connection never reached ESTABLISHED (connect outcome: %s)", c.outcome, c.outcome))
			}
			if cbErr != nil && expectSuccess && !c.timeout {
				fails = append(fails, fmt.Sprintf("dial-false-failure|the connection was established but the callback reported %v", cbErr))
			}
		}
		if calls == 1 && cbErr == nil && estAtCB && cbConn != nil {
			switch c.then {
			case "close":
				_ = cbConn.Close()
			case "fin":
				if peer != nil {
					peer.CloseWrite()
				}
			}
			vsched.WaitIdle()
			for vtime.FireNext() {
				vsched.WaitIdle()
			}
			if c.then != "none" && closes != 1 {
				fails = append(fails, fmt.Sprintf("close-count %d dialed|a successfully dialed connection ended by %s got %d close notifications (err %v)", closes, c.then, closes, closeErr))
			}
			if c.then == "none" && closes != 0 {
				fails = append(fails, fmt.Sprintf("dial-stale-timer|an established dialed connection was closed with %v although nothing ended it (stale dial timeout?)", closeErr))
			}
		}
		lastCounters = map[string]int{"callbacks": calls, "timers_fired": vtime.Fired()}
		lastOutcome = fmt.Sprintf("calls=%d err=%s closes=%d", calls, errClass(cbErr), closes)
		for _, f := range fails {
			vsched.Fail("%s", f)
		}
	}
}

func check(r *vsched.Result) string {
	for _, b := range r.Blocked {
		if b.Name == "main" || strings.HasPrefix(b.Name, "cause") || b.Name == "network" {
			return fmt.Sprintf("stuck %s|thread %s blocked at the end (%s)", strings.TrimLeft(b.Name, "cause0123456789-"), b.Name, b.Why)
		}
	}
	return ""
}

func build(tier string) []*vkit.Scenario {
	thorough := tier == "thorough"
	var out []*vkit.Scenario
	add := func(name string, body func(), p, d int) {
		out = append(out, &vkit.Scenario{Name: name, Body: body, Check: check, P: p, D: d,
			Counters: func() map[string]int { return lastCounters }, Outcome: func() string { return lastOutcome },
			NonTrivial: func(m map[string]int) bool { return m["closed"] > 0 || m["callbacks"] > 0 }})
	}
	singles := []string{"close", "e1", "fin", "rst+write", "rst+writev", "overflow-writev", "backlog+rst", "rst+sendfile", "overflow", "rdeadline", "wdeadline", "stop"}
	pairs := [][]string{
		{"close", "close2"}, {"close", "e1"}, {"e1", "e2"}, {"close", "fin"}, {"e1", "rst+write"}, {"close", "overflow"},
		{"e1", "rdeadline"}, {"close", "stop"}, {"fin", "stop"}, {"fin", "rst+write"}, {"overflow", "fin"}, {"e1", "wdeadline"},
		{"rdeadline", "wdeadline"}, {"stop", "overflow"}, {"close", "backlog+rst"}, {"e1", "rst+sendfile"}, {"close", "rst+writev"}, {"e1", "overflow-writev"},
	}
	triples := [][]string{{"close", "e1", "fin"}, {"close", "close2", "stop"}, {"e1", "e2", "rst+write"}, {"close", "overflow", "rdeadline"}}
	for _, m := range ekit.Modes {
		for _, o := range []string{"add", "accept", "udp"} {
			for _, s := range singles {
				if o == "udp" && (s == "fin" || strings.Contains(s, "rst") || strings.HasPrefix(s, "overflow")) {
					continue
				}
				c := cfg{mode: m, origin: o, causes: []string{s}, p: 2}
				if thorough {
					c.p = 3
				}
				add(c.name(), body(c), c.p, 0)
			}
			for _, pr := range pairs {
				if o == "udp" && (strings.Contains(strings.Join(pr, " "), "fin") || strings.Contains(strings.Join(pr, " "), "rst") || strings.Contains(strings.Join(pr, " "), "overflow")) {
					continue
				}
				if o == "accept" && !thorough && m != ekit.LT {
					continue
				}
				c := cfg{mode: m, origin: o, causes: pr, p: 2}
				if thorough {
					c.p = 3
				}
				add(c.name(), body(c), c.p, 0)
			}
			if o == "add" {
				for _, tr := range triples {
					c := cfg{mode: m, origin: o, causes: tr, p: 1}
					if thorough {
						c.p = 2
					}
					add(c.name(), body(c), c.p, 0)
				}
			}
		}
		// a connection that is still being registered when it is ended
		for _, o := range []string{"add-racing", "accept-racing"} {
			for _, cs := range [][]string{{"stop"}, {"close"}, {"e1"}, {"close", "stop"}} {
				if len(cs) == 2 && !thorough && m != ekit.LT {
					continue
				}
				c := cfg{mode: m, origin: o, causes: cs, p: 2}
				if thorough {
					c.p = 3
				}
				add(c.name(), body(c), c.p, 0)
			}
		}
		// a datagram socket that reads for itself
		for _, cs := range [][]string{{"close"}, {"e1"}, {"rdeadline"}, {"stop"}, {"close", "e1"}} {
			c := cfg{mode: m, origin: "udp-dial", causes: cs, p: 2}
			if thorough {
				c.p = 3
			}
			add(c.name(), body(c), c.p, 0)
		}
		if m == ekit.ET {
			// asynchronous read: a peer shutdown that arrives with, or while, input is handled by a
			// read task; alone and racing a local close
			for _, ex := range []string{"go", "default", "inline"} {
				if ex == "inline" && !thorough {
					continue
				}
				for _, cs := range [][]string{{"fin"}, {"data+fin"}, {"data+fin", "close"}, {"data+fin", "e1"}, {"rst+write"}, {"data+fin", "stop"}} {
					if len(cs) == 2 && ex == "default" && !thorough {
						continue
					}
					c := cfg{mode: m, origin: "add", causes: cs, p: 2, async: ex}
					if thorough {
						c.p = 3
					}
					add(c.name(), body(c), c.p, 0)
				}
			}
		}
		for _, oc := range []string{"accept", "refuse", "never", "immediate"} {
			for _, to := range []bool{false, true} {
				thens := []string{"close"}
				if oc == "accept" || oc == "immediate" {
					thens = []string{"close", "fin", "none"}
				}
				if oc == "never" && !to {
					thens = []string{"close", "stop"}
				}
				for _, th := range thens {
					c := dcfg{mode: m, outcome: oc, timeout: to, then: th, p: 2}
					if thorough {
						c.p = 3
					}
					add(c.name(), dialBody(c), c.p, 0)
				}
			}
		}
	}
	return out
}

func main() {
	defer ekit.CleanupFiles()
	vkit.Main(&vkit.Spec{
		Property: "C03", Level: "model_checking",
		Rule: "one scenario = epoll mode x origin (AddConn, accepted, either of them still being registered when the causes are raised, UDP session, UDP socket that reads for itself, async dial with outcome connected/refused/never/immediate and optional timeout) x 1-3 close causes raised concurrently (Close x2, CloseWithError x2, peer FIN, peer FIN behind input that is being handled, also with asynchronous reading on three executors, peer RST + write, overflow, read/write deadline on virtual time, Engine.Stop); every interleaving within the preemption bound; non-trivial = the connection was closed / the dial callback ran",
		Assumptions: []string{
			"once the connection is closed, Write is tried with a one-byte, a three-byte, a nil and an empty argument and Writev with nil, no buffer, one / two empty buffers, a nil buffer and one / two non-empty buffers: each must report the closed connection (an empty argument is not a reason to skip the closed indication), Sendfile and Execute likewise, and none may issue a system call on the descriptor",
			"'the reported error is the first cause' is required when a closing call returned before any other cause was raised; otherwise the error must be one of the raised causes",
			"fatal I/O errors come from a peer reset (read: ECONNRESET, write: EPIPE); a reset seen through epoll is reported as EOF by nbio and accepted as such",
			"a dial without timeout whose connect never completes owes no callback until something ends it; with a timeout exactly one callback (with an error) is owed after the timeout fired",
			"virtual time: deadline timers fire only when the harness lets them (after quiescence) or as an explorer choice",
		},
		UsesSimulatedKernel: true,
		Build:               build, QuickBudget: 40 * time.Second, ThoroughBudget: 10 * time.Minute, MinNonTrivial: 50,
	})
}

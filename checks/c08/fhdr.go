// (e) the VALUE space of the framing header fields (added after the third-round seed C08-m5 was
// missed: list (d) had a handful of non-numeric Content-Length values and unsupported / repeated
// Transfer-Encoding values, none of them EMPTY or blanks-only, and an empty value ends while the
// parser is still in its "before the value" state, a different code path).
//
// For each framing header (Content-Length, Transfer-Encoding) every value class
//
//	empty | blanks only (SP, several SP, HT, mixed) | valid | valid with leading / trailing blanks |
//	CL: sign, plus, hex, overflow, list, inner blank, non-digit, leading zeros |
//	TE: mixed case, unknown coding, parameters, lists (chunked first / last / twice, empty elements)
//
// on a single line, every ordered pair of a representative value set on two lines (valid +
// invalid, invalid + valid, equal, different), every Content-Length x Transfer-Encoding
// combination in both orders; x position of the lines in the header block (before / after /
// around another header) x body present / absent x request / response, each continued by a valid
// message and fed in one piece, at every single cut and byte-at-a-time to both processors.
//
// The verdict comes from httpgen.FramingHeaderRef (RFC 7230 3.3.1 - 3.3.3 + the property's
// wording; no code shared with nbhttp): "reject" blocks are judged (Parse must return an error,
// the message must never be delivered); "accept" and "either" blocks (identical repeated
// Content-Length, Content-Length next to a valid chunked, "chunked," with an empty list element)
// are executed for robustness and counted with what nbhttp and net/http did.
package main

import (
	"bufio"
	"bytes"
	"fmt"
	"io"
	"net/http"
	"strings"

	"verif/seqx/httpgen"
	"verif/track"
)

type fhSet struct {
	lines []httpgen.FHLine
	desc  string
	wide  bool
}

const (
	hCL = "Content-Length"
	hTE = "Transfer-Encoding"
)

var (
	clSingle = []string{"", " ", "   ", "\t", " \t ", "3", " 3", "3 ", "  3  ", "\t3", "3\t", "003", "0", "-1", "-0", "+3", "+0", "- 3", "0x3", "0X3", "a", "3a", "x",
		"3.0", "1e1", "3 3", "3, 3", "3,3", "3, 4", "3;", "9223372036854775807", "9223372036854775808", "18446744073709551616", "00000000000000000000003", "99999999999999999999"}
	clPair   = []string{"", " ", "3", " 3 ", "03", "4", "x", "-1", "+3", "3x", "0", "9223372036854775808"}
	teSingle = []string{"", " ", "   ", "\t", " \t ", "chunked", " chunked", "chunked ", "  chunked  ", "\tchunked", "chunked\t", "Chunked", "CHUNKED", "gzip", "identity", "x", "chunke",
		"chunkedx", "xchunked", "chunked;q=1", "chunked, gzip", "gzip, chunked", "gzip,chunked", "chunked, chunked", "chunked,chunked", "chunked,", ", chunked", ",", "chunked , ", "identity, chunked", "deflate"}
	tePair = []string{"", " ", "chunked", " Chunked ", "gzip", "identity", "x", "chunked, gzip", "gzip, chunked"}
	clMix  = []string{"3", " 3 ", "", " ", "x", "-1", "+3", "4", "0"}
	teMix  = []string{"chunked", " Chunked ", "", " ", "\t", "gzip", "identity", "chunked, gzip", "gzip, chunked", "chunked, chunked", "chunked,", "x"}
)

func fhSets() []fhSet {
	var out []fhSet
	add := func(desc string, lines ...httpgen.FHLine) { out = append(out, fhSet{lines: lines, desc: desc}) }
	add("no framing header")
	for _, v := range clSingle {
		add(fmt.Sprintf("CL %q", v), httpgen.FHLine{Name: hCL, Val: v})
	}
	for _, v := range teSingle {
		add(fmt.Sprintf("TE %q", v), httpgen.FHLine{Name: hTE, Val: v})
	}
	for _, a := range clPair {
		for _, b := range clPair {
			add(fmt.Sprintf("CL %q + CL %q", a, b), httpgen.FHLine{Name: hCL, Val: a}, httpgen.FHLine{Name: hCL, Val: b})
		}
	}
	for _, a := range tePair {
		for _, b := range tePair {
			add(fmt.Sprintf("TE %q + TE %q", a, b), httpgen.FHLine{Name: hTE, Val: a}, httpgen.FHLine{Name: hTE, Val: b})
		}
	}
	for _, c := range clMix {
		for _, t := range teMix {
			add(fmt.Sprintf("CL %q + TE %q", c, t), httpgen.FHLine{Name: hCL, Val: c}, httpgen.FHLine{Name: hTE, Val: t})
			add(fmt.Sprintf("TE %q + CL %q", t, c), httpgen.FHLine{Name: hTE, Val: t}, httpgen.FHLine{Name: hCL, Val: c})
		}
	}
	// Trailer is not framing metadata in the sense of the property (a forbidden field name in
	// Trailer is a sender rule, RFC 7230 4.1.2): its value classes are run for robustness only
	for _, v := range []string{"", " ", "\t", "A", " A ", "A,", "Content-Length", "A, Transfer-Encoding", "Trailer"} {
		add(fmt.Sprintf("TE %q + Trailer %q", "chunked", v), httpgen.FHLine{Name: hTE, Val: "chunked"}, httpgen.FHLine{Name: "Trailer", Val: v})
		add(fmt.Sprintf("Trailer %q + CL %q", v, "3"), httpgen.FHLine{Name: "Trailer", Val: v}, httpgen.FHLine{Name: hCL, Val: "3"})
	}
	// three lines: a repeated header around the other one
	for _, t := range []string{"chunked", ""} {
		for _, c := range []string{"3", "", "x"} {
			add(fmt.Sprintf("TE %q + CL %q + TE %q", t, c, "chunked"), httpgen.FHLine{Name: hTE, Val: t}, httpgen.FHLine{Name: hCL, Val: c}, httpgen.FHLine{Name: hTE, Val: "chunked"})
			add(fmt.Sprintf("CL %q + TE %q + CL %q", c, t, "3"), httpgen.FHLine{Name: hCL, Val: c}, httpgen.FHLine{Name: hTE, Val: t}, httpgen.FHLine{Name: hCL, Val: "3"})
		}
	}
	return out
}

// fhStream renders one message: start line, one fixed header, the framing lines placed
// before (0) / after (1) / around (2) the header "X-A: v", blank line, optional body.
func fhStream(set fhSet, client bool, place int, body bool) []byte {
	var b bytes.Buffer
	if client {
		b.WriteString("HTTP/1.1 200 OK\r\nX-H: h\r\n")
	} else {
		b.WriteString("POST / HTTP/1.1\r\nHost: h\r\n")
	}
	line := func(l httpgen.FHLine) { b.WriteString(l.Name + ":" + l.Val + "\r\n") }
	const other = "X-A: v\r\n"
	switch {
	case place == 1:
		b.WriteString(other)
		for _, l := range set.lines {
			line(l)
		}
	case place == 2 && len(set.lines) > 1:
		line(set.lines[0])
		b.WriteString(other)
		for _, l := range set.lines[1:] {
			line(l)
		}
	default:
		for _, l := range set.lines {
			line(l)
		}
		b.WriteString(other)
	}
	b.WriteString("\r\n")
	if body {
		chunked := false
		for _, l := range set.lines {
			if l.Name == hTE && strings.Contains(strings.ToLower(l.Val), "chunked") {
				chunked = true
			}
		}
		if chunked {
			b.WriteString("3\r\nabc\r\n0\r\n\r\n")
		} else {
			b.WriteString("abc")
		}
	}
	return b.Bytes()
}

// netHTTPVerdict is what Go's net/http does with the message (informant for the classification
// only, never part of the oracle).
func netHTTPVerdict(msg []byte, client bool) string {
	br := bufio.NewReader(bytes.NewReader(msg))
	if client {
		res, err := http.ReadResponse(br, &http.Request{Method: "GET"})
		if err != nil {
			return "reject"
		}
		// a response without framing is read to EOF, which is no error
		_, _ = io.Copy(io.Discard, res.Body)
		return "accept"
	}
	req, err := http.ReadRequest(br)
	if err != nil {
		return "reject"
	}
	if _, err := io.Copy(io.Discard, req.Body); err != nil && err != io.ErrUnexpectedEOF {
		return "reject"
	}
	return "accept"
}

type fhIn struct {
	*httpgen.CaseInput
	Lines []httpgen.FHLine `json:"lines"`
}

// fhJudge: a header block the reference rejects must end in an error before its message is
// delivered.
func fhJudge(ref httpgen.FHRef, c *httpgen.Case, r *httpgen.Result) *[2]string {
	if ref.Verdict != httpgen.FHReject {
		return nil
	}
	switch {
	case len(r.CompleteAt) > 0:
		return &[2]string{"malformed-framing-accepted " + ref.Reason, fmt.Sprintf("the message with the malformed framing header(s) was delivered (%d message(s) completed, verdict %q, processor %s)", len(r.CompleteAt), r.Verdict, c.Mode)}
	case r.Verdict == "":
		return &[2]string{"malformed-framing-not-rejected " + ref.Reason, fmt.Sprintf("no Parse call returned an error although the stream continues with a complete valid message (processor %s)", c.Mode)}
	}
	return nil
}

func (e *evaluator) fhItem(set fhSet, thorough bool) {
	p := e.p
	ref := httpgen.FramingHeaderRef(set.lines)
	p.Count("e.header_blocks", 1)
	p.Count("e.header_blocks reference="+ref.Verdict.String(), 1)
	p.Count("e.header_blocks reference="+ref.Verdict.String()+" "+ref.Reason, 1)
	places := 2
	if len(set.lines) > 1 {
		places = 3
	}
	if len(set.lines) == 0 {
		places = 1
	}
	for _, client := range []bool{false, true} {
		tail := tailReq
		if client {
			tail = tailRes
		}
		for place := 0; place < places; place++ {
			for _, body := range []bool{true, false} {
				msg := fhStream(set, client, place, body)
				stream := append(append([]byte(nil), msg...), tail...)
				side := "request"
				if client {
					side = "response"
				}
				desc := fmt.Sprintf("%s: %s, lines at place %d, body=%v", side, set.desc, place, body)
				p.Count("e.streams", 1)
				judged, rejected, cases := 0, 0, 0
				for _, mode := range []httpgen.Mode{httpgen.Rec, httpgen.Real} {
					c := &httpgen.Case{Stream: stream, Client: client, Mode: mode, ReadLimit: -1, Policy: track.Pooled, Lite: true, Probe: true}
					one := func(part string) *httpgen.Result {
						r := httpgen.Run(c, false)
						e.judge(c, r, part, desc)
						cases++
						if ref.Verdict == httpgen.FHReject {
							judged++
							if v := fhJudge(ref, c, r); v != nil {
								p.Report(v[0], v[1]+" | "+desc, scenario, &fhIn{c.Input("e.fhdr: " + desc), set.lines})
							} else {
								rejected++
							}
						}
						return r
					}
					r := one("e.one-piece")
					if mode == httpgen.Real && place == 0 && body {
						nb := "accept"
						if r.Verdict != "" && len(r.CompleteAt) == 0 {
							nb = "reject"
						}
						p.Count(fmt.Sprintf("e.classification %s reference=%s nethttp=%s nbhttp=%s %s", side, ref.Verdict, netHTTPVerdict(msg, client), nb, ref.Reason), 1)
						p.Outcome("framing-header " + ref.Reason + " -> " + httpgen.ErrKind(r.Verdict))
						if ref.Verdict == httpgen.FHAccept && nb == "reject" {
							p.Count("e.valid_form_rejected(not judged by C08) "+set.desc, 1)
						}
					}
					httpgen.SingleCuts(len(stream), func(cuts []int) { c.Cuts = cuts; one("e.single-cut") })
					if thorough && mode == httpgen.Real && place == 0 && body {
						httpgen.DoubleCutsAll(len(stream), func(cuts []int) { c.Cuts = cuts; one("e.double-cut") })
					}
					c.Cuts, c.Every = nil, 1
					one("e.byte-at-a-time")
				}
				p.Count("e.cases_judged", judged)
				p.Count("e.cases_rejected", rejected)
				p.Count("e.cases_not_judged", cases-judged)
			}
		}
	}
}

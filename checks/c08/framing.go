// (d2) the framing CR/LF neighbourhood: the systematic replacement of the former hand-picked
// list "every structural CRLF with its CR or its LF removed over 10 base messages".
//
// For every base stream of a small framing grammar (requests and responses; no body,
// Content-Length, chunked x chunk lists x extensions x trailers; header-set variants; pipelines)
// and for EVERY CR and EVERY LF that the generator recorded as message framing (request / status
// line end, every header line end, header-block end, chunk-size line ends, chunk-data
// terminators, last-chunk line, trailer lines, final blank line) the neighbours
//
//	delete the byte | replace it by each byte of a replacement alphabet | CR->LF, LF->CR | swap CR LF
//
// are built, continued by a valid message (directly and behind an empty line), and fed in one
// piece, at every single cut and byte-at-a-time (core bases: double cuts with one cut next to
// the change; thorough: every double cut) to the real processors and to the recording processor.
//
// Whether a neighbour has to be rejected is decided by httpgen.StrictFraming, a strict
// recogniser that shares no code with nbhttp: only when it finds a CR/LF framing error in
// message k is the case judged (message k must never complete and some Parse call must return an
// error); a neighbour that is another well-formed stream (e.g. the LF of the header-block end
// deleted in front of a Content-Length body that starts with LF) or merely incomplete is counted
// as not judged. The recogniser itself is checked on every unchanged base.
package main

import (
	"bytes"
	"fmt"
	"strings"

	"verif/seqx/httpgen"
	"verif/track"
)

type fbase struct {
	m      *httpgen.Msg
	client bool
	core   bool // the quick tier also enumerates double cuts around the change for the deletions
	wide   bool // thorough-only base
}

var (
	tailReq = "GET /next HTTP/1.1\r\nHost: h\r\n\r\n"
	tailRes = "HTTP/1.1 200 OK\r\nContent-Length: 0\r\n\r\n"
	// replacement bytes for a framing CR / LF (the other byte of the pair is always tried too)
	replQuick    = []byte{'X', ' ', '\t', '0', ':'}
	replThorough = []byte{'X', ' ', '\t', 0, '0', ':', ';', ',', 'a', 0x7f, 0x80, 0xff}
)

func plain(n int) []byte { return bytes.Repeat([]byte("d"), n) }

// framingBases enumerates the base streams of (d2).
func framingBases(thorough bool) []fbase {
	var out []fbase
	seen := map[string]bool{}
	add := func(m *httpgen.Msg, client, core, wide bool, desc string) {
		if wide && !thorough {
			return
		}
		key := fmt.Sprint(client) + string(m.B)
		if seen[key] {
			return
		}
		seen[key] = true
		side := "req "
		if client {
			side = "res "
		}
		m.Desc = side + desc
		out = append(out, fbase{m, client, core, wide})
	}
	type hset struct {
		name  string
		hs    []httpgen.Hdr
		first bool
	}
	host := httpgen.Hdr{Name: "Host", Val: " h"}
	xa := httpgen.Hdr{Name: "X-A", Val: " v"}
	hsets := []hset{
		{"hdr=Host,X-A", []httpgen.Hdr{host, xa}, false},
		{"hdr=none", nil, false},
		{"hdr=Host", []httpgen.Hdr{host}, false},
		{"hdr=X-A(empty)", []httpgen.Hdr{{Name: "X-A", Val: ""}}, false},
		{"hdr=X-B(ows)", []httpgen.Hdr{{Name: "X-B", Val: "  v  "}}, false},
		{"hdr=Host,SP-X-Fold", []httpgen.Hdr{host, {Name: " X-Fold", Val: " v"}}, false},
		{"hdr=Host,X-A,framing-first", []httpgen.Hdr{host, xa}, true},
	}
	type body struct {
		name string
		b    httpgen.Body
		wide bool
	}
	bodies := []body{
		{"nobody", httpgen.Body{Kind: httpgen.BodyNone}, false},
		{"cl=0", httpgen.Body{Kind: httpgen.BodyCL, Data: []byte{}}, false},
		{"cl=3", httpgen.Body{Kind: httpgen.BodyCL, Data: plain(3)}, false},
		{"cl=3(LF-first)", httpgen.Body{Kind: httpgen.BodyCL, Data: []byte("\nbc")}, false},
		{"cl=2(CRLF)", httpgen.Body{Kind: httpgen.BodyCL, Data: []byte("\r\n")}, false},
		{"cl=4(CRLFCRLF)", httpgen.Body{Kind: httpgen.BodyCL, Data: []byte("\r\n\r\n")}, true},
	}
	chunkLists := []struct {
		name string
		c    [][]byte
	}{
		{"[3]", [][]byte{plain(3)}},
		{"[1,2]", [][]byte{plain(1), plain(2)}},
		// a two-digit chunk size: with a byte of the size line swallowed the rest is still a size
		{"[0x14]", [][]byte{plain(20)}},
		// data that looks like chunk framing (a guessing parser finds a consistent continuation)
		{"[abc,0CRLFCRLF]", [][]byte{[]byte("abc"), []byte("0\r\n\r\n")}},
		{"[LFab]", [][]byte{[]byte("\nab")}},
		// 0x14 bytes whose first 4 are followed by a complete chunked ending: "14" read as "4"
		{"[0x14:bodyCRLF0CRLFCRLF..]", [][]byte{[]byte("body\r\n0\r\n\r\nddddddddd")}},
	}
	exts := []struct {
		e    string
		wide bool
	}{{"", false}, {";x=y", false}, {" ", true}, {";q=\"a b\"", true}}
	trailers := []struct {
		name     string
		declared string
		t        []httpgen.Hdr
	}{
		{"trailers=0", "", nil},
		{"trailers=1", "A", []httpgen.Hdr{{Name: "A", Val: " 1"}}},
		{"trailers=2", "A, B-c", []httpgen.Hdr{{Name: "A", Val: " 1"}, {Name: "B-c", Val: " 22"}}},
		{"trailers=1(empty)", "A", []httpgen.Hdr{{Name: "A", Val: ""}}},
	}
	for _, cl := range chunkLists {
		for _, ex := range exts {
			for _, tr := range trailers {
				bodies = append(bodies, body{fmt.Sprintf("chunked%s ext=%q %s", cl.name, ex.e, tr.name),
					httpgen.Body{Kind: httpgen.BodyChunked, Chunks: cl.c, Ext: ex.e, Declared: tr.declared, Trailers: tr.t}, ex.wide})
			}
		}
	}
	bodies = append(bodies,
		body{"chunked[10,11] upper-hex trailers=1", httpgen.Body{Kind: httpgen.BodyChunked, Chunks: [][]byte{plain(10), plain(11)}, SizeFmt: 1, Declared: "A", Trailers: []httpgen.Hdr{{Name: "A", Val: " 1"}}}, false},
		body{"chunked[10,11] trailers=1", httpgen.Body{Kind: httpgen.BodyChunked, Chunks: [][]byte{plain(10), plain(11)}, Declared: "A", Trailers: []httpgen.Hdr{{Name: "A", Val: " 1"}}}, false},
		body{"chunked[3] size=003", httpgen.Body{Kind: httpgen.BodyChunked, Chunks: [][]byte{plain(3)}, SizeFmt: 2}, false},
		body{"chunked[3] last-chunk-ext", httpgen.Body{Kind: httpgen.BodyChunked, Chunks: [][]byte{plain(3)}, LastExt: ";l=1"}, false},
		body{"chunked[3] last-chunk-ext trailers=1", httpgen.Body{Kind: httpgen.BodyChunked, Chunks: [][]byte{plain(3)}, LastExt: ";l=1", Declared: "A", Trailers: []httpgen.Hdr{{Name: "A", Val: " 1"}}}, true},
	)
	// the bases of the former list keep their every-double-cut enumeration in the quick tier
	core := map[string]bool{"nobody": true, "cl=3": true, `chunked[3] ext="" trailers=0`: true, `chunked[1,2] ext=";x=y" trailers=2`: true,
		"chunked[10,11] trailers=1": true, `chunked[abc,0CRLFCRLF] ext=";x=y" trailers=0`: true}
	// header variants are combined with these bodies only in the quick tier
	narrow := map[string]bool{"nobody": true, "cl=3": true, `chunked[3] ext="" trailers=0`: true, `chunked[1,2] ext=";x=y" trailers=2`: true}

	mkReq := func(hs hset, b body, target, version string) *httpgen.Msg {
		method := "POST"
		if b.b.Kind == httpgen.BodyNone {
			method = "GET"
		}
		return (&httpgen.Req{Method: method, Target: target, Version: version, Headers: hs.hs, Body: b.b, FramingFirst: hs.first}).Build()
	}
	mkRes := func(hs hset, b body, status, version string) *httpgen.Msg {
		if status == "" {
			status = "200 OK"
			if b.b.Kind == httpgen.BodyNone {
				status = "204 No Content"
			}
		}
		return (&httpgen.Res{Version: version, Status: status, Headers: hs.hs, Body: b.b, FramingFirst: hs.first}).Build()
	}
	for hi, hs := range hsets {
		for _, b := range bodies {
			if hi > 0 && b.wide {
				continue // the widest bodies are combined with the first header set only
			}
			wide := b.wide || (hi > 0 && !narrow[b.name])
			isCore := hi == 0 && core[b.name]
			desc := b.name + " " + hs.name
			add(mkReq(hs, b, "/", "HTTP/1.1"), false, isCore, wide, desc)
			add(mkRes(hs, b, "", "HTTP/1.1"), true, isCore, wide, desc)
		}
	}
	// start-line variants
	h0 := hsets[0]
	for _, b := range bodies[:5] {
		add(mkReq(h0, b, "/a?b=c", "HTTP/1.1"), false, false, b.name != "cl=3", b.name+" target=/a?b=c")
		add(mkReq(h0, b, "*", "HTTP/1.0"), false, false, b.name != "nobody", b.name+" target=* HTTP/1.0")
		add(mkRes(h0, b, "404 Not Found", "HTTP/1.1"), true, false, b.name != "cl=3", b.name+" status=404 Not Found")
		add(mkRes(h0, b, "200 OK", "HTTP/1.0"), true, false, b.name != "cl=0", b.name+" HTTP/1.0")
	}
	add(mkRes(h0, bodies[6], "404 Not Found", "HTTP/1.1"), true, false, false, bodies[6].name+" status=404 Not Found")
	// an empty reason-phrase is well-formed (RFC 7230 3.1.2: reason-phrase = *( HTAB / SP / VCHAR / obs-text ))
	add(mkRes(h0, bodies[0], "200 ", "HTTP/1.1"), true, false, false, "nobody status=200 (empty reason-phrase)")
	// pipelines: the changed CR/LF lies in the first or in a later message
	find := func(name string) body {
		for _, b := range bodies {
			if b.name == name {
				return b
			}
		}
		panic("no body " + name)
	}
	pipes := [][]string{
		{"nobody", "cl=3"},
		{"cl=3", `chunked[1,2] ext=";x=y" trailers=2`},
		{`chunked[3] ext="" trailers=0`, "nobody"},
		{`chunked[0x14] ext="" trailers=0`, `chunked[3] ext="" trailers=1`},
		{"cl=3(LF-first)", "cl=3"},
		{"cl=0", `chunked[LFab] ext="" trailers=0`, "cl=2(CRLF)"},
	}
	for _, client := range []bool{false, true} {
		for _, pl := range pipes {
			var ms []*httpgen.Msg
			for _, n := range pl {
				if client {
					ms = append(ms, mkRes(h0, find(n), "", "HTTP/1.1"))
				} else {
					ms = append(ms, mkReq(h0, find(n), "/", "HTTP/1.1"))
				}
			}
			add(httpgen.Pipeline(ms...), client, false, false, "pipeline["+strings.Join(pl, " | ")+"]")
		}
	}
	return out
}

type framingIn struct {
	*httpgen.CaseInput
	Kind string `json:"kind"`
}

// framingJudge applies the (d2) oracle to one executed case. It returns the violation (nil when
// the case passed or is not judged) and whether the case was judged.
func framingJudge(kind string, c *httpgen.Case, ref httpgen.Ref, r *httpgen.Result) (v *[2]string, judged bool) {
	if ref.Status != httpgen.RefFraming {
		return nil, false
	}
	if c.Mode == httpgen.Rec && !c.Client && ref.Line == "start-line" {
		// the request line's version token is validated by the Processor (OnProto), not by the
		// parser's state machine: a recording Processor accepts any token
		return nil, false
	}
	delivered := len(r.CompleteAt)
	where := func() string {
		return fmt.Sprintf("the strict recogniser finds %s at offset %d (%s of message %d)", ref.Why, ref.Off, ref.Line, ref.Complete)
	}
	switch {
	case delivered > ref.Complete:
		return &[2]string{"malformed-framing-accepted " + kind, fmt.Sprintf("%s, but the message was reported complete (%d message(s) completed, verdict %q, processor %s)", where(), delivered, r.Verdict, c.Mode)}, true
	case r.Verdict == "":
		return &[2]string{"malformed-framing-not-rejected " + kind, fmt.Sprintf("%s, but no Parse call returned an error although the whole stream was fed (processor %s): the parser consumed the following bytes as part of a guessed framing", where(), c.Mode)}, true
	}
	return nil, true
}

// framingSelfCheck: the unchanged base, continued by a valid message, must be well-formed for
// the recogniser AND accepted by nbhttp with the same number of messages; otherwise the
// neighbourhood of this base would be judged against a wrong reference.
func (e *evaluator) framingSelfCheck(fb fbase, count bool) bool {
	p := e.p
	tail := tailReq
	if fb.client {
		tail = tailRes
	}
	s := append(append([]byte(nil), fb.m.B...), tail...)
	ref := httpgen.StrictFraming(s)
	want := len(fb.m.Ends) + 1
	ok := ref.Status == httpgen.RefOK && ref.Complete == want
	for _, mode := range []httpgen.Mode{httpgen.Rec, httpgen.Real} {
		c := &httpgen.Case{Stream: s, Client: fb.client, Mode: mode, ReadLimit: -1, Policy: track.Pooled, Lite: true, Probe: true}
		for _, every := range []int{0, 1} {
			c.Every = every
			r := httpgen.Run(c, false)
			if count {
				e.judge(c, r, "d2.base", fb.m.Desc)
			}
			if r.Verdict != "" || len(r.CompleteAt) != want {
				ok = false
			}
			if !ok {
				p.Report("d2-reference-self-check-failed", fmt.Sprintf("unchanged base: recogniser says %s with %d complete message(s), nbhttp (%s) verdict %q with %d, expected %d | %s",
					ref.Status, ref.Complete, mode, r.Verdict, len(r.CompleteAt), want, fb.m.Desc), scenario, c.Input("d2.base: "+fb.m.Desc))
				return false
			}
		}
	}
	if count {
		p.Count("d2.bases_self_checked", 1)
	}
	return true
}

// framingStreams builds, for ONE framing CRLF of one base, every neighbour x continuation and
// hands it to f together with the recogniser's verdict.
func framingStreams(fb fbase, eol httpgen.EOL, thorough bool, f func(nb *httpgen.FramingNeighbour, ti int, kind, desc string, stream []byte, ref httpgen.Ref)) {
	repl := replQuick
	tails := []string{tailReq, "\r\n" + tailReq}
	if fb.client {
		tails = []string{tailRes, "\r\n" + tailRes}
	}
	if thorough {
		repl = replThorough
		// an LF-first continuation supplies a deleted final LF: a well-formed stream again
		tails = append(tails, "\n"+tails[0])
	}
	framing := fb.m.Framings[eol.Msg]
	httpgen.FramingNeighbours(fb.m.B, eol, repl, func(nb *httpgen.FramingNeighbour) {
		kind := nb.Kind + " line=" + eol.Line + " framing=" + framing
		for ti, tail := range tails {
			stream := append(append([]byte(nil), nb.B...), tail...)
			desc := fmt.Sprintf("%s: %s at offset %d (%s, message %d), continuation %d", fb.m.Desc, nb.Detail, nb.At, eol.Line, eol.Msg, ti)
			f(nb, ti, kind, desc, stream, httpgen.StrictFraming(stream))
		}
	})
}

// framingRun executes one segmentation of one stream and applies all oracles.
func (e *evaluator) framingRun(c *httpgen.Case, part, kind, desc string, ref httpgen.Ref, judgedN, rejectedN *int) *httpgen.Result {
	r := httpgen.Run(c, false)
	e.judge(c, r, part, desc)
	v, judged := framingJudge(kind, c, ref, r)
	if judged {
		*judgedN++
	}
	if v != nil {
		e.p.Report(v[0], v[1]+" | "+desc, scenario, &framingIn{c.Input("d2.framing: " + desc), kind})
	} else if judged {
		*rejectedN++
	}
	return r
}

// framingItem enumerates the neighbourhood of ONE framing CRLF of one base: every neighbour x
// continuation x {one piece, every single cut, byte-at-a-time} with the real processor, and
// {one piece, the cuts around the changed byte, byte-at-a-time} with the recording processor.
func (e *evaluator) framingItem(fb fbase, eol httpgen.EOL, thorough bool) {
	p := e.p
	framing := fb.m.Framings[eol.Msg]
	p.Count("d2.framing_crlf_pairs", 1)
	p.Count("d2.framing_cr_lf_positions", 2)
	p.Count("d2.positions line="+eol.Line+" framing="+framing, 2)
	framingStreams(fb, eol, thorough, func(nb *httpgen.FramingNeighbour, ti int, kind, desc string, stream []byte, ref httpgen.Ref) {
		if ti == 0 {
			p.Count("d2.neighbours", 1)
		}
		p.Count("d2.streams", 1)
		p.Count("d2.streams reference="+ref.Status.String(), 1)
		if ref.Status == httpgen.RefFraming {
			p.Count("d2.streams_to_be_rejected "+nb.Kind, 1)
			p.Count("d2.streams_to_be_rejected line="+eol.Line+" framing="+framing, 1)
		} else {
			p.Count("d2.streams_not_judged "+nb.Detail+" line="+eol.Line+" reference="+ref.Status.String(), 1)
		}
		judged, rejected, cases := 0, 0, 0
		n := len(stream)
		verdicts := map[string]bool{}
		for _, mode := range []httpgen.Mode{httpgen.Rec, httpgen.Real} {
			c := &httpgen.Case{Stream: stream, Client: fb.client, Mode: mode, ReadLimit: -1, Policy: track.Pooled, Lite: true, Probe: true}
			one := func(part string) {
				r := e.framingRun(c, part, kind, desc, ref, &judged, &rejected)
				cases++
				if mode == httpgen.Real {
					verdicts[r.Verdict] = true
				}
			}
			one("d2.one-piece")
			if mode == httpgen.Real {
				httpgen.SingleCuts(n, func(cuts []int) { c.Cuts = cuts; one("d2.single-cut") })
			} else {
				for a := nb.At - 1; a <= nb.At+2; a++ {
					if a >= 1 && a < n {
						c.Cuts = []int{a}
						one("d2.cut-around-change(rec)")
					}
				}
			}
			c.Cuts, c.Every = nil, 1
			one("d2.byte-at-a-time")
		}
		p.Count("d2.cases_judged", judged)
		p.Count("d2.cases_rejected", rejected)
		p.Count("d2.cases_not_judged", cases-judged)
		for v := range verdicts {
			p.Outcome("framing " + nb.Kind + " line=" + eol.Line + " -> " + httpgen.ErrKind(v))
		}
	})
}

// framingDoubleItem: double cuts (real processor) of the neighbours of ONE framing CRLF whose
// kind is in kinds, continued directly and behind an empty line: all C(n-1,2) in the thorough
// tier, those with one cut within 3 bytes of the changed byte in the quick tier.
func (e *evaluator) framingDoubleItem(fb fbase, eol httpgen.EOL, thorough bool, kinds map[string]bool) {
	p := e.p
	framingStreams(fb, eol, thorough, func(nb *httpgen.FramingNeighbour, ti int, kind, desc string, stream []byte, ref httpgen.Ref) {
		if !kinds[nb.Detail] || ti >= 2 {
			return
		}
		judged, rejected, cases := 0, 0, 0
		c := &httpgen.Case{Stream: stream, Client: fb.client, Mode: httpgen.Real, ReadLimit: -1, Policy: track.Pooled, Lite: true, Probe: true}
		run := func(cuts []int) {
			c.Cuts = cuts
			e.framingRun(c, "d2.double-cut", kind, desc, ref, &judged, &rejected)
			cases++
		}
		if thorough {
			httpgen.DoubleCutsAll(len(stream), run)
			p.Count("d2.streams_with_every_double_cut", 1)
		} else {
			// quick: one cut within 3 bytes of the change, the other anywhere
			n := len(stream)
			near := func(x int) bool { return x >= nb.At-2 && x <= nb.At+3 }
			cuts := make([]int, 2)
			for a := 1; a < n; a++ {
				for b := a + 1; b < n; b++ {
					if near(a) || near(b) {
						cuts[0], cuts[1] = a, b
						run(cuts)
					}
				}
			}
			p.Count("d2.streams_with_double_cuts_around_change", 1)
		}
		p.Count("d2.cases_judged", judged)
		p.Count("d2.cases_rejected", rejected)
		p.Count("d2.cases_not_judged", cases-judged)
	})
}

// neighbour kinds that get every double cut: the deletions for the core bases in the quick
// tier, these for every base of the quick product in the thorough tier
var (
	doubleCutQuick    = []string{"missing-CR", "missing-LF"}
	doubleCutThorough = []string{"missing-CR", "missing-LF", "LF-replaced-by-'X'"}
)

// C08: HTTP parser robustness and bounds on arbitrary input.
//
// Bounded exhaustive enumeration on the real nbhttp.Parser (recording Processor and the real
// Server/ClientProcessor with handlers that read the body):
//
//	(a) ALL byte strings of length <= 4 (thorough: <= 6) over the 12-symbol alphabet
//	    "GET/ H1.:\r\n0" appended to each of 11 valid prefixes that park the parser in each
//	    macro-state (request line, header key, header value, Content-Length body, chunk size,
//	    chunk data, trailer; status line positions on the client side), fed as one piece, as
//	    prefix + suffix, and prefix + suffix byte-at-a-time;
//	(b) the single-mutation neighbourhood (16 replacement bytes, delete, duplicate at every
//	    position) of 20 base messages x one piece, every single cut, byte-at-a-time (thorough: with the real processors
//	    also every double cut);
//	(c) every combination of ReadLimit in {default, 16, 64} and MaxHTTPBodySize in {0, 4, 64} on
//	    messages whose tokens / bodies straddle those numbers (13..18 and 62..66 byte paths,
//	    header names, header values, Content-Length bodies, chunks, chunk sums, pipelines whose
//	    bodies only together exceed the limit), fed in one piece, every single cut and in pieces
//	    of 1, 7, limit-1, limit, limit+1 bytes;
//	(d) the malformed framing list (bad Content-Length, unsupported / repeated
//	    Transfer-Encoding, bad chunk sizes), each followed by a valid message, x one piece, every
//	    single cut, every double cut, byte-at-a-time;
//	(e) the value space of the framing header fields (fhdr.go): Content-Length and
//	    Transfer-Encoding x value classes {empty, blanks only (SP, several, HT, mixed), valid,
//	    valid with leading / trailing blanks, sign / plus / hex / overflow / list / non-digit
//	    forms for Content-Length, mixed case / unknown / parameter / list forms for
//	    Transfer-Encoding} on a single line, every ordered pair of a representative value set on
//	    two lines, every Content-Length x Transfer-Encoding combination in both orders, three-line
//	    forms; x position of the lines in the header block x body present / absent x request /
//	    response, continued by a valid message, x one piece, every single cut, byte-at-a-time
//	    (thorough: every double cut), both processors; judged by httpgen.FramingHeaderRef;
//	(d2) the framing CR/LF neighbourhood (framing.go): for every base of a framing grammar
//	    (requests and responses x {no body, Content-Length 0/3/LF-first/CRLF, chunked x 6 chunk
//	    lists (one and two hex digits, data that looks like chunk framing) x extension x
//	    0/1/2/empty-valued trailers} + header-set variants (none, one, empty value, OWS, SP-led
//	    line, framing header first) + start-line variants (target, HTTP/1.0, reason with SP, empty
//	    reason) + pipelines of 2-3 messages) and for EVERY CR and EVERY LF recorded by the
//	    generator as message framing (request / status line end, every header line end,
//	    header-block end, chunk-size line ends, chunk-data terminators, last-chunk line, trailer
//	    lines, final blank line): delete it, double it, replace it by each byte of an alphabet
//	    (always including the other byte of the pair), swap the pair, delete the pair; each
//	    neighbour is continued by a valid message (directly / behind an empty line) and fed in one
//	    piece, at every single cut and byte-at-a-time (core bases: deletions also at the double
//	    cuts around the change; thorough: three neighbour kinds at every double cut). It replaces
//	    the hand-picked list "every structural CRLF minus CR / minus LF over 10 bases", whose
//	    space had no witness for a parser that stops looking at ONE of these bytes unless the
//	    deletion happened to leave a stream the broken parser still accepts (single-hex-digit
//	    chunk sizes never did).
//
// Oracle: no recover() block logs a panic; every Parse returns (watchdog 30 s); after an error
// and the engine's reaction (CloseAndClean) further Parse calls return an error and produce no
// callback; after every call the carry-over buffer is <= ReadLimit + len(last read)
// (cross-checked against the allocator's live bytes); no message with a body larger than
// MaxHTTPBodySize is accepted; limits do not alter streams that stay within them; every input
// of (d) is rejected: Parse returns an error and the malformed message is never delivered;
// every neighbour of (d2) in which an independent strict recogniser (httpgen.StrictFraming)
// finds a CR/LF framing error in message k is rejected: message k never completes and some
// Parse call returns an error; neighbours that are again well-formed or merely incomplete
// (e.g. the LF of the header-block end deleted in front of a body that starts with LF, the
// final LF deleted in front of a continuation that starts with LF) are not judged.
//
// Deviations from DESIGN section 4 (C08): (d) is judged with the real processors only (the
// HTTP-version check lives in the Processor, a recording Processor accepts any version token);
// "rejected" is made precise as "an error is returned before the end of a stream that continues
// with a valid message, and the handler never sees the malformed message"; (c) adds a
// differential oracle (limits must not change the outcome of streams that stay within them) so
// that an off-by-one in either limit check is observable; like C06 the mass segmentations use
// the attribution-free isolating allocator of seqx/httpgen, not verif/track.
package main

import (
	"encoding/json"
	"fmt"
	"strings"
	"time"

	"verif/seqx/httpgen"
	"verif/track"
	"verif/vkit"
)

const scenario = "c08"

type evaluator struct{ p *vkit.Part }

func first(s string) string {
	if i := strings.IndexByte(s, '\n'); i >= 0 {
		return s[:i]
	}
	return s
}

// judge applies the input-independent oracles to one executed case.
func (e *evaluator) judge(c *httpgen.Case, r *httpgen.Result, part, desc string) {
	p := e.p
	p.Case(r.Verdict != "" || r.CarryOver, 1, r.Feeds+r.PostFeeds)
	p.Count("cases."+part, 1)
	for _, v := range judgeResult(c, r) {
		p.Report(v[0], v[1]+" | "+desc, scenario, c.Input(part+": "+desc))
	}
	if r.Verdict != "" {
		p.Count("cases_ending_in_error", 1)
		if r.PostFeeds > 0 {
			p.Count("parse_calls_after_error", r.PostFeeds)
		}
	}
	if r.CarryOver {
		p.Count("cases_with_carry_over", 1)
	}
	if len(r.TrackViol) > 0 {
		p.Count("cases_with_ownership_violation(C11)", 1)
	}
}

func judgeResult(c *httpgen.Case, r *httpgen.Result) (out [][2]string) {
	for _, l := range r.Panics {
		out = append(out, [2]string{httpgen.PanicSig(l), "a recover() block logged: " + first(l)})
	}
	if r.PostEvents > 0 {
		out = append(out, [2]string{"events-after-error", fmt.Sprintf("%d callback(s) / connection events after Parse had returned %q and the parser had been closed", r.PostEvents, r.Verdict)})
	}
	if r.PostNil > 0 {
		out = append(out, [2]string{"parse-accepts-data-after-error", fmt.Sprintf("%d of %d Parse calls after the error %q + close returned nil", r.PostNil, r.PostFeeds, r.Verdict)})
	}
	if c.ReadLimit > 0 && r.RetainOver > 0 {
		out = append(out, [2]string{"retained-bytes-exceed-readlimit-plus-one-read", fmt.Sprintf("carry-over buffer exceeded ReadLimit(%d) + len(last read) by %d bytes", c.ReadLimit, r.RetainOver)})
	}
	if c.ReadLimit > 0 && c.Mode == httpgen.Rec && r.LiveOver > 0 {
		out = append(out, [2]string{"allocator-live-bytes-exceed-readlimit-plus-one-read", fmt.Sprintf("live pooled bytes exceeded ReadLimit(%d) + len(last read) by %d", c.ReadLimit, r.LiveOver)})
	}
	if c.MaxBody > 0 && c.Mode == httpgen.Real && r.MaxBodyHeld > c.MaxBody {
		out = append(out, [2]string{"body-exceeds-max-body-size", fmt.Sprintf("the body reader accepted %d body bytes for one message, MaxHTTPBodySize=%d", r.MaxBodyHeld, c.MaxBody)})
	}
	return out
}

// ---------------------------------------------------------------------------------------------
// (a) exhaustive short strings after valid prefixes

var alphabet = []byte{'G', 'E', 'T', '/', ' ', 'H', '1', '.', ':', '\r', '\n', '0'}

type prefix struct {
	name   string
	b      string
	client bool
}

var prefixes = []prefix{
	{"request-line-start", "", false},
	{"header-key-before", "GET / HTTP/1.1\r\n", false},
	{"header-key", "GET / HTTP/1.1\r\nHo", false},
	{"header-value", "GET / HTTP/1.1\r\nHost: ", false},
	{"content-length-body", "POST / HTTP/1.1\r\nContent-Length: 3\r\n\r\n", false},
	{"chunk-size", "POST / HTTP/1.1\r\nTransfer-Encoding: chunked\r\n\r\n", false},
	{"chunk-data", "POST / HTTP/1.1\r\nTransfer-Encoding: chunked\r\n\r\n4\r\nab", false},
	{"trailer", "POST / HTTP/1.1\r\nTransfer-Encoding: chunked\r\nTrailer: T\r\n\r\n0\r\n", false},
	{"status-line-start", "", true},
	{"status-code", "HTTP/1.1 ", true},
	{"reason", "HTTP/1.1 200 ", true},
}

func (e *evaluator) shortString(px prefix, suffix []byte) {
	stream := append([]byte(px.b), suffix...)
	if len(stream) == 0 {
		return
	}
	desc := fmt.Sprintf("prefix %s + %q", px.name, suffix)
	for _, mode := range []httpgen.Mode{httpgen.Rec, httpgen.Real} {
		c := &httpgen.Case{Stream: stream, Client: px.client, Mode: mode, ReadLimit: -1, Policy: track.Pooled, Lite: true, Probe: true}
		e.judge(c, httpgen.Run(c, false), "a.one-piece", desc)
		if len(px.b) > 0 && len(suffix) > 0 {
			c2 := *c
			c2.Cuts = []int{len(px.b)}
			e.judge(&c2, httpgen.Run(&c2, false), "a.prefix+suffix", desc)
		}
		if len(suffix) > 1 {
			c3 := *c
			for k := len(px.b); k < len(stream); k++ {
				if k > 0 {
					c3.Cuts = append(c3.Cuts, k)
				}
			}
			e.judge(&c3, httpgen.Run(&c3, false), "a.suffix-byte-at-a-time", desc)
		}
	}
}

// suffixes enumerates every string over the alphabet that starts with head and has total length
// <= maxLen.
func suffixes(head []byte, maxLen int, f func([]byte)) {
	f(head)
	if len(head) >= maxLen {
		return
	}
	for _, a := range alphabet {
		suffixes(append(append([]byte(nil), head...), a), maxLen, f)
	}
}

// ---------------------------------------------------------------------------------------------
// (c) limits

type limitMsg struct {
	m      *httpgen.Msg
	client bool
	bodies []int // body length of each message of the stream
}

func limitMessages() []limitMsg {
	var out []limitMsg
	host := []httpgen.Hdr{{Name: "Host", Val: " h"}}
	add := func(m *httpgen.Msg, name string, client bool, bodies ...int) {
		m.Desc = name
		out = append(out, limitMsg{m, client, bodies})
	}
	lens := []int{13, 14, 15, 16, 17, 18, 62, 63, 64, 65, 66}
	for _, k := range lens {
		add((&httpgen.Req{Method: "GET", Target: "/" + strings.Repeat("p", k-1), Version: "HTTP/1.1", Headers: host}).Build(), fmt.Sprintf("path-%d", k), false, 0)
		add((&httpgen.Req{Method: "GET", Target: "/", Version: "HTTP/1.1", Headers: []httpgen.Hdr{{Name: "X-" + strings.Repeat("n", k-2), Val: " v"}}}).Build(), fmt.Sprintf("header-name-%d", k), false, 0)
		add((&httpgen.Req{Method: "GET", Target: "/", Version: "HTTP/1.1", Headers: []httpgen.Hdr{{Name: "X", Val: " " + strings.Repeat("v", k)}}}).Build(), fmt.Sprintf("header-value-%d", k), false, 0)
	}
	for _, n := range []int{3, 4, 5, 15, 16, 17, 63, 64, 65} {
		add((&httpgen.Req{Method: "POST", Target: "/", Version: "HTTP/1.1", Headers: host, Body: httpgen.Body{Kind: httpgen.BodyCL, Data: httpgen.Payload(n, 1)}}).Build(), fmt.Sprintf("cl-%d", n), false, n)
		add((&httpgen.Req{Method: "POST", Target: "/", Version: "HTTP/1.1", Headers: host, Body: httpgen.Body{Kind: httpgen.BodyChunked, Chunks: [][]byte{httpgen.Payload(n, 2)}}}).Build(), fmt.Sprintf("chunk-%d", n), false, n)
		add((&httpgen.Res{Version: "HTTP/1.1", Status: "200 OK", Body: httpgen.Body{Kind: httpgen.BodyCL, Data: httpgen.Payload(n, 3)}}).Build(), fmt.Sprintf("res-cl-%d", n), true, n)
		add((&httpgen.Res{Version: "HTTP/1.1", Status: "200 OK", Body: httpgen.Body{Kind: httpgen.BodyChunked, Chunks: [][]byte{httpgen.Payload(n, 4)}}}).Build(), fmt.Sprintf("res-chunk-%d", n), true, n)
	}
	for _, ab := range [][]int{{2, 2}, {2, 3}, {1, 1, 2}, {1, 2, 2}, {32, 32}, {32, 33}, {60, 3, 1}, {60, 3, 2}} {
		var chunks [][]byte
		sum := 0
		for i, n := range ab {
			chunks = append(chunks, httpgen.Payload(n, 5+i))
			sum += n
		}
		add((&httpgen.Req{Method: "POST", Target: "/", Version: "HTTP/1.1", Headers: host, Body: httpgen.Body{Kind: httpgen.BodyChunked, Chunks: chunks, Declared: "A", Trailers: []httpgen.Hdr{{Name: "A", Val: " 1"}}}}).Build(), fmt.Sprintf("chunks-%v", ab), false, sum)
	}
	// pipelines: each body within the limit, the sum beyond it
	cl := func(n int) *httpgen.Msg {
		m := (&httpgen.Req{Method: "POST", Target: "/", Version: "HTTP/1.1", Headers: host, Body: httpgen.Body{Kind: httpgen.BodyCL, Data: httpgen.Payload(n, 9)}}).Build()
		m.Desc = fmt.Sprintf("cl-%d", n)
		return m
	}
	ch := func(n int) *httpgen.Msg {
		m := (&httpgen.Req{Method: "POST", Target: "/", Version: "HTTP/1.1", Headers: host, Body: httpgen.Body{Kind: httpgen.BodyChunked, Chunks: [][]byte{httpgen.Payload(n, 10)}}}).Build()
		m.Desc = fmt.Sprintf("chunk-%d", n)
		return m
	}
	add(httpgen.Pipeline(cl(3), cl(3)), "pipeline cl-3,cl-3", false, 3, 3)
	add(httpgen.Pipeline(ch(4), cl(4), ch(4)), "pipeline chunk-4,cl-4,chunk-4", false, 4, 4, 4)
	add(httpgen.Pipeline(cl(40), ch(40)), "pipeline cl-40,chunk-40", false, 40, 40)
	add(httpgen.Pipeline(ch(64), ch(64)), "pipeline chunk-64,chunk-64", false, 64, 64)
	add(httpgen.Pipeline(cl(4), cl(5)), "pipeline cl-4,cl-5", false, 4, 5)
	return out
}

// beforeClose returns the events logged before the parser was closed.
func beforeClose(r *httpgen.Result) []string {
	ev := r.Events()
	for i, l := range ev {
		if l == "X" || l == "CLEAN" {
			return ev[:i]
		}
	}
	return ev
}

// limitCase runs one segmentation with and without limits and applies the limit oracles.
func (e *evaluator) limitCase(lm limitMsg, c *httpgen.Case, kind string) {
	p := e.p
	for _, v := range limitOracle(lm.bodies, c) {
		p.Report(v[0], v[1]+" | "+lm.m.Desc, scenario, limitInput(c, lm))
	}
	_ = kind
}

type limitIn struct {
	*httpgen.CaseInput
	Bodies []int `json:"bodies"`
}

func limitInput(c *httpgen.Case, lm limitMsg) *limitIn {
	return &limitIn{c.Input("c.limits: " + lm.m.Desc), lm.bodies}
}

var lastLimited *httpgen.Result

func limitOracle(bodies []int, c *httpgen.Case) (out [][2]string) {
	base := *c
	base.ReadLimit, base.MaxBody, base.Probe = 0, 0, false
	rb := httpgen.Run(&base, false)
	r := httpgen.Run(c, false)
	lastLimited = r
	out = append(out, judgeResult(c, r)...)
	if rb.Verdict != "" {
		out = append(out, [2]string{"wellformed-stream-rejected-without-limits", "the well-formed base stream was rejected without limits: " + rb.Verdict})
		return
	}
	maxBody := 0
	for _, b := range bodies {
		if b > maxBody {
			maxBody = b
		}
	}
	withinRead := c.ReadLimit <= 0 || rb.MaxNeed <= c.ReadLimit
	withinBody := c.MaxBody <= 0 || c.Mode == httpgen.Rec || maxBody <= c.MaxBody
	evb, evl := beforeClose(rb), beforeClose(r)
	switch {
	case withinRead && withinBody:
		// the limits are never reached: they must not change anything
		if r.Verdict != "" {
			k := "limit-rejects-stream-within-limits"
			if r.Verdict != "ErrTooLong" {
				k = "limit-changes-verdict"
			}
			out = append(out, [2]string{k, fmt.Sprintf("ReadLimit=%d MaxHTTPBodySize=%d: Parse returned %q although carry-over + read never exceeded %d bytes (max %d) and no body exceeded the body limit (max body %d)",
				c.ReadLimit, c.MaxBody, r.Verdict, c.ReadLimit, rb.MaxNeed, maxBody)})
		} else if strings.Join(evb, "\n") != strings.Join(evl, "\n") {
			out = append(out, [2]string{"limit-changes-events", fmt.Sprintf("ReadLimit=%d MaxHTTPBodySize=%d: the event log differs from the run without limits although no limit was reached", c.ReadLimit, c.MaxBody)})
		}
	default:
		// a limit is exceeded somewhere: the parser may stop with ErrTooLong (or, for the read
		// limit, go on while the retention bound holds); what it reported before must be a prefix
		// of the unlimited run, and no message with an oversized body may be delivered
		if r.Verdict != "" && r.Verdict != "ErrTooLong" {
			out = append(out, [2]string{"limit-changes-verdict", fmt.Sprintf("ReadLimit=%d MaxHTTPBodySize=%d: Parse returned %q, expected nil or ErrTooLong", c.ReadLimit, c.MaxBody, r.Verdict)})
		}
		if len(evl) > len(evb) || strings.Join(evb[:len(evl)], "\n") != strings.Join(evl, "\n") {
			out = append(out, [2]string{"limit-changes-events", fmt.Sprintf("ReadLimit=%d MaxHTTPBodySize=%d: the events reported before the limit error are not a prefix of the run without limits", c.ReadLimit, c.MaxBody)})
		}
		if !withinBody {
			// index of the first oversized message; it must not complete
			for i, b := range bodies {
				if b > c.MaxBody {
					if len(r.CompleteAt) > i {
						out = append(out, [2]string{"body-limit-not-enforced", fmt.Sprintf("MaxHTTPBodySize=%d: message %d with a %d-byte body was completed", c.MaxBody, i, b)})
					}
					break
				}
			}
		}
	}
	return out
}

func (e *evaluator) limits(lm limitMsg) {
	n := len(lm.m.B)
	for _, rl := range []int{-1, 16, 64} {
		for _, mb := range []int{0, 4, 64} {
			for _, mode := range []httpgen.Mode{httpgen.Rec, httpgen.Real} {
				if mode == httpgen.Rec && mb != 0 {
					continue // the body limit lives in the real processors' body reader
				}
				c := &httpgen.Case{Stream: lm.m.B, Client: lm.client, Mode: mode, ReadLimit: rl, MaxBody: mb, Policy: track.Pooled, Lite: true, Probe: true}
				run := func(kind string) {
					e.limitCase(lm, c, kind)
					r := lastLimited
					e.p.Case(true, 1, r.Feeds+r.PostFeeds)
					e.p.Count("cases.c."+kind, 1)
					if r.Verdict == "ErrTooLong" {
						e.p.Count("c.cases_rejected_ErrTooLong", 1)
					} else if r.Verdict == "" {
						e.p.Count("c.cases_accepted_under_limits", 1)
					}
					e.p.Outcome(fmt.Sprintf("limits rl=%d mb=%d verdict=%s", rl, mb, httpgen.ErrKind(r.Verdict)))
				}
				run("one-piece")
				httpgen.SingleCuts(n, func(cuts []int) { c.Cuts = cuts; run("single-cut") })
				c.Cuts = nil
				sizes := []int{1, 7}
				if rl > 0 {
					sizes = append(sizes, rl-1, rl, rl+1)
				}
				for _, k := range sizes {
					if k < n {
						c.Every = k
						run("fixed-size-pieces")
					}
				}
				c.Every = 0
				// with track (one policy each) for the byte-at-a-time feed: live-bytes cross-check
				c2 := *c
				c2.Lite, c2.Every = false, 1
				e.limitCase(lm, &c2, "byte-at-a-time-track")
				e.p.Case(true, 1, lastLimited.Feeds)
				e.p.Count("cases.c.byte-at-a-time(track)", 1)
			}
		}
	}
}

// ---------------------------------------------------------------------------------------------
// (d) malformed framing

type malformed struct {
	stream []byte
	marks  []int
	client bool
	kind   string // what is malformed (signature part)
	desc   string
	nBad   int // index of the malformed message within the stream
	judged bool
}

func malformedList() []malformed {
	var out []malformed
	addRaw := func(kind, desc, s string, client, judged bool) {
		t := tailReq
		if client {
			t = tailRes
		}
		out = append(out, malformed{stream: []byte(s + t), client: client, kind: kind, desc: desc, judged: judged})
	}
	for _, client := range []bool{false, true} {
		start := "POST / HTTP/1.1\r\nHost: h\r\n"
		if client {
			start = "HTTP/1.1 200 OK\r\nX-A: v\r\n"
		}
		for _, v := range []string{"x", "-1", "1x", "1 2", "0x3", "3.0", "1e1", ""} {
			if v == "" {
				continue // empty-but-present is legal
			}
			addRaw("content-length-invalid", "Content-Length: "+v, start+"Content-Length: "+v+"\r\n\r\nabc", client, true)
		}
		for _, te := range [][]string{{"gzip"}, {"chunked, gzip"}, {"gzip, chunked"}, {"chunked", "chunked"}, {"gzip", "chunked"}, {"chunked", "gzip"}, {"identity"}} {
			kind := "transfer-encoding-unsupported"
			if len(te) > 1 {
				kind = "transfer-encoding-repeated"
			}
			h := ""
			for _, x := range te {
				h += "Transfer-Encoding: " + x + "\r\n"
			}
			addRaw(kind, "Transfer-Encoding "+strings.Join(te, " + "), start+h+"\r\n3\r\nabc\r\n0\r\n\r\n", client, true)
		}
		for _, sz := range []string{"g", "-1", "", "10000000000000000", "8000000000000000", "ffffffffffffffff", " 3"} {
			kind := "chunk-size-invalid"
			addRaw(kind, fmt.Sprintf("chunk size %q", sz), start+"Transfer-Encoding: chunked\r\n\r\n"+sz+"\r\nabc\r\n0\r\n\r\n", client, true)
			addRaw(kind, fmt.Sprintf("second chunk size %q", sz), start+"Transfer-Encoding: chunked\r\n\r\n1\r\nz\r\n"+sz+"\r\nabc\r\n0\r\n\r\n", client, true)
		}
		// chunk sizes at the edge of the integer range: they fit an int64, so they need not be
		// rejected, but position + size arithmetic must not wrap (no panic, no delivery of
		// out-of-range data); added after a seeded change with exactly this shape was missed
		for _, sz := range []string{"7fffffffffffffff", "7ffffffffffffff0", "7ffffffffffffffe", "007fffffffffffffff", "7fffffffffffffff;x", "7fffffff", "80000000", "ffffffff", "100000000"} {
			addRaw("lenient:chunk-size-near-int-max", fmt.Sprintf("chunk size %q", sz), start+"Transfer-Encoding: chunked\r\n\r\n"+sz+"\r\nabc\r\n0\r\n\r\n", client, false)
			addRaw("lenient:chunk-size-near-int-max", fmt.Sprintf("second chunk size %q", sz), start+"Transfer-Encoding: chunked\r\n\r\n1\r\nz\r\n"+sz+"\r\nabc\r\n0\r\n\r\n", client, false)
		}
		// lenient forms, recorded but not judged (status under RFC 7230 arguable or outside the
		// statement's list)
		addRaw("lenient:chunk-size-0x3", "chunk size 0x3", start+"Transfer-Encoding: chunked\r\n\r\n0x3\r\nabc\r\n0\r\n\r\n", client, false)
		addRaw("lenient:chunk-size-1g", "chunk size 1g", start+"Transfer-Encoding: chunked\r\n\r\n1g\r\na\r\n0\r\n\r\n", client, false)
		addRaw("lenient:content-length-plus", "Content-Length: +3", start+"Content-Length: +3\r\n\r\nabc", client, false)
		addRaw("lenient:content-length-conflicting", "Content-Length: 3 and Content-Length: 4", start+"Content-Length: 3\r\nContent-Length: 4\r\n\r\nabcd", client, false)
		addRaw("lenient:content-length-with-chunked", "Content-Length with Transfer-Encoding: chunked", start+"Content-Length: 3\r\nTransfer-Encoding: chunked\r\n\r\n3\r\nabc\r\n0\r\n\r\n", client, false)
	}
	return out
}

func (e *evaluator) malformedItem(mf malformed) {
	p := e.p
	n := len(mf.stream)
	for _, mode := range []httpgen.Mode{httpgen.Rec, httpgen.Real} {
		c := &httpgen.Case{Stream: mf.stream, Client: mf.client, Mode: mode, ReadLimit: -1, Policy: track.Pooled, Lite: true, Probe: true}
		one := func(kind string) {
			r := httpgen.Run(c, false)
			e.judge(c, r, "d."+kind, mf.desc)
			if mode != httpgen.Real {
				return
			}
			if v := malformedOracle(&mf, c, r); v != nil {
				if mf.judged {
					p.Report(v[0], v[1]+" | "+mf.desc, scenario, &malIn{c.Input("d.malformed: " + mf.desc), mf.kind, mf.nBad})
				} else {
					p.Count("d.not-judged "+mf.kind+" accepted", 1)
				}
			} else if mf.judged {
				p.Count("d.malformed_cases_rejected", 1)
			}
			p.Outcome("malformed " + mf.kind + " -> " + httpgen.ErrKind(r.Verdict))
		}
		one("one-piece")
		httpgen.SingleCuts(n, func(cuts []int) { c.Cuts = cuts; one("single-cut") })
		httpgen.DoubleCutsAll(n, func(cuts []int) { c.Cuts = cuts; one("double-cut") })
		c.Cuts, c.Every = nil, 1
		one("byte-at-a-time")
	}
}

type malIn struct {
	*httpgen.CaseInput
	Kind string `json:"kind"`
	NBad int    `json:"bad_message_index"`
}

// malformedOracle: the stream is <malformed message><valid message>; the parser must return an
// error and must never deliver the malformed message (index nBad) to the handler.
func malformedOracle(mf *malformed, c *httpgen.Case, r *httpgen.Result) *[2]string {
	delivered := len(r.CompleteAt)
	switch {
	case delivered > mf.nBad:
		return &[2]string{"malformed-framing-accepted " + mf.kind, fmt.Sprintf("the malformed message was delivered to the handler (%d message(s) completed, verdict %q)", delivered, r.Verdict)}
	case r.Verdict == "":
		return &[2]string{"malformed-framing-not-rejected " + mf.kind, "no Parse call returned an error although the stream continues with a complete valid message after the malformed one (the parser consumed the following bytes as part of a guessed framing)"}
	}
	return nil
}

// ---------------------------------------------------------------------------------------------

func run(tier string, sh *vkit.Shard, p *vkit.Part) {
	httpgen.StartWatchdog(p, scenario, 30*time.Second)
	thorough := tier == "thorough"
	deadline := vkit.Deadline(tier, 70*time.Second, 17*time.Minute)
	e := &evaluator{p: p}
	skipped := 0
	item := func(f func()) {
		if !sh.Mine() {
			return
		}
		if time.Now().After(deadline) {
			skipped++
			return
		}
		f()
	}

	// (d) first: it is the part that decides the framing clause
	for _, mf := range malformedList() {
		mf := mf
		item(func() { e.malformedItem(mf); p.Count("d.malformed_streams", 1) })
	}

	// (e) the value space of the framing header fields
	for _, set := range fhSets() {
		set := set
		item(func() { e.fhItem(set, thorough) })
	}

	// (d2) the framing CR/LF neighbourhood
	for _, fb := range framingBases(thorough) {
		fb := fb
		selfOK := 0
		item(func() { e.framingSelfCheck(fb, true); p.Count("d2.bases", 1) })
		for _, eol := range fb.m.EOLs {
			eol := eol
			item(func() {
				if selfOK == 0 {
					selfOK = -1
					if e.framingSelfCheck(fb, false) {
						selfOK = 1
					}
				}
				if selfOK < 0 {
					p.Count("d2.items_skipped_after_failed_self_check", 1)
					return
				}
				e.framingItem(fb, eol, thorough)
			})
		}
	}

	// (c) limits
	for _, lm := range limitMessages() {
		lm := lm
		item(func() { e.limits(lm); p.Count("c.limit_streams", 1) })
	}

	// (a) short strings
	maxLen := 4
	if thorough {
		maxLen = 6
	}
	for _, px := range prefixes {
		px := px
		item(func() {
			e.shortString(px, nil)
			for _, a := range alphabet {
				e.shortString(px, []byte{a})
			}
			p.Count("a.strings", 1+len(alphabet))
		})
		for _, a := range alphabet {
			for _, b := range alphabet {
				a, b := a, b
				item(func() {
					n := 0
					suffixes([]byte{a, b}, maxLen, func(s []byte) { e.shortString(px, s); n++ })
					p.Count("a.strings", n)
				})
			}
		}
	}
	p.Sample(map[string]interface{}{"part": "a", "prefix": prefixes[5].b, "suffix_alphabet": string(alphabet), "max_suffix_len": maxLen})

	// (b) mutation neighbourhoods of 20 base messages x single cuts
	reqs, ress := httpgen.BaseRequests(), httpgen.BaseResponses()
	for _, lm := range limitMessages() { // six more bases: messages with 16/64-byte tokens and bodies
		switch lm.m.Desc {
		case "path-16", "header-value-64", "cl-16", "chunks-[32 33]", "res-chunk-17", "res-cl-64":
			if lm.client {
				ress = append(ress, lm.m)
			} else {
				reqs = append(reqs, lm.m)
			}
		}
	}
	for _, set := range []struct {
		ms     []*httpgen.Msg
		client bool
	}{{reqs, false}, {ress, true}} {
		set := set
		for _, base := range set.ms {
			base := base
			seen := map[string]bool{}
			type mut struct {
				desc string
				b    []byte
			}
			byPos := map[int][]mut{}
			httpgen.Neighbours(base.B, func(pos int, desc string, b []byte) {
				if seen[string(b)] {
					return
				}
				seen[string(b)] = true
				byPos[pos] = append(byPos[pos], mut{desc, b})
			})
			for at := 0; at < len(base.B); at++ {
				ms := byPos[at]
				item(func() {
					for _, mu := range ms {
						desc := base.Desc + " " + mu.desc
						for _, mode := range []httpgen.Mode{httpgen.Rec, httpgen.Real} {
							c := &httpgen.Case{Stream: mu.b, Client: set.client, Mode: mode, ReadLimit: -1, Policy: track.Pooled, Lite: true, Probe: true}
							e.judge(c, httpgen.Run(c, false), "b.one-piece", desc)
							httpgen.SingleCuts(len(mu.b), func(cuts []int) {
								c.Cuts = cuts
								e.judge(c, httpgen.Run(c, false), "b.single-cut", desc)
							})
							if thorough && mode == httpgen.Real {
								httpgen.DoubleCutsAll(len(mu.b), func(cuts []int) {
									c.Cuts = cuts
									e.judge(c, httpgen.Run(c, false), "b.double-cut", desc)
								})
							}
							c.Cuts, c.Every, c.Lite = nil, 1, false
							e.judge(c, httpgen.Run(c, false), "b.byte-at-a-time(track)", desc)
						}
						p.Count("b.mutant_streams", 1)
					}
				})
			}
		}
	}
	// (d2) every double cut, last (the widest product): one item per neighbour kind and CRLF
	for _, fb := range framingBases(thorough) {
		fb := fb
		kinds := doubleCutQuick
		if thorough {
			kinds = doubleCutThorough
		}
		if !fb.core && !(thorough && !fb.wide) {
			continue
		}
		selfOK := 0
		for _, eol := range fb.m.EOLs {
			eol := eol
			for _, k := range kinds {
				k := k
				item(func() {
					if selfOK == 0 {
						selfOK = -1
						if e.framingSelfCheck(fb, false) {
							selfOK = 1
						}
					}
					if selfOK > 0 {
						e.framingDoubleItem(fb, eol, thorough, map[string]bool{k: true})
					}
				})
			}
		}
	}
	if skipped > 0 {
		p.Incompletef("wall-clock cap reached: %d work items of this shard were not enumerated", skipped)
	}
}

func replay(_ string, raw json.RawMessage) string {
	c, in, err := httpgen.ParseInput(raw)
	if err != nil {
		return "bad replay input: " + err.Error()
	}
	fmt.Printf("stream (%d bytes): %s\ncuts=%v every=%d client=%v mode=%s read_limit=%d max_body=%d note=%s\n", len(c.Stream), in.Stream, c.Cuts, c.Every, c.Client, in.Mode, c.ReadLimit, c.MaxBody, in.Note)
	var out []string
	add := func(v [][2]string) {
		for _, x := range v {
			out = append(out, x[0]+"|"+x[1])
		}
	}
	switch {
	case strings.HasPrefix(in.Note, "c.limits"):
		var li struct {
			Bodies []int `json:"bodies"`
		}
		_ = json.Unmarshal(raw, &li)
		add(limitOracle(li.Bodies, c))
		fmt.Printf("verdict=%q max-cached=%d retain-over=%d\n%s", lastLimited.Verdict, lastLimited.MaxCached, lastLimited.RetainOver, lastLimited.Log)
	case strings.HasPrefix(in.Note, "e.fhdr"):
		var fi struct {
			Lines []httpgen.FHLine `json:"lines"`
		}
		_ = json.Unmarshal(raw, &fi)
		ref := httpgen.FramingHeaderRef(fi.Lines)
		fmt.Printf("framing header lines %q: reference %s (%s)\n", fi.Lines, ref.Verdict, ref.Reason)
		r := httpgen.Run(c, false)
		fmt.Printf("verdict=%q completes=%v\n%s", r.Verdict, r.CompleteAt, r.Log)
		add(judgeResult(c, r))
		if v := fhJudge(ref, c, r); v != nil {
			add([][2]string{*v})
		}
	case strings.HasPrefix(in.Note, "d2."):
		var fi struct {
			Kind string `json:"kind"`
		}
		_ = json.Unmarshal(raw, &fi)
		ref := httpgen.StrictFraming(c.Stream)
		fmt.Printf("strict recogniser: %s, %d complete message(s), %s at offset %d (%s)\n", ref.Status, ref.Complete, ref.Why, ref.Off, ref.Line)
		r := httpgen.Run(c, false)
		fmt.Printf("verdict=%q completes=%v\n%s", r.Verdict, r.CompleteAt, r.Log)
		add(judgeResult(c, r))
		if v, _ := framingJudge(fi.Kind, c, ref, r); v != nil {
			add([][2]string{*v})
		}
	case strings.HasPrefix(in.Note, "d.malformed"):
		var mi struct {
			Kind string `json:"kind"`
			NBad int    `json:"bad_message_index"`
		}
		_ = json.Unmarshal(raw, &mi)
		r := httpgen.Run(c, false)
		fmt.Printf("verdict=%q completes=%v\n%s", r.Verdict, r.CompleteAt, r.Log)
		add(judgeResult(c, r))
		if v := malformedOracle(&malformed{kind: mi.Kind, nBad: mi.NBad}, c, r); v != nil {
			add([][2]string{*v})
		}
	default:
		r := httpgen.Run(c, false)
		fmt.Printf("verdict=%q post-events=%d post-nil=%d/%d\n%s", r.Verdict, r.PostEvents, r.PostNil, r.PostFeeds, r.Log)
		for _, l := range r.Panics {
			fmt.Println("error log:", l)
		}
		add(judgeResult(c, r))
	}
	return strings.Join(out, "\n")
}

func main() {
	vkit.Main(&vkit.Spec{
		Property: "C08", Level: "model_checking",
		Rule: "one case = (byte stream, segmentation, processor, ReadLimit, MaxHTTPBodySize) executed on the real nbhttp.Parser; (a) all strings of length <= 4 (thorough 6) over 12 symbols after each of 11 parser-parking prefixes x {one piece, prefix+suffix, suffix byte-at-a-time}; (b) all distinct single-byte mutants of 20 base messages x {one piece, every single cut, byte-at-a-time; thorough: every double cut with the real processors}; (c) 3x3 limit configurations x 82 messages straddling 16/64 (tokens) and 4/64 (bodies) x {one piece, every single cut, pieces of 1,7,limit-1,limit,limit+1}; (d) malformed framing list (content-length, transfer-encoding, chunk-size forms, each continued by a valid message) x {one piece, every single cut, every double cut, byte-at-a-time}; (e) 538 header blocks over the value classes of Content-Length and Transfer-Encoding (35 + 31 single values, 12x12 + 9x9 ordered pairs on two lines, 9x12x2 Content-Length x Transfer-Encoding combinations, three-line and Trailer forms) x 2-3 line positions x body present / absent x request / response x {one piece, every single cut, byte-at-a-time; thorough: every double cut} x both processors, judged where the RFC 7230 3.3.3 reference says reject; (d2) every framing CR and LF (positions recorded by the generator: start line, header lines, header-block end, chunk-size lines, chunk-data terminators, last-chunk line, trailer lines, final blank line) of every base of the framing grammar (counter d2.bases; requests and responses; bodiless, Content-Length, chunked x chunk lists x extensions x trailers; header and start-line variants; pipelines) x {deleted, doubled, replaced by CR/LF/SP/X/HT/0/: (thorough: 13 bytes), pair swapped, pair deleted} x continuation {valid message, empty line + valid message (thorough: LF + valid message)} x {one piece, every single cut, byte-at-a-time with the real processor; one piece, 4 cuts around the change, byte-at-a-time with the recording processor; double cuts with one cut within 3 bytes of the change for the deletions on 12 core bases (thorough: every double cut for 3 kinds on every base of the quick product)}, judged only where the strict recogniser finds a CR/LF framing error; a case is non-trivial when it ended in an error (the after-error clause is exercised by further Parse calls) or a feed left a non-empty carry-over buffer; every case of (c) is non-trivial by construction",
		Assumptions: []string{
			"a panic is detected through nbio's logging (recover() blocks log at error level); a hang is a Parse call that does not return within 30 s",
			"after an error the harness calls CloseAndClean (what Engine.DataHandler's CloseWithError leads to) and then keeps feeding the rest of the stream and one valid message: every such call must return an error and no callback may fire",
			"retention bound: len(carry-over) <= ReadLimit + len(last read) after every Parse call; ReadLimit 'default' is nbhttp's 64 MiB (never reached here)",
			"body bound: the sum of body bytes the real processor accepted for one message never exceeds MaxHTTPBodySize (>0), and a message whose body exceeds it never completes",
			"a limit must not change the outcome of a stream that stays within it (carry-over + read <= ReadLimit at every call, every body <= MaxHTTPBodySize); where a limit is exceeded the parser may return ErrTooLong, and what it reported before is a prefix of the unlimited run",
			"'rejected rather than guessed' (d): with the real Server/ClientProcessor, some Parse call returns an error before the end of a stream that continues with a complete valid message, and the malformed message is never delivered; recording-processor runs of (d) are only checked for robustness",
			"not judged in list (d) (counted as lenient): chunk size '1g', '0x3'; 'Content-Length: +3', two different Content-Length headers and Content-Length together with chunked are decided by part (e)",
			"(e) which framing header blocks must be rejected is decided by httpgen.FramingHeaderRef (no code shared with nbhttp or net/http): two or more Transfer-Encoding lines -> reject (the property's 'repeated Transfer-Encoding'); one line -> reject unless it is exactly the coding chunked (case-insensitive, optional SP/HT; nbhttp implements no other coding, so every other coding is 'unsupported'; an empty value is no coding at all); without Transfer-Encoding (RFC 7230 3.3.3 rule 4) any Content-Length line whose value is not 1*DIGIT within int63 after trimming SP/HT (empty, blanks, sign, hex, list of differing numbers, ...) or lines with differing values -> reject; rejected = some Parse call returns an error and the message is never delivered, with both processors",
			"(e) not judged, counted with what nbhttp and net/http did (RFC 7230 lets the recipient choose, or the form is valid): identical repeated Content-Length (3.3.2: reject or fold), a list '3, 3', any Content-Length next to a single valid 'Transfer-Encoding: chunked' (3.3.3 rule 3: Transfer-Encoding overrides), 'chunked,' with empty list elements (section 7), valid forms nbhttp refuses (HT as optional whitespace, 2^62..2^63-1), Trailer values (a forbidden name in Trailer is a sender rule, not malformed framing); the counters 'e.classification ...' record reference / net/http / nbhttp per class: on the unchanged tree net/http refuses every block the reference rejects and accepts every block it accepts",
			"(d2) 'a missing CR or LF is rejected rather than guessed': which CR/LF bytes are framing is taken from the generator (Msg.EOLs), never from scanning payload; a neighbour must be rejected iff httpgen.StrictFraming (strict RFC 7230 line discipline: start line, header, chunk-size and trailer lines end in CR LF and contain no other CR or LF; chunk data of the announced size is followed by CR LF; shares no code with nbhttp) finds such an error in message k of neighbour + continuation; rejected = message k is never reported complete AND some Parse call returns an error (the stream always continues beyond the damaged byte); neighbours the recogniser finds well-formed, incomplete or wrong for another reason are executed for robustness only (counters d2.streams_not_judged ...)",
			"(d2) RFC 7230 3.5 allows a recipient to accept a bare LF as line terminator; the property statement is stricter ('a missing CR or LF is rejected') and is what is judged",
			"(d2) the recogniser is validated on every unchanged base (+ continuation): it must find it well-formed and nbhttp must complete the same number of messages with both processors, otherwise the base's neighbourhood is skipped and d2-reference-self-check-failed is reported",
			"(d2) with the recording processor a framing error in a request line is not judged (the version token is validated by Processor.OnProto, a recording Processor accepts any token); everything else is judged with both processors",
		},
		Seq: run, ReplaySeq: replay, MinNonTrivial: 1000,
	})
}

package main

import (
	"bytes"
	"crypto/sha1"
	"encoding/base64"
	"fmt"
	"net"
	"net/http"
	"net/url"
	"strings"

	"github.com/lesismal/nbio"
	"github.com/lesismal/nbio/mempool"
	"github.com/lesismal/nbio/nbhttp"
	"github.com/lesismal/nbio/nbhttp/websocket"

	"verif/ekit"
	"verif/seqx/wsgen"
	"verif/track"
	"verif/vkit"
	"verif/vsched"
	"verif/vshim/vsys"
)

// Family (e): callback order on the CLIENT side. The real websocket.Dialer (Dial / DialContext,
// plain ws://) on a real nbhttp.Engine over the simulated kernel. websocket.Dialer builds its
// nbhttp.ClientConn itself and has no Dial field, so the connection is supplied through the
// Dialer's Proxy seam: the harness registers a proxy scheme whose dialer returns a *nbio.Conn on
// a vsys stream pair (hooks/nbhttp/c14_dial.go; the same substitution checks/c10/client.go makes
// through ClientConn.Dial). Everything after the dial is the real code: ClientConn.Do, the
// client-side HTTP parser, the handling of the 101 response in DialContext, the hand-over of the
// bytes behind the 101 to the websocket.Conn, the job queue.
//
// The scripted server answers the upgrade request with the 101 response and talks first: k
// frames in the same write as the 101, more in a later write; then it ends the connection, or
// the client closes from a message handler / from another thread.

type ecfg struct {
	mode  ekit.Mode
	with  int    // frames in the same write as the 101 response
	later int    // frames in a second write
	end   string // fin | rst | hclose (the handler of message #0 calls Close) | tclose
	async bool   // Dial with a result handler (returns at once) instead of the blocking form
	p     int
}

func (c ecfg) name() string {
	return fmt.Sprintf("client-order %s frames-with-101=%d later=%d end=%s async-dial=%v", c.mode, c.with, c.later, c.end, c.async)
}

const wsGUID = "258EAFA5-E914-47DA-95CA-C5AB0DC85B11"

func clientOrderBody(c ecfg) func() {
	return func() {
		vkit.Log.TakeErrors()
		vsys.Configure(false, false)
		w := &world{}
		tr := track.New(track.Pooled)
		mempool.DefaultMemPool = tr
		l := &cbLog{w: w}
		conf := nbhttp.Config{Name: "c14e", NPoller: 1, ReadBufferSize: 4096, BodyAllocator: tr,
			ServerExecutor: func(f func()) { vsched.GoNamed("exec", f) },
			ClientExecutor: func(f func()) { vsched.GoNamed("cexec", f) },
		}
		switch c.mode {
		case ekit.ET:
			conf.EpollMod = nbio.EPOLLET
		case ekit.ONESHOT:
			conf.EpollMod = nbio.EPOLLET
			conf.EPOLLONESHOT = nbio.EPOLLONESHOT
		}
		engine := nbhttp.NewEngine(conf)
		if err := engine.Start(); err != nil {
			vsched.Fail("harness|engine start: %v", err)
			return
		}
		u := websocket.NewUpgrader()
		u.KeepaliveTime = 0
		var wsc *websocket.Conn
		install(u, w, l, func(conn *websocket.Conn, i int, data []byte) {
			if c.end == "hclose" && i == 0 {
				_ = conn.Close()
			}
		})

		var peer *vsys.Peer
		var nbc *nbio.Conn
		dials := 0
		nbhttp.VerifRegisterProxyDialer("verif", func(network, addr string) (net.Conn, error) {
			dials++
			conn, p := ekit.Stream(false, 1<<20, 1<<20)
			engine.Engine.VerifBindPoller(conn)
			nbc, peer = conn, p
			return conn, nil
		})
		d := &websocket.Dialer{Engine: engine, Upgrader: u,
			Proxy: func(*http.Request) (*url.URL, error) { return &url.URL{Scheme: "verif", Host: "sim"}, nil }}

		var payloads [][]byte
		var frames [][]byte
		for i := 0; i < c.with+c.later; i++ {
			p := []byte(fmt.Sprintf("srv-%d", i))
			payloads = append(payloads, p)
			fr := wsgen.Frame{Fin: true, Op: wsgen.OpBinary, Payload: p}
			frames = append(frames, fr.Append(nil))
		}

		dialRet, dialErr := 0, error(nil)
		vsched.GoNamed("client", func() {
			if c.async {
				_, _, err := d.Dial("ws://sim/ws", nil, func(conn *websocket.Conn, res *http.Response, err error) {
					wsc, dialErr = conn, err
					dialRet = w.tick()
				})
				if err != nil {
					dialErr = err
					dialRet = w.tick()
				}
				return
			}
			conn, _, err := d.Dial("ws://sim/ws", nil)
			wsc, dialErr = conn, err
			dialRet = w.tick()
		})
		vsched.GoNamed("server", func() {
			vsched.SetDaemon()
			vsched.Block("server.wait-conn", func() bool { return peer != nil })
			for !bytes.Contains(peer.Got, []byte("\r\n\r\n")) {
				peer.WaitReadable()
				if peer.Queued() == 0 {
					return
				}
				peer.Read(0)
			}
			key := ""
			for _, line := range strings.Split(string(peer.Got), "\r\n") {
				if i := strings.IndexByte(line, ':'); i > 0 && strings.EqualFold(line[:i], "Sec-WebSocket-Key") {
					key = strings.TrimSpace(line[i+1:])
				}
			}
			sum := sha1.Sum([]byte(key + wsGUID))
			first := []byte("HTTP/1.1 101 Switching Protocols\r\nUpgrade: websocket\r\nConnection: Upgrade\r\nSec-WebSocket-Accept: " +
				base64.StdEncoding.EncodeToString(sum[:]) + "\r\n\r\n")
			for i := 0; i < c.with; i++ {
				first = append(first, frames[i]...)
			}
			if !peer.WriteAll(first) {
				return
			}
			var second []byte
			for i := c.with; i < len(frames); i++ {
				second = append(second, frames[i]...)
			}
			if len(second) > 0 && !peer.WriteAll(second) {
				return
			}
			switch c.end {
			case "fin":
				peer.Close()
			case "rst":
				peer.Reset()
			}
		})
		if c.end == "tclose" {
			vsched.GoNamed("closer", func() {
				vsched.Block("closer.wait-dial", func() bool { return dialRet != 0 })
				w.tick()
				if wsc != nil {
					_ = wsc.Close()
				}
			})
		}
		vsched.WaitIdle()

		// ---- oracle
		if dials != 1 || dialRet == 0 {
			w.failf("harness|the dial did not complete (dial calls=%d, Dial returned=%v)", dials, dialRet != 0)
		} else if dialErr != nil {
			w.failf("client-dial-failed|the scripted server answered a correct 101 response, Dial reported %v", dialErr)
		}
		opened := dialRet != 0 && dialErr == nil
		closedNow := false
		if nbc != nil {
			closedNow, _ = nbc.IsClosed()
		}
		if opened && !closedNow {
			w.failf("conn-not-closed end=%s|the scenario ends the connection (%s) but the client's nbio connection is still open at quiescence", c.end, c.end)
		}
		if c.end == "fin" && opened && len(l.msgs) < len(payloads) {
			// everything was sent before the server's FIN and nobody closed early: the job queue
			// loses nothing (the loss clause proper is C02/C12's; stated here because a message
			// that arrives with the 101 takes a path of its own)
			w.failf("client-message-lost|the server sent %d messages (%d of them in the same write as the 101 response) and then FIN; %d reached OnMessage (%s)", len(payloads), c.with, len(l.msgs), c.name())
		}
		l.judge(payloads, opened, closedNow, c.name())
		cnt := map[string]int{"messages_delivered": len(l.msgs), "client_dials": dials}
		if len(l.closes) > 0 {
			cnt["onclose_runs"] = 1
		}
		if opened {
			cnt["client_upgrades"] = 1
		}
		if len(l.msgs) > 0 && c.with > 0 {
			cnt["client_messages_arrived_with_101"] = 1
		}
		if v := tr.Violations(); len(v) > 0 {
			cnt["ownership_violations_reported_by_C11"] = len(v)
		}
		w.logFailure()
		lastCounters = cnt
		lastOutcome = fmt.Sprintf("client-order: opened=%v delivered=%d closes=%d", opened, len(l.msgs), len(l.closes))
		w.flush()
	}
}

package main

import (
	"fmt"
	"strings"

	"github.com/lesismal/nbio/mempool"
	"github.com/lesismal/nbio/nbhttp"
	"github.com/lesismal/nbio/nbhttp/websocket"

	"verif/seqx/wsgen"
	"verif/track"
	"verif/vkit"
	"verif/vsched"
)

// Family (b): concurrent writers in direct mode. One server-role websocket.Conn
// (websocket.NewServerConn, asyncWrite=false) over the scheduler-aware fake conn; 2-3 harness
// threads write at the same time.

// wspec says what one writer thread does:
//
//	m   WriteMessage(Binary, 2F+1 bytes)            -> three fragments
//	t   WriteMessage(Text, 2F+1 bytes)
//	s   WriteMessage(Binary, F bytes)               -> one frame
//	p   WriteMessage(Ping, <=F bytes)
//	f   WriteFrame(Binary,true,false) WriteFrame(Binary,false,false) WriteFrame(Binary,false,true): one message as a frame sequence
//	    (the caller stops at the first frame that is refused)
//	g   WriteFrame(Binary,true,true, F bytes): one single-frame message through the frame API
//	mm  two WriteMessage calls in a row
type dcfg struct {
	f       int
	writers []string
	p       int
}

func (c dcfg) name() string {
	return fmt.Sprintf("direct F=%d writers=%s", c.f, strings.Join(c.writers, ","))
}

// startWriter runs the script of one writer thread against conn and records its messages.
func startWriter(w *world, conn *websocket.Conn, i int, script string, f int, msgs *[]*outMsg, inCall *int) {
	startWriterThen(w, conn, i, script, f, msgs, inCall, nil)
}

// startWriterThen is startWriter with an action after the last message.
func startWriterThen(w *world, conn *websocket.Conn, i int, script string, f int, msgs *[]*outMsg, inCall *int, then func()) {
	var mine []*outMsg
	for j, ch := range script {
		m := &outMsg{id: fmt.Sprintf("w%d.%d%c", i, j, ch), writer: i, kind: 'M', op: wsgen.OpBinary}
		switch ch {
		case 'm', 'f':
			m.payload = payloadFor(i*4+j, 2*f+1)
		case 't':
			m.payload = payloadFor(i*4+j, 2*f+1)
			m.op = wsgen.OpText
		case 's', 'g':
			m.payload = payloadFor(i*4+j, f)
		case 'p':
			m.kind = 'P'
			m.payload = payloadFor(i*4+j, 1)
		}
		if ch == 'f' || ch == 'g' {
			m.kind = 'F'
		}
		mine = append(mine, m)
	}
	startWriterMsgs(w, conn, i, mine, f, msgs, inCall, then)
}

// startWriterMsgs starts writer thread i, which hands the prepared messages to conn one by one.
func startWriterMsgs(w *world, conn *websocket.Conn, i int, mine []*outMsg, f int, msgs *[]*outMsg, inCall *int, then func()) {
	*msgs = append(*msgs, mine...)
	vsched.GoNamed(fmt.Sprintf("writer%d", i), func() {
		for _, m := range mine {
			*inCall++
			writeOne(w, conn, m, f)
			*inCall--
		}
		if then != nil {
			then()
		}
	})
}

// writeOne hands message m to conn on the calling thread.
func writeOne(w *world, conn *websocket.Conn, m *outMsg, f int) {
	m.call = w.tick()
	switch m.kind {
	case 'M':
		m.err = conn.WriteMessage(websocket.MessageType(m.op), m.payload)
	case 'P':
		m.err = conn.WriteMessage(websocket.PingMessage, m.payload)
	case 'F':
		p := m.payload
		n := 0
		for len(p) > 0 && m.err == nil {
			k := f
			if k > len(p) {
				k = len(p)
			}
			r := &frameRec{first: n == 0, fin: k == len(p), data: p[:k], call: w.tick()}
			m.frames = append(m.frames, r)
			r.err = conn.WriteFrame(websocket.MessageType(m.op), r.first, r.fin, r.data)
			r.ret = w.tick()
			m.err = r.err
			p = p[k:]
			n++
		}
		m.partial = m.err != nil && n > 1
	}
	m.ret = w.tick()
}

func directBody(c dcfg) func() {
	return func() {
		vkit.Log.TakeErrors() // lines of a preceding execution that was cut short (pruned) are not this one's
		w := &world{}
		tr := track.New(track.Pooled)
		mempool.DefaultMemPool = tr
		eng := nbhttp.NewEngine(nbhttp.Config{Name: "c14b", NPoller: 1, MaxWebsocketFramePayloadSize: c.f,
			BodyAllocator: tr, SupportServerOnly: true, ServerExecutor: func(f func()) { f() }})
		u := websocket.NewUpgrader()
		u.Engine = eng
		u.KeepaliveTime = 0
		fc := &fakeConn{w: w, tr: tr, armed: true}
		conn := websocket.NewServerConn(u, fc, "", false, false)

		var msgs []*outMsg
		inCall := 0
		for i, s := range c.writers {
			startWriter(w, conn, i, s, c.f, &msgs, &inCall)
		}
		vsched.WaitIdle()

		for _, m := range msgs {
			if m.ret == 0 {
				w.failf("write-stuck|the call writing %s never returned", m.id)
			} else if m.err != nil {
				w.failf("write-error|writing %s on an open connection failed: %v", m.id, m.err)
			}
		}
		// a hand-made WriteFrame sequence next to another data writer: frame-level rules and the
		// wholeness of WriteMessage only (see judgeFrames)
		exposed := false
		if strings.Contains(strings.Join(c.writers, ""), "f") {
			dataWriters := 0
			for _, s := range c.writers {
				if strings.ContainsAny(s, "mstgf") {
					dataWriters++
				}
			}
			exposed = dataWriters > 1
		}
		if hasFrameCallers(msgs) {
			judgeFrames(w, fc.writes, msgs, true, c.name())
		}
		mw := w
		if exposed {
			mw = &world{}
		}
		res := judgeWire(mw, fc.wire(), msgs, true, false, c.name())
		cnt := map[string]int{"messages_on_wire": 0}
		for _, m := range msgs {
			for _, r := range m.frames {
				if r.err == nil {
					cnt["writeframe_calls_accepted"]++
				}
			}
		}
		if exposed {
			cnt["frame_level_only_executions"] = 1
		}
		if res.v != nil {
			cnt["messages_on_wire"] = len(res.v.Events)
		}
		// interleaving opportunity: a frame of a fragmented message was written while another
		// writer had already entered its call (it can only be parked on the connection mutex)
		cnt["interleave_opportunities"] = interleaveOpportunities(fc, msgs)
		if v := tr.Violations(); len(v) > 0 {
			cnt["ownership_violations"] = len(v)
			w.failf("ownership %s|%s (belongs to C11 as well)", v[0].Sig, v[0].Desc)
		}
		w.logFailure()
		lastCounters = cnt
		lastOutcome = "direct:" + orderOf(res, msgs)
		w.flush()
	}
}

// interleaveOpportunities counts the writes that happened strictly inside the call interval of
// another writer's message while the written frame was not the first frame of its message.
func interleaveOpportunities(fc *fakeConn, msgs []*outMsg) int {
	n := 0
	for _, wr := range fc.writes {
		if len(wr.data) == 0 || wr.data[0]&0x0F != 0 { // not a continuation frame
			continue
		}
		for _, m := range msgs {
			if m.call != 0 && m.call < wr.tick && (m.ret == 0 || m.ret > wr.tick) && !ownsWrite(m, wr) {
				n++
				break
			}
		}
	}
	return n
}

func ownsWrite(m *outMsg, wr wrec) bool {
	if wr.attributed {
		return wr.owner == m
	}
	// the payload bytes of a frame are a slice of the payload of the message it belongs to
	if len(wr.data) < 2 {
		return false
	}
	body := wr.data[2:]
	return len(body) > 0 && strings.Contains(string(m.payload), string(body))
}

func orderOf(res *wireVerdict, msgs []*outMsg) string {
	if res == nil || res.v == nil {
		return "undecodable"
	}
	out := make([]string, len(res.v.Events))
	for _, m := range msgs {
		if p, ok := res.pos[m.id]; ok && p < len(out) {
			out[p] = m.id
		}
	}
	return strings.Join(out, ">")
}

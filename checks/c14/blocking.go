// C14, additional part: callback order on WebSocket connections in the goroutine-per-connection
// I/O modes (IOModBlocking, both halves of IOModMixed; IOModNonBlocking as a control), including
// the upgrade paths the scheduled scenarios cannot reach (blocking with parser, transferred to
// the poller), on real socket pairs.
//
// Strength (different from the scheduled scenarios, and labelled as such in the evidence):
// BOUNDED-EXHAUSTIVE ENUMERATION OF HISTORIES with a FREE-RUNNING schedule. Every history over
// the alphabet below up to the depth of the tier is executed once per configuration on the real
// code with real goroutines and the real kernel; schedules are NOT enumerated. See verif/blkkit.
package main

import (
	"encoding/json"

	"verif/blkkit"
	"verif/vkit"
)

const blkScenario = "blocking-modes/real-sockets/history-enumeration"

// per connection, after "wsopen" (open + upgrade): text message echoed, two text messages in one
// write, ping, close frame, server-side close from the message handler, peer leaves without a
// close frame, peer half-close. Whatever is still open at the end of the history is left by its
// peer without a close frame; then the callback logs are judged (engine still running).
var c14Alphabet = []string{"wsmsg", "wsburst", "wsping", "wsclose", "wssrvclose", "pclose", "phalf"}

func c14Cases(tier string, visit func(blkkit.Case)) {
	d1, d2 := 4, 3
	if tier == "thorough" {
		d1, d2 = 5, 4
	}
	for _, h := range blkkit.Histories(d1, 2, c14Alphabet, "wsopen") {
		if len(h) == 0 || (blkkit.Conns(h) > 1 && len(h) > d2) {
			continue
		}
		for _, mode := range []string{"blocking", "mixed", "mixed-nb", "nonblocking"} {
			cfgs := []blkkit.Cfg{{Mode: mode}}
			if mode == "blocking" || mode == "mixed" {
				// a *net.UnixConn is never transferred (upgrader.go switches on *net.TCPConn): the
				// transfer variants hand the server end over relabelled as *net.TCPConn
				cfgs = append(cfgs, blkkit.Cfg{Mode: mode, Async: true}, blkkit.Cfg{Mode: mode, TCP: true, Transfer: true})
				if tier == "thorough" {
					cfgs = append(cfgs, blkkit.Cfg{Mode: mode, TCP: true}, blkkit.Cfg{Mode: mode, TCP: true, Async: true})
				}
			}
			for _, cfg := range cfgs {
				visit(blkkit.Case{Cfg: cfg, Hist: h, End: "peersclose-stop"})
			}
		}
	}
}

func c14Caps() blkkit.Caps {
	c := blkkit.DefaultCaps
	c.NoReclaim = true
	c.Own = "c14"
	return c
}

func seqBlocking(tier string, sh *vkit.Shard, p *vkit.Part) {
	d := &blkkit.Driver{Part: p, Shard: sh, Class: "c14", Property: "C14", Scenario: blkScenario, Caps: c14Caps(), MaxViolating: 2}
	c14Cases(tier, d.Do)
	d.Finish()
}

func replayBlocking(scenario string, input json.RawMessage) string {
	return blkkit.Replay("c14", input, c14Caps())
}

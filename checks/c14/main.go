// C14: WebSocket callbacks ordered and exactly-once; concurrent writes stay whole.
//
// Scheduled (model-checking) check: every scenario is a small closed system around the real
// nbio code, explored exhaustively within a preemption bound by the cooperative scheduler.
// Four families (DESIGN 4, C14; family (d) is an addition):
//
//	(a) order.go   callback order through the per-connection job queue: real nbhttp.Engine on the
//	               simulated kernel, real Upgrader.Upgrade (scenario 1), scripted peer
//	(b) direct.go  2-3 concurrent writers on a server-role Conn in direct mode over a fake
//	               net.Conn whose Write is a scheduling point
//	(c) queued.go  asynchronous send queue: real Upgrade scenario 4 (unknown net.Conn type,
//	               BlockingModAsyncWrite, go HandleRead), writers / drainer / read loop / close race;
//	               a few scenarios take the same path with BlockingModAsyncWrite=false
//	    zqueue.go  (c) with negotiated permessage-deflate: bounded queue x 16-byte frame limit x
//	               payloads whose deflated form needs more / fewer frames than the uncompressed one
//	(d) order.go   2 concurrent writers on the engine-backed connection of (a) over a small socket
//
// Deviations from the plan in DESIGN: the inline executor is explored only in a few scenarios
// of (a) (its close deadlock on the HTTP path is C10's known finding; the WebSocket path does
// not take the parser mutex inside handlers, see the final report); the close in (c) "from
// Close after the virtual BlockingModAsyncCloseDelay" is driven by a clock thread that may fire
// the delay timer at any scheduling point.
package main

import (
	"os"
	"runtime"
	"runtime/debug"
	"strings"
	"time"

	"verif/ekit"
	"verif/vkit"
	"verif/vsched"
)

func build(tier string) []*vkit.Scenario {
	thorough := tier == "thorough"
	var out []*vkit.Scenario
	add := func(name string, body func(), p int, nontrivial func(map[string]int) bool) {
		out = append(out, &vkit.Scenario{Name: name, Body: body, Check: check, P: p,
			Opts:     vsched.Options{Horizon: 60000},
			Counters: func() map[string]int { return lastCounters }, Outcome: func() string { return lastOutcome },
			NonTrivial: nontrivial})
	}
	bump := func(p int) int {
		if thorough {
			return p + 1
		}
		return p
	}

	// ---- (d) concurrent writers over the engine-backed connection (first: the K=16 ones are the
	// longest scenarios of the quick tier, the workers should start with them)
	ntD := func(m map[string]int) bool { return m["messages_on_wire"] > 0 && m["interleave_opportunities"] > 0 }
	for _, m := range ekit.Modes {
		for _, k := range []int{1 << 20, 5} {
			if !thorough && k == 5 && m != ekit.LT {
				continue // quick: the small-socket variant (40-100 k executions each) only in LT
			}
			a := acfg{mode: m, exec: "go", writers: 2, f: 2, k: k, p: 1, end: "none"}
			if k == 5 {
				a.k = 16 // the 101 response and the frames go out in several partial writes
			}
			if thorough && k != 5 {
				a.p = 2 // (K=16 at P=2 exceeds 2 M executions / 12 min per scenario: stays at P=1)
			}
			add(a.name(), orderBody(a), a.p, ntD)
			if k == 5 {
				out[len(out)-1].Budget = 90 * time.Second
				if thorough {
					out[len(out)-1].Budget = 12 * time.Minute
				}
			}
		}
	}
	for _, m := range ekit.Modes {
		if !thorough && m == ekit.ONESHOT {
			continue
		}
		a := acfg{mode: m, exec: "go", writers: 2, f: 2, k: 1 << 20, p: 1, end: "tclose"}
		if thorough && m == ekit.LT {
			a.p = 2 // 1.6 M executions; ET / ONESHOT need 2.4-2.8 M+ and stay at P=1
		}
		add(a.name(), orderBody(a), a.p, func(m map[string]int) bool { return m["messages_on_wire"] > 0 })
	}

	// ---- (b) direct mode
	ntWire := func(m map[string]int) bool { return m["messages_on_wire"] > 0 && m["interleave_opportunities"] > 0 }
	for _, d := range []dcfg{
		{f: 2, writers: []string{"m", "m"}, p: 3},
		{f: 3, writers: []string{"m", "t"}, p: 3},
		{f: 2, writers: []string{"m", "p"}, p: 3},
		{f: 2, writers: []string{"m", "f"}, p: 3}, // WriteFrame sequence next to WriteMessage: see Assumptions
		{f: 2, writers: []string{"f", "p"}, p: 3},
		{f: 2, writers: []string{"mm", "m"}, p: 3},
		{f: 2, writers: []string{"ms", "sm"}, p: 3},
		{f: 2, writers: []string{"m", "m", "m"}, p: 2},
		{f: 2, writers: []string{"m", "m", "p"}, p: 2},
		{f: 2, writers: []string{"m", "s", "p"}, p: 3},
		{f: 2, writers: []string{"g", "m"}, p: 3},
		{f: 2, writers: []string{"g", "f"}, p: 3},
	} {
		// "m","f": a WriteFrame sequence is not a unit nbio can protect; judged frame by frame
		// (judgeFrames), the message-level judge only for the WriteMessage call
		d.p = bump(d.p)
		add(d.name(), directBody(d), d.p, ntWire)
	}

	// ---- (c) queued mode (pq: quick bound, pt: thorough bound)
	ntQ := func(m map[string]int) bool { return m["messages_on_wire"] > 0 || m["messages_delivered"] > 0 }
	type qb struct {
		q      qcfg
		pq, pt int
	}
	for _, x := range []qb{
		// no close while the writers run: everything accepted must come out whole
		{qcfg{f: 2, writers: []string{"m", "m"}, closeBy: "none"}, 2, 3},
		{qcfg{f: 2, writers: []string{"m", "p"}, closeBy: "none"}, 2, 3},
		{qcfg{f: 2, writers: []string{"mm", "m"}, closeBy: "none"}, 1, 2},
		{qcfg{f: 2, writers: []string{"m", "s", "p"}, closeBy: "none"}, 1, 2},
		{qcfg{f: 2, writers: []string{"m"}, closeBy: "none", inbound: 1, echo: true}, 2, 3},
		{qcfg{f: 2, writers: []string{"m"}, closeBy: "none", inbound: 2, echo: true}, 1, 2},
		{qcfg{f: 2, writers: []string{"s"}, closeBy: "none", inbound: 2, early: true}, 2, 3},
		// queue limit
		{qcfg{f: 2, writers: []string{"m", "m"}, qmax: 4, closeBy: "none"}, 2, 3},
		{qcfg{f: 2, writers: []string{"m", "m", "s"}, qmax: 4, closeBy: "none"}, 1, 2},
		{qcfg{f: 2, writers: []string{"s", "s", "s"}, qmax: 2, closeBy: "none"}, 1, 2},
		{qcfg{f: 2, writers: []string{"ss", "p"}, qmax: 1, closeBy: "none"}, 2, 3},
		// close racing the writers and the drainer
		{qcfg{f: 2, writers: []string{"m"}, closeBy: "eof"}, 2, 3},
		{qcfg{f: 2, writers: []string{"m"}, closeBy: "close"}, 2, 3},
		{qcfg{f: 2, writers: []string{"mc"}, closeBy: "none"}, 2, 3},
		{qcfg{f: 2, writers: []string{"m", "m"}, closeBy: "eof"}, 1, 2},
		{qcfg{f: 2, writers: []string{"m", "m"}, closeBy: "close"}, 1, 2},
		{qcfg{f: 2, writers: []string{"mc", "m"}, closeBy: "none"}, 1, 2},
		{qcfg{f: 2, writers: []string{"m", "s"}, closeBy: "eof", inbound: 1}, 1, 2},
		{qcfg{f: 2, writers: []string{"m", "m"}, failAt: 2, closeBy: "none"}, 2, 3},
		{qcfg{f: 2, writers: []string{"m", "s"}, failAt: 1, closeBy: "none"}, 2, 3},
		{qcfg{f: 2, writers: []string{"mm"}, failAt: 4, closeBy: "eof"}, 2, 3},
		{qcfg{f: 2, writers: []string{"m"}, closeBy: "eof", inbound: 1, echo: true}, 2, 3},
		// WriteFrame callers (the public frame API): single frames ('g') and a hand-made fragmented
		// sequence ('f'), alone, next to a WriteMessage writer, and against a bounded queue that is
		// full / has exactly one slot left (default schedule: the drainer has not run yet), with a
		// follow-up frame once everything has drained
		{qcfg{f: 2, writers: []string{"f"}, closeBy: "none", after: true}, 2, 3},
		{qcfg{f: 2, writers: []string{"f", "p"}, closeBy: "none"}, 1, 2},
		{qcfg{f: 2, writers: []string{"f", "m"}, closeBy: "none"}, 1, 2},
		{qcfg{f: 2, writers: []string{"g", "m"}, closeBy: "none", after: true}, 2, 3},
		{qcfg{f: 2, writers: []string{"gg"}, qmax: 1, closeBy: "none", after: true}, 2, 3},
		{qcfg{f: 2, writers: []string{"ggg"}, qmax: 2, closeBy: "none", after: true}, 2, 3},
		{qcfg{f: 2, writers: []string{"gf"}, qmax: 2, closeBy: "none", after: true}, 2, 3},
		{qcfg{f: 2, writers: []string{"f"}, qmax: 2, closeBy: "none", after: true}, 2, 3},
		{qcfg{f: 2, writers: []string{"gg", "p"}, qmax: 1, closeBy: "none", after: true}, 1, 2},
		{qcfg{f: 2, writers: []string{"gg", "m"}, qmax: 4, closeBy: "none", after: true}, 1, 2},
		{qcfg{f: 2, writers: []string{"g", "g", "g"}, qmax: 2, closeBy: "none", after: true}, 1, 2},
		{qcfg{f: 2, writers: []string{"gf", "m"}, qmax: 4, closeBy: "none", after: true}, 1, 2},
		{qcfg{f: 2, writers: []string{"ggg"}, qmax: 2, closeBy: "eof"}, 1, 2},
		{qcfg{f: 2, writers: []string{"gg"}, qmax: 1, closeBy: "close"}, 1, 2},
		{qcfg{f: 2, writers: []string{"g"}, closeBy: "none", inbound: 1, echo: true}, 1, 2},
		// two / three concurrent callers of the public Conn.HandleRead (Upgrade's own + threads)
		{qcfg{f: 2, closeBy: "none", inbound: 2, readers: 1}, 2, 3},
		{qcfg{f: 2, closeBy: "none", inbound: 2, early: true, readers: 1}, 2, 3},
		{qcfg{f: 2, closeBy: "none", inbound: 2, readers: 2}, 1, 2},
		{qcfg{f: 2, closeBy: "eof", inbound: 2, readers: 1}, 1, 2},
		{qcfg{f: 2, writers: []string{"s"}, closeBy: "none", inbound: 2, readers: 1}, 1, 2},
		{qcfg{f: 2, closeBy: "none", inbound: 2, echo: true, readers: 1}, 1, 2},
		{qcfg{f: 2, direct: true, writers: []string{"m"}, closeBy: "none", inbound: 2, readers: 1}, 1, 2},
		// the same Upgrade path without the send queue (BlockingModAsyncWrite=false)
		{qcfg{f: 2, direct: true, writers: []string{"m", "m"}, closeBy: "none"}, 2, 3},
		{qcfg{f: 2, direct: true, writers: []string{"m", "m"}, closeBy: "eof"}, 2, 3},
		{qcfg{f: 2, direct: true, writers: []string{"m", "p"}, closeBy: "close", inbound: 1, echo: true}, 1, 2},
		{qcfg{f: 2, direct: true, writers: []string{"mc", "m"}, closeBy: "none", inbound: 2, early: true}, 2, 3},
	} {
		q := x.q
		q.p = x.pq
		if thorough {
			q.p = x.pt
		}
		nt := ntQ
		if strings.ContainsAny(strings.Join(q.writers, ""), "gf") {
			bounded, after := q.qmax > 0, q.after
			nt = func(m map[string]int) bool {
				return m["writeframe_calls_accepted"] > 0 && (!bounded || m["writeframe_calls_refused_queue_full"] > 0) &&
					(!after || m["writeframe_followup_accepted"] > 0)
			}
		}
		if q.readers > 0 {
			nt = func(m map[string]int) bool {
				return m["handleread_callers_turned_away"] > 0 && m["messages_delivered"] > 0
			}
		}
		add(q.name(), queuedBody(q), q.p, nt)
	}

	// ---- (c) with negotiated compression: bounded queue x frame limit x deflated length (zqueue.go)
	ntZ := func(m map[string]int) bool {
		return m["messages_on_wire"] > 0 && m["z_compressed_messages_on_wire"] > 0 &&
			(m["z_followup_accepted"] > 0 || m["close_racing_writer"] > 0 || m["close_cut_off_messages"] > 0)
	}
	for _, q := range zPlan(thorough) {
		add(q.name(), queuedBody(q), q.p, ntZ)
	}

	// ---- (a) callback order on the engine
	ntA := func(m map[string]int) bool { return m["messages_delivered"] > 0 && m["onclose_runs"] > 0 }
	for _, m := range ekit.Modes {
		for _, e := range []string{"go", "pool", "inline"} {
			base := []acfg{
				{msgs: 2, bursts: []int{2}, end: "fin"},
				{msgs: 2, bursts: []int{1, 1}, end: "fin"},
				{msgs: 3, bursts: []int{1, 2}, end: "rst"},
				{msgs: 2, frag: true, bursts: []int{1, 2}, end: "fin"},
				{msgs: 2, bursts: []int{2}, early: 1, end: "fin"},
				{msgs: 3, bursts: []int{3}, end: "hclose", closeAt: 0},
				{msgs: 3, bursts: []int{1, 2}, end: "hclose", closeAt: 1},
				{msgs: 2, bursts: []int{1, 1}, end: "tclose"},
				{msgs: 2, bursts: []int{2}, end: "fin", echo: true},
				{msgs: 2, bursts: []int{2}, end: "hclose", closeAt: 1, echo: true},
				{msgs: 2, bursts: []int{1, 1}, nowait: true, end: "fin"},
				{msgs: 0, bursts: nil, nowait: true, end: "fin"},
				{msgs: 2, bursts: []int{2}, end: "oclose"},
				{msgs: 2, bursts: []int{2}, end: "fin+tclose"},
			}
			for bi, a := range base {
				if !thorough {
					// quick: the goroutine-per-call executor carries everything in LT; the other modes
					// and executors a subset
					if m != ekit.LT && bi != 0 && bi != 5 && bi != 7 && bi != 10 && bi != 12 {
						continue
					}
					if e == "pool" && bi != 1 && bi != 6 && bi != 7 && !(bi == 13 && m == ekit.LT) {
						continue
					}
					if e == "inline" && bi != 0 && bi != 5 && bi != 7 && bi != 11 {
						continue
					}
				}
				a.mode, a.exec = m, e
				switch {
				case e == "pool": // ~300 executions/s: the pool allocates a 64 Ki-entry channel per engine
					a.p = 1
					if thorough {
						a.p = 2
					}
				case strings.Contains(a.end, "tclose") && !(m == ekit.LT && e == "go" && a.end == "tclose"):
					a.p = 1
					if thorough {
						a.p = 2
					}
				default:
					a.p = 2
					if thorough && !strings.Contains(a.end, "tclose") {
						a.p = 3
					}
				}
				add(a.name(), orderBody(a), a.p, ntA)
			}
		}
	}

	// ---- (e) callback order on the client side (websocket.Dialer)
	ntE := func(m map[string]int) bool {
		return m["client_upgrades"] > 0 && m["messages_delivered"] > 0 && m["onclose_runs"] > 0
	}
	for _, m := range ekit.Modes {
		for bi, e := range []ecfg{
			{with: 0, later: 2, end: "fin"},
			{with: 1, later: 1, end: "fin"},
			{with: 2, later: 0, end: "fin"},
			{with: 2, later: 1, end: "rst"},
			{with: 1, later: 1, end: "hclose"},
			{with: 1, later: 1, end: "tclose"},
			{with: 2, later: 0, end: "fin", async: true},
		} {
			if !thorough && m != ekit.LT && bi != 1 && bi != 2 {
				continue
			}
			e.mode, e.p = m, 2
			if e.end == "tclose" {
				e.p = 1
			}
			if thorough {
				e.p++
			}
			add(e.name(), clientOrderBody(e), e.p, ntE)
		}
	}

	// ---- (a) with a user callback that panics: the job queue must go on behind it
	ntP := func(m map[string]int) bool {
		return m["callback_panics"] > 0 && m["messages_delivered_after_a_callback_panic"] > 0 && m["onclose_after_a_callback_panic"] > 0
	}
	pbase := []acfg{
		{msgs: 3, bursts: []int{3}, panicMsg: 1, end: "fin"},                    // 0
		{msgs: 3, bursts: []int{3}, panicMsg: 2, end: "fin"},                    // 1
		{msgs: 3, bursts: []int{1, 2}, panicMsg: 1, end: "fin"},                 // 2
		{msgs: 3, bursts: []int{1, 2}, panicMsg: 2, end: "rst"},                 // 3
		{msgs: 3, bursts: []int{3}, panicMsg: 1, end: "hclose", closeAt: 2},     // 4
		{msgs: 3, bursts: []int{1, 2}, panicMsg: 2, end: "hclose", closeAt: 2},  // 5
		{msgs: 3, bursts: []int{3}, panicMsg: 2, end: "hclose", closeAt: 1},     // 6: Close, then panic, in one handler
		{msgs: 3, bursts: []int{1, 2}, panicMsg: 1, end: "tclose"},              // 7
		{msgs: 3, bursts: []int{3}, panicMsg: 2, end: "fin+tclose"},             // 8
		{msgs: 2, frag: true, bursts: []int{1, 2}, panicMsg: 1, end: "fin"},     // 9
		{msgs: 2, bursts: []int{2}, panicOpen: true, end: "fin"},                // 10
		{msgs: 2, bursts: []int{1, 1}, panicOpen: true, end: "rst"},             // 11
		{msgs: 2, bursts: []int{2}, panicOpen: true, end: "hclose", closeAt: 1}, // 12
		{msgs: 2, bursts: []int{1, 1}, panicOpen: true, end: "tclose"},          // 13
		{msgs: 3, bursts: []int{3}, panicOpen: true, panicMsg: 2, end: "fin"},   // 14: two panics
	}
	for _, m := range ekit.Modes {
		for _, e := range []string{"go", "pool", "inline"} {
			for bi, a := range pbase {
				if !thorough {
					switch {
					case m == ekit.LT && e == "go":
					case e == "go" && (bi == 0 || bi == 4 || bi == 10):
					case m == ekit.LT && e == "pool" && (bi == 1 || bi == 5 || bi == 10):
					case m == ekit.LT && e == "inline" && (bi == 0 || bi == 4 || bi == 10):
					default:
						continue
					}
				}
				a.mode, a.exec = m, e
				switch {
				case e == "pool" || strings.Contains(a.end, "tclose"):
					a.p = 1
					if thorough {
						a.p = 2
					}
				default:
					a.p = 2
					if thorough {
						a.p = 3
					}
				}
				add(a.name(), orderBody(a), a.p, ntP)
			}
		}
	}

	return out
}

// settle waits until every goroutine that was started during package initialisation has parked.
// Importing nbhttp/websocket creates websocket.DefaultEngine at init time, whose two task pools
// start dispatcher goroutines with `go`; the runtime may schedule them for the first time only
// after the first exploration has begun, and a native goroutine that enters vsched.Select while
// an execution is active acts on the scheduler as if it were the running thread (observed:
// executions that end early with a thread "blocked on chan" that never ran, irreproducibly).
// Once they sit in their native select they never wake up again.
func settle() {
	deadline := time.Now().Add(10 * time.Second)
	buf := make([]byte, 1<<20)
	for time.Now().Before(deadline) {
		n := runtime.Stack(buf, true)
		busy := 0
		for i, g := range strings.Split(string(buf[:n]), "\n\n") {
			if i == 0 {
				continue // this goroutine
			}
			head := g
			if j := strings.IndexByte(g, '\n'); j >= 0 {
				head = g[:j]
			}
			if strings.Contains(head, "[runnable") || strings.Contains(head, "[running") {
				busy++
			}
		}
		if busy == 0 {
			return
		}
		time.Sleep(time.Millisecond)
	}
}

func main() {
	// the scenarios with negotiated compression allocate a flate.Writer (~1 MB) per execution
	// (nbio's writer pools are emptied between executions); with the default GOGC the collector
	// runs every few executions (measured: 2-3x slower). The live heap is a few MB.
	if os.Getenv("GOGC") == "" {
		debug.SetGCPercent(400)
	}
	settle()
	vkit.Main(&vkit.Spec{
		Property: "C14", Level: "model_checking",
		Rule: "one scenario = family x configuration. (a) epoll mode x server executor (goroutine per call, default task pool, inline) x client frame script (0-3 messages, one optionally fragmented, 1-2 bursts; conforming client that waits for the 101 response, or a frame in the same burst as the upgrade request, or bursts sent without waiting) x ending (peer FIN, peer RST, Close from a message handler, from OnOpen, from another thread, FIN and Close together), optionally with the handler echoing through WriteMessage, on the real nbhttp engine + Upgrader.Upgrade scenario 1; (a-panic) the same stack with a user callback that panics once (nbio.Conn.execute recovers the panic of a queued job): the handler of the first or of a middle message of three (also right after it called Close), or the OnOpen handler (which runs inside the upgrade request's job), or both, followed by more messages x ending (FIN, RST, Close from a later handler, Close from another thread, FIN and Close together); (b) writer scripts (WriteMessage of 2F+1 bytes = 3 fragments, single frames, pings, a hand-made WriteFrame sequence first/continuation/final, a single-frame message through WriteFrame) of 2-3 threads on a direct-mode server Conn; (c) the same writers on a Conn from Upgrade scenario 4 (unknown net.Conn type, read loop started by Upgrade) with the send queue x queue limit x failing k-th write x close source (none, peer EOF, Close + virtual close delay, a writer that closes) x inbound messages (with echo), and without the send queue; (c-readers) one or two additional threads calling the public Conn.HandleRead next to the read loop Upgrade starts, with two inbound frames (fed while the callers race, or readable before Upgrade), with / without writers and echo, no close / peer EOF, with and without the send queue; (c-frames) callers of the public WriteFrame API on the send queue: single frames and a fragmented sequence, alone, next to a ping writer, next to a WriteMessage writer, from three threads, against a bounded queue that is full or has exactly one slot left when the call is made (the drainer has not run in the default schedule; preemptions let it), with a follow-up WriteFrame once everything has drained, and with a racing close; (c-deflate) the bounded send queue with permessage-deflate negotiated through the real Upgrade (EnableCompression + extension header) and a 16-byte frame limit: a writer queues 0-3 small messages and then one big message whose class and length decide how many frames it needs AFTER deflate - incompressible (deterministic pseudo-random bytes, verified when the scenario list is built to deflate to MORE bytes than the input) of every length kF-d, d in 0..6, which needs one frame more than its uncompressed length suggests for d<6, and compressible (shrinks below a frame boundary) - x queue limit leaving exactly k or k+1 (fc or fu) free slots x a follow-up message written after the queue drained, plus variants with a ping in the queue, a second writer, a racing close; (e) CLIENT side: the real websocket.Dialer (blocking Dial and Dial with a result handler) on the engine over the simulated kernel, epoll mode x scripted server that sends the 101 response alone / with one / with two frames in the same write, further frames in a second write x ending (server FIN, RST, Close from the first message handler, Close from another thread), open handler with a scheduling point inside; (d) two writers on the engine-backed Conn x socket capacity (everything fits / 16 bytes) x no close / Close from another thread. Every interleaving within the preemption bound is executed on the real code. Non-trivial = the scenario delivered messages and ran OnClose (a) / put messages on the wire while a second writer was inside its call between two fragments of the first (b, d) / put messages on the wire or delivered inbound messages (c) / put RSV1 messages on the wire and had the follow-up message accepted (c-deflate) ADDITIONAL PART (scenario name \"blocking-modes/real-sockets/history-enumeration\", a different and weaker kind of claim): bounded-exhaustive enumeration of HISTORIES, free-running schedule - one case = I/O mode (IOModBlocking, IOModMixed with MaxBlockingOnline 1, IOModMixed with every connection of the history in the poller half, IOModNonBlocking as control) x upgrader variant (plain = blocking with parser, BlockingModAsyncWrite, BlockingModTrasferConnToPoller) x every event sequence of length <= 4 on one connection and <= 3 spread over two (thorough: 5 and 4) on real AF_UNIX socket-pair connections over {connection opened and upgraded, text message echoed, two text messages in one write, ping, close frame, message whose handler closes the connection from the server side, peer leaves without a close frame, peer half-close}; whatever is still open at the end is left by its peer without a close frame, then the per-connection callback logs are judged while the engine is still running; each case is executed ONCE on the real code with real goroutines and the real kernel, schedules are not enumerated",
		Assumptions: []string{
			"sequentially consistent interleavings at lock / atomic / channel / syscall / timer operations and at the harness points (fake conn Write/Read/Close, inside every callback); unsynchronised field accesses are interleaved only for the fields the overlay generator lists as racy (cmd/ovgen racyFields: websocket.Conn.closed, nbio.Conn.closed, ... - not nbio.Conn.session, which Upgrade swaps without a lock)",
			"covered upgrade paths: scenario 1 (*nbio.Conn owned by the engine, all three epoll modes, IOModNonBlocking) and scenario 4 (unknown net.Conn type: blocking mode with own read loop and send queue). NOT covered: scenarios 2, 3 and the transfer-to-poller variants need a real *net.TCPConn / llib *tls.Conn on real descriptors and real goroutines, out of reach of the cooperative scheduler; their ordering rests on the same Execute / MustExecute queue, Engine.SyncCall and send-queue code explored here",
			"unit of atomicity on the wire: one WriteMessage call (all its fragments) or one WriteFrame call (one frame); a multi-call WriteFrame sequence is only required to stay whole when the other writers send control frames (RFC 6455 allows those between fragments) - nbio has no API to reserve the connection across calls",
			"WriteFrame callers are judged frame by frame (judgeFrames): a frame whose call returned an error (queue full, closed) is not on the wire; an accepted frame is on the wire at most once and exactly once when nothing closed the connection; every frame on the wire is one that some caller wrote, byte for byte (the tracking allocator's poison on the wire = a freed buffer was sent: freed-buffer-sent); the frames of one thread keep the order of its calls; the frames of one WriteMessage call stay adjacent whatever the frame callers do. When a hand-made fragmented sequence runs next to another data writer, or against a queue limit that can refuse its continuation (the caller then stops), the wire need not be a legal RFC 6455 message sequence - that is the caller's responsibility - and the message-level judge is not applied to those scenarios (counter frame_level_only_executions)",
			"order on the wire is only constrained by real-time precedence (a call that returned before another was made) and program order of one thread",
			"queued mode: a message accepted (nil) may be lost when a close begins before the drainer wrote it (the queue is dropped by CloseAndClean); required: what is on the wire is a prefix-closed, duplicate-free, non-interleaved sequence of whole messages (the last one may be cut by the close), no accepted message is skipped in favour of a later one, everything accepted comes out when no close happens, nothing is accepted by the conn after OnClose started. A Write *call* of the drainer that finds the conn already closed (fails, writes nothing) is counted, not reported",
			"bounded queue (BlockingModSendQueueMaxSize>0): a WriteMessage refused with ErrMessageSendQuqueIsFull must leave none of its frames on the wire, and everything accepted before and after it comes out whole, exactly once, in order; refusing a message that would have fitted is not judged (counted: z_followup_accepted), exceeding the bound is not judged either",
			"compression scenarios: the wire is judged by the reference decoder (wsgen.ParseFrames + wsgen.Judge with RFC 7692 inflate of RSV1 messages, compress/flate only); the reference deflate of each payload (wsgen.Deflate, same level) is used only to attribute frames to messages - the first failure being the verdict, a frame that fits no message is reported last (wire-unattributed-frame) and does not occur on the unchanged tree, i.e. nbio's compressor output equals the reference byte for byte in these scenarios",
			"a client that sends frames in the same burst as its upgrade request violates RFC 6455 4.1; for it only the ordering clauses are judged (nbio hands those bytes to the HTTP parser and closes)",
			"callback part: loss of inbound messages is C02/C12's subject; here delivered messages must be an in-order prefix of the wire",
			"the close callback is owed once the connection has ended and Upgrade had succeeded",
			"concurrent HandleRead callers: the read loop is not re-entrant, so at most one caller may ever read from the connection (observed at the fake conn's Read) and the others return while the connection is open; which caller wins is free",
			"client side: websocket.Dialer constructs its nbhttp.ClientConn itself and reaches the network only through net.Dial / net.DialTimeout (nbhttp/client_conn.go) - the harness supplies the connection through the Dialer's Proxy seam with a registered proxy scheme (hook nbhttp.VerifRegisterProxyDialer, which calls the package's own proxyRegisterDialerType) whose dialer returns a *nbio.Conn on a simulated stream pair; wss:// (TLS) is not covered. The client's open callback counts as owed once Dial reported success",
			"additional part (blocking / mixed modes on real sockets, upgrade paths 'blocking with parser' and 'transferred to poller'): EVERY HISTORY up to the depth is run, NOT every schedule - silence there means 'no history of that shape fails under the schedules the runtime produced'. Oracle per connection whose peer read the 101, from a log written by the callbacks themselves: the open callback had returned before any message callback was entered, message callbacks never overlap, their payloads are the data messages the peer sent, in wire order (the peer waits for each echo, so all of them are owed), the close callback ran exactly once, after them. A missing close callback is judged only when it is final: every peer is gone, engine.Online() has reached 0 (both teardown paths of nbhttp call websocket.Conn.CloseAndClean, which runs the close callback synchronously, before they remove the connection from engine.conns) and every engine goroutine is parked (pollers in epoll_wait) in 5 consecutive goroutine dumps. Waits of the harness are capped generously (30 s); an expired harness wait marks the run incomplete, it is never a violation. Connections are AF_UNIX socket pairs handed to the engine's own accept loop; the transfer variants hand the same socket over under the static type *net.TCPConn (see verif/blkkit). Concurrent writers are not part of this part; TLS upgrade paths are not covered by any part",
			"panicking callbacks: a callback that panics has ended; the callbacks behind it are owed exactly as if it had returned (order, one at a time, OnClose once after them); with a conforming client that sends everything and then FIN all its messages reach OnMessage (message-dropped-after-callback-panic). A panicking OnOpen leaves Upgrade by the panic: the connection counts as opened once OnOpen ran. nbio logs the recovered panic as 'conn execute failed: <value>': exactly the lines carrying the harness's own panic value, at most as many as it raised in that execution, are not failures; every other logged error still is. Log lines left by a preceding execution that the explorer cut short are discarded at the start of each execution",
		},
		Build: build, QuickBudget: 45 * time.Second, ThoroughBudget: 12 * time.Minute, MinNonTrivial: 40,
		Seq: seqBlocking, ReplaySeq: replayBlocking,
		Extra: map[string]interface{}{"additional_part_blocking_modes": "bounded-exhaustive enumeration of histories on real socket pairs with a free-running schedule (every history up to the depth executed once; schedules not enumerated); counters histories_mode_*, histories_depth_*, histories_with_transfer, ws_connections_judged, ws_message_callbacks, waits_that_hit_the_cap, part_* belong to it"},
	})
}

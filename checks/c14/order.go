package main

import (
	"bytes"
	"fmt"
	"net/http"
	"strings"
	"time"

	"github.com/lesismal/nbio"
	"github.com/lesismal/nbio/mempool"
	"github.com/lesismal/nbio/nbhttp"
	"github.com/lesismal/nbio/nbhttp/websocket"

	"verif/ekit"
	"verif/seqx/wsgen"
	"verif/track"
	"verif/vkit"
	"verif/vsched"
	"verif/vshim/vsys"
)

// Family (a): callback order through the per-connection job queue. A real nbhttp.Engine
// (IOModNonBlocking) on the simulated kernel, the connection injected with
// AddConnNonTLSNonBlocking as in C10; the HTTP handler calls the real Upgrader.Upgrade
// (scenario 1: *nbio.Conn owned by the engine). The scripted peer sends the upgrade request,
// waits for the 101 response (RFC 6455 4.1: the client must), sends masked frames in bursts and
// ends the connection, or the server closes it from a message handler / from another thread.
//
// Family (d): the same stack, two harness threads call WriteMessage concurrently on the
// engine-backed connection over a small socket (partial writes are queued by nbio.Conn).

type acfg struct {
	mode    ekit.Mode
	exec    string // go | pool | inline
	msgs    int    // data messages the client sends
	frag    bool   // message #0 is sent as two fragments
	bursts  []int  // frames per burst (after the 101 response)
	early   int    // leading frames sent in the same burst as the upgrade request (a client that does not wait)
	nowait  bool   // the client does not wait for the 101 response before it sends its bursts / ends (not conforming either)
	end     string // fin | rst | hclose | tclose | oclose (OnOpen calls Close) | fin+tclose | none (family d)
	closeAt int    // hclose: index of the message whose handler calls Close
	echo    bool   // the message handler answers with WriteMessage
	writers int    // family (d): concurrent writer threads (0: family a)
	k       int    // socket capacity towards the peer
	f       int    // MaxWebsocketFramePayloadSize (family d)
	p       int
	// a user callback that panics (nbio.Conn.execute recovers the panic of a queued job and
	// logs it; the queue must go on with the next job)
	panicMsg  int  // k>0: the handler of message #k-1 panics at its end (after its Close / echo, if any)
	panicOpen bool // the OnOpen handler panics at its end (Upgrade never returns to the HTTP handler)
}

func (c acfg) name() string {
	if c.writers > 0 {
		return fmt.Sprintf("engine-writers %s exec=%s writers=%d F=%d K=%d end=%s", c.mode, c.exec, c.writers, c.f, c.k, c.end)
	}
	s := fmt.Sprintf("order %s exec=%s msgs=%d frag=%v bursts=%v early=%d nowait=%v end=%s@%d echo=%v", c.mode, c.exec, c.msgs, c.frag, c.bursts, c.early, c.nowait, c.end, c.closeAt, c.echo)
	if c.panicMsg > 0 {
		s += fmt.Sprintf(" panic=message#%d", c.panicMsg-1)
	}
	if c.panicOpen {
		s += " panic=open"
	}
	return s
}

const handshakeReq = "GET /ws HTTP/1.1\r\nHost: h\r\nConnection: Upgrade\r\nUpgrade: websocket\r\nSec-WebSocket-Version: 13\r\nSec-WebSocket-Key: dGhlIHNhbXBsZSBub25jZQ==\r\n\r\n"

// clientScript builds the client's frames: payloads in wire order and the encoded frames.
func clientScript(c acfg) (frames [][]byte, payloads [][]byte) {
	for i := 0; i < c.msgs; i++ {
		p := []byte(fmt.Sprintf("msg-%d", i))
		payloads = append(payloads, p)
		key := [4]byte{9, 8, 7, byte(i + 1)}
		if i == 0 && c.frag {
			a := wsgen.Frame{Fin: false, Op: wsgen.OpBinary, Masked: true, Key: key, Payload: p[:2]}
			b := wsgen.Frame{Fin: true, Op: wsgen.OpCont, Masked: true, Key: key, Payload: p[2:]}
			frames = append(frames, a.Append(nil), b.Append(nil))
			continue
		}
		fr := wsgen.Frame{Fin: true, Op: wsgen.OpBinary, Masked: true, Key: key, Payload: p}
		frames = append(frames, fr.Append(nil))
	}
	return
}

func orderBody(c acfg) func() {
	return func() {
		vsys.Configure(false, false)
		vkit.Log.TakeErrors() // lines of a preceding execution that was cut short (pruned) are not this one's
		w := &world{}
		tr := track.New(track.Pooled)
		mempool.DefaultMemPool = tr
		l := &cbLog{w: w}
		u := websocket.NewUpgrader()
		u.KeepaliveTime = 0
		u.CheckOrigin = func(*http.Request) bool { return true }

		var wsc *websocket.Conn
		upgradeErr := error(nil)
		upgradeRet := 0
		handlerCalls := 0
		conf := nbhttp.Config{
			Name: "c14a", NPoller: 1, ReadBufferSize: 4096, KeepaliveTime: time.Hour,
			BodyAllocator: tr, SupportServerOnly: true, MaxWebsocketFramePayloadSize: c.f, MessageHandlerPoolSize: 4,
			Handler: http.HandlerFunc(func(rw http.ResponseWriter, r *http.Request) {
				handlerCalls++
				conn, err := u.Upgrade(rw, r, nil)
				upgradeRet = w.tick()
				upgradeErr = err
				if err == nil {
					wsc = conn
				}
			}),
		}
		switch c.mode {
		case ekit.ET:
			conf.EpollMod = nbio.EPOLLET
		case ekit.ONESHOT:
			conf.EpollMod = nbio.EPOLLET
			conf.EPOLLONESHOT = nbio.EPOLLONESHOT
		}
		switch c.exec {
		case "inline":
			conf.ServerExecutor = func(f func()) { f() }
		case "go":
			conf.ServerExecutor = func(f func()) { vsched.GoNamed("exec", f) }
		}
		engine := nbhttp.NewEngine(conf)
		u.Engine = engine
		if err := engine.Start(); err != nil {
			vsched.Fail("harness|engine start: %v", err)
			return
		}

		frames, payloads := clientScript(c)
		var echoes []*outMsg
		for i := 0; i < c.msgs && c.echo; i++ {
			echoes = append(echoes, &outMsg{id: fmt.Sprintf("echo%d", i), kind: 'M', op: wsgen.OpBinary, payload: payloadFor(i, 3)})
		}
		install(u, w, l, func(conn *websocket.Conn, i int, data []byte) {
			if c.echo && i < len(echoes) {
				m := echoes[i]
				m.call = w.tick()
				m.err = conn.WriteMessage(websocket.BinaryMessage, m.payload)
				m.ret = w.tick()
			}
			if c.end == "hclose" && i == c.closeAt {
				_ = conn.Close()
			}
			if c.panicMsg > 0 && i == c.panicMsg-1 {
				// the callback ends here, by panicking
				l.leave()
				l.msgs[i].end = w.tick()
				w.raise()
			}
		})
		if c.panicOpen {
			u.OnOpen(func(conn *websocket.Conn) {
				l.enter("open")
				l.openStart = append(l.openStart, w.tick())
				vsched.Point()
				wsc = conn // Upgrade will not return it
				l.leave()
				l.openEnd = append(l.openEnd, w.tick())
				w.raise()
			})
		}

		if c.end == "oclose" {
			u.OnOpen(func(conn *websocket.Conn) {
				l.enter("open")
				l.openStart = append(l.openStart, w.tick())
				vsched.Point()
				_ = conn.Close()
				vsched.Point()
				l.leave()
				l.openEnd = append(l.openEnd, w.tick())
			})
		}
		k := c.k
		if k == 0 {
			k = 1 << 20
		}
		nbc, peer := ekit.Stream(false, k, 1<<20)
		engine.AddConnNonTLSNonBlocking(&nbhttp.Conn{Conn: nbc}, nil, func() {})

		got101 := 0
		var msgs []*outMsg
		inCall := 0
		vsched.GoNamed("client", func() {
			first := []byte(handshakeReq)
			fi := 0
			for ; fi < c.early && fi < len(frames); fi++ {
				first = append(first, frames[fi]...)
			}
			if !peer.WriteAll(first) {
				return
			}
			for !c.nowait && !bytes.Contains(peer.Got, []byte("\r\n\r\n")) {
				peer.WaitReadable()
				if peer.Queued() == 0 {
					return // the server went away before it answered
				}
				peer.Read(0)
			}
			got101 = w.tick()
			if c.echo || c.writers > 0 {
				vsched.GoNamed("drain", func() { peer.Drain() })
			}
			for _, n := range c.bursts {
				var b []byte
				for j := 0; j < n && fi < len(frames); j++ {
					b = append(b, frames[fi]...)
					fi++
				}
				if len(b) > 0 && !peer.WriteAll(b) {
					return
				}
			}
			switch c.end {
			case "fin", "fin+tclose":
				peer.Close()
			case "rst":
				peer.Reset()
			}
		})
		if strings.Contains(c.end, "tclose") {
			vsched.GoNamed("closer", func() {
				vsched.Block("closer.wait-conn", func() bool { return wsc != nil || upgradeRet != 0 })
				w.tick()
				if wsc != nil {
					_ = wsc.Close()
				}
			})
		}
		for i := 0; i < c.writers; i++ {
			i := i
			m := &outMsg{id: fmt.Sprintf("w%d", i), writer: i, kind: 'M', op: wsgen.OpBinary, payload: payloadFor(i, 2*c.f+1)}
			msgs = append(msgs, m)
			vsched.GoNamed(fmt.Sprintf("writer%d", i), func() {
				vsched.Block("writer.wait-conn", func() bool { return upgradeRet != 0 })
				if wsc == nil {
					return
				}
				m.call = w.tick()
				inCall++
				m.err = wsc.WriteMessage(websocket.BinaryMessage, m.payload)
				m.ret = w.tick()
				inCall--
			})
		}
		vsched.WaitIdle()

		// ---- oracle
		opened := upgradeRet != 0 && upgradeErr == nil
		if c.panicOpen && len(l.openStart) > 0 {
			// the 101 response is out and the connection is a WebSocket connection; Upgrade was
			// left by the panic of the open handler, the HTTP handler never saw it return
			opened = true
			if upgradeRet != 0 {
				w.failf("harness|OnOpen panicked, yet Upgrade returned to the HTTP handler")
			}
		}
		closedNow, _ := nbc.IsClosed()
		if (c.writers == 0 || strings.Contains(c.end, "tclose")) && !closedNow {
			w.failf("conn-not-closed end=%s|the scenario ends the connection (%s) but the nbio connection is still open at quiescence", c.end, c.end)
		}
		if handlerCalls > 1 {
			w.failf("handler-twice|the HTTP handler ran %d times for one upgrade request", handlerCalls)
		}
		if opened && !c.panicOpen && (len(l.openEnd) != 1 || l.openEnd[0] > upgradeRet) {
			w.failf("open-not-before-upgrade-returned|Upgrade returned at t=%d, OnOpen calls completed: %v", upgradeRet, l.openEnd)
		}
		if !opened && (len(l.openStart) > 0 || len(l.msgs) > 0 || len(l.closes) > 0) {
			w.failf("callbacks-without-upgrade|Upgrade failed or never ran (err=%v), yet callbacks ran: open=%d message=%d close=%d", upgradeErr, len(l.openStart), len(l.msgs), len(l.closes))
		}
		if c.panicMsg > 0 || c.panicOpen {
			// a conforming client that sent everything and then FIN: the messages behind the one
			// whose callback panicked are in the same job queue and are not lost (nothing closes
			// the connection before the peer's FIN has been read)
			if c.end == "fin" && !c.nowait && c.early == 0 && w.panicsRaised > 0 && opened && len(l.msgs) < c.msgs {
				w.failf("message-dropped-after-callback-panic|a callback panicked (recovered by nbio); of the %d messages the client sent before its FIN only %d reached OnMessage: the messages behind the panicking callback were dropped (%s)", c.msgs, len(l.msgs), c.name())
			}
		}
		l.judge(payloads, opened, closedNow, c.name())
		// a conforming client, nobody closes early: everything that was sent before the peer's
		// FIN arrives in order; the callback part of the property says nothing about loss, so this
		// is only a coverage counter
		cnt := map[string]int{"messages_delivered": len(l.msgs)}
		if c.panicMsg > 0 || c.panicOpen {
			cnt["callback_panics"] = w.panicsRaised
			after := len(l.msgs)
			if c.panicMsg > 0 {
				after = len(l.msgs) - c.panicMsg
			}
			if w.panicsRaised > 0 && after > 0 {
				cnt["messages_delivered_after_a_callback_panic"] = after
			}
			if w.panicsRaised > 0 && len(l.closes) > 0 {
				cnt["onclose_after_a_callback_panic"] = 1
			}
		}
		if len(l.msgs) == c.msgs && c.msgs > 0 {
			cnt["all_messages_delivered"] = 1
		}
		if opened {
			cnt["upgrades"] = 1
		}
		if len(l.closes) > 0 {
			cnt["onclose_runs"] = 1
		}
		// the server's frames (echoes / concurrent writers) as the peer saw them
		if (c.echo || c.writers > 0) && got101 != 0 {
			gotWire := peer.Got
			if i := bytes.Index(gotWire, []byte("\r\n\r\n")); i >= 0 {
				gotWire = gotWire[i+4:]
			}
			all := append(append([]*outMsg{}, echoes...), msgs...)
			if c.writers > 0 {
				for _, m := range msgs {
					if m.call != 0 && m.ret == 0 {
						w.failf("write-stuck|the call writing %s never returned", m.id)
					} else if m.err != nil && (c.end == "none" || c.end == "") {
						w.failf("write-error|writing %s on an open connection failed: %v", m.id, m.err)
					}
				}
			}
			racingClose := c.writers > 0 && c.end != "none" && c.end != ""
			res := judgeWire(w, gotWire, all, c.writers > 0 && !racingClose, c.writers == 0 || racingClose, c.name())
			if racingClose && c.k >= 1<<20 {
				// the socket took every frame at once: what WriteMessage accepted was in the kernel
				// before the close and reaches the peer
				for _, m := range msgs {
					if m.ret != 0 && m.err == nil && res.v != nil && res.count[m.id] == 0 {
						w.failf("wire-lost|message %s was accepted (nil error) by a socket with room for everything, yet it is not on the wire; wire=%s (%s)", m.id, wireStr(res.frames), c.name())
					}
				}
			}
			if res.v != nil {
				cnt["messages_on_wire"] = len(res.v.Events)
			}
			st := vsys.GetStats()
			if st.Eagains > 0 || st.ShortWrites > 0 {
				cnt["socket_backpressure_execs"] = 1
			}
			if c.writers > 1 && len(msgs) > 1 && msgs[0].call != 0 && msgs[1].call != 0 &&
				msgs[0].call < msgs[1].ret && msgs[1].call < msgs[0].ret {
				cnt["interleave_opportunities"] = 1
			}
		}
		if v := tr.Violations(); len(v) > 0 {
			cnt["ownership_violations_reported_by_C11"] = len(v)
		}
		w.logFailure()
		lastCounters = cnt
		lastOutcome = fmt.Sprintf("order: opened=%v delivered=%d closes=%d", opened, len(l.msgs), len(l.closes))
		if c.writers > 0 {
			lastOutcome = "engine-writers"
		}
		w.flush()
	}
}

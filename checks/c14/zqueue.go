package main

import (
	"bytes"
	"fmt"
	"strings"

	"verif/seqx/wsgen"
)

// Family (c), compression dimension: the bounded send queue (BlockingModSendQueueMaxSize > 0)
// together with negotiated permessage-deflate and a small frame limit. WriteMessage deflates the
// payload first and cuts the COMPRESSED bytes into frames of at most F bytes; the number of queue
// slots a message needs is therefore a function of its compressed length, which is smaller than
// the caller's length for compressible content and LARGER (stored deflate block: +6 bytes at the
// default level) for incompressible content. A message whose length is at or a few bytes below a
// multiple of F needs one frame more than its uncompressed length suggests.
//
// One scenario = (level, class and length of the "big" message B, messages queued before it,
// queue limit = those + free slots). A writer thread writes the small messages and then B; when
// everything has drained the main thread writes a follow-up message. Oracle (queued.go): a
// refused message has no frame on the wire; everything accepted is on the wire whole, exactly
// once, in order, judged by the reference decoder which inflates RSV1 messages.

// zSmallLen is the payload length of the small data messages ('x') of these scenarios: short
// enough that the deflated form still fits one frame.
const zSmallLen = 6

// zRnd returns n deterministic pseudo-random bytes (xorshift32 seeded by id): the incompressible
// class. The harness verifies at start that their deflate output is longer than the input.
func zRnd(id, n int) []byte {
	x := uint32(0x9E3779B9)*uint32(id+1) ^ 0xA5A5A5A5
	b := make([]byte, n)
	for i := range b {
		x ^= x << 13
		x ^= x >> 17
		x ^= x << 5
		b[i] = byte(x >> 11)
	}
	return b
}

// zRep returns n equal bytes (a different byte per id): the compressible class.
func zRep(id, n int) []byte {
	return bytes.Repeat([]byte{byte(0x41 + id)}, n)
}

func zPayload(class string, id, n int) []byte {
	switch class {
	case "rnd":
		return zRnd(id, n)
	case "rep":
		return zRep(id, n)
	}
	panic("zPayload: unknown class " + class)
}

// zDeflate is wsgen.Deflate (the reference permessage-deflate encoder: compress/flate used
// directly), memoised: a flate.Writer is ~1 MB of fresh memory, far too much per execution.
// The cache is filled while the scenario list is built (zVerify), before any execution runs.
var zDeflateCache = map[string][]byte{}

func zDeflate(payload []byte, level int) []byte {
	k := fmt.Sprintf("%d|%s", level, payload)
	if b, ok := zDeflateCache[k]; ok {
		return b
	}
	b := append([]byte{}, wsgen.Deflate(payload, level)...)
	zDeflateCache[k] = b
	return b
}

func framesFor(n, f int) int {
	if n <= f {
		return 1
	}
	return (n + f - 1) / f
}

// zBig describes the big message of a scenario.
type zBig struct {
	class string
	n     int
}

// zShape is what the reference deflate says about a big message: frames needed by the
// uncompressed length (fu) and by the compressed length (fc).
type zShape struct {
	c, fu, fc int
}

func zShapeOf(b zBig, id, level, f int) zShape {
	c := len(zDeflate(zPayload(b.class, id, b.n), level))
	return zShape{c: c, fu: framesFor(b.n, f), fc: framesFor(c, f)}
}

// zScriptMsgs builds the messages of writer i for a compression scenario:
//
//	x  WriteMessage(Binary, 6 bytes)   -> one frame also after deflate
//	p  WriteMessage(Ping, 1 byte)      -> never compressed
//	B  WriteMessage(Binary, the big message of the scenario)
func zScriptMsgs(c qcfg, i int, script string) []*outMsg {
	var mine []*outMsg
	for j, ch := range script {
		id := i*4 + j
		m := &outMsg{id: fmt.Sprintf("w%d.%d%c", i, j, ch), writer: i, kind: 'M', op: wsgen.OpBinary}
		switch ch {
		case 'x':
			m.payload = payloadFor(id, zSmallLen)
		case 'p':
			m.kind = 'P'
			m.payload = payloadFor(id, 1)
		case 'B':
			m.payload = zPayload(c.big.class, id, c.big.n)
		default:
			panic("zScriptMsgs: unknown script letter in " + script)
		}
		if m.kind == 'M' {
			m.body = zDeflate(m.payload, c.level)
		}
		mine = append(mine, m)
	}
	return mine
}

// zAfterMsg is the follow-up message written by the main thread after the queue drained.
func zAfterMsg(c qcfg) *outMsg {
	m := &outMsg{id: "after", writer: 99, kind: 'M', op: wsgen.OpBinary, payload: payloadFor(9, zSmallLen)}
	m.body = zDeflate(m.payload, c.level)
	return m
}

// zVerify checks, when the scenario list is built, that the payloads have the shape the scenario
// is about; a failure is a harness error (panic -> the run ends with exit 2), not a verdict.
func zVerify(c qcfg) {
	var all []*outMsg
	for i, s := range c.writers {
		all = append(all, zScriptMsgs(c, i, s)...)
	}
	all = append(all, zAfterMsg(c))
	for _, m := range all {
		if m.kind != 'M' {
			continue
		}
		back, err := wsgen.Inflate(m.body, 0)
		if err != nil || !bytes.Equal(back, m.payload) {
			panic(fmt.Sprintf("zVerify %s: reference deflate of %s does not inflate back (%v)", c.name(), m.id, err))
		}
		big := len(m.payload) > zSmallLen
		if !big && len(m.body) > c.f {
			panic(fmt.Sprintf("zVerify %s: small message %s deflates to %d bytes > F=%d", c.name(), m.id, len(m.body), c.f))
		}
		if len(m.body) > 120 || framesFor(len(m.body), c.f) > 6 {
			panic(fmt.Sprintf("zVerify %s: %s deflates to %d bytes: frames would need long headers / too many frames", c.name(), m.id, len(m.body)))
		}
		if big {
			switch c.big.class {
			case "rnd":
				if len(m.body) <= len(m.payload) {
					panic(fmt.Sprintf("zVerify %s: the incompressible payload (%d bytes) deflates to %d bytes: it does not grow", c.name(), len(m.payload), len(m.body)))
				}
			case "rep":
				if len(m.body) >= len(m.payload) {
					panic(fmt.Sprintf("zVerify %s: the compressible payload (%d bytes) deflates to %d bytes: it does not shrink", c.name(), len(m.payload), len(m.body)))
				}
			}
		}
	}
	// attribution: the first frame of every message must identify it
	head := func(m *outMsg) []byte {
		b := m.wireBody()
		if m.kind == 'M' && len(b) > c.f {
			b = b[:c.f]
		}
		return b
	}
	for i, a := range all {
		for j, b := range all {
			if i != j && a.kind == b.kind && (bytes.HasPrefix(head(a), head(b)) || bytes.HasPrefix(head(b), head(a))) {
				panic(fmt.Sprintf("zVerify %s: the first frames of %s and %s cannot be told apart", c.name(), a.id, b.id))
			}
		}
	}
}

// attributeWrites assigns every recorded Write (nbio writes one frame per call) to the message
// it belongs to: a start frame to the message whose body begins with the frame's payload, a
// continuation frame to the message of the preceding data frame if it continues that message's
// body at the right offset. Frames that fit nowhere stay unowned (counted by the caller).
func attributeWrites(fc *fakeConn, msgs []*outMsg, f int) (unowned int) {
	var cur *outMsg
	off := 0
	for i := range fc.writes {
		wr := &fc.writes[i]
		wr.attributed, wr.owner = true, nil
		fr, _, err := wsgen.ParseFrames(wr.data)
		if err != nil || len(fr) != 1 {
			unowned++
			cur = nil
			continue
		}
		fm := &fr[0]
		switch {
		case fm.IsControl():
			if fm.Op != wsgen.OpPing {
				continue // a close or pong frame is nbio's own reply, not a message of a writer
			}
			for _, m := range msgs {
				if m.kind == 'P' && fm.Op == wsgen.OpPing && bytes.Equal(fm.Payload, m.payload) {
					wr.owner = m
				}
			}
		case fm.Op != wsgen.OpCont:
			cur, off = nil, 0
			for _, m := range msgs {
				b := m.wireBody()
				if m.kind == 'M' && fm.Op == m.op && len(fm.Payload) > 0 && bytes.HasPrefix(b, fm.Payload) &&
					(len(fm.Payload) == len(b) || len(fm.Payload) == f) {
					wr.owner, cur, off = m, m, len(fm.Payload)
					break
				}
			}
			if fm.Fin {
				cur = nil
			}
		default: // continuation
			if cur != nil {
				b := cur.wireBody()
				if off+len(fm.Payload) <= len(b) && bytes.Equal(b[off:off+len(fm.Payload)], fm.Payload) {
					wr.owner = cur
					off += len(fm.Payload)
				} else {
					cur = nil
				}
			}
			if fm.Fin {
				cur = nil
			}
		}
		if wr.owner == nil {
			unowned++
		}
	}
	return unowned
}

// zPlan lists the compression scenarios of the tier (F=16 throughout).
//
// Quick, level 1 (the Upgrader's default; stores incompressible input: +6 bytes):
//   - incompressible B of every length kF-d, k in {1,2}, d in 0..6 (d<6 grows across the frame
//     boundary: one frame more than the uncompressed length suggests; d=6 ends exactly on it)
//     x free slots {k, k+1} behind two queued small messages; two preemptions for d in {0,3,6},
//     one for the other d; for d in {0,3,6} also with an empty queue (B is the head)
//   - compressible B of four lengths that shrink below a frame boundary x free slots {fc, fu}
//   - variants: a ping among the queued frames, a second writer, two big messages, a close racing
//
// Thorough: k up to 3, 0-3 messages queued before, free slots {k-1, k, k+1, fc+1} for every d at
// the levels 1 and 6 (6: fixed Huffman, +3..+5 bytes), the d in {0,3,6} column at the levels -2
// (Huffman only), 0 (stored only) and 9, more compressible lengths, the two-writer variants for
// four big messages at two preemptions.
func zPlan(thorough bool) []qcfg {
	const f = 16
	var out []qcfg
	seen := map[string]bool{}
	add := func(c qcfg, pq, pt int) {
		c.f, c.z = f, true
		if c.closeBy == "" {
			c.closeBy = "none"
		}
		c.p = pq
		if thorough {
			c.p = pt
		}
		if seen[c.name()] {
			return
		}
		seen[c.name()] = true
		zVerify(c)
		out = append(out, c)
	}
	one := func(level int, b zBig, npre, free int, pq, pt int) {
		if free < 0 || npre+free < 1 || npre+free > 9 {
			return
		}
		add(qcfg{writers: []string{strings.Repeat("x", npre) + "B"}, qmax: npre + free, level: level, big: b, after: true}, pq, pt)
	}
	boundary := func(d int) bool { return d == 0 || d == 3 || d == 6 }

	levels := []int{1}
	if thorough {
		levels = []int{1, 6, -2, 0, 9}
	}
	for _, level := range levels {
		full := level == 1 || level == 6
		ks := []int{1, 2}
		if thorough && level == 1 {
			ks = []int{1, 2, 3}
		}
		// incompressible
		for _, k := range ks {
			for d := 0; d <= 6; d++ {
				if !full && !boundary(d) {
					continue
				}
				b := zBig{"rnd", k*f - d}
				pres := []int{2}
				if boundary(d) {
					pres = []int{2, 0}
				}
				if thorough && full {
					pres = []int{0, 1, 2, 3}
				}
				for _, np := range pres {
					sh := zShapeOf(b, np, level, f) // B is message number np of writer 0
					pq := 1
					if boundary(d) {
						pq = 2
					}
					for _, free := range []int{sh.fu, sh.fu + 1} {
						one(level, b, np, free, pq, 2)
					}
					if thorough && full {
						one(level, b, np, sh.fu-1, 2, 2)
						one(level, b, np, sh.fc+1, 2, 2)
					}
				}
			}
		}
		// compressible: over-counting from the uncompressed length is safe, under-counting is not
		if level == 0 {
			continue // stored only: nothing shrinks
		}
		reps := []int{f + 1, f + 3, 2*f + 1, 3 * f}
		if thorough && full {
			reps = []int{f + 1, f + 2, f + 3, 2 * f, 2*f + 1, 3 * f, 3*f + 1, 4 * f}
		}
		for _, n := range reps {
			b := zBig{"rep", n}
			sh := zShapeOf(b, 2, level, f)
			for _, free := range []int{sh.fc, sh.fu} {
				one(level, b, 2, free, 2, 2)
				if thorough && full {
					one(level, b, 0, free, 2, 2)
					one(level, b, 1, free, 2, 2)
				}
			}
			if thorough && full {
				one(level, b, 2, sh.fc-1, 2, 2)
			}
		}
	}
	// variants at the default level
	b16, b32, b29 := zBig{"rnd", f}, zBig{"rnd", 2 * f}, zBig{"rnd", 2*f - 3}
	add(qcfg{writers: []string{"xpB"}, qmax: 3, level: 1, big: b16, after: true}, 2, 3)
	add(qcfg{writers: []string{"xpB"}, qmax: 4, level: 1, big: b32, after: true}, 1, 3)
	add(qcfg{writers: []string{"xB", "x"}, qmax: 3, level: 1, big: b16, after: true}, 1, 2)
	add(qcfg{writers: []string{"xB", "x"}, qmax: 4, level: 1, big: b29, after: true}, 1, 2)
	add(qcfg{writers: []string{"B", "B"}, qmax: 3, level: 1, big: b16, after: true}, 1, 2)
	add(qcfg{writers: []string{"xB", "p"}, qmax: 3, level: 1, big: b32, after: true}, 1, 2)
	add(qcfg{writers: []string{"xxB"}, qmax: 4, level: 1, big: b32, closeBy: "eof"}, 1, 2)
	add(qcfg{writers: []string{"xB"}, qmax: 3, level: 1, big: b16, closeBy: "close"}, 1, 2)
	if thorough {
		for _, b := range []zBig{b16, b32, b29, {"rep", 2*f + 1}} {
			sh := zShapeOf(b, 1, 1, f)
			for _, free := range []int{sh.fu, sh.fc} {
				add(qcfg{writers: []string{"xB", "x"}, qmax: 2 + free, level: 1, big: b, after: true}, 1, 2)
				add(qcfg{writers: []string{"xB", "xx"}, qmax: 2 + free, level: 1, big: b, after: true}, 1, 2)
				add(qcfg{writers: []string{"B", "B"}, qmax: 1 + free, level: 1, big: b, after: true}, 1, 2)
			}
		}
	}
	return out
}

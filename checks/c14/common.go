package main

import (
	"bytes"
	"errors"
	"fmt"
	"io"
	"net"
	"strings"
	"time"

	"verif/seqx/wsgen"
	"verif/track"
	"verif/vkit"
	"verif/vsched"
)

// ---------------------------------------------------------------------------------------------
// logical clock shared by all harness threads of one execution

// world is the per-execution observation log. Every access of a harness thread to shared
// harness state happens right next to a tick(), which records a write step on w.log: the
// happens-before cache of the explorer therefore sees all communication through harness
// variables (DESIGN 3.3).
type world struct {
	log   vsched.Obj
	seq   int
	fails []string
	z     bool // permessage-deflate was negotiated: RSV1 is legal, the reference decoder inflates
	// deliberate panics raised by the harness's own callbacks (harnessPanic); nbio's recover around
	// a queued job logs each of them once, and exactly those log lines are not failures
	panicsRaised int
}

// harnessPanic is the value the harness's callbacks panic with in the scenarios that explore a
// panicking user callback. nbio.Conn.execute recovers a job's panic and logs
// "conn execute failed: <value>\n<stack>".
const harnessPanic = "c14-harness-deliberate-callback-panic"

// raise panics like a failing user callback would.
func (w *world) raise() {
	w.panicsRaised++
	w.tick()
	panic(harnessPanic)
}

func (w *world) tick() int {
	w.seq++
	vsched.Record(&w.log, 1, true, uint64(w.seq))
	return w.seq
}

func (w *world) failf(format string, a ...interface{}) {
	w.fails = append(w.fails, fmt.Sprintf(format, a...))
}

// flush hands the collected failures to the scheduler (the first one becomes the verdict).
func (w *world) flush() {
	for _, f := range w.fails {
		vsched.Fail("%s", f)
	}
}

var lastCounters map[string]int
var lastOutcome string

// logErrors returns the first line of the first error nbio logged, not counting up to exempt
// lines that are exactly the job queue's report of the harness's own deliberate panic.
func logErrors(exempt int) (first string, exempted int) {
	for _, e := range vkit.Log.TakeErrors() {
		if i := strings.Index(e, "\n"); i > 0 {
			e = e[:i]
		}
		if exempted < exempt && e == "conn execute failed: "+harnessPanic {
			exempted++
			continue
		}
		if first == "" {
			first = e
		}
	}
	return first, exempted
}

// logFailure turns an error line nbio logged (its recover() blocks report swallowed panics this
// way) into a failure with a signature that names the place.
func (w *world) logFailure() {
	e, _ := logErrors(w.panicsRaised)
	switch {
	case e == "":
	case strings.Contains(e, "execute ParserCloser failed") && strings.Contains(e, "interface is nil"):
		w.failf("recovered-panic DataHandler nil-session|nbhttp.Engine.DataHandler panicked (recovered and logged): %s. The connection's session is nil: Upgrade had installed the websocket.Conn as session, failed to write the 101 response (the peer was gone) and cleared the session again (clearNBCWSSession) while the poller was delivering bytes the client had sent after its upgrade request; `c.Session().(ParserCloser)` is a single-value type assertion, which panics on a nil interface before the nil check that follows it can run", e)
	case strings.HasPrefix(e, "nil ParserCloser"):
		// DataHandler found the session cleared by a failed upgrade and said so: an ordinary
		// diagnostic, not a swallowed panic (this is what the repaired code does instead of
		// panicking)
	default:
		w.failf("logged-error|nbio logged an error (a recovered panic?): %s", e)
	}
}

// check is the terminal-state oracle shared by all scenarios: nobody may be parked on a mutex
// forever, and no harness thread (main, client, writer, closer, feeder) may still be blocked.
func check(r *vsched.Result) string {
	for _, b := range r.Blocked {
		if strings.HasPrefix(b.Why, "mutex") {
			return fmt.Sprintf("deadlock-mutex thread=%s|thread %s is blocked on a mutex forever (%s)", strings.SplitN(b.Name, ":", 2)[0], b.Name, b.Why)
		}
	}
	for _, b := range r.Blocked {
		for _, p := range []string{"main", "client", "writer", "closer", "feeder"} {
			if strings.HasPrefix(b.Name, p) {
				return fmt.Sprintf("stuck thread=%s|harness thread %s is still blocked at the end (%s)", p, b.Name, b.Why)
			}
		}
	}
	return ""
}

// ---------------------------------------------------------------------------------------------
// callback log (families a and c)

type msgRec struct {
	start, end int
	payload    []byte
	typ        int
}

// cbLog records the open / message / close callbacks of one websocket.Conn.
type cbLog struct {
	w         *world
	openStart []int
	openEnd   []int
	msgs      []*msgRec
	closes    []int // start ticks
	closeEnd  []int
	running   string // name of the callback that is executing right now
	overlaps  int
}

func (l *cbLog) enter(what string) {
	if l.running != "" {
		l.overlaps++
		l.w.failf("callback-overlap %s-during-%s|callback %s started while callback %s of the same connection was still running", kindOf(what), kindOf(l.running), what, l.running)
	}
	l.running = what
}

func (l *cbLog) leave() { l.running = "" }

func kindOf(s string) string {
	if i := strings.IndexByte(s, '#'); i >= 0 {
		return s[:i]
	}
	return s
}

// judge applies the callback-order part of the property. sent lists the payloads of the data
// messages in wire order; opened says whether Upgrade reported success; ended says whether the
// connection is known to have ended (so the close callback is owed).
func (l *cbLog) judge(sent [][]byte, opened, ended bool, ctx string) {
	w := l.w
	if len(l.openStart) > 1 {
		w.failf("open-twice|OnOpen ran %d times for one connection (%s)", len(l.openStart), ctx)
	}
	if opened && len(l.openStart) == 0 {
		w.failf("open-missing|Upgrade succeeded but OnOpen never ran (%s)", ctx)
	}
	if len(l.openStart) != len(l.openEnd) {
		w.failf("open-unfinished|OnOpen started but did not return (%s)", ctx)
	}
	openEnd := 0
	if len(l.openEnd) > 0 {
		openEnd = l.openEnd[0]
	}
	for i, m := range l.msgs {
		if openEnd == 0 || m.start < openEnd {
			w.failf("message-before-open-returned|OnMessage #%d started at t=%d, OnOpen returned at t=%d (0: never) (%s)", i, m.start, openEnd, ctx)
		}
		if m.end == 0 {
			w.failf("message-unfinished|OnMessage #%d started but did not return (%s)", i, ctx)
		}
		if i > 0 && l.msgs[i-1].end != 0 && m.start < l.msgs[i-1].end {
			w.failf("message-overlap|OnMessage #%d started at t=%d before OnMessage #%d returned at t=%d (%s)", i, m.start, i-1, l.msgs[i-1].end, ctx)
		}
		if i >= len(sent) {
			w.failf("message-extra|OnMessage #%d delivered %q but only %d messages were sent (%s)", i, short(m.payload), len(sent), ctx)
		} else if !bytes.Equal(m.payload, sent[i]) {
			// which one is it?
			at := -1
			for j := range sent {
				if bytes.Equal(m.payload, sent[j]) {
					at = j
				}
			}
			if at >= 0 {
				w.failf("message-order|OnMessage #%d delivered the payload of message #%d of the wire (%q) (%s)", i, at, short(m.payload), ctx)
			} else {
				w.failf("message-payload|OnMessage #%d delivered %q, the wire carried %q (%s)", i, short(m.payload), short(sent[i]), ctx)
			}
		}
	}
	if len(l.closes) > 1 {
		w.failf("close-twice|OnClose ran %d times for one connection (%s)", len(l.closes), ctx)
	}
	if len(l.closes) != len(l.closeEnd) {
		w.failf("close-unfinished|OnClose started but did not return (%s)", ctx)
	}
	if opened && ended && len(l.closes) == 0 {
		w.failf("close-missing|the connection was opened (OnOpen ran) and has ended, OnClose never ran (%s)", ctx)
	}
	if len(l.closes) > 0 {
		c := l.closes[0]
		if len(l.openStart) == 0 {
			w.failf("close-without-open|OnClose ran for a connection whose OnOpen never ran (%s)", ctx)
		} else if c < openEnd || openEnd == 0 {
			w.failf("close-before-open-returned|OnClose started at t=%d, OnOpen returned at t=%d (%s)", c, openEnd, ctx)
		}
		for i, m := range l.msgs {
			if m.start > c {
				w.failf("message-after-close|OnMessage #%d started at t=%d after OnClose (t=%d) (%s)", i, m.start, c, ctx)
			} else if m.end == 0 || m.end > c {
				w.failf("close-during-message|OnClose started at t=%d while OnMessage #%d (started t=%d) had not returned (%s)", c, i, m.start, ctx)
			}
		}
	}
}

func short(b []byte) []byte {
	if len(b) > 24 {
		return append(append([]byte{}, b[:24]...), "..."...)
	}
	return b
}

// ---------------------------------------------------------------------------------------------
// scheduler-aware fake net.Conn (families b and c)

var errInjected = errors.New("injected write error")

type fakeAddr struct{}

func (fakeAddr) Network() string { return "fake" }
func (fakeAddr) String() string  { return "fake:0" }

type wrec struct {
	data   []byte
	tick   int
	thread int
	// set by attributeWrites (scenarios with negotiated compression): the message this frame
	// belongs to, decided by position in the frame sequence instead of by content alone
	owner      *outMsg
	attributed bool
}

// fakeConn is an unknown net.Conn type (Upgrade scenario 4). Write is a scheduling point; Read
// blocks (disabled thread) until the harness feeds bytes, ends the stream or Close is called.
type fakeConn struct {
	o  vsched.Obj
	w  *world
	tr *track.T

	handshake   []byte // bytes written before frames() was armed (the 101 response)
	armed       bool
	writes      []wrec // accepted writes after the handshake
	nWrites     int    // Write calls after the handshake (accepted or failed by injection)
	failAt      int    // the k-th Write call after the handshake and all later ones fail (0: never)
	failedAt    int    // tick of the first injected failure
	closed      bool
	closeTick   int
	closeCalls  int
	lateWrites  int // Write calls that found the conn closed
	onCloseTick *int

	rbuf []byte
	eof  bool
	// threads that called Read (HandleRead callers that became a reader)
	readCallers map[int]bool
}

func (f *fakeConn) Write(b []byte) (int, error) {
	vsched.Point() // another thread may run between two frames of one message if nbio lets it
	t := f.w.tick()
	vsched.Record(&f.o, 2, true, uint64(len(b)))
	if f.tr != nil {
		f.tr.Use(b, "conn.Write")
	}
	if f.closed {
		f.lateWrites++
		return 0, net.ErrClosed
	}
	if !f.armed {
		f.handshake = append(f.handshake, b...)
		return len(b), nil
	}
	f.nWrites++
	if f.failAt > 0 && f.nWrites >= f.failAt {
		if f.failedAt == 0 {
			f.failedAt = t
		}
		return 0, errInjected
	}
	f.writes = append(f.writes, wrec{data: append([]byte(nil), b...), tick: t, thread: vsched.Cur()})
	return len(b), nil
}

func (f *fakeConn) Read(b []byte) (int, error) {
	if f.readCallers == nil {
		f.readCallers = map[int]bool{}
	}
	f.readCallers[vsched.Cur()] = true
	vsched.Block("fake.read", func() bool { return len(f.rbuf) > 0 || f.eof || f.closed })
	f.w.tick()
	if f.closed {
		vsched.Record(&f.o, 3, true, 0xc105ed)
		return 0, net.ErrClosed
	}
	if len(f.rbuf) == 0 {
		vsched.Record(&f.o, 3, true, 0xe0f)
		return 0, io.EOF
	}
	n := copy(b, f.rbuf)
	f.rbuf = append([]byte(nil), f.rbuf[n:]...)
	vsched.Record(&f.o, 3, true, uint64(n))
	return n, nil
}

// feed makes bytes readable (called by a harness thread).
func (f *fakeConn) feed(b []byte) {
	vsched.Point()
	f.w.tick()
	f.rbuf = append(f.rbuf, b...)
	vsched.Record(&f.o, 4, true, uint64(len(b)))
}

// end makes Read return io.EOF once the fed bytes were consumed.
func (f *fakeConn) end() {
	vsched.Point()
	f.w.tick()
	f.eof = true
	vsched.Record(&f.o, 5, true, 0)
}

func (f *fakeConn) Close() error {
	vsched.Point()
	t := f.w.tick()
	f.closeCalls++
	if !f.closed {
		f.closed = true
		f.closeTick = t
	}
	vsched.Record(&f.o, 6, true, uint64(f.closeCalls))
	return nil
}

func (f *fakeConn) LocalAddr() net.Addr                { return fakeAddr{} }
func (f *fakeConn) RemoteAddr() net.Addr               { return fakeAddr{} }
func (f *fakeConn) SetDeadline(t time.Time) error      { return nil }
func (f *fakeConn) SetReadDeadline(t time.Time) error  { return nil }
func (f *fakeConn) SetWriteDeadline(t time.Time) error { return nil }

func (f *fakeConn) wire() []byte {
	var out []byte
	for _, x := range f.writes {
		out = append(out, x.data...)
	}
	return out
}

// ---------------------------------------------------------------------------------------------
// writer oracle (families b, c, d)

// outMsg is one message a harness thread hands to the connection under test.
type outMsg struct {
	id      string
	writer  int
	kind    byte // 'M' data message through WriteMessage, 'P' ping through WriteMessage, 'F' one data message through a WriteFrame sequence
	op      byte
	payload []byte
	call    int   // tick before the first call
	ret     int   // tick after the last call returned (0: never)
	err     error // first error returned
	partial bool  // a multi-call sequence stopped in the middle
	// frames: kind 'F' only, one record per WriteFrame call made (the frame-level oracle)
	frames []*frameRec
	// body is what the frames of the message carry when it differs from payload: the reference
	// permessage-deflate form (wsgen.Deflate, compress/flate directly) of a data message on a
	// connection that negotiated compression. Used to attribute frames to messages only; whether
	// the wire is right is decided by inflating it (wsgen.Judge).
	body []byte
}

// frameRec is one WriteFrame call of a harness thread.
type frameRec struct {
	first, fin bool
	data       []byte
	call, ret  int
	err        error
}

// wireBody is the byte string the frames of m carry.
func (m *outMsg) wireBody() []byte {
	if m.body != nil {
		return m.body
	}
	return m.payload
}

func (m *outMsg) event() wsgen.Event {
	if m.kind == 'P' {
		return wsgen.Event{Kind: 'P', Payload: m.payload}
	}
	return wsgen.Event{Kind: 'M', Type: m.op, Payload: m.payload}
}

// wireVerdict is what the reference decoder makes of the bytes the peer received.
type wireVerdict struct {
	frames []wsgen.Frame
	v      *wsgen.Verdict
	pos    map[string]int // message id -> index among the decoded events
	count  map[string]int
}

// judgeWire decodes wire with the reference decoder and applies the write part of the property.
//
//	mustAll   every message whose call returned nil must be on the wire (no close happened)
//	allowOpen the wire may end inside a fragmented message (the connection was closed)
func judgeWire(w *world, wire []byte, msgs []*outMsg, mustAll, allowOpen bool, ctx string) *wireVerdict {
	res := &wireVerdict{pos: map[string]int{}, count: map[string]int{}}
	frames, _, err := wsgen.ParseFrames(wire)
	res.frames = frames
	if err != nil {
		w.failf("wire-torn-frame|the %d bytes on the wire do not split into whole frames: %v (%s)", len(wire), err, ctx)
		return res
	}
	v := wsgen.Judge(frames, wsgen.Rules{ToServer: false, Compression: w.z})
	res.v = v
	if !v.Legal() {
		switch v.Reason {
		case "data-in-fragmented", "cont-without-start":
			w.failf("wire-interleaved reason=%s|frame %d of the wire (%s) breaks into a fragmented message: the frames of different data messages are interleaved; wire=%s (%s)", v.Reason, v.Offender, frameStr(&frames[v.Offender]), wireStr(frames), ctx)
		default:
			w.failf("wire-illegal reason=%s|frame %d of the wire is not a legal RFC 6455 frame here (%s); wire=%s (%s)", v.Reason, v.Offender, v.Reason, wireStr(frames), ctx)
		}
		return res
	}
	if v.Open && !allowOpen {
		w.failf("wire-message-unfinished|the wire ends inside a fragmented message although the connection was not closed; wire=%s (%s)", wireStr(frames), ctx)
	}
	// every decoded event must be one of the messages handed in, at most once each
	for i, ev := range v.Events {
		found := false
		for _, m := range msgs {
			if wsgen.SameEvent(ev, m.event()) {
				res.count[m.id]++
				if res.count[m.id] == 1 {
					res.pos[m.id] = i
				}
				found = true
				break
			}
		}
		if !found {
			w.failf("wire-unknown-message|event %d on the wire (%v) is none of the %d messages written; wire=%s (%s)", i, ev, len(msgs), wireStr(frames), ctx)
		}
	}
	for _, m := range msgs {
		n := res.count[m.id]
		if n > 1 {
			w.failf("wire-duplicate|message %s appears %d times on the wire; wire=%s (%s)", m.id, n, wireStr(frames), ctx)
		}
		if n == 0 && mustAll && m.ret != 0 && m.err == nil {
			w.failf("wire-lost|message %s was accepted (nil error) and the connection was never closed, but it is not on the wire; wire=%s (%s)", m.id, wireStr(frames), ctx)
		}
		if n > 0 && m.ret != 0 && m.err != nil && !m.partial && !errors.Is(m.err, errInjected) {
			w.failf("wire-rejected-message-sent|message %s is on the wire although its call returned %v (%s)", m.id, m.err, ctx)
		}
	}
	// real-time precedence: a call that returned before another was made comes first; a message
	// that is present implies the presence of every accepted message that preceded it
	for _, a := range msgs {
		for _, b := range msgs {
			if a == b || a.ret == 0 || a.ret > b.call {
				continue
			}
			pa, oka := res.pos[a.id]
			pb, okb := res.pos[b.id]
			if oka && okb && pa > pb {
				w.failf("wire-order|message %s was written (call returned) before %s was started but follows it on the wire; wire=%s (%s)", a.id, b.id, wireStr(frames), ctx)
			}
			if !oka && okb && a.err == nil {
				w.failf("wire-hole|message %s is on the wire, message %s that was accepted before it was started is not; wire=%s (%s)", b.id, a.id, wireStr(frames), ctx)
			}
		}
	}
	return res
}

func frameStr(f *wsgen.Frame) string {
	fin := ""
	if f.Fin {
		fin = "+fin"
	}
	if f.Rsv1 {
		fin += "+rsv1"
	}
	return fmt.Sprintf("op%d%s:%q", f.Op, fin, short(f.Payload))
}

func wireStr(fr []wsgen.Frame) string {
	var s []string
	for i := range fr {
		s = append(s, frameStr(&fr[i]))
	}
	return "[" + strings.Join(s, " ") + "]"
}

// payloadFor builds the payload of message id (0..9): n <= 8 ASCII bytes taken from an alphabet
// that no other message uses, so a frame body identifies its message.
func payloadFor(id, n int) []byte {
	if id < 0 || id > 9 || n > 8 {
		panic("payloadFor: out of range")
	}
	b := make([]byte, n)
	for j := range b {
		b[j] = byte(0x28 + id*8 + j)
	}
	return b
}

// ---------------------------------------------------------------------------------------------
// frame-level oracle (WriteFrame callers)

func hasFrameCallers(msgs []*outMsg) bool {
	for _, m := range msgs {
		if m.kind == 'F' {
			return true
		}
	}
	return false
}

func errClass(err error) string {
	switch {
	case err == nil:
		return "nil"
	case errors.Is(err, errInjected):
		return "injected-write-error"
	case errors.Is(err, net.ErrClosed):
		return "closed"
	case strings.Contains(err.Error(), "queue is full"):
		return "queue-full"
	}
	return "other"
}

// judgeFrames applies the write part of the property at the granularity the frame API has: one
// WriteFrame call = one frame. writes are the Write calls the conn accepted (nbio writes one
// frame per call).
//
//   - every frame on the wire is a frame some caller wrote (WriteFrame record, a fragment of a
//     WriteMessage payload, a ping)
//   - a frame whose WriteFrame call returned an error is not on the wire
//   - an accepted frame is on the wire at most once; exactly once when mustAll (nothing closed
//     the connection and no write failed)
//   - the frames of one writer thread appear in the order of its calls
//   - the frames of one WriteMessage call are adjacent among the data frames (a control frame may
//     sit between them): nbio holds the connection mutex across them. Nothing of that kind is
//     required for a hand-made WriteFrame sequence: another writer's message may land between two
//     of its frames, nbio has no API to reserve the connection across calls
func judgeFrames(w *world, writes []wrec, msgs []*outMsg, mustAll bool, ctx string) {
	type hit struct {
		m *outMsg
		r *frameRec
	}
	var seq []hit
	var data []int // indices into seq of the data (non-control) frames
	desc := func() string {
		var all []byte
		for _, wr := range writes {
			all = append(all, wr.data...)
		}
		fr, _, _ := wsgen.ParseFrames(all)
		return wireStr(fr)
	}
	for wi, wr := range writes {
		if n := len(wr.data); n > 0 && bytes.Count(wr.data, []byte{track.PoisonByte}) == n {
			w.failf("freed-buffer-sent|write #%d handed to the conn consists of the tracking allocator's poison bytes (%d x 0x%02X): the frame buffer had been given back to the allocator before it was sent, the peer receives whatever the pool holds there (%s)", wi, n, track.PoisonByte, ctx)
			return
		}
		fr, _, err := wsgen.ParseFrames(wr.data)
		if err != nil || len(fr) != 1 {
			w.failf("wire-torn-frame|write #%d handed to the conn (%d bytes, %q) is not one whole frame (%s)", wi, len(wr.data), short(wr.data), ctx)
			return
		}
		f := &fr[0]
		var h hit
		for _, m := range msgs {
			for _, r := range m.frames {
				if bytes.Equal(r.data, f.Payload) && f.Fin == r.fin && ((r.first && f.Op == m.op) || (!r.first && f.Op == wsgen.OpCont)) {
					h = hit{m, r}
				}
			}
		}
		if h.r == nil {
			for _, m := range msgs {
				if m.kind != 'F' && ownsWrite(m, wr) && (m.kind == 'P') == f.IsControl() {
					h.m = m
				}
			}
		}
		if h.m == nil && (f.Op == wsgen.OpClose || f.Op == wsgen.OpPong) {
			continue // nbio's own protocol reply
		}
		if h.m == nil {
			w.failf("wire-foreign-frame|frame #%d on the wire (%s) is no frame that any caller wrote: not a WriteFrame call's frame, not a fragment of a WriteMessage payload; wire=%s (%s)", wi, frameStr(f), desc(), ctx)
			return
		}
		if !f.IsControl() {
			data = append(data, len(seq))
		}
		seq = append(seq, h)
	}
	pos := map[*frameRec][]int{}
	for i, h := range seq {
		if h.r != nil {
			pos[h.r] = append(pos[h.r], i)
		}
	}
	for _, m := range msgs {
		for k, r := range m.frames {
			n := len(pos[r])
			if r.err != nil && n > 0 {
				w.failf("refused-frame-on-wire err=%s|WriteFrame call #%d of %s (%q) returned %v, yet that frame is on the wire (%d times); wire=%s (%s)", errClass(r.err), k, m.id, r.data, r.err, n, desc(), ctx)
			}
			if n > 1 {
				w.failf("frame-duplicate|the frame of WriteFrame call #%d of %s (%q) is on the wire %d times; wire=%s (%s)", k, m.id, r.data, n, desc(), ctx)
			}
			if mustAll && r.err == nil && r.ret != 0 && n == 0 {
				w.failf("frame-lost|WriteFrame call #%d of %s (%q) returned nil and nothing closed the connection, but the frame is not on the wire; wire=%s (%s)", k, m.id, r.data, desc(), ctx)
			}
		}
	}
	// order of one writer's frames (WriteFrame records only: WriteMessage is covered below and by
	// the message-level judge)
	last := map[int]int{}
	lastID := map[int]string{}
	for _, m := range msgs { // msgs lists each writer's messages in program order
		for k, r := range m.frames {
			if len(pos[r]) == 0 {
				continue
			}
			p := pos[r][0]
			if q, ok := last[m.writer]; ok && p < q {
				w.failf("frame-order|the frame of WriteFrame call #%d of %s is on the wire before the frame of the earlier call %s of the same thread; wire=%s (%s)", k, m.id, lastID[m.writer], desc(), ctx)
			}
			last[m.writer], lastID[m.writer] = p, fmt.Sprintf("#%d of %s", k, m.id)
		}
	}
	// WriteMessage stays whole whatever the frame callers do
	for _, m := range msgs {
		if m.kind != 'M' {
			continue
		}
		var at []int
		for di, si := range data {
			if seq[si].m == m {
				at = append(at, di)
			}
		}
		for i := 1; i < len(at); i++ {
			if at[i] != at[i-1]+1 {
				w.failf("writemessage-interleaved|the frames of one WriteMessage call (%s) are not adjacent on the wire: another data frame sits between them; wire=%s (%s)", m.id, desc(), ctx)
				break
			}
		}
	}
}

package main

import (
	"bufio"
	"errors"
	"fmt"
	"net"
	"net/http"
	"strings"

	"github.com/lesismal/nbio/mempool"
	"github.com/lesismal/nbio/nbhttp"
	"github.com/lesismal/nbio/nbhttp/websocket"

	"verif/seqx/wsgen"
	"verif/track"
	"verif/vkit"
	"verif/vsched"
	"verif/vshim/vtime"
)

// Family (c): queued (asynchronous send-queue) mode. The connection is created by the real
// Upgrader.Upgrade with a net.Conn type it does not know (scenario 4 of Upgrade): blocking mode,
// BlockingModAsyncWrite (send queue + drainer goroutine), BlockingModHandleRead (Upgrade starts
// `go wsc.HandleRead`). Writers, the drainer, the read loop and the three ways a close begins
// (peer EOF, Conn.Close() after the virtual BlockingModAsyncCloseDelay, a failing Write) race.

type qcfg struct {
	f       int
	writers []string // scripts, see dcfg; additionally 'c' = wsc.Close()
	qmax    int      // BlockingModSendQueueMaxSize (0: unbounded)
	failAt  int      // the k-th frame write fails (0: never)
	closeBy string   // none | eof (the peer ends the stream while writers run) | close (a closer thread calls Close)
	inbound int      // client data messages fed to the read loop (0-2)
	echo    bool     // OnMessage answers with WriteMessage (a writer on the read-loop thread)
	early   bool     // the inbound frames are readable before Upgrade is called
	direct  bool     // BlockingModAsyncWrite=false: same Upgrade path, frames written under the mutex by the caller
	p       int
	// compression dimension (zqueue.go): permessage-deflate negotiated through the real Upgrade
	// (Upgrader.EnableCompression + the extension header of the request), scripts 'x' 'p' 'B'
	z     bool
	level int  // Upgrader.SetCompressionLevel
	big   zBig // the message behind script letter 'B'
	after bool // the main thread writes one more small message once everything has drained
	// readers: additional threads that call the public Conn.HandleRead on the connection next to
	// the one Upgrade starts (BlockingModHandleRead): exactly one caller may become the reader
	readers int
}

func (c qcfg) name() string {
	mode := "queued"
	if c.direct {
		mode = "blocking-direct"
	}
	s := fmt.Sprintf(mode+" F=%d writers=%s qmax=%d failAt=%d close=%s inbound=%d echo=%v early=%v",
		c.f, strings.Join(c.writers, ","), c.qmax, c.failAt, c.closeBy, c.inbound, c.echo, c.early)
	if c.z {
		s += fmt.Sprintf(" deflate=L%d B=%s%d after=%v", c.level, c.big.class, c.big.n, c.after)
	}
	if !c.z && c.after {
		s += " after=frame"
	}
	if c.readers > 0 {
		s += fmt.Sprintf(" extra-HandleRead-callers=%d", c.readers)
	}
	return s
}

type hijackRW struct {
	conn net.Conn
	h    http.Header
}

func (h *hijackRW) Header() http.Header         { return h.h }
func (h *hijackRW) Write(b []byte) (int, error) { return len(b), nil }
func (h *hijackRW) WriteHeader(int)             {}
func (h *hijackRW) Hijack() (net.Conn, *bufio.ReadWriter, error) {
	return h.conn, nil, nil
}

func upgradeRequest(deflate bool) *http.Request {
	r := upgradeRequestPlain()
	if deflate {
		r.Header.Set("Sec-WebSocket-Extensions", "permessage-deflate; client_max_window_bits")
	}
	return r
}

func upgradeRequestPlain() *http.Request {
	r, _ := http.NewRequest("GET", "http://h/ws", nil)
	r.Header.Set("Connection", "Upgrade")
	r.Header.Set("Upgrade", "websocket")
	r.Header.Set("Sec-WebSocket-Version", "13")
	r.Header.Set("Sec-WebSocket-Key", "dGhlIHNhbXBsZSBub25jZQ==")
	return r
}

// clientFrames builds n masked single-frame binary messages (client to server).
func clientFrames(n int) (wires [][]byte, payloads [][]byte) {
	for i := 0; i < n; i++ {
		p := []byte(fmt.Sprintf("in%d", i))
		fr := wsgen.Frame{Fin: true, Op: wsgen.OpBinary, Masked: true, Key: [4]byte{1, 2, 3, byte(4 + i)}, Payload: p}
		wires = append(wires, fr.Append(nil))
		payloads = append(payloads, p)
	}
	return
}

// install wires the recording callbacks into an upgrader.
func install(u *websocket.Upgrader, w *world, l *cbLog, onMsg func(c *websocket.Conn, i int, data []byte)) {
	u.OnOpen(func(c *websocket.Conn) {
		l.enter("open")
		l.openStart = append(l.openStart, w.tick())
		vsched.Point() // the open handler takes time
		l.leave()
		l.openEnd = append(l.openEnd, w.tick())
	})
	u.OnMessage(func(c *websocket.Conn, mt websocket.MessageType, data []byte) {
		i := len(l.msgs)
		l.enter(fmt.Sprintf("message#%d", i))
		m := &msgRec{start: w.tick(), payload: append([]byte(nil), data...), typ: int(mt)}
		l.msgs = append(l.msgs, m)
		vsched.Point()
		if onMsg != nil {
			onMsg(c, i, m.payload)
		}
		l.leave()
		m.end = w.tick()
	})
	u.OnClose(func(c *websocket.Conn, err error) {
		l.enter("close")
		l.closes = append(l.closes, w.tick())
		vsched.Point()
		l.leave()
		l.closeEnd = append(l.closeEnd, w.tick())
	})
}

func queuedBody(c qcfg) func() {
	return func() {
		vkit.Log.TakeErrors() // lines of a preceding execution that was cut short (pruned) are not this one's
		w := &world{z: c.z}
		tr := track.New(track.Pooled)
		mempool.DefaultMemPool = tr
		eng := nbhttp.NewEngine(nbhttp.Config{Name: "c14c", NPoller: 1, MaxWebsocketFramePayloadSize: c.f,
			BodyAllocator: tr, SupportServerOnly: true, ServerExecutor: func(f func()) { f() }})
		u := websocket.NewUpgrader()
		u.Engine = eng
		u.KeepaliveTime = 0
		u.CheckOrigin = func(*http.Request) bool { return true }
		u.BlockingModAsyncWrite = !c.direct
		u.BlockingModHandleRead = true
		u.BlockingModSendQueueInitSize = 1
		u.BlockingModSendQueueMaxSize = uint16(c.qmax)
		u.BlockingModReadBufferSize = 64
		if c.z {
			u.EnableCompression(true)
			if err := u.SetCompressionLevel(c.level); err != nil {
				vsched.Fail("harness|SetCompressionLevel(%d): %v", c.level, err)
				return
			}
		}
		fc := &fakeConn{w: w, tr: tr, failAt: c.failAt}
		l := &cbLog{w: w}
		var msgs []*outMsg
		inCall := 0
		var echoes []*outMsg
		for i := 0; i < c.inbound && c.echo; i++ {
			m := &outMsg{id: fmt.Sprintf("echo%d", i), writer: 100, kind: 'M', op: wsgen.OpBinary, payload: payloadFor(8+i, 2*c.f+1)}
			echoes = append(echoes, m)
			msgs = append(msgs, m)
		}
		install(u, w, l, func(conn *websocket.Conn, i int, data []byte) {
			if c.echo && i < len(echoes) {
				m := echoes[i]
				m.call = w.tick()
				m.err = conn.WriteMessage(websocket.BinaryMessage, m.payload)
				m.ret = w.tick()
			}
		})
		inWires, inPayloads := clientFrames(c.inbound)
		if c.early {
			for _, b := range inWires {
				fc.rbuf = append(fc.rbuf, b...)
			}
		}

		wsc, err := u.Upgrade(&hijackRW{conn: fc, h: http.Header{}}, upgradeRequest(c.z), nil)
		if err != nil {
			vsched.Fail("harness|Upgrade over the fake conn failed: %v", err)
			return
		}
		upgraded := w.tick()
		fc.armed = true
		wsc.SetSession("session")
		if wsc.IsAsyncWrite() == c.direct || !wsc.IsBlockingMod() {
			vsched.Fail("harness|Upgrade did not produce a blocking-mode connection with a send queue")
			return
		}
		if !strings.HasPrefix(string(fc.handshake), "HTTP/1.1 101 ") {
			w.failf("handshake-response|Upgrade wrote %q instead of a 101 response", short(fc.handshake))
		}
		if c.z && !strings.Contains(string(fc.handshake), "Sec-WebSocket-Extensions: permessage-deflate") {
			vsched.Fail("harness|compression was requested and enabled, but the 101 response does not accept permessage-deflate: %q", fc.handshake)
			return
		}
		if len(l.openEnd) != 1 || l.openEnd[0] > upgraded {
			w.failf("open-not-before-upgrade-returned|Upgrade returned at t=%d, OnOpen calls completed: %v", upgraded, l.openEnd)
		}

		hrRet := make([]int, c.readers)
		for i := 0; i < c.readers; i++ {
			i := i
			vsched.GoNamed(fmt.Sprintf("reader%d", i+1), func() {
				w.tick()
				wsc.HandleRead(64)
				hrRet[i] = w.tick()
			})
		}
		readersCheck := func(open bool) {
			if len(fc.readCallers) > 1 {
				w.failf("handleread-several-readers|%d different HandleRead callers read from the connection: only one of the concurrent callers may become the reader, the others must return at once (the read loop is not re-entrant: frames are parsed and dispatched by whoever read them)", len(fc.readCallers))
			}
			if open && c.readers > 0 {
				blocked := 0
				for _, t := range hrRet {
					if t == 0 {
						blocked++
					}
				}
				if blocked > 1 {
					w.failf("handleread-extra-caller-did-not-return|%d of the %d additional HandleRead calls have not returned although the connection is open and idle (at most one caller can be the reader)", blocked, c.readers)
				}
			}
		}
		for i, s := range c.writers {
			if c.z {
				startWriterMsgs(w, wsc, i, zScriptMsgs(c, i, s), c.f, &msgs, &inCall, nil)
				continue
			}
			if strings.Contains(s, "c") {
				// a writer that closes the connection after its messages
				i, s := i, strings.ReplaceAll(s, "c", "")
				startWriterThen(w, wsc, i, s, c.f, &msgs, &inCall, func() { _ = wsc.Close() })
				continue
			}
			startWriter(w, wsc, i, s, c.f, &msgs, &inCall)
		}
		closeBegan := 0
		if !c.early && c.inbound > 0 || c.closeBy == "eof" {
			vsched.GoNamed("feeder", func() {
				if !c.early {
					for _, b := range inWires {
						fc.feed(b)
					}
				}
				if c.closeBy == "eof" {
					closeBegan = w.tick()
					fc.end()
				}
			})
		}
		if c.closeBy == "close" {
			vsched.GoNamed("closer", func() {
				closeBegan = w.tick()
				_ = wsc.Close()
			})
		}
		// the virtual clock: BlockingModAsyncCloseDelay may elapse at any moment
		vsched.GoNamed("clock", func() {
			vsched.SetDaemon()
			for {
				vsched.Block("clock", func() bool { return vtime.Armed() > 0 })
				vtime.FireNext()
			}
		})
		vsched.WaitIdle()

		// ---- phase 1 quiescence
		quiet := c.closeBy == "none" && c.failAt == 0 && !strings.Contains(strings.Join(c.writers, ""), "c")
		for _, m := range msgs {
			if m.call != 0 && m.ret == 0 {
				w.failf("write-stuck|the call writing %s never returned", m.id)
			}
		}
		// WriteFrame callers: judged frame by frame. A hand-made fragmented sequence ('f') is not a
		// unit nbio protects: next to another data writer (or cut by the queue limit, after which
		// the caller stops) the wire need not be a legal message sequence; then only the frame-level
		// rules and the wholeness of every WriteMessage call are judged
		exposed := false
		if strings.Contains(strings.Join(c.writers, ""), "f") {
			dataWriters := 0
			for _, s := range c.writers {
				if strings.ContainsAny(s, "mstgf") {
					dataWriters++
				}
			}
			exposed = c.qmax > 0 || dataWriters > 1 || c.echo
		}
		mw := w // the world the message-level judge reports to
		if exposed {
			mw = &world{z: c.z}
		}
		frameCheck := func(mustAll bool, when string) {
			if hasFrameCallers(msgs) {
				judgeFrames(w, fc.writes, msgs, mustAll, c.name()+" "+when)
			}
		}
		// a message refused with "queue full" must not leave a part of itself on the wire
		unowned := 0
		queueFullCheck := func() {
			if c.z {
				unowned = attributeWrites(fc, msgs, c.f)
			}
			for _, m := range msgs {
				if m.kind != 'F' && m.err != nil && errors.Is(m.err, websocket.ErrMessageSendQuqueIsFull) {
					cnt := 0
					for _, wr := range fc.writes {
						if ownsWrite(m, wr) {
							cnt++
						}
					}
					if cnt > 0 {
						how := ""
						if c.z {
							how = fmt.Sprintf(" (permessage-deflate level %d: %d bytes = %d frames after deflate, %d frames by the uncompressed length)",
								c.level, len(m.wireBody()), framesFor(len(m.wireBody()), c.f), framesFor(len(m.payload), c.f))
						}
						w.failf("queue-full-partial-message-on-wire|WriteMessage of %s (%d bytes, %d-byte frames)%s returned ErrMessageSendQuqueIsFull, but %d of its frames were queued before the limit was hit and went out: the peer sees an unfinished fragmented message followed by other frames; wire=%s",
							m.id, len(m.payload), c.f, how, cnt, wireOf(fc))
					}
				}
			}
		}
		readersCheck(quiet && !fc.closed)
		frameCheck(quiet, "at quiescence")
		queueFullCheck()
		if quiet {
			if fc.closed || len(l.closes) > 0 {
				w.failf("closed-unprovoked|nobody closed the connection, yet it is closed (conn closed=%v, OnClose calls=%d)", fc.closed, len(l.closes))
			}
			full := false
			for _, m := range msgs {
				if m.err != nil {
					if c.qmax > 0 && errors.Is(m.err, websocket.ErrMessageSendQuqueIsFull) {
						full = true
						continue
					}
					w.failf("write-error|writing %s on an open connection failed: %v", m.id, m.err)
				}
			}
			// a queue-full refusal in the middle of a message is named by the dedicated check above
			// (the first failure is the verdict); in every case the wire must be whole and complete:
			// a refused message is simply absent
			if full && !exposed {
				for _, m := range msgs {
					if m.ret != 0 && m.err == nil && countWhole(fc, m) == 0 {
						w.failf("wire-lost|message %s was accepted (nil error) while another was refused with queue-full, the connection is open, but %s is not on the wire; wire=%s", m.id, m.id, wireOf(fc))
					}
				}
			}
			judgeWire(mw, fc.wire(), msgs, true, false, c.name()+" at quiescence, connection open")
		}

		// ---- phase 1b: everything has drained; the next message must find a usable connection
		followUp := 0
		if c.after && quiet {
			var m *outMsg
			if c.z {
				m = zAfterMsg(c)
			} else { // one more single-frame message through the frame API
				m = &outMsg{id: "after", writer: 99, kind: 'F', op: wsgen.OpBinary, payload: payloadFor(9, c.f)}
			}
			msgs = append(msgs, m)
			writeOne(w, wsc, m, c.f)
			vsched.WaitIdle()
			frameCheck(true, "after the follow-up frame")
			queueFullCheck()
			switch {
			case m.err == nil:
				followUp = 1
			case c.qmax > 0 && errors.Is(m.err, websocket.ErrMessageSendQuqueIsFull):
				// refusing is the caller's to handle, not a loss (counted; the scenario is only
				// non-trivial when the follow-up was accepted in some execution)
			default:
				w.failf("write-error|writing %s on an open, idle connection failed: %v", m.id, m.err)
			}
			if fc.closed || len(l.closes) > 0 {
				w.failf("closed-unprovoked|nobody closed the connection, yet it is closed after the follow-up message (conn closed=%v, OnClose calls=%d)", fc.closed, len(l.closes))
			}
			judgeWire(mw, fc.wire(), msgs, true, false, c.name()+" after the follow-up message, connection open")
		}

		// ---- phase 2: end the connection if the scenario has not done so, let the delay elapse
		if !fc.closed && !fc.eof {
			fc.end()
		}
		vsched.WaitIdle()
		for vtime.FireNext() {
			vsched.WaitIdle()
		}
		vsched.WaitIdle()

		if c.z {
			unowned = attributeWrites(fc, msgs, c.f)
		}
		readersCheck(false)
		for i, t := range hrRet {
			if t == 0 {
				w.failf("handleread-stuck|additional HandleRead call #%d never returned although the connection has ended", i+1)
			}
		}
		frameCheck(false, "at the end")
		res := judgeWire(mw, fc.wire(), msgs, false, true, c.name()+" at the end")
		if c.direct && res.v != nil {
			// direct mode: nil means every frame was handed to the conn before the call returned
			for _, m := range msgs {
				if m.ret != 0 && m.err == nil && res.count[m.id] == 0 {
					w.failf("wire-lost|direct mode: message %s was written (nil error) but is not on the wire; wire=%s", m.id, wireStr(res.frames))
				}
			}
		}
		l.judge(inPayloads, true, true, c.name())
		if !fc.closed {
			w.failf("conn-not-closed|the read loop ended / Close was called but the underlying conn was never closed")
		}
		if len(l.closes) > 0 {
			for _, wr := range fc.writes {
				if wr.tick > l.closes[0] {
					w.failf("write-after-onclose|a frame was written to the conn at t=%d, after OnClose had started at t=%d", wr.tick, l.closes[0])
				}
			}
		}
		if len(l.closeEnd) > 0 {
			for _, m := range msgs {
				if m.call > l.closeEnd[0] && m.ret != 0 && m.err == nil {
					w.failf("accepted-after-onclose|the call writing %s started at t=%d, after OnClose had returned (t=%d), and still reported success: the message is lost silently", m.id, m.call, l.closeEnd[0])
				}
			}
		}
		if c.inbound > 0 && c.closeBy == "none" && c.failAt == 0 && quiet && len(l.msgs) != c.inbound {
			w.failf("message-not-delivered|%d inbound messages were readable long before the stream ended, %d were delivered", c.inbound, len(l.msgs))
		}
		if v := tr.Violations(); len(v) > 0 {
			w.failf("ownership %s|%s (send queue / drainer / CloseAndClean; belongs to C11 as well)", v[0].Sig, v[0].Desc)
		}
		w.logFailure()
		if c.z && unowned > 0 {
			// last: only the verdict when nothing more specific fired
			w.failf("wire-unattributed-frame|%d frames on the wire are not the next frame of any message written, going by the reference deflate form of the payloads cut into %d-byte frames; wire=%s", unowned, c.f, wireOf(fc))
		}

		cnt := map[string]int{"messages_delivered": len(l.msgs), "late_write_calls_on_closed_conn": fc.lateWrites}
		if res.v != nil {
			cnt["messages_on_wire"] = len(res.v.Events)
		}
		for _, m := range msgs {
			for _, r := range m.frames {
				switch {
				case r.err == nil:
					cnt["writeframe_calls_accepted"]++
				case errors.Is(r.err, websocket.ErrMessageSendQuqueIsFull):
					cnt["writeframe_calls_refused_queue_full"]++
				default:
					cnt["writeframe_calls_failed_other"]++
				}
			}
			if m.id == "after" && m.kind == 'F' && m.err == nil {
				cnt["writeframe_followup_accepted"]++
			}
		}
		if exposed {
			cnt["frame_level_only_executions"] = 1
		}
		if c.readers > 0 {
			cnt["handleread_concurrent_callers"] = c.readers + 1
			for _, t := range hrRet {
				if t != 0 && (len(l.closes) == 0 || t < l.closes[0]) {
					cnt["handleread_callers_turned_away"]++
				}
			}
		}
		if c.z {
			cnt["z_followup_accepted"] = followUp
			cnt["z_executions"] = 1
			for i := range res.frames {
				if res.frames[i].Rsv1 {
					cnt["z_compressed_messages_on_wire"]++
				}
			}
			for _, m := range msgs {
				if len(m.payload) <= zSmallLen || m.kind != 'M' {
					continue
				}
				fu, fcn := framesFor(len(m.payload), c.f), framesFor(len(m.wireBody()), c.f)
				switch {
				case m.err != nil && errors.Is(m.err, websocket.ErrMessageSendQuqueIsFull):
					cnt["z_big_refused"]++
				case m.err == nil && res.count[m.id] > 0 && fcn > fu:
					cnt["z_big_on_wire_more_frames_than_uncompressed"]++
				case m.err == nil && res.count[m.id] > 0 && fcn < fu:
					cnt["z_big_on_wire_fewer_frames_than_uncompressed"]++
				case m.err == nil && res.count[m.id] > 0:
					cnt["z_big_on_wire_same_frames"]++
				}
			}
		}
		cnt["interleave_opportunities"] = interleaveOpportunities(fc, msgs)
		// drainer hand-over: one drainer goroutine wrote frames of more than one message
		by := map[int]map[string]bool{}
		for _, wr := range fc.writes {
			for _, m := range msgs {
				if ownsWrite(m, wr) {
					if by[wr.thread] == nil {
						by[wr.thread] = map[string]bool{}
					}
					by[wr.thread][m.id] = true
				}
			}
		}
		for _, s := range by {
			if len(s) > 1 {
				cnt["drainer_handovers"]++
			}
		}
		lost, refused := 0, 0
		for _, m := range msgs {
			if m.ret != 0 && m.err == nil && res.count[m.id] == 0 {
				lost++
			}
			if m.err != nil {
				refused++
			}
		}
		if closeBegan != 0 || c.failAt > 0 || !quiet {
			for _, m := range msgs {
				if m.call != 0 && (m.ret == 0 || (closeBegan != 0 && m.call < closeBegan && closeBegan < m.ret)) {
					cnt["close_racing_writer"]++
					break
				}
			}
			if lost > 0 || refused > 0 {
				cnt["close_cut_off_messages"]++
			}
		}
		if refused > 0 && c.qmax > 0 {
			cnt["queue_full_refusals"]++
		}
		lastCounters = cnt
		lastOutcome = fmt.Sprintf("queued:%s lost=%d refused=%d in=%d", orderOf(res, msgs), lost, refused, len(l.msgs))
		w.flush()
	}
}

func wireOf(fc *fakeConn) string {
	fr, _, _ := wsgen.ParseFrames(fc.wire())
	return wireStr(fr)
}

// countWhole counts how often all frames of m appear on the wire.
func countWhole(fc *fakeConn, m *outMsg) int {
	fr, _, err := wsgen.ParseFrames(fc.wire())
	if err != nil {
		return 0
	}
	n := 0
	var acc []byte
	in, deflated := false, false
	for i := range fr {
		f := &fr[i]
		if f.IsControl() {
			if m.kind == 'P' && f.Op == wsgen.OpPing && string(f.Payload) == string(m.payload) {
				n++
			}
			continue
		}
		if f.Op != wsgen.OpCont {
			acc, in, deflated = nil, true, f.Rsv1
		}
		if in {
			acc = append(acc, f.Payload...)
			if f.Fin {
				body := acc
				if deflated { // RFC 7692: RSV1 on the first frame marks a deflated message
					if b, err := wsgen.Inflate(acc, 0); err == nil {
						body = b
					}
				}
				if m.kind != 'P' && string(body) == string(m.payload) {
					n++
				}
				in = false
			}
		}
	}
	return n
}

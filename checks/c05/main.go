// C05: per-connection job serialization (Execute / MustExecute), explored exhaustively under
// the controlled scheduler on the real nbio.Conn.
//
// Two scenario families: (1) this file - submitters, a closer and a panicking job drive
// Conn.Execute / MustExecute directly on a bare connection; (2) engine.go - the consequence the
// statement draws for nbhttp ("HTTP handlers and WebSocket callbacks of one connection never
// overlap, and close handling runs after all work queued before it") on the real nbhttp engine
// over the simulated kernel: close handling (nbhttp/engine.go, the OnClose hook of NewEngine)
// against running / queued handlers and OnMessage callbacks.
package main

import (
	"fmt"
	"strings"
	"time"

	"github.com/lesismal/nbio"
	"github.com/lesismal/nbio/taskpool"

	"verif/vkit"
	"verif/vsched"
	"verif/vshim/vsys"
)

type jobRec struct {
	id         string
	submitter  int
	must       bool
	panics     bool
	callSeq    int // logical time Execute was invoked
	retSeq     int // logical time Execute returned (0: not yet)
	accepted   bool
	starts     []int
	ends       []int
	afterClose bool // invoked after Close() had returned
}

type world struct {
	log       vsched.Obj
	seq       int
	running   string
	jobs      []*jobRec
	fails     []string
	closeRet  int
	overlaps  int
	handovers int
}

func (w *world) tick() int {
	w.seq++
	vsched.Record(&w.log, 1, true, uint64(w.seq))
	return w.seq
}

type cfg struct {
	exec       string // inline | go | pool
	submitters int
	jobsEach   int
	must       int // submitter index that uses MustExecute (-1: none)
	panicJob   bool
	closer     bool
	// gate: the first job waits until its submitter has handed over all the others, so that one
	// drainer consumes the whole backlog in one go (jobsEach may be large: more than any internal
	// threshold of the queue)
	gate bool
}

func (c cfg) name() string {
	n := fmt.Sprintf("exec=%s sub=%d jobs=%d must=%d panic=%v close=%v", c.exec, c.submitters, c.jobsEach, c.must, c.panicJob, c.closer)
	if c.gate {
		n += " backlog-behind-gate"
	}
	return n
}

var lastCounters map[string]int
var lastOutcome string

func body(c cfg) func() {
	return func() {
		w := &world{}
		g := nbio.NewEngine(nbio.Config{Name: "c05"})
		var pool *taskpool.TaskPool
		switch c.exec {
		case "inline":
			g.Execute = func(f func()) { f() }
		case "go":
			g.Execute = func(f func()) { vsched.GoNamed("exec", f) }
		case "pool":
			pool = taskpool.New(3, 1)
			g.Execute = pool.Go
		}
		// close handling is routed through the job queue, as nbhttp does (engine.go OnClose ->
		// MustExecute): it must run after every job that Execute accepted
		closeJobAt := 0
		g.OnClose(func(cc *nbio.Conn, _ error) {
			cc.MustExecute(func() { closeJobAt = w.tick() })
		})
		nbio.VerifBareEngine(g, vsys.FDLimit)
		fd, _ := vsys.NewStreamPair(false, 64, 64)
		conn := nbio.VerifBareConn(g, fd, nbio.ConnTypeTCP)

		submitted := 0
		var submitMore func(j int)
		submit := func(s, j int) {
			{
				{
					jr := &jobRec{id: fmt.Sprintf("s%dj%d", s, j), submitter: s, must: s == c.must, panics: c.panicJob && s == 0 && j == 0}
					w.jobs = append(w.jobs, jr)
					fn := func() {
						if w.running != "" {
							w.overlaps++
							w.fails = append(w.fails, fmt.Sprintf("overlap|job %s started while %s was running", jr.id, w.running))
						}
						w.running = jr.id
						jr.starts = append(jr.starts, w.tick())
						switch {
						case c.gate && j == 0:
							// the first job hands over all the others itself: they queue up behind it and
							// the drainer that runs it consumes them in one go
							for submitted < c.jobsEach-1 {
								submitted++
								submitMore(submitted)
							}
						case c.gate && j > 3:
						default:
							vsched.Point() // the job takes time: let everything else interleave
						}
						w.running = ""
						jr.ends = append(jr.ends, w.tick())
						if jr.panics {
							panic("job panic " + jr.id)
						}
					}
					jr.callSeq = w.tick()
					jr.afterClose = w.closeRet != 0
					if jr.must {
						conn.MustExecute(fn)
						jr.accepted = true
					} else {
						jr.accepted = conn.Execute(fn)
					}
					jr.retSeq = w.tick()
				}
			}
		}
		submitMore = func(j int) { submit(0, j) }
		for s := 0; s < c.submitters; s++ {
			s := s
			vsched.GoNamed(fmt.Sprintf("submitter%d", s), func() {
				n := c.jobsEach
				if c.gate {
					n = 1
				}
				for j := 0; j < n; j++ {
					submit(s, j)
				}
			})
		}
		if c.closer {
			vsched.GoNamed("closer", func() {
				_ = conn.Close()
				w.closeRet = w.tick()
			})
		}
		vsched.WaitIdle()
		// ---- oracle at quiescence
		ran := 0
		for _, j := range w.jobs {
			if len(j.starts) > 1 {
				w.fails = append(w.fails, fmt.Sprintf("twice|job %s ran %d times", j.id, len(j.starts)))
			}
			if len(j.starts) != len(j.ends) {
				w.fails = append(w.fails, fmt.Sprintf("unfinished|job %s started but did not finish", j.id))
			}
			if j.retSeq == 0 {
				w.fails = append(w.fails, fmt.Sprintf("stuck|Execute of job %s never returned", j.id))
				continue
			}
			if j.accepted && len(j.starts) == 0 {
				w.fails = append(w.fails, fmt.Sprintf("lost|job %s was accepted (must=%v) but never ran", j.id, j.must))
			}
			if !j.accepted && len(j.starts) > 0 {
				w.fails = append(w.fails, fmt.Sprintf("ran-rejected|job %s ran although Execute returned false", j.id))
			}
			if j.afterClose && !j.must && j.accepted {
				w.fails = append(w.fails, fmt.Sprintf("accepted-after-close|Execute of %s returned true after Close had returned", j.id))
			}
			if !j.accepted && !c.closer {
				w.fails = append(w.fails, fmt.Sprintf("rejected-open|Execute of %s returned false on an open connection", j.id))
			}
			if len(j.starts) > 0 {
				ran++
			}
		}
		if c.closer {
			if closeJobAt == 0 {
				w.fails = append(w.fails, "close-job-lost|the close handler submitted through MustExecute never ran")
			}
			for _, j := range w.jobs {
				if !j.must && j.accepted && len(j.starts) > 0 && closeJobAt != 0 && j.starts[0] > closeJobAt {
					w.fails = append(w.fails, fmt.Sprintf("ran-after-close-handler|job %s was accepted by Execute but ran after the close handler (it was queued on a connection that was already closed)", j.id))
				}
			}
		}
		// order: same submitter; and real-time precedence between submitters
		for ai, a := range w.jobs {
			for bi, b := range w.jobs {
				if c.gate && bi != ai+1 {
					continue // one submitter, call order = index order: neighbours are enough
				}
				if a == b || len(a.starts) == 0 || len(b.starts) == 0 {
					continue
				}
				before := (a.submitter == b.submitter && a.callSeq < b.callSeq) || (a.retSeq != 0 && a.retSeq < b.callSeq)
				if before && a.starts[0] > b.starts[0] {
					w.fails = append(w.fails, fmt.Sprintf("order|job %s was submitted before %s but started after it", a.id, b.id))
				}
			}
		}
		if pool != nil {
			pool.Stop()
		}
		lastCounters = map[string]int{"jobs_run": ran, "overlaps": w.overlaps}
		// how often was a job queued behind a running drainer (hand-over exercised)?
		for _, j := range w.jobs {
			if len(j.starts) > 0 && j.retSeq != 0 && j.starts[0] > j.retSeq {
				lastCounters["handover_or_async"]++
			}
			if !j.accepted {
				lastCounters["rejected"]++
			}
		}
		var order []string
		for i := 1; i <= w.seq; i++ {
			for _, j := range w.jobs {
				if len(j.starts) > 0 && j.starts[0] == i {
					order = append(order, j.id)
				}
			}
		}
		lastOutcome = strings.Join(order, ",")
		for _, f := range w.fails {
			vsched.Fail("%s", f)
		}
	}
}

func check(r *vsched.Result) string {
	for _, b := range r.Blocked {
		if strings.HasPrefix(b.Name, "main") || strings.HasPrefix(b.Name, "submitter") || strings.HasPrefix(b.Name, "closer") {
			return fmt.Sprintf("deadlock|thread %s blocked at the end (%s)", b.Name, b.Why)
		}
	}
	return ""
}

func build(tier string) []*vkit.Scenario {
	var out []*vkit.Scenario
	add := func(c cfg, p int) {
		out = append(out, &vkit.Scenario{
			Name: c.name(), Body: body(c), Check: check, P: p, D: 0,
			Counters:   func() map[string]int { return lastCounters },
			Outcome:    func() string { return lastOutcome },
			NonTrivial: func(m map[string]int) bool { return m["handover_or_async"] > 0 },
		})
	}
	execs := []string{"inline", "go", "pool"}
	for _, e := range execs {
		pq := 3
		if e == "pool" {
			pq = 2
		}
		if tier == "thorough" {
			pq++
		}
		add(cfg{exec: e, submitters: 2, jobsEach: 1, must: -1}, pq)
		add(cfg{exec: e, submitters: 2, jobsEach: 2, must: -1}, pq)
		add(cfg{exec: e, submitters: 2, jobsEach: 2, must: -1, panicJob: true}, pq)
		add(cfg{exec: e, submitters: 2, jobsEach: 1, must: 1, closer: true}, pq)
		add(cfg{exec: e, submitters: 2, jobsEach: 2, must: -1, closer: true}, pq)
		add(cfg{exec: e, submitters: 3, jobsEach: 1, must: 2}, pq)
		// one drainer run over a backlog that is longer than any threshold inside the queue
		out = append(out, &vkit.Scenario{
			Name: cfg{exec: e, submitters: 1, jobsEach: 1300, must: -1, gate: true}.name(), Body: body(cfg{exec: e, submitters: 1, jobsEach: 1300, must: -1, gate: true}), Check: check, P: 0, D: 0,
			Opts:       vsched.Options{Horizon: 200000},
			Counters:   func() map[string]int { return lastCounters },
			Outcome:    func() string { return fmt.Sprintf("%d jobs", strings.Count(lastOutcome, ",")+1) },
			NonTrivial: func(m map[string]int) bool { return m["handover_or_async"] > 0 },
		})
		if tier == "thorough" {
			add(cfg{exec: e, submitters: 3, jobsEach: 2, must: 0, closer: true, panicJob: true}, pq)
			add(cfg{exec: e, submitters: 3, jobsEach: 2, must: -1}, pq)
		}
	}
	// second family (engine.go): close handling of the real nbhttp engine vs. running / queued
	// handlers and WebSocket callbacks
	out = append(out, engineScenarios(tier)...)
	return out
}

func main() {
	vkit.Main(&vkit.Spec{
		Property: "C05", Level: "model_checking",
		Rule: "family 1: one scenario = executor x submitters x jobs x MustExecute/panic/Close variant; every interleaving of the real Conn.Execute/MustExecute/execute/Close code within the preemption bound is executed; a scenario is non-trivial when some job was run by a drainer other than its submitter's own call (queue hand-over exercised). " +
			"family 2 (names 'engine ...'): one scenario = epoll mode (LT, ET; thorough: also one-shot) x server executor (goroutine per call, default task pool) x connection kind (HTTP with 1-2 pipelined requests; WebSocket with 1-2 messages after a real Upgrade; WebSocket control scripts {text ping, text pong, ping text, text ping text} in one burst or one burst per frame, with logging ping / pong handlers - the ping handler writes the Pong, the message handler a reply) x ending (peer close, peer RST, Close from another thread, Close from inside OnMessage, 'Connection: close' request) x synchronisation (closer acts at once / waits for the first handler to start / the first handler blocks until the closer has acted) on the real nbhttp engine over the simulated kernel, handlers and callbacks with scheduling points between their start and end; every interleaving of peer, poller, close notification thread, executor threads and closer within the preemption bound; a scenario is non-trivial when in some execution the close job was queued behind a handler / OnMessage that was running or still queued (counter engine_close_job_queued_behind_work, read off Conn.ExecuteLen inside the engine's OnClose callback) and handlers ran; a control script is non-trivial when a ping / pong callback was queued behind other work of the connection (engine_control_queued_behind_work, ExecuteLen inside the callback) and messages ran",
		Assumptions: []string{
			"sequentially consistent interleavings at lock/atomic/channel/syscall operations (no weak-memory effects)",
			"executors explored: inline, goroutine-per-call, real taskpool.New(3,1) (family 1); goroutine-per-call and nbhttp's default task pool (family 2: the inline executor self-deadlocks the poller on this path, a known finding recorded under C10/C18)",
			"family 2 judges, per connection: no two of {HTTP handler, OnMessage, WebSocket OnClose, engine OnClose callback} overlap; the engine OnClose callback is delivered exactly once for a connection that ended, after every handler / OnMessage that started before it has returned, and none starts after it; WebSocket OnClose at most once, once if the upgrade succeeded, not before a queued OnMessage; ping / pong handlers are callbacks like OnMessage (no overlap, before the close callbacks), WebSocket callbacks start in wire order, and the replies / Pongs they write appear on the wire in the order of the frames they answer. The relative ORDER of the WebSocket OnClose and the engine OnClose callback (WebSocket first in this tree, both inside one close job) is not promised by the statement: recorded as an outcome class, not judged",
			"family 2 covers IOModNonBlocking, plain text (the *nbio.Conn path, the only one whose close notification goes through MustExecute); blocking-mode connections tear down in their own read loop and are out of reach of the cooperative scheduler",
		},
		UsesSimulatedKernel: true,
		Build:               build, QuickBudget: 60 * time.Second, ThoroughBudget: 15 * time.Minute, MinNonTrivial: 60,
	})
}

package main

// Second scenario family of C05: the last clause of the statement - "HTTP handlers and WebSocket
// callbacks of one connection never overlap, and close handling runs after all work queued
// before it" - on the REAL nbhttp engine over the simulated kernel.
//
// The first family (main.go) drives Conn.Execute / MustExecute directly; it cannot see a change
// that leaves conn.go alone and takes (part of) the close handling of nbhttp out of the job
// queue (nbhttp/engine.go, the g.OnClose hook of NewEngine: ONE job handed to MustExecute runs
// CloseAndClean - which delivers the WebSocket OnClose -, then the engine's user OnClose
// callback, then the deletes from the connection tables). Here a real nbhttp.Engine
// (IOModNonBlocking) runs on a real nbio engine on vsys; one connection is injected with
// AddConnNonTLSNonBlocking; a scripted peer sends one request (optionally a pipelined second one)
// or a WebSocket handshake plus 1-2 messages; the handler / OnMessage callback has scheduling
// points inside, so it can be preempted between its start and its end; the connection is then
// ended by the peer (close = FIN, or RST when unread data is pending; abortive RST), by a user
// Close from another thread, by the callback itself, or by the server after a
// "Connection: close" request. Executors: goroutine-per-call and the default task pool (the
// inline executor self-deadlocks on this path: known finding of C10/C18). Epoll modes LT and ET.
//
// Oracle, per connection, from the log of callback intervals (logical clock):
//
//	(a) no two callbacks of the connection (HTTP handler, OnMessage, WebSocket OnClose, the
//	    engine's OnClose callback) overlap;
//	(b) the engine's OnClose callback starts after every handler / OnMessage that started before
//	    it has returned, and none starts after it (Execute refuses jobs once the connection is
//	    closed, so every handler that runs was queued before the close job);
//	(c) it is delivered exactly once for a connection that has ended;
//	(e) WebSocket control frames (scripts tp, tq, pt, tpt): the ping / pong handlers are
//	    callbacks of the connection like OnMessage - (a), (b) apply to them -, WebSocket
//	    callbacks start in wire order, and what they write (the message handler's reply, the
//	    ping handler's Pong) is on the wire in the order of the frames it answers;
//	(d) WebSocket: OnClose at most once, exactly once when the upgrade succeeded, never during
//	    or before an OnMessage, never overlapping the engine's OnClose. The ORDER of the two
//	    close callbacks is what the unchanged tree happens to do inside its one close job
//	    (WebSocket first); the statement does not promise it, so it is recorded as an outcome
//	    class and not judged.

import (
	"bytes"
	"fmt"
	"net"
	"net/http"
	"strings"
	"time"

	"github.com/lesismal/nbio"
	"github.com/lesismal/nbio/mempool"
	"github.com/lesismal/nbio/nbhttp"
	"github.com/lesismal/nbio/nbhttp/websocket"

	"verif/ekit"
	"verif/track"
	"verif/vkit"
	"verif/vsched"
	"verif/vshim/vsys"
)

type ecfg struct {
	mode ekit.Mode
	exec string // go | pool
	ws   bool   // WebSocket connection: the slow callback is OnMessage
	n    int    // HTTP: pipelined requests in one burst (1-2); ws: messages in one burst (1-2)
	// end: close  the peer closes its socket (FIN; RST if it has not read the response)
	//      rst    the peer aborts the connection
	//      uclose a harness thread calls Close on the connection
	//      hclose the slow callback itself calls Close and goes on working (ws only)
	//      reqclose the (last) request says "Connection: close": the server closes after the response
	end string
	// sync: none          the closer acts as soon as it can
	//       after-start   the closer waits until slow callback #0 has started
	//       handler-waits slow callback #0 blocks until the closer has acted (a handler waiting
	//                     for something that only happens after the disconnect)
	//       after-replies (control scripts) the peer closes after it has received every reply
	sync string
	// script (WebSocket only, "" = n data messages): the client's frames, t = text message,
	// p = ping, q = unsolicited pong; the message handler answers "re:<payload>", the ping
	// handler writes the Pong as nbio's default one does. split: one burst per frame
	script string
	split  bool
	p      int
}

func (c ecfg) name() string {
	kind := "http"
	if c.ws {
		kind = "ws"
	}
	if c.script != "" {
		return fmt.Sprintf("engine ws-control %s exec=%s script=%s split=%v end=%s sync=%s", c.mode, c.exec, c.script, c.split, c.end, c.sync)
	}
	return fmt.Sprintf("engine %s %s exec=%s n=%d end=%s sync=%s", kind, c.mode, c.exec, c.n, c.end, c.sync)
}

// cbRec is one callback invocation of the connection: [start, end] on the logical clock.
type cbRec struct {
	kind   string // handler | ws-message | ws-ping | ws-pong | ws-close | engine-close
	idx    int
	frame  int // WebSocket callbacks: position of the frame in the client's script (-1: unknown)
	start  int
	end    int // 0: did not return
	thread int
}

func (r *cbRec) String() string {
	if r.kind == "handler" || r.kind == "ws-message" {
		return fmt.Sprintf("%s#%d", r.kind, r.idx)
	}
	return r.kind
}

// eworld is the per-execution observation log. Every access to harness state shared between
// threads happens next to a tick(), which records a write step on one object: the explorer's
// happens-before cache sees all communication through harness variables (DESIGN 3.3).
type eworld struct {
	log   vsched.Obj
	seq   int
	cbs   []*cbRec
	fails []string
}

func (w *eworld) tick() int {
	w.seq++
	vsched.Record(&w.log, 1, true, uint64(w.seq))
	return w.seq
}

func (w *eworld) failf(format string, a ...interface{}) {
	w.fails = append(w.fails, fmt.Sprintf(format, a...))
}

func (w *eworld) begin(kind string) *cbRec {
	idx := 0
	for _, r := range w.cbs {
		if r.kind == kind {
			idx++
		}
	}
	r := &cbRec{kind: kind, idx: idx, frame: -1, thread: vsched.Cur()}
	w.cbs = append(w.cbs, r)
	r.start = w.tick()
	vsched.Logf("callback %s starts (t=%d)", r, r.start)
	return r
}

func (w *eworld) finish(r *cbRec) {
	r.end = w.tick()
	vsched.Logf("callback %s returns (t=%d)", r, r.end)
}

func (w *eworld) of(kind string) []*cbRec {
	var out []*cbRec
	for _, r := range w.cbs {
		if r.kind == kind {
			out = append(out, r)
		}
	}
	return out
}

// timeline renders the callback log in clock order: [handler#0-start engine-close-start ...].
func (w *eworld) timeline() string {
	var s []string
	for t := 1; t <= w.seq; t++ {
		for _, r := range w.cbs {
			if r.start == t {
				s = append(s, r.String()+"-start")
			}
			if r.end == t {
				s = append(s, r.String()+"-end")
			}
		}
	}
	return "[" + strings.Join(s, " ") + "]"
}

const (
	eHandshake = "GET /ws HTTP/1.1\r\nHost: h\r\nConnection: Upgrade\r\nUpgrade: websocket\r\nSec-WebSocket-Version: 13\r\nSec-WebSocket-Key: dGhlIHNhbXBsZSBub25jZQ==\r\n\r\n"
)

// maskedFrame encodes one final frame from the client (RFC 6455 5.2; payload < 126 bytes).
func maskedFrame(op byte, payload []byte, key [4]byte) []byte {
	b := []byte{0x80 | op, 0x80 | byte(len(payload)), key[0], key[1], key[2], key[3]}
	for i, x := range payload {
		b = append(b, x^key[i%4])
	}
	return b
}

// serverFrames splits what the peer received after the 101 response into the server's
// (unmasked, short) frames; a cut last frame (the connection was closed) is dropped.
type srvFrame struct {
	op      byte
	payload string
}

func serverFrames(got []byte) []srvFrame {
	i := bytes.Index(got, []byte("\r\n\r\n"))
	if i < 0 {
		return nil
	}
	b := got[i+4:]
	var out []srvFrame
	for len(b) >= 2 {
		n := int(b[1] & 0x7f)
		if n >= 126 || len(b) < 2+n {
			break
		}
		out = append(out, srvFrame{op: b[0] & 0x0f, payload: string(b[2 : 2+n])})
		b = b[2+n:]
	}
	return out
}

// framePos reads the script position out of a payload of the form <letter><digit>.
func framePos(payload string) int {
	if len(payload) == 2 && payload[1] >= '0' && payload[1] <= '9' {
		return int(payload[1] - '0')
	}
	return -1
}

func engineBody(c ecfg) func() {
	script := c.script
	if c.ws && script == "" {
		script = strings.Repeat("t", c.n)
	}
	nReplies := strings.Count(script, "t") + strings.Count(script, "p")
	return func() {
		vsys.Configure(false, false)
		vkit.Log.TakeErrors()
		w := &eworld{}
		// every pooled buffer of this execution comes from its own tracking allocator (never the
		// process-wide default pool: a double free there would alias buffers between executions)
		tr := track.New(track.Pooled)
		mempool.DefaultMemPool = tr

		closeIssued := 0 // tick at which the closer's action was complete (0: not yet)
		slowStarted := 0 // tick at which slow callback #0 started
		var nbc *nbio.Conn
		var wsc *websocket.Conn
		upgradeErr := error(nil)
		upgraded := 0
		closeQueueLen := -1
		controlQueued := 0 // control callbacks that found themselves queued behind other work

		// slow is the body of a callback that takes time: scheduling points between its start and
		// its end, optionally waiting for the disconnect, optionally closing the connection itself.
		slow := func(r *cbRec, closeFn func()) {
			if r.idx == 0 {
				slowStarted = r.start
			}
			vsched.Point()
			if r.idx == 0 && c.sync == "handler-waits" {
				vsched.Block("handler.wait-close", func() bool { return closeIssued != 0 })
				w.tick()
			}
			if r.idx == 0 && c.end == "hclose" {
				closeFn()
				closeIssued = w.tick()
			}
			vsched.Point()
		}

		u := websocket.NewUpgrader()
		u.KeepaliveTime = 0
		u.CheckOrigin = func(*http.Request) bool { return true }
		u.OnMessage(func(conn *websocket.Conn, mt websocket.MessageType, data []byte) {
			r := w.begin("ws-message")
			r.frame = framePos(string(data))
			slow(r, func() { _ = conn.Close() })
			if c.script != "" {
				_ = conn.WriteMessage(websocket.TextMessage, []byte("re:"+string(data)))
			}
			w.finish(r)
		})
		if c.script != "" {
			control := func(kind string, conn *websocket.Conn, data string) *cbRec {
				r := w.begin(kind)
				r.frame = framePos(data)
				// in the unchanged tree a control callback is a job of the connection's queue: a list
				// longer than 1 means it was queued behind other work (a message handler running or
				// waiting). A public call; it takes the connection mutex.
				if nbc.ExecuteLen() >= 2 {
					controlQueued++
				}
				vsched.Point()
				return r
			}
			u.SetPingHandler(func(conn *websocket.Conn, data string) {
				r := control("ws-ping", conn, data)
				_ = conn.WriteMessage(websocket.PongMessage, []byte(data)) // what the default handler does
				w.finish(r)
			})
			u.SetPongHandler(func(conn *websocket.Conn, data string) {
				r := control("ws-pong", conn, data)
				w.finish(r)
			})
		}
		u.OnClose(func(conn *websocket.Conn, err error) {
			r := w.begin("ws-close")
			vsched.Point()
			w.finish(r)
		})

		conf := nbhttp.Config{
			Name: "c05e", NPoller: 1, ReadBufferSize: 4096, KeepaliveTime: time.Hour,
			BodyAllocator: tr, SupportServerOnly: true, MessageHandlerPoolSize: 4,
			Handler: http.HandlerFunc(func(rw http.ResponseWriter, req *http.Request) {
				r := w.begin("handler")
				if c.ws {
					vsched.Point()
					conn, err := u.Upgrade(rw, req, nil)
					upgradeErr = err
					if err == nil {
						wsc = conn
					}
					upgraded = w.tick()
				} else {
					slow(r, nil)
				}
				w.finish(r)
			}),
		}
		switch c.mode {
		case ekit.ET:
			conf.EpollMod = nbio.EPOLLET
		case ekit.ONESHOT:
			conf.EpollMod = nbio.EPOLLET
			conf.EPOLLONESHOT = nbio.EPOLLONESHOT
		}
		if c.exec == "go" {
			conf.ServerExecutor = func(f func()) { vsched.GoNamed("exec", f) }
		}
		engine := nbhttp.NewEngine(conf)
		u.Engine = engine
		engine.OnClose(func(cc net.Conn, err error) {
			r := w.begin("engine-close")
			if x, ok := cc.(*nbio.Conn); !ok || x != nbc {
				w.failf("harness|engine OnClose delivered for an unknown connection %T", cc)
			}
			// in the unchanged tree this callback runs inside the close job: the length of the job
			// list tells whether that job was queued behind other work (>= 2) or found the queue
			// empty (1). A public call a user callback may make; it takes the connection mutex.
			if closeQueueLen < 0 {
				closeQueueLen = nbc.ExecuteLen()
			}
			vsched.Point()
			w.finish(r)
		})
		if err := engine.Start(); err != nil {
			vsched.Fail("harness|engine start: %v", err)
			return
		}
		var peer *vsys.Peer
		nbc, peer = ekit.Stream(false, 1<<20, 1<<20)
		engine.AddConnNonTLSNonBlocking(&nbhttp.Conn{Conn: nbc}, nil, func() {})

		waitSlow := func() {
			if c.sync == "after-start" {
				vsched.Block("closer.wait-handler", func() bool { return slowStarted != 0 })
				w.tick()
			}
		}
		vsched.GoNamed("client", func() {
			if c.ws {
				if !peer.WriteAll([]byte(eHandshake)) {
					return
				}
				for !bytes.Contains(peer.Got, []byte("\r\n\r\n")) {
					peer.WaitReadable()
					if peer.Queued() == 0 {
						return // the server went away before it answered
					}
					peer.Read(0)
				}
				w.tick()
				if c.script != "" {
					vsched.GoNamed("drain", func() { peer.Drain() })
				}
				var b []byte
				for i, x := range script {
					key := [4]byte{9, 8, 7, byte(i + 1)}
					switch x {
					case 't':
						op := byte(2) // the data-message scenarios send binary messages, the control scripts text
						if c.script != "" {
							op = 1
						}
						b = append(b, maskedFrame(op, []byte(fmt.Sprintf("m%d", i)), key)...)
					case 'p':
						b = append(b, maskedFrame(9, []byte(fmt.Sprintf("p%d", i)), key)...)
					case 'q':
						b = append(b, maskedFrame(10, []byte(fmt.Sprintf("q%d", i)), key)...)
					}
					if c.split || i == len(script)-1 {
						if !peer.WriteAll(b) {
							return
						}
						b = nil
					}
				}
				if c.sync == "after-replies" {
					vsched.Block("client.wait-replies", func() bool {
						return len(serverFrames(peer.Got)) >= nReplies || peer.ClosedByRemote()
					})
					w.tick()
				}
			} else {
				var b []byte
				for i := 0; i < c.n; i++ {
					b = append(b, fmt.Sprintf("GET /%d HTTP/1.1\r\nHost: h\r\n", i)...)
					if c.end == "reqclose" && i == c.n-1 {
						b = append(b, "Connection: close\r\n"...)
					}
					b = append(b, "\r\n"...)
				}
				if !peer.WriteAll(b) {
					return
				}
			}
			switch c.end {
			case "close":
				waitSlow()
				peer.Close()
				closeIssued = w.tick()
			case "rst":
				waitSlow()
				peer.Reset()
				closeIssued = w.tick()
			}
		})
		if c.end == "uclose" {
			vsched.GoNamed("closer", func() {
				if c.ws {
					// a user thread can only close a WebSocket connection it has got hold of
					vsched.Block("closer.wait-upgrade", func() bool { return upgraded != 0 })
					w.tick()
					if wsc == nil {
						return
					}
					waitSlow()
					_ = wsc.Close()
				} else {
					waitSlow()
					_ = nbc.Close()
				}
				closeIssued = w.tick()
			})
		}
		vsched.WaitIdle()

		// ---- oracle at quiescence
		handlers := w.of("handler")
		msgs := w.of("ws-message")
		wsCloses := w.of("ws-close")
		engCloses := w.of("engine-close")
		controls := append(w.of("ws-ping"), w.of("ws-pong")...)
		work := append(append(append([]*cbRec{}, handlers...), msgs...), controls...)
		ctx := w.timeline() + " (" + c.name() + ")"
		closedNow, closeErr := nbc.IsClosed()

		// (c) exactly once
		if len(engCloses) > 1 {
			w.failf("engine-close-twice|the engine's OnClose callback ran %d times for one connection; callbacks: %s", len(engCloses), ctx)
		}
		// (b) close handling after all work queued before it
		if len(engCloses) > 0 {
			ec := engCloses[0]
			for _, x := range work {
				if x.start < ec.start && (x.end == 0 || x.end > ec.start) {
					w.failf("engine-close-overlaps-%s|the engine's OnClose callback was delivered (t=%d, thread T%d) while %s of the same connection (started t=%d on T%d) had not returned: close handling did not wait for the job that was running; callbacks: %s", x.kind, ec.start, ec.thread, x, x.start, x.thread, ctx)
				}
			}
			for _, x := range work {
				if x.start > ec.start && (ec.end == 0 || x.start < ec.end) {
					w.failf("%s-overlaps-engine-close|%s started (t=%d) while the engine's OnClose callback of the same connection (started t=%d) had not returned; callbacks: %s", x.kind, x, x.start, ec.start, ctx)
				}
			}
			for _, x := range work {
				if x.start > ec.start {
					w.failf("engine-close-before-queued-%s|%s started (t=%d) after the engine's OnClose callback had been delivered (t=%d): it was accepted by Execute, hence queued before the close job, yet close handling ran first; callbacks: %s", x.kind, x, x.start, ec.start, ctx)
				}
			}
		}
		// (a) no two callbacks overlap (the pairs with the engine's OnClose were named above)
		for _, a := range w.cbs {
			for _, b := range w.cbs {
				if a == b || !(a.start < b.start && (a.end == 0 || a.end > b.start)) {
					continue
				}
				if (a.kind == "engine-close" || b.kind == "engine-close") && a.kind != "ws-close" && b.kind != "ws-close" {
					continue
				}
				w.failf("callback-overlap %s-during-%s|%s started (t=%d, thread T%d) while %s of the same connection (started t=%d, thread T%d) had not returned; callbacks: %s", b.kind, a.kind, b, b.start, b.thread, a, a.start, a.thread, ctx)
			}
		}
		for _, r := range w.cbs {
			if r.end == 0 {
				w.failf("callback-unfinished kind=%s|%s started but never returned; callbacks: %s", r.kind, r, ctx)
			}
		}
		if !closedNow {
			w.failf("conn-not-closed end=%s|the scenario ends the connection (%s) but it is still open at quiescence; callbacks: %s", c.end, c.end, ctx)
		} else if len(engCloses) == 0 {
			w.failf("engine-close-missing|the connection has ended (%v) but the engine's OnClose callback was never delivered; callbacks: %s", closeErr, ctx)
		}
		// (d) WebSocket close callback
		opened := c.ws && upgraded != 0 && upgradeErr == nil
		if len(wsCloses) > 1 {
			w.failf("ws-close-twice|the WebSocket OnClose callback ran %d times; callbacks: %s", len(wsCloses), ctx)
		}
		if len(wsCloses) > 0 && !opened {
			w.failf("ws-close-without-upgrade|the WebSocket OnClose callback ran although Upgrade did not succeed (%v); callbacks: %s", upgradeErr, ctx)
		}
		if opened && closedNow && len(wsCloses) == 0 {
			w.failf("ws-close-missing|Upgrade succeeded and the connection has ended, the WebSocket OnClose callback never ran; callbacks: %s", ctx)
		}
		if len(wsCloses) > 0 {
			wc := wsCloses[0]
			for _, x := range append(append([]*cbRec{}, msgs...), controls...) {
				if x.start > wc.start {
					w.failf("ws-close-before-queued-%s|%s started (t=%d) after the WebSocket OnClose callback (t=%d); callbacks: %s", strings.TrimPrefix(x.kind, "ws-"), x, x.start, wc.start, ctx)
				}
			}
		}
		// the server's frames as the peer saw them: replies and Pongs in the order of the frames
		// they answer (each callback writes while it runs, callbacks run one at a time in order)
		wireJudged := 0
		if c.script != "" {
			lastPos := -1
			seen := map[int]bool{}
			for _, f := range serverFrames(peer.Got) {
				if f.op == 8 {
					continue
				}
				pos := -1
				switch {
				case f.op == 1 && strings.HasPrefix(f.payload, "re:"):
					pos = framePos(f.payload[3:])
				case f.op == 10:
					pos = framePos(f.payload)
				}
				want := byte(0)
				if pos >= 0 && pos < len(script) {
					want = script[pos]
				}
				if (f.op == 1 && want != 't') || (f.op == 10 && want != 'p') || (f.op != 1 && f.op != 10) {
					w.failf("ws-wire-unknown-frame|the peer received a frame (opcode %d, %q) that answers none of its frames (script %q); callbacks: %s", f.op, f.payload, script, ctx)
					continue
				}
				if seen[pos] {
					w.failf("ws-wire-duplicate-reply|frame #%d of the client's script %q was answered twice on the wire; callbacks: %s", pos, script, ctx)
				}
				seen[pos] = true
				if pos < lastPos {
					what := "reply"
					if f.op == 10 {
						what = "pong"
					}
					w.failf("ws-wire-reply-order %s-overtaken|the answer to frame #%d (%c) of the client's script %q is on the wire behind the answer to the later frame #%d (%c): a later callback wrote before an earlier one had finished; callbacks: %s", what, pos, script[pos], script, lastPos, script[lastPos], ctx)
				}
				if pos > lastPos {
					lastPos = pos
				}
				wireJudged++
			}
		}
		// WebSocket callbacks run in wire order (the queue is FIFO): the script position of the
		// frame each callback was given grows with the callback's start time
		var last *cbRec
		for _, x := range w.cbs { // w.cbs is in start order
			if x.kind != "ws-message" && x.kind != "ws-ping" && x.kind != "ws-pong" {
				continue
			}
			if x.frame < 0 || x.frame >= len(script) {
				w.failf("ws-callback-unknown-frame|%s was given a payload that is none of the client's frames; callbacks: %s", x, ctx)
				continue
			}
			if last != nil && x.frame <= last.frame {
				w.failf("ws-callback-order %s-before-%s|%s (frame #%d of the client's script %q) started at t=%d, after %s (frame #%d, t=%d): callbacks of one connection did not run in wire order; callbacks: %s", strings.TrimPrefix(last.kind, "ws-"), strings.TrimPrefix(x.kind, "ws-"), x, x.frame, script, x.start, last, last.frame, last.start, ctx)
			}
			last = x
		}
		if e := vkit.Log.TakeErrors(); len(e) > 0 {
			first := e[0]
			if i := strings.IndexByte(first, '\n'); i > 0 {
				first = first[:i]
			}
			w.failf("logged-error|nbio logged an error (a recovered panic?): %s; callbacks: %s", first, ctx)
		}

		// ---- vacuity counters and outcome class
		cnt := map[string]int{"engine_execs": 1, "engine_handlers_run": len(handlers), "engine_messages_run": len(msgs)}
		if len(engCloses) > 0 {
			cnt["engine_close_delivered"] = 1
		}
		if closeQueueLen >= 2 {
			cnt["engine_close_job_queued_behind_work"] = 1
		} else if closeQueueLen == 1 {
			cnt["engine_close_job_found_queue_empty"] = 1
		}
		slowKind := "handler"
		if c.ws {
			slowKind = "ws-message"
		}
		landed, beforeStart := false, false
		for _, x := range w.of(slowKind) {
			if closeIssued != 0 && x.start < closeIssued && (x.end == 0 || closeIssued < x.end) {
				landed = true
			}
			if closeIssued != 0 && closeIssued < x.start {
				beforeStart = true
			}
		}
		if landed {
			cnt["engine_close_issued_between_start_and_end_of_"+slowKind] = 1
		}
		if beforeStart {
			cnt["engine_close_issued_before_queued_"+slowKind+"_started"] = 1
		}
		if landed && closeQueueLen >= 2 {
			cnt["engine_close_landed_in_running_callback_and_waited"] = 1
		}
		if len(w.of(slowKind)) < c.n {
			cnt["engine_work_refused_after_close"] = 1
		}
		if c.script != "" {
			cnt["engine_control_callbacks_run"] = len(controls)
			cnt["engine_control_queued_behind_work"] = controlQueued
			cnt["engine_reply_frames_on_wire"] = wireJudged
			if wireJudged >= 2 {
				cnt["engine_wire_order_judged"] = 1
			}
			for _, x := range controls {
				for _, m := range msgs {
					if m.frame < x.frame && closeIssued != 0 && m.start < closeIssued && (m.end == 0 || closeIssued < m.end) {
						cnt["engine_control_waited_behind_message_that_saw_the_close"] = 1
					}
				}
			}
		}
		if len(wsCloses) > 0 {
			cnt["engine_ws_close_delivered"] = 1
		}
		if v := tr.Violations(); len(v) > 0 {
			cnt["ownership_violations_reported_by_C11"] = len(v)
		}
		lastCounters = cnt
		order := "no-close-callback"
		switch {
		case len(engCloses) > 0 && len(wsCloses) > 0 && wsCloses[0].start < engCloses[0].start:
			order = "ws-close,engine-close"
		case len(engCloses) > 0 && len(wsCloses) > 0:
			order = "engine-close,ws-close"
		case len(engCloses) > 0:
			order = "engine-close"
		}
		lastOutcome = fmt.Sprintf("engine: ran=%d/%d close-job-queue=%d %s", len(w.of(slowKind)), c.n, closeQueueLen, order)
		if c.script != "" {
			var ran []byte
			for _, x := range w.cbs {
				if x.frame >= 0 && x.frame < len(script) {
					ran = append(ran, script[x.frame])
				}
			}
			lastOutcome = fmt.Sprintf("engine control: script=%s ran=%s replies=%d close-job-queue=%d %s", script, ran, wireJudged, closeQueueLen, order)
		}
		for _, f := range w.fails {
			vsched.Fail("%s", f)
		}
	}
}

// engineCheck is the terminal-state oracle of the engine scenarios: nobody parked on a mutex
// forever, no harness thread still blocked.
func engineCheck(r *vsched.Result) string {
	for _, b := range r.Blocked {
		if strings.HasPrefix(b.Why, "mutex") {
			return fmt.Sprintf("deadlock-mutex thread=%s|thread %s is blocked on a mutex forever (%s)", strings.SplitN(b.Name, ":", 2)[0], b.Name, b.Why)
		}
	}
	for _, b := range r.Blocked {
		if b.Why == "handler.wait-close" {
			return fmt.Sprintf("stuck thread=handler|a handler is still waiting for the disconnect at the end (%s)", b.Name)
		}
		for _, p := range []string{"main", "client", "closer"} {
			if strings.HasPrefix(b.Name, p) {
				return fmt.Sprintf("stuck thread=%s|harness thread %s is still blocked at the end (%s)", p, b.Name, b.Why)
			}
		}
	}
	return ""
}

func engineScenarios(tier string) []*vkit.Scenario {
	thorough := tier == "thorough"
	var out []*vkit.Scenario
	add := func(c ecfg) {
		out = append(out, &vkit.Scenario{
			Name: c.name(), Body: engineBody(c), Check: engineCheck, P: c.p, D: 0,
			Opts:     vsched.Options{Horizon: 60000},
			Counters: func() map[string]int { return lastCounters },
			Outcome:  func() string { return lastOutcome },
			// non-trivial: in some execution the close job was queued behind a handler / OnMessage
			// that was running or waiting in the queue, and in some execution a callback ran at all
			NonTrivial: func(m map[string]int) bool {
				if c.script != "" {
					// control scripts: in some execution a ping / pong callback was queued behind
					// other work of the connection, and messages and control callbacks ran
					return m["engine_control_queued_behind_work"] > 0 && m["engine_messages_run"] > 0 && m["engine_control_callbacks_run"] > 0
				}
				return m["engine_close_job_queued_behind_work"] > 0 && m["engine_handlers_run"] > 0
			},
		})
	}
	type shape struct {
		ws   bool
		n    int
		end  string
		sync string
	}
	// the quick tier's selection out of the product below
	quick := map[shape]bool{
		{false, 1, "close", "none"}: true, {false, 1, "close", "handler-waits"}: true, {false, 2, "close", "after-start"}: true,
		{false, 2, "close", "none"}:      true,
		{false, 1, "rst", "after-start"}: true, {false, 2, "rst", "handler-waits"}: true,
		{false, 1, "uclose", "after-start"}: true, {false, 2, "uclose", "handler-waits"}: true,
		{false, 1, "reqclose", "none"}:      true,
		{true, 1, "close", "handler-waits"}: true, {true, 1, "close", "none"}: true, {true, 2, "rst", "after-start"}: true,
		{true, 1, "uclose", "after-start"}: true, {true, 2, "hclose", "none"}: true,
	}
	// one-shot mode: in the quick tier the WebSocket close shapes (Close from the callback itself,
	// from another thread, peer close while OnMessage is between start and end), so that every
	// epoll mode is in quick for them (added after the seeded change C05-m7 was missed: a
	// one-shot-only shortcut that takes the WebSocket callbacks out of the job queue); in the
	// thorough tier the whole quick selection
	quickOneshot := map[shape]bool{
		{true, 1, "close", "handler-waits"}: true, {true, 1, "uclose", "after-start"}: true, {true, 2, "hclose", "none"}: true,
	}
	modes := ekit.Modes
	for _, m := range modes {
		for _, e := range []string{"go", "pool"} {
			for _, ws := range []bool{false, true} {
				for _, n := range []int{1, 2} {
					for _, end := range []string{"close", "rst", "uclose", "reqclose", "hclose"} {
						for _, sync := range []string{"none", "after-start", "handler-waits"} {
							switch {
							case (end == "reqclose" || end == "hclose") && sync != "none": // nobody to wait for
								continue
							case end == "reqclose" && ws, end == "hclose" && !ws:
								continue
							case end == "uclose" && sync == "none" && !ws:
								// an unsynchronised Close of a fresh HTTP connection mostly precedes the request
								continue
							}
							sh := shape{ws, n, end, sync}
							if !quick[sh] && (!thorough || m == ekit.ONESHOT) {
								continue // one-shot mode: the quick selection only
							}
							if m == ekit.ONESHOT && !thorough && !quickOneshot[sh] {
								continue
							}
							// executions with the default task pool are 4-5 times slower (it allocates a
							// 64 Ki-entry channel per engine) and have two more threads: one bound lower
							p := 2
							if e == "pool" {
								p = 1
								if sh == (shape{false, 1, "close", "handler-waits"}) {
									p = 2
								}
							}
							// a WebSocket Close from a free-running user thread (not waiting for OnMessage)
							// is the widest shape (0.8 M executions at P=3): it keeps the quick bound
							wide := ws && end == "uclose" && sync != "after-start"
							if thorough && !wide {
								p++
							}
							add(ecfg{mode: m, exec: e, ws: ws, n: n, end: end, sync: sync, p: p})
						}
					}
				}
			}
		}
	}
	// WebSocket control frames: ping / pong handlers are callbacks of the connection like
	// OnMessage (added after the seeded change C05-m5 was missed: ping / pong called straight from
	// the reading thread instead of through the job queue)
	for _, m := range modes {
		for _, e := range []string{"go", "pool"} {
			for _, script := range []string{"tp", "tq", "pt", "tpt"} {
				for _, split := range []bool{false, true} {
					for _, sync := range []string{"handler-waits", "after-replies"} {
						// quick: the message handler that waits for the disconnect with one burst per
						// frame (preemptions of the client separate the reads); the reply-order
						// variant with everything in one burst
						inQuick := (sync == "handler-waits") == split
						if e == "pool" && (script == "tq" || script == "pt") {
							inQuick = false // the default pool's executions are 4-5 times slower
						}
						if (!inQuick && (!thorough || m == ekit.ONESHOT)) || (m == ekit.ONESHOT && !thorough) {
							continue
						}
						// one preemption of the client separates the reads and lands the control frame
						// in a running message handler; the second one is kept where it is cheap
						p := 1
						if e == "go" && sync == "after-replies" && (script == "tp" || script == "tpt") {
							p = 2
						}
						if thorough && !(e == "pool" && (script == "tq" || script == "pt")) {
							p++ // (0.2 M executions, two minutes each with the default pool at P=2)
						}
						add(ecfg{mode: m, exec: e, ws: true, n: strings.Count(script, "t"), script: script, split: split, end: "close", sync: sync, p: p})
					}
				}
			}
		}
	}
	return out
}

// C01: outbound stream integrity. A real nbio engine (one poller) on the simulated kernel; one
// connection whose peer drains at scheduler-chosen moments; writer threads issue programs of
// Write / Writev / Sendfile calls; the kernel's answers (short counts, EAGAIN, EINTR) are
// explorer deviations. Oracle: what the peer received is a concatenation, in an admissible
// order, of the byte ranges the calls reported as accepted; a nil error means the whole input
// was accepted and reported.
package main

import (
	"fmt"
	"strings"
	"time"

	"github.com/lesismal/nbio"

	"verif/ekit"
	"verif/track"
	"verif/vkit"
	"verif/vsched"
	"verif/vshim/vsys"
)

type call struct {
	kind string // W | V | S
	bufs []int  // W: one size; V: sizes
	off  int    // S: file offset
	n    int    // S: requested length (0: to the end)
	fsz  int    // S: file size
}

func (c call) String() string {
	switch c.kind {
	case "W":
		return fmt.Sprintf("W%d", c.bufs[0])
	case "V":
		return "V" + strings.Trim(strings.ReplaceAll(fmt.Sprint(c.bufs), " ", "."), "[]")
	}
	return fmt.Sprintf("S%d+%d/%d", c.off, c.n, c.fsz)
}

type cfg struct {
	unix   bool
	mode   ekit.Mode
	k      int
	chunk  int // peer read size (0: everything)
	w1, w2 []call
	inOpen bool // w1 runs inside the open handler
	p, d   int
	large  bool
}

func (c cfg) name() string {
	t := "tcp"
	if c.unix {
		t = "unix"
	}
	s := fmt.Sprintf("%s %s K=%d chunk=%d w1=%v", t, c.mode, c.k, c.chunk, c.w1)
	if c.inOpen {
		s += " in-open-handler"
	}
	if len(c.w2) > 0 {
		s += fmt.Sprintf(" w2=%v", c.w2)
	}
	return s
}

type result struct {
	id     string
	input  []byte
	n      int64
	err    error
	callAt int
	retAt  int
	thread int
}

var lastCounters map[string]int
var lastOutcome string

func body(c cfg) func() {
	return func() {
		vsys.Configure(true, true)
		// write-queue allocator: exact capacities on TCP scenarios (every coalescing append has to
		// grow), pooled capacities (>= 1 KiB, as in production) on Unix ones
		pol := track.Exact
		if c.unix {
			pol = track.Pooled
		}
		tr := track.New(pol)
		conf := nbio.Config{Name: "c01", NPoller: 1, ReadBufferSize: 16, BodyAllocator: tr}
		c.mode.Apply(&conf)
		g := nbio.NewEngine(conf)
		if len(c.w2) > 0 {
			// nbio calls this handler from inside Write/Writev/flush: with two writers a window
			// opened around the callback would let the calls interleave
			g.OnWrittenSize(func(_ *nbio.Conn, _ []byte, n int) {})
		}
		if err := g.Start(); err != nil {
			vsched.Fail("harness|engine start: %v", err)
			return
		}
		conn, peer := ekit.Stream(c.unix, c.k, 64)
		closed := false
		var closeErr error
		g.OnClose(func(_ *nbio.Conn, err error) { closed = true; closeErr = err })
		var log vsched.Obj
		seq := 0
		tick := func() int {
			seq++
			vsched.Record(&log, 1, true, uint64(seq))
			return seq
		}
		var results []*result
		nextID := 0
		run := func(thread int, prog []call) {
			for _, cl := range prog {
				nextID++
				id := nextID
				r := &result{id: fmt.Sprintf("t%dc%d:%s", thread, id, cl), thread: thread}
				results = append(results, r)
				switch cl.kind {
				case "W":
					r.input = ekit.Payload(id, cl.bufs[0])
					r.callAt = tick()
					n, err := conn.Write(r.input)
					r.n, r.err = int64(n), err
				case "V":
					var in [][]byte
					off := 0
					total := 0
					for _, s := range cl.bufs {
						total += s
					}
					all := ekit.Payload(id, total)
					for _, s := range cl.bufs {
						in = append(in, all[off:off+s])
						off += s
					}
					r.input = all
					r.callAt = tick()
					n, err := conn.Writev(in)
					r.n, r.err = int64(n), err
				case "S":
					f := ekit.OpenDataFile(id, cl.fsz, cl.off)
					want := cl.n
					if want <= 0 || want > cl.fsz-cl.off {
						want = cl.fsz - cl.off
					}
					r.input = ekit.Payload(id, cl.fsz)[cl.off : cl.off+want]
					r.callAt = tick()
					n, err := conn.Sendfile(f, int64(cl.n))
					r.n, r.err = n, err
				}
				r.retAt = tick()
			}
		}
		if c.inOpen {
			// the first writer's calls are issued inside the open handler, i.e. before the
			// descriptor is registered with its poller
			g.OnOpen(func(*nbio.Conn) { run(1, c.w1) })
		}
		if _, err := g.AddConn(conn); err != nil {
			vsched.Fail("harness|AddConn: %v", err)
			return
		}
		vsched.GoNamed("peer", func() {
			vsched.SetDaemon()
			for {
				peer.WaitReadable()
				if peer.Queued() == 0 {
					return
				}
				peer.Read(c.chunk)
			}
		})
		if !c.inOpen {
			vsched.GoNamed("writer1", func() { run(1, c.w1) })
		}
		if len(c.w2) > 0 {
			vsched.GoNamed("writer2", func() { run(2, c.w2) })
		}
		vsched.WaitIdle()

		// ---- oracle
		var fails []string
		var blocks []ekit.Block
		accepted := 0
		for _, r := range results {
			if r.retAt == 0 {
				fails = append(fails, fmt.Sprintf("stuck|call %s never returned", r.id))
				continue
			}
			var acc []byte
			if r.err == nil {
				if r.n != int64(len(r.input)) {
					fails = append(fails, fmt.Sprintf("short-count-nil-error|%s returned n=%d with a nil error for an input of %d bytes", callKind(r.id), r.n, len(r.input)))
				}
				acc = r.input
			} else {
				n := r.n
				if n < 0 {
					n = 0
				}
				if n > int64(len(r.input)) {
					n = int64(len(r.input))
				}
				acc = r.input[:n]
			}
			b := ekit.Block{ID: r.id, Data: acc}
			for _, o := range results {
				if o != r && o.retAt != 0 && (o.retAt < r.callAt) {
					b.After = append(b.After, o.id)
				}
			}
			blocks = append(blocks, b)
			accepted += len(acc)
		}
		snap := conn.VerifSnapshot()
		complete := !closed && snap.QueueLen == 0
		if closed {
			// nothing in these scenarios may close the connection
			fails = append(fails, fmt.Sprintf("unexpected-close|connection closed with %v", closeErr))
		}
		if len(fails) == 0 {
			if d := ekit.MatchStream(peer.Got, blocks, complete); d != "" {
				kinds := ""
				for _, r := range results {
					kinds += callKind(r.id)
				}
				t := "tcp"
				if c.unix {
					t = "unix"
				}
				fails = append(fails, fmt.Sprintf("stream-mismatch %s|calls=%s: %s; accepted %d bytes, queue=%v left=%d", t, kinds, d, accepted, snap.Queue, snap.Left))
			}
		}
		st := vsys.GetStats()
		lastCounters = map[string]int{"short_writes": st.ShortWrites, "eagain": st.Eagains, "eintr": st.Eintrs, "writev": st.Writevs, "sendfile": st.Sendfiles}
		if snap.QueueLen > 0 {
			// the peer reads whenever there is something to read and the system is quiescent: what
			// is still queued will never be sent, i.e. accepted bytes are lost. (Not judged when an
			// EINTR was injected: Linux does not interrupt non-blocking socket writes, and nbio
			// relies on a writability event that a socket that never filled up does not owe.)
			if st.Eintrs == 0 && !closed && len(fails) == 0 {
				fails = append(fails, fmt.Sprintf("stall %s|the peer has read everything and the system is quiescent, but %d of %d accepted bytes were never sent (queue %v, isWAdded=%v)", c.mode, accepted-len(peer.Got), accepted, snap.Queue, snap.IsWAdded))
			} else {
				lastCounters["ended_with_backlog_not_judged"] = 1
			}
		}
		if st.Eagains > 0 || st.ShortWrites > 0 {
			lastCounters["backpressure_execs"] = 1
		}
		lastOutcome = fmt.Sprintf("got=%d/%d q=%d", len(peer.Got), accepted, snap.QueueLen)
		if v := tr.Violations(); len(v) > 0 {
			lastCounters["ownership_violations_reported_by_C11"] = len(v)
		}
		for _, f := range fails {
			vsched.Fail("%s", f)
		}
	}
}

func callKind(id string) string {
	i := strings.Index(id, ":")
	return id[i+1 : i+2]
}

func check(r *vsched.Result) string {
	for _, b := range r.Blocked {
		if b.Name == "main" || strings.HasPrefix(b.Name, "writer") {
			return fmt.Sprintf("stuck|thread %s blocked at the end (%s)", b.Name, b.Why)
		}
	}
	return ""
}

func W(n int) call           { return call{kind: "W", bufs: []int{n}} }
func V(s ...int) call        { return call{kind: "V", bufs: s} }
func S(off, n, fsz int) call { return call{kind: "S", off: off, n: n, fsz: fsz} }

func build(tier string) []*vkit.Scenario {
	thorough := tier == "thorough"
	var out []*vkit.Scenario
	add := func(c cfg) {
		hz := 20000
		if c.large {
			hz = 60000
		}
		out = append(out, &vkit.Scenario{Name: c.name(), Body: body(c), Check: check, P: c.p, D: c.d,
			Opts:     vsched.Options{Horizon: hz},
			Counters: func() map[string]int { return lastCounters }, Outcome: func() string { return lastOutcome },
			NonTrivial: func(m map[string]int) bool { return m["backpressure_execs"] > 0 }})
	}
	const K = 3
	singles := []call{W(0), W(1), W(K), W(K + 2), V(1, 2), V(2, 3), V(0, 4), V(5, 1), V(1, 1, 3), V(2, 0, 2), V(3, 3, 1), S(0, 2, 6), S(1, 4, 6), S(0, 0, 5)}
	pairsA := []call{W(K + 2), V(2, 3), V(1, 1, 3), S(1, 4, 6)}
	pairsB := []call{W(1), W(K + 2), V(2, 3), V(3, 3, 1), V(2, 0, 2), V(0, 4), V(0, 0), S(0, 0, 5)}
	ks := []int{K}
	if thorough {
		ks = []int{1, 3, 5}
	}
	for _, unix := range []bool{false, true} {
		for _, m := range ekit.Modes {
			for _, k := range ks {
				for _, chunk := range []int{0, 1} {
					for _, s := range singles {
						p, d := 2, 1
						if thorough {
							p, d = 3, 2
						}
						add(cfg{unix: unix, mode: m, k: k, chunk: chunk, w1: []call{s}, p: p, d: d})
					}
					for _, a := range pairsA {
						for _, b := range pairsB {
							p, d := 2, 1
							if thorough {
								p, d = 3, 2
							} else if chunk == 1 || unix {
								p = 1
							}
							add(cfg{unix: unix, mode: m, k: k, chunk: chunk, w1: []call{a, b}, p: p, d: d})
						}
					}
					if thorough {
						for _, a := range pairsA {
							add(cfg{unix: unix, mode: m, k: k, chunk: chunk, w1: []call{a, W(2), V(1, 3)}, p: 1, d: 1})
						}
					}
				}
			}
			// calls issued before the registration (inside the open handler), alone and with a
			// second writer that starts afterwards
			for _, a := range []call{W(K + 2), V(2, K+1), S(1, 4, 6)} {
				add(cfg{unix: unix, mode: m, k: K, chunk: 0, w1: []call{a, W(1)}, inOpen: true, p: 2, d: 1})
				add(cfg{unix: unix, mode: m, k: K, chunk: 0, w1: []call{a}, w2: []call{W(2)}, inOpen: true, p: 2, d: 1})
			}
			// two concurrent writers: calls must not interleave
			for _, a := range []call{W(K + 2), V(2, 3)} {
				for _, b := range []call{W(K + 2), V(1, 1, 3), S(1, 4, 6)} {
					p := 2
					if thorough {
						p = 3
					}
					add(cfg{unix: unix, mode: m, k: K, chunk: 0, w1: []call{a}, w2: []call{b}, p: p, d: 1})
				}
			}
		}
	}
	// 64 KiB coalescing threshold in the write queue
	const KL = 70000
	for _, m := range ekit.Modes {
		for _, second := range []call{W(65533), W(65534), W(65535), V(65534, 1), V(1, 65534)} {
			add(cfg{mode: m, k: KL, chunk: 0, w1: []call{W(KL + 2), second}, p: 1, d: 0, large: true})
			if thorough {
				add(cfg{mode: m, k: KL, chunk: 0, w1: []call{W(KL + 2), second, W(3)}, p: 1, d: 1, large: true})
			}
		}
	}
	// one queue entry whose unsent remainder is around / above the 64 KiB unit while the socket can
	// take a whole unit at once (a call larger than the unit is queued as one entry, never merged):
	// the flush has to carry on inside the entry after a write that the kernel accepted in full
	for _, m := range ekit.Modes {
		for _, first := range []call{W(KL + 65535), W(KL + 65537), W(2 * KL), V(KL, 65537), V(KL+1, 1, 65536)} {
			add(cfg{mode: m, k: KL, chunk: 0, w1: []call{first, W(3)}, p: 1, d: 0, large: true})
			if thorough {
				add(cfg{mode: m, k: KL, chunk: 0, w1: []call{first, W(65535), W(3)}, p: 1, d: 1, large: true})
				add(cfg{unix: true, mode: m, k: KL, chunk: 0, w1: []call{first, W(3)}, p: 1, d: 1, large: true})
			}
		}
	}
	return out
}

func main() {
	defer ekit.CleanupFiles()
	vkit.Main(&vkit.Spec{
		Property: "C01", Level: "model_checking",
		Rule: "one scenario = transport x epoll mode x socket capacity K x peer read size x writer program(s) over Write/Writev/Sendfile with sizes around K (plus the 64 KiB family with K=70000: calls that end just below / at / above the coalescing threshold, and single calls that leave one queue entry of more than 64 KiB unsent in front of a socket that can take a whole unit); every interleaving of writer(s), poller and peer within the preemption bound and every kernel answer (full/short count at 1, min-1 and iovec boundaries, EAGAIN when full, EINTR) within the deviation bound is executed on the real engine; non-trivial = the execution saw a short write or EAGAIN (back-pressure path exercised)",
		Assumptions: []string{
			"simulated kernel (vsys): stream sockets with a K-byte send queue, epoll LT/ET/ONESHOT with Linux ready-list semantics; writability wake-ups follow TCP (only after the socket reported no space)",
			"concurrent calls may appear in either order unless one returned before the other was invoked; the bytes of one call must be contiguous",
			"a backlog that is still queued at quiescence is not judged here (that is C04); what was delivered must be a prefix of an admissible concatenation",
			"no fatal errors are injected in this check (C03 covers close causes)",
		},
		UsesSimulatedKernel: true,
		Build:               build, QuickBudget: 40 * time.Second, ThoroughBudget: 10 * time.Minute, MinNonTrivial: 50,
	})
}

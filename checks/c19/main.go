// C19: executors — taskpool.TaskPool (exactly once, concurrency bound, panic containment,
// capacity recovery after overload, Stop racing submissions) and timer.Timer.Async (exactly
// once, FIFO), explored exhaustively under the controlled scheduler on the real code.
//
// Interpretation choices (DESIGN §3.1): "exactly once" is required of tasks handed to a pool
// that is not stopped in the scenario; when Stop races with or follows submissions only
// "at most once" and "Go returns" are required (a stopping pool drops what is still queued by
// design). The capacity oracle is differential: cap0 = how many mutually waiting tasks a FRESH
// pool completes in every schedule; after an overload burst has drained, the same pool must
// again complete cap0 mutually waiting tasks in every schedule.
package main

import (
	"fmt"
	"sort"
	"strings"
	"time"

	"github.com/lesismal/nbio/taskpool"
	"github.com/lesismal/nbio/timer"

	"verif/vkit"
	"verif/vsched"
)

type task struct {
	id      string
	sub     int
	callSeq int
	retSeq  int
	starts  []int
	ends    []int
}

type world struct {
	log     vsched.Obj
	seq     int
	tasks   []*task
	running int
	maxRun  int
	arrived int
	fails   []string
	stopAt  int // tick at which Stop was called (0: never)
	gate    int // kind "stopbacklog": tasks waiting for a gate <= this value may go on
}

func (w *world) tick() int {
	w.seq++
	vsched.Record(&w.log, 1, true, uint64(w.seq))
	return w.seq
}

var lastCounters map[string]int
var lastOutcome string

type pcfg struct {
	n, q     int
	custom   bool // custom caller
	subs     int
	each     int
	panicAt  int // index of the task (of submitter 0) that panics, -1 none
	stop     bool
	kind     string // basic | capacity | fresh
	barrierK int
	burst    int
	rounds   int // bound: overload rounds with parked tasks before the bound is measured
}

func (c pcfg) name() string {
	return fmt.Sprintf("pool kind=%s N=%d Q=%d custom=%v subs=%d each=%d panic=%d stop=%v k=%d burst=%d", c.kind, c.n, c.q, c.custom, c.subs, c.each, c.panicAt, c.stop, c.barrierK, c.burst) + map[bool]string{true: fmt.Sprintf(" rounds=%d", c.rounds), false: ""}[c.rounds > 0]
}

func newPool(c pcfg) *taskpool.TaskPool {
	if c.custom {
		return taskpool.New(c.n, c.q, func(f func()) {
			defer func() { _ = recover() }()
			f()
		})
	}
	return taskpool.New(c.n, c.q)
}

func (w *world) mkTask(id string, sub int, panics bool, barrier int) (*task, func()) {
	t := &task{id: id, sub: sub}
	w.tasks = append(w.tasks, t)
	return t, func() {
		w.running++
		if w.running > w.maxRun {
			w.maxRun = w.running
		}
		t.starts = append(t.starts, w.tick())
		if barrier > 0 {
			w.arrived++
			vsched.Block("barrier", func() bool { return w.arrived >= barrier })
		} else {
			vsched.Point()
		}
		w.running--
		t.ends = append(t.ends, w.tick())
		if panics {
			panic("task panic " + id)
		}
	}
}

func (w *world) judge(c pcfg, exactlyOnce bool) {
	ran := 0
	for _, t := range w.tasks {
		if len(t.starts) > 1 {
			w.fails = append(w.fails, fmt.Sprintf("twice|task %s ran %d times", t.id, len(t.starts)))
		}
		if len(t.starts) != len(t.ends) {
			w.fails = append(w.fails, fmt.Sprintf("unfinished|task %s started but never finished", t.id))
		}
		if t.retSeq == 0 {
			w.fails = append(w.fails, fmt.Sprintf("go-stuck|Go(%s) never returned", t.id))
		}
		if exactlyOnce && len(t.starts) == 0 && t.retSeq != 0 {
			w.fails = append(w.fails, fmt.Sprintf("lost|task %s was handed to a pool that is never stopped but did not run", t.id))
		}
		if !exactlyOnce && w.stopAt != 0 && t.retSeq != 0 && t.retSeq < w.stopAt && len(t.starts) == 0 {
			// Go returned before Stop was even called: the task was handed to the pool before it
			// was stopped
			w.fails = append(w.fails, fmt.Sprintf("lost-at-stop|task %s was handed to the pool (Go returned) before Stop was called, but never ran", t.id))
		}
		if len(t.starts) > 0 {
			ran++
		}
	}
	if w.maxRun > c.n {
		w.fails = append(w.fails, fmt.Sprintf("bound|%d tasks ran at once, bound is %d", w.maxRun, c.n))
	}
	lastCounters = map[string]int{"tasks_run": ran, "max_parallel_" + fmt.Sprint(w.maxRun): 1}
	if w.maxRun > 1 {
		lastCounters["parallel_execs"] = 1
	}
	lastOutcome = fmt.Sprintf("ran=%d maxpar=%d", ran, w.maxRun)
}

func poolBody(c pcfg) func() {
	return func() {
		w := &world{}
		tp := newPool(c)
		switch c.kind {
		case "basic":
			for s := 0; s < c.subs; s++ {
				s := s
				vsched.GoNamed(fmt.Sprintf("submitter%d", s), func() {
					for j := 0; j < c.each; j++ {
						t, fn := w.mkTask(fmt.Sprintf("s%dt%d", s, j), s, s == 0 && j == c.panicAt, 0)
						t.callSeq = w.tick()
						tp.Go(fn)
						t.retSeq = w.tick()
					}
				})
			}
			if c.stop {
				vsched.GoNamed("stopper", func() { w.stopAt = w.tick(); tp.Stop() })
			}
			vsched.WaitIdle()
			w.judge(c, !c.stop)
		case "stopbacklog":
			// Stop while every runner is held by a parked task and the queue is full of tasks that
			// will park as well: what was queued before the stop still has to run, and no more
			// than N of them at once. The first N tasks wait for gate 1, the others for gate 2.
			total := c.n + c.q + 1
			gated := func(id string, gate int) (*task, func()) {
				t := &task{id: id}
				w.tasks = append(w.tasks, t)
				return t, func() {
					w.running++
					if w.running > w.maxRun {
						w.maxRun = w.running
					}
					t.starts = append(t.starts, w.tick())
					vsched.Block("gate", func() bool { return w.gate >= gate })
					w.running--
					t.ends = append(t.ends, w.tick())
				}
			}
			vsched.GoNamed("submitter0", func() {
				for j := 0; j < total; j++ {
					gate := 2
					if j < c.n {
						gate = 1
					}
					t, fn := gated(fmt.Sprintf("t%d", j), gate)
					t.callSeq = w.tick()
					tp.Go(fn)
					t.retSeq = w.tick()
				}
			})
			vsched.WaitIdle()
			vsched.GoNamed("stopper", func() { w.stopAt = w.tick(); tp.Stop() })
			vsched.WaitIdle()
			w.gate = 1
			w.tick()
			vsched.WaitIdle()
			w.gate = 2
			w.tick()
			vsched.WaitIdle()
			w.judge(c, false)
		case "bound":
			// N+2 tasks that all park until the harness releases them: how many get to run at once?
			release := false
			// warm-up: instantaneous tasks, one at a time (each runs to completion before the next
			// is handed over), so that any drift of the pool's bookkeeping accumulates
			for j := 0; j < c.burst; j++ {
				t, fn := w.mkTask(fmt.Sprintf("warm%d", j), 0, false, 0)
				t.callSeq = w.tick()
				tp.Go(fn)
				t.retSeq = w.tick()
				vsched.WaitIdle()
			}
			// overload rounds: more parked tasks than the pool runs at once are handed over (the
			// dispatcher has to take some while no worker can be forked), then all are released;
			// the bookkeeping must be back where a fresh pool's is
			for r := 0; r < c.rounds; r++ {
				rel := 0 // tasks 0..rel-1 of this round may finish (released one by one: their completion orders add nothing)
				r := r
				vsched.GoNamed(fmt.Sprintf("overload%d", r), func() {
					for j := 0; j < c.n+c.q+3; j++ {
						j := j
						t := &task{id: fmt.Sprintf("over%d.%d", r, j)}
						w.tasks = append(w.tasks, t)
						t.callSeq = w.tick()
						tp.Go(func() {
							w.running++
							if w.running > w.maxRun {
								w.maxRun = w.running
							}
							t.starts = append(t.starts, w.tick())
							vsched.Block("overload-hold", func() bool { return rel > j })
							w.running--
							t.ends = append(t.ends, w.tick())
						})
						t.retSeq = w.tick()
					}
				})
				vsched.WaitIdle()
				if w.maxRun > c.n {
					w.fails = append(w.fails, fmt.Sprintf("bound|%d tasks ran at once in overload round %d, bound is %d", w.maxRun, r, c.n))
				}
				// while the parked tasks are released one by one the submitter goes on handing over:
				// a worker that has moved on to queued tasks is still a worker
				for rel < c.n+c.q+3 {
					rel++
					vsched.WaitIdle()
					if w.maxRun > c.n {
						w.fails = append(w.fails, fmt.Sprintf("bound|%d tasks ran at once while overload round %d drained, bound is %d", w.maxRun, r, c.n))
						break
					}
				}
				for _, t := range w.tasks {
					if strings.HasPrefix(t.id, fmt.Sprintf("over%d.", r)) && len(t.ends) != 1 {
						w.fails = append(w.fails, fmt.Sprintf("lost|overload task %s did not run exactly once (%d)", t.id, len(t.ends)))
					}
				}
			}
			w.maxRun = 0
			nsub := c.subs
			if nsub < 1 {
				nsub = 1
			}
			for sub := 0; sub < nsub; sub++ {
				sub := sub
				vsched.GoNamed(fmt.Sprintf("submitter%d", sub), func() {
					for j := 0; j < c.each; j++ {
						t := &task{id: fmt.Sprintf("hold%d.%d", sub, j)}
						w.tasks = append(w.tasks, t)
						t.callSeq = w.tick()
						tp.Go(func() {
							w.running++
							if w.running > w.maxRun {
								w.maxRun = w.running
							}
							t.starts = append(t.starts, w.tick())
							vsched.Block("hold", func() bool { return release })
							w.running--
							t.ends = append(t.ends, w.tick())
						})
						t.retSeq = w.tick()
					}
				})
			}
			vsched.WaitIdle()
			// judged here; the held tasks are not released (their n! completion orders add
			// nothing to this question; exactly-once is the subject of the basic scenarios)
			held := w.running
			_ = release
			if w.maxRun > c.n {
				w.fails = append(w.fails, fmt.Sprintf("bound|%d tasks ran at once, bound is %d", w.maxRun, c.n))
			}
			lastCounters = map[string]int{"held_" + fmt.Sprint(held): 1, "parallel_execs": 1}
			lastOutcome = fmt.Sprintf("held=%d", held)
		case "drain":
			// one submitter hands over parked tasks as fast as the pool takes them; the harness
			// releases one running task at a time, and WHICH one is an explored choice: every
			// completion order of the running tasks (every assignment of durations) is covered.
			// Workers that have moved on to queued tasks, the dispatcher and freshly forked workers
			// together must never exceed the bound, and every task runs exactly once.
			total := c.each
			released := make([]bool, total)
			runningNow := map[int]bool{}
			vsched.GoNamed("submitter0", func() {
				for j := 0; j < total; j++ {
					j := j
					t := &task{id: fmt.Sprintf("park%d", j)}
					w.tasks = append(w.tasks, t)
					t.callSeq = w.tick()
					tp.Go(func() {
						w.running++
						runningNow[j] = true
						if w.running > w.maxRun {
							w.maxRun = w.running
						}
						t.starts = append(t.starts, w.tick())
						vsched.Block("parked", func() bool { return released[j] })
						delete(runningNow, j)
						w.running--
						t.ends = append(t.ends, w.tick())
					})
					t.retSeq = w.tick()
				}
			})
			for {
				vsched.WaitIdle()
				if w.maxRun > c.n {
					// judged right here: the tasks still parked stay parked
					vsched.Fail("bound|%d tasks ran at once, bound is %d (workers that moved on to queued tasks + dispatcher + newly forked workers)", w.maxRun, c.n)
					return
				}
				var ids []int
				for j := range runningNow {
					ids = append(ids, j)
				}
				if len(ids) == 0 {
					break
				}
				sort.Ints(ids)
				released[ids[vsched.ChooseFree(len(ids), "which running task ends next")]] = true
			}
			w.judge(c, true)
		case "fresh", "capacity":
			if c.kind == "capacity" {
				// overload burst: more instantaneous tasks than the pool runs at once
				for j := 0; j < c.burst; j++ {
					t, fn := w.mkTask(fmt.Sprintf("burst%d", j), 0, false, 0)
					t.callSeq = w.tick()
					tp.Go(fn)
					t.retSeq = w.tick()
				}
				vsched.WaitIdle()
				for _, t := range w.tasks {
					if len(t.ends) != 1 {
						w.fails = append(w.fails, fmt.Sprintf("lost|burst task %s did not run exactly once (%d)", t.id, len(t.ends)))
					}
				}
			}
			vsched.GoNamed("submitter0", func() {
				for j := 0; j < c.barrierK; j++ {
					t, fn := w.mkTask(fmt.Sprintf("wait%d", j), 0, false, c.barrierK)
					t.callSeq = w.tick()
					tp.Go(fn)
					t.retSeq = w.tick()
				}
			})
			vsched.WaitIdle()
			done := 0
			for _, t := range w.tasks {
				if strings.HasPrefix(t.id, "wait") && len(t.ends) == 1 {
					done++
				}
			}
			if done != c.barrierK {
				w.fails = append(w.fails, fmt.Sprintf("capacity-lost|only %d of %d mutually waiting tasks could run together (a fresh pool runs %d together in every schedule)", w.arrived, c.barrierK, c.barrierK))
			}
			lastCounters = map[string]int{"barrier_completed": done / max(c.barrierK, 1)}
			lastOutcome = fmt.Sprintf("barrier %d/%d", done, c.barrierK)
		}
		if !c.stop {
			tp.Stop()
		}
		for _, f := range w.fails {
			vsched.Fail("%s", f)
		}
	}
}

func poolCheck(c pcfg) func(r *vsched.Result) string {
	return func(r *vsched.Result) string {
		if c.kind != "basic" {
			return "" // a stuck barrier is judged in the body
		}
		for _, b := range r.Blocked {
			if strings.HasPrefix(b.Name, "main") || strings.HasPrefix(b.Name, "submitter") || strings.HasPrefix(b.Name, "stopper") {
				return fmt.Sprintf("go-stuck|thread %s blocked at the end (%s)", b.Name, b.Why)
			}
		}
		return ""
	}
}

// freshCapacity explores "k mutually waiting tasks on a fresh pool" for k = N, N-1, ... and
// returns the largest k that completes in every schedule.
func freshCapacity(n, q int, custom bool) int {
	for k := n; k >= 1; k-- {
		c := pcfg{n: n, q: q, custom: custom, kind: "fresh", barrierK: k}
		ex := &vsched.Explorer{P: 2, CacheOn: true}
		bad := false
		ex.OnResult = func(r *vsched.Result) string {
			if len(r.Failures) > 0 || r.Panic != "" || r.Livelock {
				bad = true
				return "x"
			}
			return ""
		}
		ex.StopAtFirst = true
		ex.Explore(poolBody(c))
		if !bad {
			return k
		}
	}
	return 0
}

// ---------------------------------------------------------------------------------------------
// timer.Async

type acfg struct {
	producers, each int
	panicFirst      bool
	presize         bool // the list has the capacity it has after a burst of > 1024 functions
}

func (c acfg) name() string {
	return fmt.Sprintf("async producers=%d each=%d panic=%v presized=%v", c.producers, c.each, c.panicFirst, c.presize)
}

func asyncBody(c acfg) func() {
	return func() {
		w := &world{}
		tm := timer.New("c19")
		if c.presize {
			tm.VerifPresize(2000)
		}
		overl := 0
		for p := 0; p < c.producers; p++ {
			p := p
			vsched.GoNamed(fmt.Sprintf("producer%d", p), func() {
				for j := 0; j < c.each; j++ {
					t := &task{id: fmt.Sprintf("p%df%d", p, j), sub: p}
					w.tasks = append(w.tasks, t)
					pan := c.panicFirst && p == 0 && j == 0
					t.callSeq = w.tick()
					tm.Async(func() {
						w.running++
						if w.running > 1 {
							overl++
						}
						t.starts = append(t.starts, w.tick())
						vsched.Point()
						w.running--
						t.ends = append(t.ends, w.tick())
						if pan {
							panic("async panic")
						}
					})
					t.retSeq = w.tick()
				}
			})
		}
		vsched.WaitIdle()
		for _, t := range w.tasks {
			if len(t.starts) != 1 || len(t.ends) != 1 {
				w.fails = append(w.fails, fmt.Sprintf("async-count|function %s ran %d times (finished %d)", t.id, len(t.starts), len(t.ends)))
			}
			if t.retSeq == 0 {
				w.fails = append(w.fails, fmt.Sprintf("async-stuck|Async(%s) never returned", t.id))
			}
		}
		for _, a := range w.tasks {
			for _, b := range w.tasks {
				if a == b || len(a.starts) == 0 || len(b.starts) == 0 {
					continue
				}
				before := (a.sub == b.sub && a.callSeq < b.callSeq) || (a.retSeq != 0 && a.retSeq < b.callSeq)
				if before && a.starts[0] > b.starts[0] {
					w.fails = append(w.fails, fmt.Sprintf("async-order|%s was queued before %s but ran after it", a.id, b.id))
				}
			}
		}
		handover := 0
		for _, t := range w.tasks {
			if len(t.starts) > 0 && t.retSeq != 0 && t.starts[0] > t.retSeq {
				handover++
			}
		}
		lastCounters = map[string]int{"async_run": len(w.tasks), "async_overlap_not_judged": overl, "handover": handover}
		var order []string
		for i := 1; i <= w.seq; i++ {
			for _, t := range w.tasks {
				if len(t.starts) > 0 && t.starts[0] == i {
					order = append(order, t.id)
				}
			}
		}
		lastOutcome = strings.Join(order, ",")
		for _, f := range w.fails {
			vsched.Fail("%s", f)
		}
	}
}

func blockedCheck(r *vsched.Result) string {
	for _, b := range r.Blocked {
		return fmt.Sprintf("thread-left|thread %s still blocked at quiescence (%s)", b.Name, b.Why)
	}
	return ""
}

func build(tier string) []*vkit.Scenario {
	var out []*vkit.Scenario
	thorough := tier == "thorough"
	addPool := func(c pcfg, p int) {
		out = append(out, &vkit.Scenario{Name: c.name(), Body: poolBody(c), Check: poolCheck(c), P: p,
			Counters: func() map[string]int { return lastCounters }, Outcome: func() string { return lastOutcome },
			NonTrivial: func(m map[string]int) bool {
				return m["parallel_execs"] > 0 || m["barrier_completed"] > 0 || c.kind != "basic"
			}})
	}
	// bounds: quick keeps every scenario family at P<=1 and the small ones at P<=2; thorough
	// raises everything by one and adds Q=2 and larger submitter sets.
	P1, P2 := 1, 2
	ns := []int{3, 4}
	qs := []int{0, 1}
	if thorough {
		P1, P2 = 2, 3
		qs = []int{0, 1, 2}
	}
	for _, n := range ns {
		for _, q := range qs {
			for _, custom := range []bool{false, true} {
				addPool(pcfg{n: n, q: q, custom: custom, kind: "basic", subs: 1, each: n + 2, panicAt: 1}, P1)
				bp := P2
				if custom {
					bp = P1
				}
				addPool(pcfg{n: n, q: q, custom: custom, kind: "basic", subs: 2, each: 2, panicAt: -1}, bp)
				addPool(pcfg{n: n, q: q, custom: custom, kind: "basic", subs: 2, each: 2, panicAt: 0, stop: true}, P1)
				addPool(pcfg{n: n, q: q, custom: custom, kind: "bound", each: n + 1, panicAt: -1}, P1)
				if q == qs[0] {
					// the queue holds more parked tasks than the bound when the pool is stopped
					for _, sn := range []int{n - 2, n} {
						for _, sq := range []int{sn + 1, sn + 3} {
							addPool(pcfg{n: sn, q: sq, custom: custom, kind: "stopbacklog", panicAt: -1, stop: true}, P1)
						}
					}
				}
				addPool(pcfg{n: n, q: q, custom: custom, kind: "bound", each: n + 1, panicAt: -1, burst: 3}, P1)
				if n == 3 || thorough {
					addPool(pcfg{n: n, q: q, custom: custom, kind: "bound", each: n + 1, panicAt: -1, rounds: 2}, P1-1)
				}
				// every completion order of a stream of parked tasks
				if q <= 1 && (!custom || thorough) {
					addPool(pcfg{n: n, q: q, custom: custom, kind: "drain", each: n + q + 4, panicAt: -1}, 0)
					out[len(out)-1].Budget = 4 * time.Minute
				}
				// several submitters at once against a small queue: nobody but the pool's own threads
				// may run a task
				addPool(pcfg{n: n, q: q, custom: custom, kind: "bound", subs: 3, each: 2, panicAt: -1}, P1-1)
				if thorough {
					addPool(pcfg{n: n, q: q, custom: custom, kind: "basic", subs: 2, each: 3, panicAt: 0}, P1)
					addPool(pcfg{n: n, q: q, custom: custom, kind: "basic", subs: 3, each: 2, panicAt: -1, stop: true}, P1)
				}
				// capacity recovery (differential)
				if cap0 := freshCapacity(n, q, custom); cap0 >= 2 {
					addPool(pcfg{n: n, q: q, custom: custom, kind: "fresh", barrierK: cap0}, P2)
					if n == 3 || thorough {
						addPool(pcfg{n: n, q: q, custom: custom, kind: "capacity", barrierK: cap0, burst: n + 2}, P1)
					} else {
						addPool(pcfg{n: n, q: q, custom: custom, kind: "capacity", barrierK: cap0, burst: n + 2}, 0)
					}
					if thorough {
						addPool(pcfg{n: n, q: q, custom: custom, kind: "capacity", barrierK: cap0, burst: 2*n + 1}, P1)
					}
				}
			}
		}
	}
	for _, c := range []acfg{{2, 2, false, false}, {2, 2, true, false}, {3, 1, true, false}, {3, 2, false, false}, {2, 2, false, true}, {3, 1, true, true}} {
		AP := 3
		if c.producers*c.each > 4 {
			AP = 1
		} else if c.producers == 3 {
			AP = 2
		}
		if thorough {
			AP++
		}
		c := c
		out = append(out, &vkit.Scenario{Name: c.name(), Body: asyncBody(c), Check: blockedCheck, P: AP,
			Counters: func() map[string]int { return lastCounters }, Outcome: func() string { return lastOutcome },
			NonTrivial: func(m map[string]int) bool { return m["handover"] > 0 }})
	}
	return out
}

func main() {
	vkit.Main(&vkit.Spec{
		Property: "C19", Level: "model_checking",
		Rule: "one scenario = (pool size N, queue size Q, default/custom caller, submitters x tasks, panic position, Stop yes/no) or a stop-with-backlog scenario (every runner held by a parked task, N+1 / N+3 parked tasks queued, Stop, two release gates) or a capacity scenario (overload burst, drain, then cap0 mutually waiting tasks) or a timer.Async scenario (producers x functions, one panics); every interleaving within the preemption bound of the real taskpool/timer code (channels, atomics and mutexes scheduled) is executed; non-trivial = tasks really ran in parallel / the barrier was reached / an Async function was run by a drainer other than its producer's call",
		Assumptions: []string{
			"exactly-once is required only of tasks handed to a pool that is not stopped in the scenario; with Stop only at-most-once and termination of Go are required",
			"capacity oracle is differential (fresh pool vs. the same pool after an overload burst has drained); no hand-written capacity number",
			"overlap of two Async functions is counted but not judged (the statement promises exactly-once and FIFO order)",
			"sequentially consistent interleavings; native select randomness is an enumerated choice",
		},
		Build: build, QuickBudget: 60 * time.Second, ThoroughBudget: 15 * time.Minute, MinNonTrivial: 10,
	})
}

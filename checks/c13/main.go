// C13: WebSocket frame validation follows RFC 6455 - bounded exhaustive enumeration of
// hand-encoded frame sequences fed to a real server-role and client-role websocket.Conn through
// Conn.Parse in every enumerated segmentation, judged by the independent acceptance predicate
// wsgen.Judge (sequential check, Spec.Seq).
//
// Deviations from DESIGN §4 C13 (spirit kept):
//   - the length dimension of the header space has 8 forms instead of 7: 0, 1, 125, 126 (16-bit),
//     65536 (64-bit), 64-bit with the top bit set, plus two NON-MINIMAL encodings (125 via 16-bit,
//     1 via 64-bit) which RFC 6455 forbids but the property statement does not list: not judged;
//   - a non-final data frame is always followed by a final continuation frame, so that an
//     implementation which detects a sequencing error only when the message completes still has
//     the chance to fail the connection "by the end of the feed";
//   - close frames: all 65536 codes x {code only} in every cut and byte-at-a-time; the reason
//     variants (valid UTF-8, invalid UTF-8, 125-byte body, 126-byte body) for all 65536 codes in
//     one piece and with one cut inside the code, and in every cut for the boundary codes;
//   - the wrong mask direction (unmasked frame to a server, masked to a client) is not listed in
//     the property statement: such frames may be accepted or refused; when accepted everything
//     else is judged as usual.
package main

import (
	"bytes"
	"encoding/binary"
	"encoding/hex"
	"encoding/json"
	"fmt"
	"strings"
	"time"

	"verif/seqx/wsgen"
	"verif/vkit"
)

type frameSpec struct {
	Fin    bool   `json:"fin"`
	Rsv    byte   `json:"rsv,omitempty"` // bit 2: RSV1, bit 1: RSV2, bit 0: RSV3
	Op     byte   `json:"op"`
	Masked bool   `json:"masked,omitempty"`
	Form   int    `json:"form,omitempty"`
	PLen   int    `json:"plen,omitempty"` // payload = Marked(PLen, Mark) unless Raw is given
	Mark   int    `json:"mark,omitempty"`
	Raw    string `json:"raw,omitempty"` // hex payload
	HasRaw bool   `json:"has_raw,omitempty"`
	Decl   uint64 `json:"decl,omitempty"` // lying declared length
}

type caseSpec struct {
	Server bool        `json:"server"` // role of the receiver under test
	Comp   bool        `json:"comp,omitempty"`
	CAH    bool        `json:"close_after_handler,omitempty"`
	Family string      `json:"family"`
	Frames []frameSpec `json:"frames"`
	Seg    wsgen.Seg   `json:"seg"`
}

func (fs *frameSpec) frame(i int) wsgen.Frame {
	f := wsgen.Frame{Fin: fs.Fin, Rsv1: fs.Rsv&4 != 0, Rsv2: fs.Rsv&2 != 0, Rsv3: fs.Rsv&1 != 0, Op: fs.Op, Masked: fs.Masked, Form: fs.Form}
	f.Key = [4]byte{0x37 + byte(i), 0xfa, 0x21 ^ byte(i*5), 0x3d}
	if fs.HasRaw {
		f.Payload, _ = hex.DecodeString(fs.Raw)
	} else {
		f.Payload = wsgen.Marked(fs.PLen, fs.Mark)
	}
	if fs.Decl != 0 {
		f.HasDecl, f.Decl = true, fs.Decl
	}
	return f
}

func raw(b []byte) (string, bool) { return hex.EncodeToString(b), true }

func (c *caseSpec) name() string {
	role := "client"
	if c.Server {
		role = "server"
	}
	s := fmt.Sprintf("%s recv=%s comp=%v", c.Family, role, c.Comp)
	for _, f := range c.Frames {
		n := f.PLen
		if f.HasRaw {
			n = len(f.Raw) / 2
		}
		s += fmt.Sprintf(" [fin=%v rsv=%d op=%x m=%v form=%d len=%d", f.Fin, f.Rsv, f.Op, f.Masked, f.Form, n)
		if f.Decl != 0 {
			s += fmt.Sprintf(" decl=%#x", f.Decl)
		}
		s += "]"
	}
	return s
}

type built struct {
	frames []wsgen.Frame
	wire   *wsgen.Wire
	v      *wsgen.Verdict
}

func build(c *caseSpec) *built {
	b := &built{}
	for i := range c.Frames {
		b.frames = append(b.frames, c.Frames[i].frame(i))
	}
	b.wire = wsgen.Encode(b.frames)
	b.v = wsgen.Judge(b.frames, wsgen.Rules{Compression: c.Comp, ToServer: c.Server})
	return b
}

func dropEmptyMsgs(ev []wsgen.Event) ([]wsgen.Event, int) {
	var out []wsgen.Event
	n := 0
	for _, e := range ev {
		if e.Kind == 'M' && len(e.Payload) == 0 {
			n++
			continue
		}
		out = append(out, e)
	}
	return out, n
}

func filter(ev []wsgen.Event, kinds string) []wsgen.Event {
	var out []wsgen.Event
	for _, e := range ev {
		if bytes.IndexByte([]byte(kinds), e.Kind) >= 0 {
			out = append(out, e)
		}
	}
	return out
}

func isPrefix(got, exp []wsgen.Event) (bool, int) {
	if len(got) > len(exp) {
		return false, len(exp)
	}
	for i := range got {
		if !wsgen.SameEvent(got[i], exp[i]) {
			return false, i
		}
	}
	return true, -1
}

func errClass(err error) string {
	s := err.Error()
	if i := strings.Index(s, ": opcode="); i > 0 {
		s = s[:i]
	}
	if len(s) > 70 {
		s = s[:70]
	}
	return s
}

// verdict of one feed: "" or "signature|description"; class is the outcome class for evidence.
func feedOnce(c *caseSpec, b *built, seg wsgen.Seg) (res string, class string, r *wsgen.FeedResult) {
	v := b.v
	ep := wsgen.NewEndpoint(wsgen.Cfg{Client: !c.Server, Compress: c.Comp, Level: 1, CloseAfterHandler: c.CAH})
	r = ep.Feed(b.wire.Bytes, seg, nil)
	if len(r.Panics) > 0 && v.Legal() && len(v.MayReject) == 0 {
		return "panic-on-legal-sequence " + wsgen.PanicSig(r.Panics[0]) + "|" + firstLines(r.Panics[0], 12), "panic", r
	}
	got := filter(ep.Events, "MO")
	exp := filter(v.Events, "MO")
	// replies written by the implementation
	replies, _, perr := wsgen.ParseFrames(ep.Fake.Wire())
	if perr != nil {
		return "reply-not-framed|the bytes written back do not decode as frames: " + perr.Error(), "bad-reply", r
	}
	var pongs [][]byte
	closes := 0
	for i := range replies {
		f := &replies[i]
		if !f.Fin || f.Rsv1 || f.Rsv2 || f.Rsv3 || len(f.Payload) > 125 {
			return fmt.Sprintf("reply-malformed|reply frame %d: fin=%v rsv=%v%v%v len=%d", i, f.Fin, f.Rsv1, f.Rsv2, f.Rsv3, len(f.Payload)), "bad-reply", r
		}
		switch f.Op {
		case wsgen.OpPong:
			pongs = append(pongs, f.Payload)
		case wsgen.OpClose:
			closes++
		default:
			return fmt.Sprintf("reply-unexpected-opcode|reply frame %d has opcode %x", i, f.Op), "bad-reply", r
		}
	}
	var pings [][]byte
	for _, e := range v.Events {
		if e.Kind == 'P' {
			pings = append(pings, e.Payload)
		}
	}
	describe := func() string {
		return fmt.Sprintf("Parse err=%v (call %d), conn closed by impl=%v, events=%v, expected=%v, replies: %d pong %d close", r.Err, r.ErrCall, r.ImplClosed, got, exp, len(pongs), closes)
	}

	if !v.Legal() {
		if len(r.Panics) > 0 {
			class = "illegal-rejected-by-recovered-panic:" + v.Reason
		}
		if !r.Failed() {
			f := &b.frames[v.Offender]
			q := ""
			if !f.IsControl() {
				q = fmt.Sprintf(" fin=%v empty=%v", f.Fin, len(f.Payload) == 0)
			}
			return fmt.Sprintf("illegal-accepted reason=%s%s|frame %d is forbidden (%s) but Parse returned no error and the connection is still open at the end of the feed; %s", v.Reason, q, v.Offender, v.Reason, describe()), "illegal-accepted", r
		}
		// an illegal close frame must not be treated as a regular closing handshake: a close reply
		// echoing the offending body shows the endpoint accepted it
		if off := &b.frames[v.Offender]; off.Op == wsgen.OpClose && len(off.Payload) > 0 {
			for i := range replies {
				if replies[i].Op == wsgen.OpClose && bytes.Equal(replies[i].Payload, off.Payload) {
					return fmt.Sprintf("illegal-close-echoed reason=%s|the forbidden close frame %d (%s) was answered by a close frame echoing its body, i.e. handled as a regular closing handshake; %s", v.Reason, v.Offender, v.Reason, describe()), "illegal-accepted", r
				}
			}
		}
		// no delivered message may contain the offending frame: skip the callbacks the frames
		// before the offender justify, then look for the offender's bytes in the rest
		exp2, _ := dropEmptyMsgs(exp)
		got2, _ := dropEmptyMsgs(got)
		k := 0
		for k < len(got2) && k < len(exp2) && wsgen.SameEvent(got2[k], exp2[k]) {
			k++
		}
		off := &b.frames[v.Offender]
		fs := &c.Frames[v.Offender]
		for _, e := range got2[k:] {
			if e.Kind != 'M' {
				continue
			}
			hit := false
			switch {
			case v.OffInMsg && len(v.OffMsg) > 0 && bytes.Equal(e.Payload, v.OffMsg):
				hit = true
			case len(off.Payload) > 0 && !fs.HasRaw:
				for _, x := range e.Payload {
					if wsgen.MarkOf(x) == fs.Mark%8 {
						hit = true
						break
					}
				}
			case len(off.Payload) > 0 && fs.HasRaw && !off.IsControl():
				hit = bytes.Contains(e.Payload, off.Payload)
			}
			if hit {
				return fmt.Sprintf("offending-frame-delivered reason=%s|OnMessage delivered %v, which contains the offending frame %d; %s", v.Reason, e, v.Offender, describe()), "offender-delivered", r
			}
		}
		if class != "" {
			return "", class, r
		}
		return "", "illegal-rejected:" + v.Reason, r
	}

	// ---- legal sequence
	if r.Err != nil || (r.ImplClosed && v.CloseAt < 0) {
		if len(v.MayReject) > 0 {
			exp2, _ := dropEmptyMsgs(exp)
			got2, _ := dropEmptyMsgs(got)
			if ok, _ := isPrefix(got2, exp2); !ok {
				return "unjudged-rejected-but-misdelivered|" + describe(), "misdelivered", r
			}
			return "", "unjudged-rejected:" + v.MayReject[0], r
		}
		why := "conn closed"
		if r.Err != nil {
			why = errClass(r.Err)
		}
		return fmt.Sprintf("legal-rejected err=%q|RFC 6455 allows the sequence but the endpoint failed the connection; %s", why, describe()), "legal-rejected", r
	}
	if r.StoppedAt != len(b.wire.Bytes) && v.CloseAt < 0 {
		return "harness-feed-stopped|feed stopped early without failure", "harness", r
	}
	cls := "legal-accepted"
	if len(v.MayReject) > 0 {
		cls = "unjudged-accepted:" + v.MayReject[0]
	}
	// callbacks (what follows a close frame is not judged)
	if v.CloseAt >= 0 && len(got) > len(exp) {
		got = got[:len(exp)]
	}
	if !eventsEqual(got, exp) {
		exp2, ne := dropEmptyMsgs(exp)
		got2, ge := dropEmptyMsgs(got)
		if ne > ge && eventsEqual(got2, exp2) {
			return fmt.Sprintf("legal-empty-message-not-delivered|%d empty data message(s) never reached OnMessage; %s", ne-ge, describe()), "empty-lost", r
		}
		return "legal-misdelivered|" + describe(), "misdelivered", r
	}
	// ping -> pong with the same payload, in order, exactly once
	if len(pongs) != len(pings) {
		return fmt.Sprintf("ping-pong-count|%d pings, %d pongs written; %s", len(pings), len(pongs), describe()), "bad-reply", r
	}
	for i := range pings {
		if !bytes.Equal(pings[i], pongs[i]) {
			return fmt.Sprintf("pong-payload-differs|ping %d payload %q answered by pong %q", i, pings[i], pongs[i]), "bad-reply", r
		}
	}
	if v.CloseAt >= 0 {
		if closes != 1 {
			return fmt.Sprintf("close-not-answered|a legal close frame was received, %d close frames written back; %s", closes, describe()), "bad-reply", r
		}
		if replies[len(replies)-1].Op != wsgen.OpClose {
			return "reply-after-close|frames were written after the close reply", "bad-reply", r
		}
		if len(v.MayReject) > 0 {
			cls = "unjudged-close-answered:" + v.MayReject[0]
		} else {
			cls = "legal-close-answered"
		}
	} else if closes != 0 {
		return "spurious-close-written|a close frame was written although the sequence is legal and contains no close; " + describe(), "bad-reply", r
	}
	// reply mask direction (RFC 6455 §5.1), cheap to check here
	for i := range replies {
		if replies[i].Masked != !c.Server {
			return fmt.Sprintf("reply-mask-direction|reply frame %d masked=%v from a %v-role endpoint", i, replies[i].Masked, map[bool]string{true: "server", false: "client"}[c.Server]), "bad-reply", r
		}
	}
	return "", cls, r
}

func firstLines(s string, n int) string {
	l := strings.SplitN(s, "\n", n+1)
	if len(l) > n {
		l = l[:n]
	}
	for i := range l {
		// drop goroutine numbers and argument addresses: keep the text stable
		if strings.HasPrefix(l[i], "goroutine ") {
			l[i] = "goroutine N [running]:"
		}
		if j := strings.Index(l[i], "(0x"); j > 0 {
			l[i] = l[i][:j] + "(...)"
		}
		if j := strings.Index(l[i], " +0x"); j > 0 {
			l[i] = l[i][:j]
		}
	}
	return strings.Join(l, " / ")
}

func eventsEqual(a, b []wsgen.Event) bool {
	if len(a) != len(b) {
		return false
	}
	for i := range a {
		if !wsgen.SameEvent(a[i], b[i]) {
			return false
		}
	}
	return true
}

func split(s string) (string, string) {
	for i := 0; i < len(s); i++ {
		if s[i] == '|' {
			return s[:i], s[i+1:]
		}
	}
	return s, s
}

// runBase feeds one frame sequence in the selected segmentations.
func runBase(c *caseSpec, p *vkit.Part, opt wsgen.SegOpt) {
	runBuilt(c, build(c), p, opt)
}

func runBuilt(c *caseSpec, b *built, p *vkit.Part, opt wsgen.SegOpt) {
	v := b.v
	p.Count("bases", 1)
	if v.Legal() {
		if len(v.MayReject) > 0 {
			p.Count("bases_legal_with_unjudged_feature", 1)
		} else {
			p.Count("bases_legal", 1)
		}
	} else {
		p.Count("bases_illegal_"+v.Reason, 1)
	}
	onePiece := ""
	first := true
	wsgen.EachSeg(b.wire, opt, func(s wsgen.Seg) bool {
		res, class, r := feedOnce(c, b, s)
		p.Case(true, r.States, r.Calls)
		p.Count("feeds_"+s.Kind, 1)
		p.Outcome(class)
		if res != "" {
			sig, desc := split(res)
			if s.Kind == "one" {
				onePiece = sig
			} else if sig != onePiece {
				sig += " seg-dependent"
			}
			cc := *c
			cc.Seg = s
			p.Report(sig, desc+" ["+c.name()+fmt.Sprintf(" seg=%s%v/%d]", s.Kind, s.Cuts, s.Chunk), "c13", &cc)
		}
		if first && len(c.Frames) > 1 {
			first = false
			p.Sample(map[string]interface{}{"case": c.name(), "wire": hex.EncodeToString(b.wire.Bytes[:min(len(b.wire.Bytes), 48)]), "legal": v.Legal(), "reason": v.Reason})
		}
		return true
	})
}

// ---------------------------------------------------------------------------------------------
// generators

type lenForm struct {
	name string
	plen int
	form int
	decl uint64
}

var lenForms = []lenForm{
	{"0", 0, wsgen.FormMin, 0},
	{"1", 1, wsgen.FormMin, 0},
	{"125", 125, wsgen.FormMin, 0},
	{"126/16", 126, wsgen.FormMin, 0},
	{"125/16-nonminimal", 125, wsgen.Form16, 0},
	{"1/64-nonminimal", 1, wsgen.Form64, 0},
	{"65536/64", 65536, wsgen.FormMin, 0},
	{"topbit", 5, wsgen.Form64, 1<<63 | 5},
}

// completion returns the final continuation frame appended after a non-final data frame.
func completion(masked bool, mark int) frameSpec {
	return frameSpec{Fin: true, Op: wsgen.OpCont, Masked: masked, PLen: 3, Mark: mark}
}

func smallOpt() wsgen.SegOpt {
	return wsgen.SegOpt{AllSingleMax: 2048, BytesMax: 4096, StructFrames: 0, Chunks: nil}
}

func bigOpt() wsgen.SegOpt {
	return wsgen.SegOpt{AllSingleMax: 2048, BytesMax: 4096, StructFrames: 0, Chunks: []int{4093}}
}

func run(tier string, sh *vkit.Shard, p *vkit.Part) {
	deadline := vkit.Deadline(tier, 80*time.Second, 17*time.Minute)
	stopped := false
	// an item is a func that runs several bases
	item := func(name string, f func()) {
		if !sh.Mine() || stopped {
			return
		}
		if time.Now().After(deadline) {
			stopped = true
			p.Incompletef("wall-clock cap reached before item %q", name)
			return
		}
		done, pan := wsgen.RunWatched(120*time.Second, f)
		if !done {
			p.Report("hang", "an item did not finish within 120 s: "+name, "c13", map[string]string{"item": name})
			stopped = true
			p.Incompletef("stopped after a hang")
		}
		if pan != "" {
			p.Report("panic-escaped "+wsgen.PanicSig(pan), pan+" ["+name+"]", "c13", map[string]string{"item": name})
		}
	}
	thorough := tier == "thorough"
	roles := []bool{true, false}

	// ---- (1)+(2): the full header space as first frame, as second frame after a non-final text
	// start, and after start + ping
	prefixes := [][]frameSpec{
		nil,
		{{Fin: false, Op: wsgen.OpText, PLen: 2, Mark: 0}},
		{{Fin: false, Op: wsgen.OpText, PLen: 2, Mark: 0}, {Fin: true, Op: wsgen.OpPing, PLen: 2, Mark: 1}},
	}
	for pi, pre := range prefixes {
		for _, server := range roles {
			for _, lf := range lenForms {
				for op := 0; op < 16; op++ {
					lf, op, server, pre, pi := lf, op, server, pre, pi
					item(fmt.Sprintf("hdr prefix=%d server=%v len=%s op=%x", pi, server, lf.name, op), func() {
						for _, fin := range []bool{true, false} {
							for rsv := 0; rsv < 8; rsv++ {
								for _, masked := range []bool{true, false} {
									var fr []frameSpec
									for _, q := range pre {
										q.Masked = server // the prefix uses the correct direction
										fr = append(fr, q)
									}
									x := frameSpec{Fin: fin, Rsv: byte(rsv), Op: byte(op), Masked: masked, Form: lf.form, PLen: lf.plen, Mark: 2, Decl: lf.decl}
									fr = append(fr, x)
									if !(fin && op == wsgen.OpCont) {
										fr = append(fr, completion(server, 3))
									}
									opt := smallOpt()
									opt.AllDoubleMax = 16 // every double cut of the short sequences
									if thorough {
										opt.AllDoubleMax = 40
									}
									if lf.plen > 4096 {
										opt = bigOpt()
										if !thorough && rsv != 0 && rsv != 4 && rsv != 1 {
											// 64 KiB payload: the reserved-bit dimension is reduced to {none, RSV1, RSV3} in the quick tier
											continue
										}
									}
									runBase(&caseSpec{Server: server, Family: fmt.Sprintf("hdr%d", pi), Frames: fr}, p, opt)
									if thorough && lf.plen <= 4096 {
										// cleanup right after the closing handler instead of after Parse
										runBase(&caseSpec{Server: server, CAH: true, Family: fmt.Sprintf("hdr%d", pi), Frames: fr}, p, smallOpt())
									}
								}
							}
						}
					})
				}
			}
		}
	}

	// ---- (1c) compression negotiated: RSV1 on the first data frame means "compressed"
	for _, server := range roles {
		for op := 0; op < 16; op++ {
			op, server := op, server
			item(fmt.Sprintf("hdr-comp server=%v op=%x", server, op), func() {
				for _, n := range []int{0, 5, 120} {
					for _, fin := range []bool{true, false} {
						for rsv := 0; rsv < 8; rsv++ {
							for _, withStart := range []bool{false, true} {
								plain := wsgen.Marked(n, 2)
								tail := wsgen.Marked(3, 3)
								x := frameSpec{Fin: fin, Rsv: byte(rsv), Op: byte(op), Masked: server}
								done := completion(server, 3)
								compressedStart := !withStart && (op == wsgen.OpText || op == wsgen.OpBinary) && rsv&4 != 0
								if compressedStart {
									if fin {
										x.Raw, x.HasRaw = raw(wsgen.Deflate(plain, 1))
									} else {
										z := wsgen.Deflate(append(append([]byte{}, plain...), tail...), 1)
										x.Raw, x.HasRaw = raw(z[:len(z)/2])
										done.Raw, done.HasRaw = raw(z[len(z)/2:])
									}
								} else {
									x.PLen, x.Mark = n, 2
								}
								var fr []frameSpec
								if withStart {
									fr = append(fr, frameSpec{Fin: false, Op: wsgen.OpBinary, Masked: server, PLen: 2, Mark: 0})
								}
								fr = append(fr, x)
								if !(fin && op == wsgen.OpCont) {
									fr = append(fr, done)
								}
								runBase(&caseSpec{Server: server, Comp: true, Family: "hdr-comp", Frames: fr}, p, smallOpt())
							}
						}
					}
				}
			})
		}
	}

	// zero-length compressed payloads (inflate of the bare RFC 7692 tail = empty message)
	item("hdr-comp zero-length", func() {
		for _, server := range roles {
			for _, op := range []byte{wsgen.OpText, wsgen.OpBinary} {
				T := func(fin bool, op byte, rsv byte, n, mark int) frameSpec {
					return frameSpec{Fin: fin, Rsv: rsv, Op: op, Masked: server, PLen: n, Mark: mark}
				}
				for _, fr := range [][]frameSpec{
					{T(true, op, 4, 0, 0)},
					{T(true, op, 4, 0, 0), T(true, wsgen.OpBinary, 0, 3, 1)},
					{T(false, op, 4, 0, 0), T(true, wsgen.OpCont, 0, 0, 1)},
					{T(false, op, 4, 0, 0), T(true, wsgen.OpPing, 0, 1, 1), T(true, wsgen.OpCont, 0, 0, 2)},
				} {
					runBase(&caseSpec{Server: server, Comp: true, Family: "comp-zero-length", Frames: fr}, p, smallOpt())
				}
			}
			// compressed text whose INFLATED content is (in)valid UTF-8, whole and in two fragments
			for _, t := range []string{"ok \xe2\x82\xac", "bad \xc0\xaf!", "\xed\xa0\x80", "trunc \xe2\x82", "\xf4\x90\x80\x80 tail"} {
				z := wsgen.Deflate([]byte(t), 1)
				h, _ := raw(z)
				runBase(&caseSpec{Server: server, Comp: true, Family: "comp-utf8", Frames: []frameSpec{{Fin: true, Rsv: 4, Op: wsgen.OpText, Masked: server, Raw: h, HasRaw: true}}}, p, smallOpt())
				for k := 0; k <= len(z); k++ {
					h1, _ := raw(z[:k])
					h2, _ := raw(z[k:])
					runBase(&caseSpec{Server: server, Comp: true, Family: "comp-utf8-split", Frames: []frameSpec{
						{Fin: false, Rsv: 4, Op: wsgen.OpText, Masked: server, Raw: h1, HasRaw: true},
						{Fin: true, Op: wsgen.OpCont, Masked: server, Raw: h2, HasRaw: true}}}, p, smallOpt())
				}
			}
		}
	})

	// ---- (3) UTF-8
	valid := []string{"\xce\xba\xe1\xbd\xb9\xcf\x83\xce\xbc\xce\xb5", "\xc2\xa2", "\xe2\x82\xac", "\xf0\x9f\x98\x80", "\xf4\x8f\xbf\xbf", "\xed\x9f\xbf", "\xee\x80\x80", "\xef\xbf\xbd", "\x00", "\x7f", "\xdf\xbf", "\xe0\xa0\x80", "\xf0\x90\x80\x80"}
	invalid := []string{"\xc0\xaf", "\xe0\x80\xaf", "\xf0\x80\x80\xaf", "\xc1\xbf", "\xe0\x9f\xbf", "\xf0\x8f\xbf\xbf",
		"\xed\xa0\x80", "\xed\xbf\xbf", "\xed\xa0\x80\xed\xb0\x80", "\xf4\x90\x80\x80", "\xf5\x80\x80\x80",
		"\xc2", "\xe2\x82", "\xf0\x9f\x98", "\x80", "\xbf", "\xfe", "\xff", "\xf8\x88\x80\x80\x80", "\xfc\x84\x80\x80\x80\x80"}
	var texts []string
	for _, s := range append(append([]string{}, valid...), invalid...) {
		texts = append(texts, s, "ab"+s, s+"cd", "ab"+s+"cd")
	}
	for ti, t := range texts {
		t, ti := t, ti
		item(fmt.Sprintf("utf8 %d", ti), func() {
			for _, server := range roles {
				for _, op := range []byte{wsgen.OpText, wsgen.OpBinary} {
					// whole
					h, _ := raw([]byte(t))
					runBase(&caseSpec{Server: server, Family: "utf8-whole", Frames: []frameSpec{{Fin: true, Op: op, Masked: server, Raw: h, HasRaw: true}}}, p, smallOpt())
					// split across two fragments at every byte (including the empty/whole splits)
					for k := 0; k <= len(t); k++ {
						h1, _ := raw([]byte(t[:k]))
						h2, _ := raw([]byte(t[k:]))
						fr := []frameSpec{{Fin: false, Op: op, Masked: server, Raw: h1, HasRaw: true}, {Fin: true, Op: wsgen.OpCont, Masked: server, Raw: h2, HasRaw: true}}
						runBase(&caseSpec{Server: server, Family: "utf8-split", Frames: fr}, p, smallOpt())
					}
					// three fragments with a ping in between, split points (1, len-1) when long enough
					if len(t) >= 3 {
						h1, _ := raw([]byte(t[:1]))
						h2, _ := raw([]byte(t[1 : len(t)-1]))
						h3, _ := raw([]byte(t[len(t)-1:]))
						fr := []frameSpec{{Fin: false, Op: op, Masked: server, Raw: h1, HasRaw: true},
							{Fin: false, Op: wsgen.OpCont, Masked: server, Raw: h2, HasRaw: true},
							{Fin: true, Op: wsgen.OpPing, Masked: server, PLen: 1, Mark: 5},
							{Fin: true, Op: wsgen.OpCont, Masked: server, Raw: h3, HasRaw: true}}
						runBase(&caseSpec{Server: server, Family: "utf8-split3", Frames: fr}, p, smallOpt())
					}
				}
			}
		})
	}

	// ---- (4) close frames
	closeBody := func(code int, reason []byte) string {
		b := make([]byte, 2, 2+len(reason))
		binary.BigEndian.PutUint16(b, uint16(code))
		h, _ := raw(append(b, reason...))
		return h
	}
	reason123 := wsgen.Marked(123, 4)
	reason124 := wsgen.Marked(124, 4)
	variants := []struct {
		name   string
		reason []byte
	}{
		{"valid-utf8", []byte("bye \xe2\x82\xac")}, {"invalid-utf8", []byte("x\xc0\xafy")}, {"body125", reason123}, {"body126", reason124},
		{"truncated-utf8", []byte("ab\xe2\x82")},
	}
	boundary := map[int]bool{}
	for _, c := range []int{0, 1, 999, 1100, 2000, 2999, 3000, 3999, 4000, 4999, 5000, 32768, 65535} {
		boundary[c] = true
	}
	for c := 1000; c <= 1016; c++ {
		boundary[c] = true
	}
	for blk := 0; blk < 65536; blk += 128 {
		blk := blk
		item(fmt.Sprintf("close codes %d-%d", blk, blk+127), func() {
			for code := blk; code < blk+128; code++ {
				for _, server := range roles {
					runBase(&caseSpec{Server: server, Family: "close-code", Frames: []frameSpec{{Fin: true, Op: wsgen.OpClose, Masked: server, Raw: closeBody(code, nil), HasRaw: true}}}, p, smallOpt())
					for _, v := range variants {
						c := &caseSpec{Server: server, Family: "close-" + v.name, Frames: []frameSpec{{Fin: true, Op: wsgen.OpClose, Masked: server, Raw: closeBody(code, v.reason), HasRaw: true}}}
						if boundary[code] || thorough {
							runBase(c, p, smallOpt())
						} else {
							// one piece + the cut inside the status code
							b := build(c)
							runBuilt(c, b, p, wsgen.SegOpt{AllSingleMax: -1, Singles: []int{b.wire.Hdrs[0] + 1}})
						}
					}
				}
			}
		})
	}
	item("close misc", func() {
		for _, server := range roles {
			for _, body := range [][]byte{{}, {0x03}, {0x03, 0xe8}, {0x03, 0xe8, 'o', 'k'}} {
				h, _ := raw(body)
				runBase(&caseSpec{Server: server, Family: "close-misc", Frames: []frameSpec{{Fin: true, Op: wsgen.OpClose, Masked: server, Raw: h, HasRaw: true}}}, p, smallOpt())
				// close inside a fragmented message, and after a complete message
				runBase(&caseSpec{Server: server, Family: "close-in-fragmented", Frames: []frameSpec{{Fin: false, Op: wsgen.OpText, Masked: server, PLen: 2, Mark: 0},
					{Fin: true, Op: wsgen.OpClose, Masked: server, Raw: h, HasRaw: true}}}, p, smallOpt())
				runBase(&caseSpec{Server: server, Family: "close-after-message", Frames: []frameSpec{{Fin: true, Op: wsgen.OpText, Masked: server, PLen: 2, Mark: 0},
					{Fin: true, Op: wsgen.OpPing, Masked: server, PLen: 2, Mark: 1},
					{Fin: true, Op: wsgen.OpClose, Masked: server, Raw: h, HasRaw: true}}}, p, smallOpt())
			}
		}
	})

	// ---- (5) ping / pong with every payload length 0..126
	for n := 0; n <= 126; n++ {
		n := n
		item(fmt.Sprintf("ping len %d", n), func() {
			for _, server := range roles {
				for _, op := range []byte{wsgen.OpPing, wsgen.OpPong} {
					for _, cah := range []bool{false, true} {
						runBase(&caseSpec{Server: server, CAH: cah, Family: "ctl-len", Frames: []frameSpec{{Fin: true, Op: op, Masked: server, PLen: n, Mark: 1}}}, p, smallOpt())
						// followed by a message: the control frame must not disturb it
						runBase(&caseSpec{Server: server, CAH: cah, Family: "ctl-len+msg", Frames: []frameSpec{{Fin: true, Op: op, Masked: server, PLen: n, Mark: 1},
							{Fin: true, Op: wsgen.OpBinary, Masked: server, PLen: 4, Mark: 2}}}, p, smallOpt())
					}
				}
			}
		})
	}

	// ---- (6) longer legal / illegal sequences
	type seqCase struct {
		name string
		fr   []frameSpec
	}
	mk := func(server bool) []seqCase {
		m := server
		T := func(fin bool, op byte, n, mark int) frameSpec {
			return frameSpec{Fin: fin, Op: op, Masked: m, PLen: n, Mark: mark}
		}
		cl, _ := raw([]byte{0x03, 0xe8, 'b', 'y', 'e'})
		return []seqCase{
			{"mixed", []frameSpec{T(true, 1, 1, 0), T(true, 9, 3, 1), T(false, 2, 2, 2), T(true, 9, 0, 3), T(false, 0, 2, 4), T(true, 10, 2, 5), T(true, 0, 2, 6),
				{Fin: true, Op: 8, Masked: m, Raw: cl, HasRaw: true}}},
			{"two-fragmented", []frameSpec{T(false, 1, 2, 0), T(true, 0, 2, 1), T(false, 2, 2, 2), T(false, 0, 0, 3), T(true, 0, 2, 4)}},
			{"empty-fragments", []frameSpec{T(false, 1, 0, 0), T(false, 0, 0, 1), T(true, 0, 0, 2), T(true, 2, 3, 3)}},
			{"empty-first-fragment", []frameSpec{T(false, 1, 0, 0), T(true, 0, 4, 1), T(true, 1, 0, 2), T(true, 2, 2, 3)}},
			{"cont-after-complete", []frameSpec{T(true, 1, 2, 0), T(true, 0, 2, 1)}},
			{"cont-after-complete-nonfinal", []frameSpec{T(true, 1, 2, 0), T(false, 0, 2, 1), T(true, 0, 2, 2)}},
			{"text-in-binary", []frameSpec{T(false, 2, 2, 0), T(true, 1, 2, 1), T(true, 0, 2, 2)}},
			{"binary-in-text-nonfinal", []frameSpec{T(false, 1, 2, 0), T(false, 2, 2, 1), T(true, 0, 2, 2)}},
			{"fragmented-ping-in-message", []frameSpec{T(false, 1, 2, 0), T(false, 9, 2, 1), T(true, 0, 2, 2)}},
			{"second-message-after-fragmented", []frameSpec{T(false, 1, 2, 0), T(true, 0, 2, 1), T(true, 0, 2, 2)}},
			{"stray-empty-final-continuation", []frameSpec{T(true, 0, 0, 0)}},
			{"stray-empty-final-continuation+msg", []frameSpec{T(true, 0, 0, 0), T(true, 1, 2, 1)}},
			{"stray-continuation", []frameSpec{T(true, 0, 3, 0)}},
		}
	}
	for _, server := range roles {
		for _, sc := range mk(server) {
			sc, server := sc, server
			item("seq "+sc.name, func() {
				for _, cah := range []bool{false, true} {
					opt := smallOpt()
					opt.AllDoubleMax = 64
					runBase(&caseSpec{Server: server, CAH: cah, Family: "seq-" + sc.name, Frames: sc.fr}, p, opt)
				}
			})
		}
	}
}

func replay(scenario string, input json.RawMessage) string {
	var c caseSpec
	if err := json.Unmarshal(input, &c); err != nil {
		return "bad replay input: " + err.Error()
	}
	if len(c.Frames) == 0 {
		return "replay input names an item, not a case (hang or escaped panic): re-run the check"
	}
	b := build(&c)
	if c.Seg.Kind == "" {
		c.Seg.Kind = "one"
	}
	fmt.Printf("case %s\nwire (%d bytes): %s\npredicate: legal=%v offender=%d reason=%q unjudged=%v expected events=%v\n", c.name(), len(b.wire.Bytes),
		hex.EncodeToString(b.wire.Bytes[:min(len(b.wire.Bytes), 200)]), b.v.Legal(), b.v.Offender, b.v.Reason, b.v.MayReject, b.v.Events)
	res, class, r := feedOnce(&c, b, c.Seg)
	fmt.Printf("feed %+v: Parse calls=%d err=%v closed-by-impl=%v outcome=%s\n", c.Seg, r.Calls, r.Err, r.ImplClosed, class)
	return res
}

func main() {
	vkit.Main(&vkit.Spec{
		Property: "C13", Level: "model_checking",
		Rule: "one case = (receiver role, frame sequence) x one segmentation; frame sequences: the full first-frame header space FIN x RSV1-3 x 16 opcodes x MASK x 8 length forms (0, 1, 125, 126/16-bit, 65536/64-bit, 64-bit with top bit set, two non-minimal encodings), the same space as second frame after a non-final text start and after start+ping, the opcode x RSV x FIN space with permessage-deflate negotiated, 33 UTF-8 classes x 4 embeddings whole and split across two fragments at every byte (text and binary), close frames with all 65536 status codes x 6 body variants, ping/pong of every length 0..126, 13 longer sequences; segmentations: one piece, every single cut, byte-at-a-time, every double cut of header-space sequences up to 16 B (thorough 40 B) and of the longer sequences up to 64 B (structural cuts + 4093-byte chunks for the 64 KiB frames). Every case is non-trivial (each is a distinct frame sequence/segmentation judged by the RFC predicate). states = distinct private parser states after the Parse calls, transitions = Parse calls.",
		Assumptions: []string{
			"oracle = wsgen.Judge, an RFC 6455 acceptance predicate written independently of nbio: reserved bits (RSV1 only when permessage-deflate is negotiated and only on the first frame of a data message), reserved opcodes, fragmented or >125-byte control frames, continuation without start, text/binary inside a fragmented message, invalid UTF-8 in a complete text message or close reason, 1-byte close body, close codes <1000, 1004-1006, 1016-2999, 64-bit length with the top bit set",
			"not judged (may be accepted or refused; if accepted the rest is judged): wrong mask direction, non-minimal length encodings, close codes 1012-1015 and >= 5000, RSV1 on control/continuation frames when compression is negotiated",
			"failing the connection = Parse returns an error or the underlying conn has been closed by the end of the feed; detection may be deferred to the end of the message the offending frame belongs to (every non-final data frame is followed by a final continuation)",
			"for an illegal sequence every OnMessage/pong callback must be justified by the frames before the offending frame (prefix rule); for a legal one callbacks, one pong per ping with identical payload, and exactly one close reply to a close frame are required",
			"after Parse fails or the implementation closes the conn the harness calls CloseAndClean and stops feeding, as the engine does; default ping and close handlers of NewUpgrader are used",
			"quick tier: the 64 KiB length form is combined with reserved-bit patterns {000,001,100} only; close-frame reason variants of non-boundary codes are fed in one piece and with a cut inside the status code",
		},
		Seq: run, ReplaySeq: replay, MinNonTrivial: 10000,
	})
}

// C17: write-buffer bound. Real engine on the simulated kernel, MaxWriteBufferSize = M. The
// harness thread runs a program of Write/Writev/Sendfile calls and "drain" steps (the peer
// reads everything, then the system runs to quiescence so the poller flushes what fits). While
// calls are issued the peer does not read, so the true backlog at the instant of a call's
// threshold test equals the backlog observed (under the connection mutex) just before the
// call: reject iff backlog + len(input) > M. The poller's flushes, their interleaving with the
// calls and the kernel's short counts / EINTR are explored.
package main

import (
	"errors"
	"fmt"
	"net"
	"strings"
	"time"

	"github.com/lesismal/nbio"

	"verif/ekit"
	"verif/track"
	"verif/vkit"
	"verif/vsched"
	"verif/vshim/vsys"
)

type step struct {
	kind string // W V S D(rain)
	bufs []int
	n    int
}

func (s step) String() string {
	switch s.kind {
	case "D":
		return "drain"
	case "S":
		return fmt.Sprintf("S%d", s.n)
	case "W":
		return fmt.Sprintf("W%d", s.bufs[0])
	}
	return "V" + strings.Trim(strings.ReplaceAll(fmt.Sprint(s.bufs), " ", "."), "[]")
}

type cfg struct {
	mode ekit.Mode
	unix bool
	m, k int
	prog []step
	p, d int
	// concurrent family
	par     [][]step
	handler bool
}

func (c cfg) name() string {
	t := "tcp"
	if c.unix {
		t = "unix"
	}
	if c.par != nil {
		return fmt.Sprintf("%s %s M=%d K=%d concurrent=%v handler=%v", t, c.mode, c.m, c.k, c.par, c.handler)
	}
	return fmt.Sprintf("%s %s M=%d K=%d prog=%v", t, c.mode, c.m, c.k, c.prog)
}

var lastCounters map[string]int
var lastOutcome string

func sum(q []int) int {
	t := 0
	for _, x := range q {
		if x > 0 {
			t += x
		}
	}
	return t
}

func body(c cfg) func() {
	return func() {
		vsys.Configure(true, true)
		tr := track.New(track.Exact)
		conf := nbio.Config{Name: "c17", NPoller: 1, ReadBufferSize: 16, MaxWriteBufferSize: c.m, BodyAllocator: tr}
		c.mode.Apply(&conf)
		g := nbio.NewEngine(conf)
		if err := g.Start(); err != nil {
			vsched.Fail("harness|engine start: %v", err)
			return
		}
		conn, peer := ekit.Stream(c.unix, c.k, 64)
		closes := 0
		var closeErr error
		g.OnClose(func(_ *nbio.Conn, err error) { closes++; closeErr = err })
		if _, err := g.AddConn(conn); err != nil {
			vsched.Fail("harness|AddConn: %v", err)
			return
		}
		var fails []string
		counters := map[string]int{}
		room := 0
		snapshot := func(where string) nbio.ConnSnapshot {
			conn.Lock()
			s := conn.VerifSnapshot()
			room = c.k - peer.Queued() // kernel room at the same instant (the flusher is excluded)
			conn.Unlock()
			if !s.Closed {
				held := sum(s.Queue)
				if held > c.m {
					fails = append(fails, fmt.Sprintf("bound-exceeded|%s: %d unsent bytes are held, maximum is %d (queue %v)", where, held, c.m, s.Queue))
				}
				if s.Left != held {
					fails = append(fails, fmt.Sprintf("accounting-drift|%s: the connection's backlog counter is %d but %d unsent bytes are queued (queue %v)", where, s.Left, held, s.Queue))
				}
			}
			return s
		}
		rejected := false
		var outcome []string
		id := 0
		for _, st := range c.prog {
			if st.kind == "D" {
				// fair drain: the peer reads everything whenever anything is queued, until nothing moves
				for {
					vsched.WaitIdle()
					if peer.Queued() == 0 {
						break
					}
					peer.Read(0)
				}
				counters["drains"]++
				s := snapshot("after drain")
				if !s.Closed && s.QueueLen > 0 {
					counters["stalled_after_drain_not_judged_here"]++
				}
				continue
			}
			id++
			before := snapshot("before " + st.String())
			backlog := sum(before.Queue)
			// the flusher may still move bytes into whatever room the kernel has left (a short
			// count leaves room although the peer is not reading): the backlog at the threshold
			// test lies in [backlog-room, backlog]
			minBacklog := backlog - room
			if minBacklog < 0 {
				minBacklog = 0
			}
			if len(before.Queue) > 0 && before.Queue[0] < 0 {
				minBacklog = backlog // a file range is at the head: buffered bytes behind it cannot move first
				if room > 0 {
					minBacklog = 0 // ... unless the range itself drains into the room; stay permissive
				}
			}
			var n int64
			var err error
			size := 0
			switch st.kind {
			case "W":
				size = st.bufs[0]
				var nn int
				nn, err = conn.Write(ekit.Payload(id, size))
				n = int64(nn)
			case "V":
				var in [][]byte
				for _, b := range st.bufs {
					in = append(in, ekit.Payload(id, b))
					size += b
				}
				var nn int
				nn, err = conn.Writev(in)
				n = int64(nn)
			case "S":
				f := ekit.OpenDataFile(id, st.n, 0)
				n, err = conn.Sendfile(f, 0)
			}
			_ = n
			isOverflow := err != nil && strings.Contains(err.Error(), "overflow")
			switch {
			case rejected || before.Closed:
				if err == nil {
					fails = append(fails, fmt.Sprintf("accepted-after-overflow|%s accepted on a connection that was closed for overflow", st))
				} else if !errors.Is(err, net.ErrClosed) && !isOverflow {
					counters["other_error_after_close"]++
				}
				outcome = append(outcome, "closed")
			case st.kind == "S":
				if isOverflow {
					counters["sendfile_rejected_not_judged"]++
				}
				outcome = append(outcome, "S")
			case size == 0:
				outcome = append(outcome, "empty")
			default:
				should := backlog+size > c.m
				must := minBacklog+size > c.m
				if should != must {
					counters["decision_depends_on_flusher_timing_not_judged"]++
					if isOverflow {
						should = true
					} else {
						should = false
					}
				}
				switch {
				case should && !isOverflow:
					fails = append(fails, fmt.Sprintf("overflow-not-detected|%s of %d bytes was accepted (err=%v) with %d bytes already held (at least %d at the test; queue %v, kernel room %d), maximum %d", st.kind, size, err, backlog, minBacklog, before.Queue, room, c.m))
				case !should && isOverflow:
					fails = append(fails, fmt.Sprintf("spurious-overflow|%s of %d bytes was rejected with %d bytes held, maximum %d (counter=%d, queue=%v)", st.kind, size, backlog, c.m, before.Left, before.Queue))
				case !should && err != nil && !errors.Is(err, vsys.EAGAIN) && !errors.Is(err, vsys.EINTR):
					fails = append(fails, fmt.Sprintf("write-failed|%s of %d bytes failed with %v", st.kind, size, err))
				}
				if isOverflow {
					rejected = true
					counters["rejections"]++
					outcome = append(outcome, "reject")
				} else {
					if backlog+size == c.m {
						counters["accepted_at_exactly_M"]++
					}
					outcome = append(outcome, "accept")
				}
			}
			snapshot("after " + st.String())
		}
		vsched.WaitIdle()
		end := snapshot("end")
		if rejected {
			if closes != 1 {
				fails = append(fails, fmt.Sprintf("overflow-no-close|a write was rejected for overflow but the connection got %d close notifications", closes))
			} else if closeErr == nil || !strings.Contains(closeErr.Error(), "overflow") {
				counters["close_error_not_overflow"]++
			}
		} else if closes != 0 || end.Closed {
			fails = append(fails, fmt.Sprintf("unexpected-close|connection closed (%v) although no write overflowed", closeErr))
		}
		st := vsys.GetStats()
		counters["short_writes"] = st.ShortWrites
		counters["eagain"] = st.Eagains
		if st.Eagains > 0 {
			counters["backpressure_execs"] = 1
		}
		lastCounters = counters
		lastOutcome = strings.Join(outcome, ",")
		for _, f := range fails {
			vsched.Fail("%s", f)
		}
	}
}

// body2: two threads write concurrently (with an OnWrittenSize handler installed, which nbio
// calls from inside Write). Every Write is atomic with respect to the bound, so whatever the
// order, the bytes held afterwards never exceed M and the counter equals them; sizes are chosen
// so that in both serial orders the later call must be rejected.
func body2(c cfg) func() {
	return func() {
		vsys.Configure(true, false)
		tr := track.New(track.Exact)
		conf := nbio.Config{Name: "c17", NPoller: 1, ReadBufferSize: 16, MaxWriteBufferSize: c.m, BodyAllocator: tr}
		c.mode.Apply(&conf)
		g := nbio.NewEngine(conf)
		reported := 0
		if c.handler {
			g.OnWrittenSize(func(_ *nbio.Conn, _ []byte, n int) { reported += n })
		}
		closes := 0
		g.OnClose(func(_ *nbio.Conn, err error) { closes++ })
		if err := g.Start(); err != nil {
			vsched.Fail("harness|engine start: %v", err)
			return
		}
		conn, peer := ekit.Stream(c.unix, c.k, 64)
		if _, err := g.AddConn(conn); err != nil {
			vsched.Fail("harness|AddConn: %v", err)
			return
		}
		counters := map[string]int{}
		res := make([]string, len(c.par))
		for i := range c.par {
			i := i
			vsched.GoNamed(fmt.Sprintf("writer%d", i), func() {
				for j, st := range c.par[i] {
					var err error
					switch st.kind {
					case "W":
						_, err = conn.Write(ekit.Payload(10*i+j+1, st.bufs[0]))
					case "V":
						var in [][]byte
						for _, b := range st.bufs {
							in = append(in, ekit.Payload(10*i+j+1, b))
						}
						_, err = conn.Writev(in)
					}
					switch {
					case err == nil:
						res[i] += "a"
					case strings.Contains(err.Error(), "overflow"):
						res[i] += "r"
					default:
						res[i] += "e"
					}
				}
			})
		}
		vsched.WaitIdle()
		conn.Lock()
		sn := conn.VerifSnapshot()
		conn.Unlock()
		all := strings.Join(res, "|")
		if strings.Contains(all, "r") {
			counters["rejections"]++
		}
		if !sn.Closed {
			held := sum(sn.Queue)
			if held > c.m {
				vsched.Fail("bound-exceeded|concurrent writers %v (results %s): %d unsent bytes are held, maximum is %d (queue %v, %d bytes in the kernel)", c.par, all, held, c.m, sn.Queue, peer.Queued())
			}
			if sn.Left != held {
				vsched.Fail("accounting-drift|concurrent writers %v: the connection's backlog counter is %d but %d unsent bytes are queued", c.par, sn.Left, held)
			}
			if held == c.m {
				counters["accepted_at_exactly_M"]++
			}
		}
		if strings.Contains(all, "r") != (closes == 1) {
			vsched.Fail("overflow-no-close|results %s but %d close notifications", all, closes)
		}
		if c.handler && reported != peer.Queued()+len(peer.Got) {
			counters["written_size_reports_differ_not_judged"]++
		}
		st := vsys.GetStats()
		if st.Eagains > 0 {
			counters["backpressure_execs"] = 1
		}
		lastCounters = counters
		lastOutcome = all
	}
}

func check(r *vsched.Result) string {
	for _, b := range r.Blocked {
		if b.Name == "main" {
			return fmt.Sprintf("stuck|harness thread blocked at the end (%s)", b.Why)
		}
	}
	return ""
}

func W(n int) step    { return step{kind: "W", bufs: []int{n}} }
func V(s ...int) step { return step{kind: "V", bufs: s} }
func S(n int) step    { return step{kind: "S", n: n} }

var D = step{kind: "D"}

func build(tier string) []*vkit.Scenario {
	thorough := tier == "thorough"
	var out []*vkit.Scenario
	add := func(c cfg) {
		b := body(c)
		if c.par != nil {
			b = body2(c)
		}
		out = append(out, &vkit.Scenario{Name: c.name(), Body: b, Check: check, P: c.p, D: c.d,
			Counters: func() map[string]int { return lastCounters }, Outcome: func() string { return lastOutcome },
			NonTrivial: func(m map[string]int) bool { return m["rejections"] > 0 || m["accepted_at_exactly_M"] > 0 }})
	}
	type mk struct{ m, k int }
	mks := []mk{{4, 2}, {6, 3}, {1, 2}}
	if thorough {
		mks = append(mks, mk{4, 3}, mk{6, 2})
	}
	for _, x := range mks {
		m, k := x.m, x.k
		progs := [][]step{
			{W(k + m)},       // fills the kernel and exactly the budget
			{W(k + m + 1)},   // larger than the budget in one call
			{W(k), W(m)},     // kernel full, then exactly M
			{W(k), W(m + 1)}, // kernel full, then M+1
			{W(k), W(m - 1), W(1), W(1)},
			{W(k), W(m), D, W(k), W(m)}, // full budget available again after the drain
			{W(k), W(m), D, W(k), W(m), D, W(k + m)},
			{W(k), W(m - 1), D, W(k), W(m), W(1)},
			{W(k), V(1, m-1)},
			{W(k), V(1, m)},
			{V(k, 1), V(m-1, 1), W(1)},
			{V(k, m), D, V(k, 1, m-1), D, W(k), W(m)},
			{W(k), S(3), W(m)}, // a queued file range does not count
			{W(k), W(1), S(3), W(m - 1), D, W(k), W(m)},
			{W(k + 1), D, W(k + m), D, W(k), W(m), W(1)},
		}
		for _, mode := range ekit.Modes {
			for _, unix := range []bool{false, true} {
				// two concurrent writers: in either serial order the later one does not fit
				for _, par := range [][][]step{
					{{W(m)}, {W(k + 1)}},
					{{W(k + m)}, {W(1)}},
					{{W(k), W(m)}, {W(1)}},
					{{V(k, m-1)}, {W(2)}},
				} {
					for _, h := range []bool{true, false} {
						if !h && !thorough && (unix || mode != ekit.LT) {
							continue
						}
						p := 2
						if thorough {
							p = 3
						}
						add(cfg{mode: mode, unix: unix, m: m, k: k, par: par, handler: h, p: p, d: 1})
					}
				}
				for _, pr := range progs {
					p, d := 2, 2
					if thorough {
						p, d = 3, 3
					} else if m == 1 || unix || mode != ekit.LT {
						d = 1
					}
					add(cfg{mode: mode, unix: unix, m: m, k: k, prog: pr, p: p, d: d})
				}
			}
		}
	}
	return out
}

func main() {
	defer ekit.CleanupFiles()
	vkit.Main(&vkit.Spec{
		Property: "C17", Level: "model_checking",
		Rule: "one scenario = transport x epoll mode x (M, K) x program of Write/Writev/Sendfile calls with sizes around M and drain steps (fill/drain cycles); every interleaving of the calls with the poller's flush within the preemption bound and every kernel answer within the deviation bound is executed; oracle: held bytes <= M and counter == held at every observation under the connection mutex, and reject iff held + len(input) > M; non-trivial = a rejection or an acceptance at exactly M was observed; plus a family with two concurrently writing threads (with and without an OnWrittenSize handler, which nbio calls from inside Write) whose sizes are such that in both serial orders the later call does not fit",
		Assumptions: []string{
			"queued file ranges (Sendfile) are not bytes held and are not judged",
			"a write larger than M is rejected even if the kernel could take part of it (the threshold test precedes the write), as the statement's 'would exceed'",
			"while calls are issued the peer does not read, so the backlog observed under the mutex before a call is the backlog at its threshold test",
		},
		UsesSimulatedKernel: true,
		Build:               build, QuickBudget: 40 * time.Second, ThoroughBudget: 10 * time.Minute, MinNonTrivial: 30,
	})
}

package main

// Family "upgrade": the limits on connections that come out of the REAL Upgrader.Upgrade.
//
// The other families build their Conn with the read-only hook (newConn + the fields Upgrade sets)
// on an Upgrader whose Engine is the serving engine, or (build=rebind) bind it to the serving
// engine after the construction. This family runs the whole path a user runs: a real
// nbhttp.Engine (non-blocking, one poller, inline executor) is started on the simulated kernel
// inside one controlled execution (default schedule, no fault injection), a simulated TCP
// connection is handed to it, the peer sends a real handshake request, the engine's HTTP parser
// calls the handler, the handler calls Upgrader.Upgrade (scenario 1: *nbio.Conn served by the
// poller: NewServerConn, then wsc.Engine = parser.Engine), and the peer then sends the frames in
// the pieces of the segmentation, waiting after each piece until the engine has gone idle. The
// limits are configured the way a user configures them: ReadLimit in the nbhttp.Config of the
// SERVING engine, MessageLengthLimit on the Upgrader; the Upgrader is either given the serving
// engine (u.Engine = engine) or left exactly as websocket.NewUpgrader() returns it
// (Engine = websocket.DefaultEngine with the default limits).
//
// Dialer.DialContext is NOT reachable in this harness: it dials through the Go runtime's net
// package (net.Dial inside nbhttp.ClientConn; websocket.Dialer exposes no dial hook), which needs
// a real network. Its construction sequence after the handshake (NewClientConn from the Dialer's
// options, then wsConn.Engine = parser.Engine) is the one build=rebind performs with Client=true.
//
// Oracle: the connection is bound to the serving engine; unparsed input cached by the websocket
// Conn (hook VerifSeqState after every piece) <= ReadLimit + the size of the last read (a piece,
// at most the engine's 4096-byte read buffer); a frame that cannot fit is refused (the engine
// closes the connection); no callback payload and no message under assembly longer than
// MessageLengthLimit; an over-limit message closes the connection after a well-formed close frame
// 1009 has reached the peer (judgeWire); a 126-byte ping fails the connection before its handler.

import (
	"bytes"
	"fmt"
	"net/http"
	"strings"
	"time"

	"github.com/lesismal/nbio/mempool"
	"github.com/lesismal/nbio/nbhttp"
	"github.com/lesismal/nbio/nbhttp/websocket"

	"verif/ekit"
	"verif/seqx/wsgen"
	"verif/track"
	"verif/vkit"
	"verif/vsched"
	"verif/vshim/vsys"
)

const upReadBuf = 4096

type upResult struct {
	harness     string // harness fault (not a verdict about nbio)
	bound       bool   // wsc.Engine == serving engine
	worstCached int
	worstMsg    int
	events      []wsgen.Event
	closed      bool
	reply       []byte
	logged      []string
	pieces      int
	fedAll      bool
}

func handshakeRequest(compress bool) string {
	s := "GET /ws HTTP/1.1\r\nHost: h\r\nConnection: Upgrade\r\nUpgrade: websocket\r\nSec-WebSocket-Version: 13\r\nSec-WebSocket-Key: dGhlIHNhbXBsZSBub25jZQ==\r\n"
	if compress {
		s += "Sec-WebSocket-Extensions: permessage-deflate; server_no_context_takeover; client_no_context_takeover\r\n"
	}
	return s + "\r\n"
}

// upgradeRun executes one case (c.Build = "upgrade/serving" | "upgrade/default") in one segmentation.
func upgradeRun(c *caseSpec, b *built, seg wsgen.Seg) (*upResult, *vsched.Result) {
	res := &upResult{}
	compress := c.Family == "upgrade-inflate"
	body := func() {
		vsys.Configure(false, false)
		vkit.Log.TakeErrors()
		wsgen.DrainLog()
		tr := track.New(track.Policy(c.Policy))
		mempool.DefaultMemPool = tr
		u := websocket.NewUpgrader() // Engine = websocket.DefaultEngine
		u.KeepaliveTime = 0
		u.CheckOrigin = func(*http.Request) bool { return true }
		if c.L > 0 {
			u.MessageLengthLimit = c.L
		}
		if compress {
			u.EnableCompression(true)
			_ = u.SetCompressionLevel(1)
		}
		if c.Handlers != "frame" {
			u.OnMessage(func(_ *websocket.Conn, mt websocket.MessageType, data []byte) {
				res.events = append(res.events, wsgen.Event{Kind: 'M', Type: byte(mt), Payload: append([]byte{}, data...)})
			})
		}
		if c.Handlers != "msg" {
			u.OnDataFrame(func(_ *websocket.Conn, mt websocket.MessageType, fin bool, data []byte) {
				res.events = append(res.events, wsgen.Event{Kind: 'F', Type: byte(mt), Fin: fin, Payload: append([]byte{}, data...)})
			})
		}
		u.SetPingHandler(func(conn *websocket.Conn, s string) {
			res.events = append(res.events, wsgen.Event{Kind: 'P', Payload: []byte(s)})
			_ = conn.WriteMessage(websocket.PongMessage, []byte(s))
		})
		var wsc *websocket.Conn
		var upErr error
		conf := nbhttp.Config{
			Name: "c15u", NPoller: 1, ReadBufferSize: upReadBuf, KeepaliveTime: time.Hour,
			BodyAllocator: tr, SupportServerOnly: true, ReadLimit: c.ReadLimit,
			ServerExecutor: func(f func()) { f() },
			Handler: http.HandlerFunc(func(w http.ResponseWriter, r *http.Request) {
				wsc, upErr = u.Upgrade(w, r, nil)
			}),
		}
		engine := nbhttp.NewEngine(conf)
		if c.Build == "upgrade/serving" {
			u.Engine = engine
		}
		if err := engine.Start(); err != nil {
			res.harness = "engine start: " + err.Error()
			return
		}
		nbc, peer := ekit.Stream(false, 1<<20, 1<<20)
		engine.AddConnNonTLSNonBlocking(&nbhttp.Conn{Conn: nbc}, nil, func() {})
		if !peer.WriteAll([]byte(handshakeRequest(compress))) {
			res.harness = "the handshake request could not be written"
			return
		}
		vsched.WaitIdle()
		if peer.Queued() > 0 {
			peer.Read(0)
		}
		if wsc == nil || upErr != nil || !bytes.HasPrefix(peer.Got, []byte("HTTP/1.1 101 ")) {
			res.harness = fmt.Sprintf("Upgrade failed: conn=%v err=%v response=%q", wsc != nil, upErr, ekit.Short(peer.Got))
			return
		}
		if compress && !strings.Contains(string(peer.Got), "permessage-deflate") {
			res.harness = "permessage-deflate was not negotiated"
			return
		}
		hs := len(peer.Got)
		res.bound = wsc.Engine == engine
		look := func() {
			st := wsc.VerifSeqState()
			if st.Cached > res.worstCached {
				res.worstCached = st.Cached
			}
			if st.Message > res.worstMsg {
				res.worstMsg = st.Message
			}
		}
		res.fedAll = true
		seg.Pieces(len(b.wire.Bytes), func(lo, hi int) bool {
			if !peer.WriteAll(b.wire.Bytes[lo:hi]) {
				res.fedAll = false
				return false
			}
			res.pieces++
			vsched.WaitIdle()
			look()
			if cl, _ := nbc.IsClosed(); cl {
				res.fedAll = hi == len(b.wire.Bytes)
				return false
			}
			return true
		})
		vsched.WaitIdle()
		for peer.Queued() > 0 {
			peer.Read(0)
		}
		res.closed, _ = nbc.IsClosed()
		res.reply = append([]byte(nil), peer.Got[hs:]...)
		res.logged = append(vkit.Log.TakeErrors(), wsgen.DrainLog()...)
	}
	r := vsched.RunOnce(nil, nil, &vsched.Options{Horizon: 2000000}, body)
	return res, r
}

// blockingUpgradeRun: the same through Upgrade's blocking-mode branch (scenarios 3.2 / 4: the
// connection of an nbhttp engine in IOModBlocking, or of a std server): the response writer is a
// real *nbhttp.Response whose Parser belongs to the serving engine and whose Conn is an
// *nbhttp.Conn around a recording fake conn; Upgrade creates the Conn (isBlockingMod), makes it the
// parser's ParserCloser and - unlike scenario 1 - leaves wsc.Engine = u.Engine. Input is fed the
// way the engine's blocking reader feeds it: parser.Parse(piece). Plain sequential (no scheduler).
func blockingUpgradeRun(c *caseSpec, b *built, seg wsgen.Seg) *upResult {
	res := &upResult{}
	compress := c.Family == "upgrade-inflate"
	wsgen.DrainLog()
	vkit.Log.TakeErrors()
	tr := track.New(track.Policy(c.Policy))
	mempool.DefaultMemPool = tr
	u := websocket.NewUpgrader()
	u.KeepaliveTime = 0
	u.CheckOrigin = func(*http.Request) bool { return true }
	if c.L > 0 {
		u.MessageLengthLimit = c.L
	}
	if compress {
		u.EnableCompression(true)
		_ = u.SetCompressionLevel(1)
	}
	if c.Handlers != "frame" {
		u.OnMessage(func(_ *websocket.Conn, mt websocket.MessageType, data []byte) {
			res.events = append(res.events, wsgen.Event{Kind: 'M', Type: byte(mt), Payload: append([]byte{}, data...)})
		})
	}
	if c.Handlers != "msg" {
		u.OnDataFrame(func(_ *websocket.Conn, mt websocket.MessageType, fin bool, data []byte) {
			res.events = append(res.events, wsgen.Event{Kind: 'F', Type: byte(mt), Fin: fin, Payload: append([]byte{}, data...)})
		})
	}
	u.SetPingHandler(func(conn *websocket.Conn, s string) {
		res.events = append(res.events, wsgen.Event{Kind: 'P', Payload: []byte(s)})
		_ = conn.WriteMessage(websocket.PongMessage, []byte(s))
	})
	u.BlockingModAsyncWrite = false // replies are written by the caller, not by a queue goroutine (C14's subject)
	engine := blockingEngine(c.ReadLimit)
	engine.BodyAllocator = tr
	if c.Build == "blocking/serving" {
		u.Engine = engine
	}
	fake := &wsgen.FakeConn{}
	nc := &nbhttp.Conn{Conn: fake}
	parser := nbhttp.NewParser(nc, engine, nil, false, nil)
	nc.Parser = parser
	req, _ := http.NewRequest("GET", "http://h/ws", nil)
	req.Header.Set("Connection", "Upgrade")
	req.Header.Set("Upgrade", "websocket")
	req.Header.Set("Sec-Websocket-Version", "13")
	req.Header.Set("Sec-Websocket-Key", "dGhlIHNhbXBsZSBub25jZQ==")
	if compress {
		req.Header.Set("Sec-Websocket-Extensions", "permessage-deflate; server_no_context_takeover; client_no_context_takeover")
	}
	wsc, err := u.Upgrade(nbhttp.NewResponse(parser, req), req, nil)
	hsw := fake.Wire()
	if wsc == nil || err != nil || !bytes.HasPrefix(hsw, []byte("HTTP/1.1 101 ")) {
		res.harness = fmt.Sprintf("blocking-mode Upgrade failed: conn=%v err=%v response=%q", wsc != nil, err, ekit.Short(hsw))
		return res
	}
	if !wsc.IsBlockingMod() || parser.ParserCloser == nil {
		res.harness = "Upgrade did not take the blocking-mode branch"
		return res
	}
	if compress && !strings.Contains(string(hsw), "permessage-deflate") {
		res.harness = "permessage-deflate was not negotiated"
		return res
	}
	res.bound = true // (this branch keeps the Upgrader's engine by construction: not judged)
	hs := len(hsw)
	res.fedAll = true
	seg.Pieces(len(b.wire.Bytes), func(lo, hi int) bool {
		perr := parser.Parse(b.wire.Bytes[lo:hi:hi])
		res.pieces++
		st := wsc.VerifSeqState()
		if st.Cached > res.worstCached {
			res.worstCached = st.Cached
		}
		if st.Message > res.worstMsg {
			res.worstMsg = st.Message
		}
		if perr != nil || fake.Closed {
			res.closed = true
			res.fedAll = hi == len(b.wire.Bytes)
			wsc.CloseAndClean(perr) // what the engine's reader does
			return false
		}
		return true
	})
	res.reply = append([]byte(nil), fake.Wire()[hs:]...)
	res.logged = append(vkit.Log.TakeErrors(), wsgen.DrainLog()...)
	return res
}

var blockingEngines = map[int]*nbhttp.Engine{}

func blockingEngine(rl int) *nbhttp.Engine {
	if e := blockingEngines[rl]; e != nil {
		return e
	}
	e := nbhttp.NewEngine(nbhttp.Config{Name: "c15b", NPoller: 1, IOMod: nbhttp.IOModBlocking, ReadLimit: rl,
		ServerExecutor: func(f func()) { f() }})
	blockingEngines[rl] = e
	return e
}

// judgeWire is judgeReply over raw reply bytes.
func judgeWire(wire []byte, client, compress bool) replyInfo {
	fake := &wsgen.FakeConn{Writes: [][]byte{wire}}
	return judgeReply(&wsgen.Endpoint{Fake: fake, Cfg: wsgen.Cfg{Client: client, Compress: compress}})
}

func upgradeCase(c *caseSpec, p *vkit.Part, segs []wsgen.Seg) {
	b := build(c)
	p.Count("bases", 1)
	p.Count("bases_"+c.Family, 1)
	for _, s := range segs {
		var res *upResult
		r := &vsched.Result{}
		if strings.HasPrefix(c.Build, "blocking/") {
			res = blockingUpgradeRun(c, b, s)
		} else {
			res, r = upgradeRun(c, b, s)
		}
		cc := *c
		cc.Seg = s
		sig, desc, class := judgeUpgrade(c, b, s, res, r)
		p.Case(true, res.pieces+1, res.pieces+1)
		p.Count("feeds_upgrade_"+s.Kind, 1)
		p.Count("upgrade: simulated-kernel steps", r.Steps)
		if res.bound && !strings.HasPrefix(c.Build, "blocking/") {
			p.Count("upgrade: executions in which wsc.Engine is the serving engine after Upgrade", 1)
		}
		p.Outcome("upgrade " + strings.TrimPrefix(c.Build, "upgrade/") + ": " + class)
		if strings.HasPrefix(c.Build, "blocking/") && sig != "" && !strings.HasPrefix(sig, "harness") {
			sig += " (blocking-mode upgrade)"
		}
		if sig != "" {
			p.Report(sig, desc+" ["+c.name()+fmt.Sprintf(" seg=%s%v/%d wire=%dB]", s.Kind, s.Cuts, s.Chunk, len(b.wire.Bytes)), "c15 upgrade", &cc)
		}
	}
}

func judgeUpgrade(c *caseSpec, b *built, s wsgen.Seg, res *upResult, r *vsched.Result) (sig, desc, class string) {
	switch {
	case r.Panic != "":
		return "upgrade-panic " + digitRun.ReplaceAllString(wsgen.PanicSig(r.Panic), "N"), r.Panic, "panic"
	case r.Livelock:
		return "upgrade-livelock", "the execution exceeded the step horizon", "livelock"
	case res.harness != "":
		return "harness-fault upgrade", res.harness, "harness"
	case len(res.logged) > 0:
		return "upgrade-logged-error " + digitRun.ReplaceAllString(wsgen.PanicSig(res.logged[0]), "N"), res.logged[0], "logged-error"
	}
	// (whether Upgrade bound the Conn to the serving engine is an implementation matter: counted by
	// the caller, judged through the limits below)
	how := fmt.Sprintf("closed=%v fed-all=%v pieces=%d callbacks=%d reply=%dB worst cached=%d worst message=%d", res.closed, res.fedAll, res.pieces, len(res.events), len(res.reply), res.worstCached, res.worstMsg)
	last := len(b.wire.Bytes) // one piece
	if s.Chunk > 0 && s.Chunk < last {
		last = s.Chunk
	}
	if !strings.HasPrefix(c.Build, "blocking/") && last > upReadBuf {
		last = upReadBuf // the poller reads through its 4096-byte buffer
	}
	L := c.L
	if L == 0 {
		L = websocket.DefaultMessageLengthLimit
	}
	// ---- read limit
	if rl := c.ReadLimit; rl > 0 {
		if res.worstCached > rl+last {
			return "read-limit-exceeded via=upgrade", fmt.Sprintf("%d bytes of unparsed input were cached with the serving engine's ReadLimit=%d and reads of at most %d bytes; %s", res.worstCached, rl, last, how), "read-limit-exceeded"
		}
		wireLen := 0
		for i, st := range b.wire.Starts {
			end := len(b.wire.Bytes)
			if i+1 < len(b.wire.Starts) {
				end = b.wire.Starts[i+1]
			}
			if end-st > wireLen {
				wireLen = end - st
			}
		}
		if wireLen > rl+last && !res.closed {
			return "read-limit-not-enforced via=upgrade", fmt.Sprintf("a %d-byte frame was buffered completely with the serving engine's ReadLimit=%d; %s", wireLen, rl, how), "read-limit-not-enforced"
		}
	}
	// ---- message limit
	for _, e := range res.events {
		if (e.Kind == 'M' || e.Kind == 'F') && len(e.Payload) > L {
			return fmt.Sprintf("over-limit-delivered via=upgrade handler=%c", e.Kind), fmt.Sprintf("a %d-byte payload reached the callback with MessageLengthLimit=%d; %s", len(e.Payload), L, how), "over-limit-delivered"
		}
	}
	if res.worstMsg > L {
		return "over-limit-buffered via=upgrade where=message", fmt.Sprintf("the message under assembly held %d bytes (limit %d); %s", res.worstMsg, L, how), "over-limit-buffered"
	}
	ri := judgeWire(res.reply, false, c.Family == "upgrade-inflate")
	if ri.problem != "" {
		return "close-reply-malformed via=upgrade", ri.problem + "; " + how, "close-reply-malformed"
	}
	ctl := 0
	for _, f := range b.frames {
		if f.IsControl() && len(f.Payload) > ctl {
			ctl = len(f.Payload)
		}
	}
	overMsg := b.maxFrame > L || (b.msgSize > L && c.Handlers != "frame")
	switch {
	case ctl > 125:
		for _, e := range res.events {
			if e.Kind == 'P' {
				return "control-over-125-handled-on-receive via=upgrade", "the ping handler ran for a 126-byte ping; " + how, "control-handled"
			}
		}
		if !res.closed {
			return "control-over-125-accepted-on-receive via=upgrade", "a 126-byte ping did not fail the connection; " + how, "control-accepted"
		}
		return "", "", fmt.Sprintf("control-over-125-refused close=%d", ri.code)
	case overMsg:
		for _, e := range res.events {
			if e.Kind == 'M' {
				return "over-limit-delivered via=upgrade handler=M truncated", fmt.Sprintf("an OnMessage callback (%d bytes) fired for a message of %d bytes; %s", len(e.Payload), b.msgSize, how), "over-limit-delivered"
			}
		}
		if !res.closed {
			return "over-limit-not-failed via=upgrade", how, "over-limit-not-failed"
		}
		if ri.closes == 0 || ri.code != 1009 {
			return "over-limit-no-1009 via=upgrade", fmt.Sprintf("the peer received %d reply frames, close status %d; %s", ri.frames, ri.code, how), "over-limit-no-1009"
		}
		return "", "", "over-limit-refused-1009"
	case res.closed:
		if c.ReadLimit > 0 {
			return "", "", "refused (read limit or not judged)"
		}
		return "", "", "under-limit-rejected(not judged)"
	}
	// accepted: the delivery must be right
	if b.v != nil && c.Handlers != "frame" {
		var got, exp []wsgen.Event
		for _, e := range res.events {
			if e.Kind == 'M' {
				got = append(got, e)
			}
		}
		for _, e := range b.v.Events {
			if e.Kind == 'M' {
				exp = append(exp, e)
			}
		}
		if len(got) != len(exp) {
			return "accepted-but-misdelivered via=upgrade", fmt.Sprintf("%d OnMessage callbacks, %d expected; %s", len(got), len(exp), how), "misdelivered"
		}
		for i := range got {
			if !wsgen.SameEvent(got[i], exp[i]) {
				return "accepted-but-misdelivered via=upgrade", fmt.Sprintf("callback %d: got %v want %v; %s", i, got[i], exp[i], how), "misdelivered"
			}
		}
	}
	return "", "", "accepted"
}

// upgradeItems enumerates the family.
func upgradeItems(thorough bool, item func(name string, f func()), p *vkit.Part) {
	one := wsgen.Seg{Kind: "one"}
	chunk := func(n int) wsgen.Seg { return wsgen.Seg{Kind: "chunk", Chunk: n} }
	for _, bld := range []string{"upgrade/serving", "upgrade/default", "blocking/serving", "blocking/default"} {
		bld := bld
		// ---- read limit on the serving engine only
		for _, rl := range []int{64, 1024} {
			for _, n := range []int{10, rl - 20, rl - 2, rl, rl + 1, 2 * rl, 4096, 70000} {
				rl, n := rl, n
				item(fmt.Sprintf("upgrade read-limit %s rl=%d n=%d", bld, rl, n), func() {
					var segs []wsgen.Seg
					for _, ch := range []int{1, 63, 64, 65, 1023, 1024, 1025, 5000} {
						if ch == 1 && n > 2*rl && !thorough {
							continue // (a piece per byte and a scheduler round per piece)
						}
						if ch == 1 && n > 5000 {
							continue
						}
						segs = append(segs, chunk(ch))
					}
					for _, pol := range []int{0, 1} {
						if pol == 0 && !thorough {
							continue
						}
						upgradeCase(&caseSpec{Family: "upgrade-read-limit", Server: true, Policy: pol, Handlers: "msg", ReadLimit: rl, Build: bld,
							Frags: []fragSpec{{Op: wsgen.OpBinary, Fin: true, Len: n}}}, p, segs)
					}
				})
			}
		}
		// ---- message length limit on the Upgrader (and the default), control frames
		for _, L := range []int{100, 1025} {
			L := L
			item(fmt.Sprintf("upgrade message-limit %s L=%d", bld, L), func() {
				segs := []wsgen.Seg{one, chunk(1), chunk(7)}
				for _, h := range []string{"msg", "both", "frame"} {
					for _, n := range []int{L - 1, L, L + 1, 2 * L} {
						upgradeCase(&caseSpec{Family: "upgrade-single", L: L, Server: true, Policy: 1, Handlers: h, Build: bld,
							Frags: []fragSpec{{Op: wsgen.OpBinary, Fin: true, Len: n}}}, p, segs)
					}
					for _, tp := range [][]int{{L / 2, L - L/2}, {L / 2, L - L/2 + 1}, {L, 1}, {1, L - 1, 1}} {
						var fr []fragSpec
						for i, n := range tp {
							op := byte(wsgen.OpCont)
							if i == 0 {
								op = wsgen.OpBinary
							}
							fr = append(fr, fragSpec{Op: op, Fin: i == len(tp)-1, Len: n})
						}
						upgradeCase(&caseSpec{Family: "upgrade-fragments", L: L, Server: true, Policy: 1, Handlers: h, Build: bld, Frags: fr}, p, segs)
					}
				}
				for _, n := range []int{125, 126} {
					upgradeCase(&caseSpec{Family: "upgrade-control", L: L, Server: true, Policy: 1, Handlers: "msg", Build: bld,
						Frags: []fragSpec{{Op: wsgen.OpPing, Fin: true, Len: n}}}, p, segs)
				}
				for _, infl := range []int{L, L + 1, L + 2, 1000 * L} {
					for _, ending := range []string{wsgen.EndSync, wsgen.EndFinal} {
						for _, parts := range []int{1, 2} {
							upgradeCase(&caseSpec{Family: "upgrade-inflate", L: L, Server: true, Policy: 1, Handlers: "msg", Build: bld,
								Inflated: infl, Content: "utf8", Level: 1, Split: parts, Ending: ending}, p, []wsgen.Seg{one, chunk(1)})
						}
					}
				}
			})
		}
		// ---- the default message length limit (4 MiB, nothing configured): declared lengths only
		item(fmt.Sprintf("upgrade default-message-limit %s", bld), func() {
			for _, d := range []uint64{uint64(websocket.DefaultMessageLengthLimit) + 1, 1 << 40, 1<<63 - 1} {
				upgradeCase(&caseSpec{Family: "upgrade-declared", Server: true, Policy: 1, Handlers: "msg", Build: bld,
					Frags: declFrags(declPos{"single-binary", wsgen.OpBinary, true, -1}, d, 0, 0)}, p, []wsgen.Seg{one, chunk(1)})
			}
		})
	}
}

// C15: WebSocket size limits hold, including against decompression bombs - bounded exhaustive
// enumeration on the real websocket.Conn (sequential check, Spec.Seq).
//
// Receiver side: hand-encoded frames (wsgen) around MessageLengthLimit L are fed through
// Conn.Parse in every enumerated segmentation; the allocator is a fresh verif/track instance per
// case (capacity policies exact / pooled / stale) wrapped by a length spy; the private parser
// state is read through the read-only hook VerifSeqState after every Parse call.
// Sender side: WriteMessage / WriteClose with control payloads of 125 and 126 bytes.
// Family "declared" (declared.go): frames refused on their declared length alone, which makes
// declared lengths up to 2^63-1 enumerable; every reply the endpoint writes is decoded by the
// reference decoder and judged frame by frame (judgeReply), in every family.
//
// Deviations from DESIGN §4 C15 (spirit kept):
//   - "peak bytes requested for message assembly <= L + one frame header" is checked per buffer:
//     no single buffer the allocator ever handed out may become longer than
//     max(L + 14, bytes of unparsed input legitimately cached) - the spy also re-reads the length
//     of every handle at the end of the case, because the inflate loop re-slices its buffer
//     without an allocator call;
//   - with only OnDataFrame set nbio assembles no message, so "over-limit => fail" is demanded
//     only when OnMessage is set; frames longer than L must be refused in every handler setting;
//   - fragment sums: every 2- and 3-tuple of fragment sizes over {0, 1, L/2, L-1, L, L+1} (this
//     contains the running sum crossing L at each fragment), optionally with a ping between the
//     first two fragments;
//   - rejected messages that are NOT over the limit (e.g. a 125-byte ping inside a fragmented
//     message whose size + 125 exceeds L: conn.go:354-360 adds the control frame's length to the
//     message length) are counted (counter under_limit_rejected) but not judged: the statement
//     only forbids delivering/buffering more than L;
//   - WriteFrame (the raw frame writer) accepts control payloads > 125 bytes; the statement's
//     "refused on send" is read as WriteMessage/WriteClose, as in DESIGN; counted only.
package main

import (
	"encoding/json"
	"errors"
	"fmt"
	"math"
	"strconv"
	"strings"
	"time"

	"github.com/lesismal/nbio/nbhttp"
	"github.com/lesismal/nbio/nbhttp/websocket"

	"verif/seqx/wsgen"
	"verif/vkit"
	"verif/vshim/vrand"
)

type fragSpec struct {
	Op    byte   `json:"op"`
	Fin   bool   `json:"fin"`
	Len   int    `json:"len"`
	Class string `json:"class,omitempty"` // content class (default ramp)
	// Decl (decimal, "" = honest header): the payload length the header announces although only Len
	// payload bytes follow on the wire (the frame is cut off; declared.go). Form forces a length
	// encoding (wsgen.Form16 / Form64; 0 = the minimal one).
	Decl string `json:"decl,omitempty"`
	Form int    `json:"form,omitempty"`
}

type caseSpec struct {
	Family   string     `json:"family"`
	L        int        `json:"L"`
	Server   bool       `json:"server"`
	Policy   int        `json:"policy"`
	Handlers string     `json:"handlers"` // msg | both | frame
	Frags    []fragSpec `json:"frags,omitempty"`
	// compressed message: inflated size, content, level, number of fragments the compressed payload is split into
	Inflated  int    `json:"inflated,omitempty"`
	Content   string `json:"content,omitempty"`
	Level     int    `json:"level,omitempty"`
	Split     int    `json:"split,omitempty"`
	ReadLimit int    `json:"read_limit,omitempty"`
	Chunk     int    `json:"chunk,omitempty"`
	// Build: construction path of the Conn (wsgen.Cfg.Build: "" = Upgrader engine is the serving
	// engine, "rebind" = NewUpgrader() with DefaultEngine, Conn bound to the serving engine after
	// its construction, as Upgrade / DialContext do). Ending: deflate-stream ending of the
	// compressed message (wsgen.EndSync / EndFinal / EndFinal0). Decomp: custom decompressor
	// (wsgen.Cfg.Decomp).
	Build  string    `json:"build,omitempty"`
	Ending string    `json:"ending,omitempty"`
	Decomp string    `json:"decomp,omitempty"`
	Seg    wsgen.Seg `json:"seg"`
}

func (c *caseSpec) name() string {
	role := "client"
	if c.Server {
		role = "server"
	}
	s := fmt.Sprintf("%s L=%d recv=%s policy=%s handlers=%s", c.Family, c.L, role, []string{"exact", "pooled", "stale"}[c.Policy], c.Handlers)
	for _, f := range c.Frags {
		s += fmt.Sprintf(" [op=%x fin=%v len=%d", f.Op, f.Fin, f.Len)
		if f.Decl != "" {
			s += fmt.Sprintf(" declared=%s form=%d", f.Decl, f.Form)
		}
		s += "]"
	}
	if c.Inflated > 0 || c.Family == "inflate" {
		s += fmt.Sprintf(" inflated=%d content=%s level=%d split=%d", c.Inflated, c.Content, c.Level, c.Split)
		if c.Ending != "" {
			s += " ending=" + c.Ending
		}
		if c.Decomp != "" {
			s += " decompressor=" + c.Decomp
		}
	}
	if c.Build != "" {
		s += " build=" + c.Build
	}
	if c.ReadLimit > 0 {
		s += fmt.Sprintf(" readlimit=%d", c.ReadLimit)
	}
	return s
}

type built struct {
	frames   []wsgen.Frame
	wire     *wsgen.Wire
	v        *wsgen.Verdict
	msgSize  int // size of the (inflated) data message the case is about
	compLen  int // compressed size (inflate family)
	maxFrame int // largest data frame payload
	via      string
}

var deflateCache = map[string][]byte{}

func deflated(content string, n, level int, ending string) []byte {
	k := fmt.Sprintf("%s/%d/%d/%s", content, n, level, ending)
	if z, ok := deflateCache[k]; ok {
		return z
	}
	z := wsgen.DeflateEnd(wsgen.Content(content, n, true, 0), level, ending)
	if len(deflateCache) > 64 {
		deflateCache = map[string][]byte{}
	}
	deflateCache[k] = z
	return z
}

func build(c *caseSpec) *built {
	b := &built{}
	comp := c.Family == "inflate" || c.Family == "upgrade-inflate"
	if comp {
		z := deflated(c.Content, c.Inflated, c.Level, c.Ending)
		b.compLen = len(z)
		b.msgSize = c.Inflated
		b.via = "inflate"
		parts := c.Split
		if parts < 1 {
			parts = 1
		}
		for i := 0; i < parts; i++ {
			lo, hi := len(z)*i/parts, len(z)*(i+1)/parts
			f := wsgen.Frame{Fin: i == parts-1, Op: wsgen.OpCont, Masked: c.Server, Key: [4]byte{1, 2, 3, byte(i)}, Payload: z[lo:hi]}
			if i == 0 {
				f.Op, f.Rsv1 = wsgen.OpBinary, true
			}
			b.frames = append(b.frames, f)
		}
	} else {
		b.via = "single"
		nData := 0
		for i, fs := range c.Frags {
			class := fs.Class
			if class == "" {
				class = "ramp"
			}
			f := wsgen.Frame{Fin: fs.Fin, Op: fs.Op, Masked: c.Server, Key: [4]byte{9, 8, 7, byte(i)}, Payload: wsgen.Content(class, fs.Len, true, i*31), Form: fs.Form}
			size := fs.Len
			if fs.Decl != "" {
				d, err := strconv.ParseUint(fs.Decl, 10, 64)
				if err != nil {
					panic("bad declared length " + fs.Decl)
				}
				f.HasDecl, f.Decl = true, d
				size = math.MaxInt
				if d < math.MaxInt {
					size = int(d)
				}
			}
			b.frames = append(b.frames, f)
			if fs.Op <= wsgen.OpBinary {
				if b.msgSize += size; b.msgSize < 0 {
					b.msgSize = math.MaxInt // saturate
				}
				nData++
			}
			if !f.IsControl() && size > b.maxFrame {
				b.maxFrame = size
			}
		}
		if nData > 1 {
			b.via = "fragments"
		}
	}
	for i := range b.frames {
		if !b.frames[i].IsControl() && len(b.frames[i].Payload) > b.maxFrame {
			b.maxFrame = len(b.frames[i].Payload)
		}
	}
	b.wire = wsgen.Encode(b.frames)
	if c.Family == "declared" || c.Family == "upgrade-declared" {
		return b // judged by feedDeclared (declared.go); the reference assembler has nothing to assemble
	}
	if !comp || c.Inflated <= 4*c.L+64 {
		// (the reference verdict of a bomb would inflate MiBs per case for nothing)
		b.v = wsgen.Judge(b.frames, wsgen.Rules{Compression: comp, ToServer: c.Server})
	}
	return b
}

func polName(p int) string {
	if p == 0 {
		return "exact"
	}
	return "pooled"
}

// close1009 reports whether the reply wire ends with a well-formed close frame with status 1009
// (judgeReply, declared.go); other says what was found instead.
func close1009(ep *wsgen.Endpoint) (found bool, other string) {
	ri := judgeReply(ep)
	switch {
	case ri.problem != "":
		return false, "malformed reply: " + ri.problem
	case ri.closes == 0:
		return false, fmt.Sprintf("%d reply frames, no close frame", ri.frames)
	case ri.code != 1009:
		return false, fmt.Sprintf("close frame with body %q", ri.closeBody)
	}
	return true, ""
}

// feedOnce judges one segmentation of a receive-side case.
func feedOnce(c *caseSpec, b *built, seg wsgen.Seg, p *vkit.Part) (res, class string, r *wsgen.FeedResult) {
	L := c.L
	cfg := wsgen.Cfg{Client: !c.Server, Compress: c.Family == "inflate", Level: 1, L: L, Policy: c.Policy, Spy: true,
		NoOnMessage: c.Handlers == "frame", OnDataFrame: c.Handlers != "msg", ReadLimit: c.ReadLimit, Build: c.Build, Decomp: c.Decomp}
	ep := wsgen.NewEndpoint(cfg)
	held := ""
	r = ep.Feed(b.wire.Bytes, seg, func(call int, st websocket.VerifSeqState) string {
		if L > 0 && st.Message > L && held == "" {
			held = fmt.Sprintf("after Parse call %d the message under assembly holds %d bytes (limit %d)", call, st.Message, L)
		}
		return ""
	})
	if len(r.Panics) > 0 {
		return "panic " + wsgen.PanicSig(r.Panics[0]) + "|" + r.Panics[0], "panic", r
	}
	over := b.msgSize > L
	assembling := c.Handlers != "frame"
	frameOver := b.maxFrame > L
	mustFail := frameOver || (over && assembling)
	desc := func() string {
		return fmt.Sprintf("message size %d (limit %d, compressed %d), Parse err=%v, closed=%v, callbacks=%d", b.msgSize, L, b.compLen, r.Err, r.ImplClosed, len(ep.Events))
	}
	// ---- nothing longer than L is delivered
	for _, e := range ep.Events {
		if (e.Kind == 'M' || e.Kind == 'F') && len(e.Payload) > L {
			ex := ""
			if b.via == "inflate" {
				ex = " excess=beyond-buffer-capacity"
				if len(e.Payload) <= capBound(L) {
					ex = " excess=within-buffer-capacity"
				}
				ex += " policy=" + polName(c.Policy)
			}
			return fmt.Sprintf("over-limit-delivered via=%s handler=%c%s|a %d-byte payload reached the callback with MessageLengthLimit=%d; %s", b.via, e.Kind, ex, len(e.Payload), L, desc()), "over-limit-delivered", r
		}
	}
	// ---- nothing longer than L is buffered
	if held != "" {
		return fmt.Sprintf("over-limit-buffered via=%s where=message|%s; %s", b.via, held, desc()), "over-limit-buffered", r
	}
	bound := L + 14
	if bound < 125+14 {
		bound = 125 + 14 // outgoing control frames (pong, close 1009 + reason) are allocator buffers too
	}
	if r.MaxCacheIn > bound {
		bound = r.MaxCacheIn
	}
	m := ep.Spy.Final()
	if ep.T.MaxRequest > m {
		m = ep.T.MaxRequest // largest single Malloc request seen by the tracker itself
	}
	if m > bound {
		ex := ""
		if b.via == "inflate" {
			ex = " excess=beyond-buffer-capacity"
			if m <= capBound(L) {
				ex = " excess=within-buffer-capacity"
			}
			ex += " policy=" + polName(c.Policy)
		}
		return fmt.Sprintf("over-limit-buffered via=%s where=allocator%s|a buffer taken from the allocator grew to %d bytes; allowed max(L+14, 139, unparsed input)=%d; %s", b.via, ex, m, bound, desc()), "over-limit-buffered", r
	}
	// ---- over the limit: the connection is failed and 1009 is written
	if mustFail {
		if !r.Failed() {
			return fmt.Sprintf("over-limit-not-failed via=%s|%s", b.via, desc()), "over-limit-not-failed", r
		}
		for _, e := range ep.Events {
			if e.Kind == 'M' && over {
				return fmt.Sprintf("over-limit-delivered via=%s handler=M truncated|an OnMessage callback (%d bytes) fired for a message of %d bytes; %s", b.via, len(e.Payload), b.msgSize, desc()), "over-limit-delivered", r
			}
		}
		if ri := judgeReply(ep); ri.problem != "" {
			return fmt.Sprintf("close-reply-malformed via=%s|%s; %s", b.via, ri.problem, desc()), "close-reply-malformed", r
		}
		if ok, other := close1009(ep); !ok {
			return fmt.Sprintf("over-limit-no-1009 via=%s|no close frame with status 1009 was written (%s); %s", b.via, other, desc()), "over-limit-no-1009", r
		}
		return "", "over-limit-refused-1009", r
	}
	// whatever else was written back (pongs, a close answering a rejected message) must be well-formed
	if ri := judgeReply(ep); ri.problem != "" {
		return fmt.Sprintf("close-reply-malformed via=%s|%s; %s", b.via, ri.problem, desc()), "close-reply-malformed", r
	}
	// ---- not over the limit
	if r.Failed() {
		p.Count("under_limit_rejected", 1)
		if b.msgSize == L {
			return "", "exactly-L-rejected(not judged)", r
		}
		if b.via == "inflate" && b.compLen > L {
			return "", "under-limit-rejected:compressed-form-over-L(not judged)", r
		}
		return "", "under-limit-rejected(not judged)", r
	}
	// accepted: the delivery must be right (sanity of the harness and of the limit code paths)
	if b.v != nil && assembling {
		var got []wsgen.Event
		for _, e := range ep.Events {
			if e.Kind == 'M' && len(e.Payload) > 0 {
				got = append(got, e)
			}
		}
		var exp []wsgen.Event
		for _, e := range b.v.Events {
			if e.Kind == 'M' && len(e.Payload) > 0 { // empty messages: known C12 finding, not C15's business
				exp = append(exp, e)
			}
		}
		if len(got) != len(exp) {
			return fmt.Sprintf("accepted-but-misdelivered|%d OnMessage callbacks, %d expected; %s", len(got), len(exp), desc()), "misdelivered", r
		}
		for i := range got {
			if !wsgen.SameEvent(got[i], exp[i]) {
				return fmt.Sprintf("accepted-but-misdelivered|callback %d: got %v want %v; %s", i, got[i], exp[i], desc()), "misdelivered", r
			}
		}
	}
	if b.msgSize == L {
		return "", "exactly-L-accepted", r
	}
	return "", "under-limit-accepted", r
}

// capBound is the size up to which an over-limit inflate result is explained by the known
// defect "the inflate loop reads up to cap(buffer)": a pooled buffer has capacity >= 1024, and
// append growth at most doubles a buffer that is being extended to L.
func capBound(L int) int {
	b := 2*L + 64
	if b < 1024 {
		b = 1024
	}
	return b
}

func split(s string) (string, string) {
	for i := 0; i < len(s); i++ {
		if s[i] == '|' {
			return s[:i], s[i+1:]
		}
	}
	return s, s
}

func runBase(c *caseSpec, p *vkit.Part, opt wsgen.SegOpt) {
	t0 := time.Now()
	defer func() { p.Count(fmt.Sprintf("us_%s_L%d", c.Family, c.L), int(time.Since(t0).Microseconds())) }()
	b := build(c)
	p.Count("bases", 1)
	p.Count("bases_"+c.Family, 1)
	onePiece := ""
	first := true
	wsgen.EachSeg(b.wire, opt, func(s wsgen.Seg) bool {
		res, class, r := feedOnce(c, b, s, p)
		nt := b.msgSize >= c.L-1 || b.maxFrame >= c.L-1 || c.ReadLimit > 0
		p.Case(nt, r.States, r.Calls)
		p.Count("feeds_"+s.Kind, 1)
		p.Outcome(class)
		if res != "" {
			sig, desc := split(res)
			if s.Kind == "one" {
				onePiece = sig
			} else if sig != onePiece {
				sig += " seg-dependent"
			}
			cc := *c
			cc.Seg = s
			p.Report(sig, desc+" ["+c.name()+fmt.Sprintf(" seg=%s%v/%d wire=%dB]", s.Kind, s.Cuts, s.Chunk, len(b.wire.Bytes)), "c15", &cc)
		}
		if first && b.msgSize > c.L {
			first = false
			p.Sample(map[string]interface{}{"case": c.name(), "wire_bytes": len(b.wire.Bytes), "message_size": b.msgSize})
		}
		return true
	})
}

// ---------------------------------------------------------------------------------------------
// send side and control frames

func sendCase(server bool, op websocket.MessageType, n int, viaWriteClose bool, p *vkit.Part) {
	vrand.Reset()
	ep := wsgen.NewEndpoint(wsgen.Cfg{Client: !server})
	var err error
	name := fmt.Sprintf("send server=%v op=%d len=%d writeclose=%v", server, op, n, viaWriteClose)
	if viaWriteClose {
		err = ep.C.WriteClose(1000, string(wsgen.Marked(n-2, 1)))
	} else {
		err = ep.C.WriteMessage(op, wsgen.Marked(n, 1))
	}
	p.Case(true, 1, 1)
	in := map[string]interface{}{"send": true, "server": server, "op": int(op), "len": n, "writeclose": viaWriteClose}
	if n > 125 {
		if !errors.Is(err, websocket.ErrControlMessageTooBig) {
			p.Report("send-control-over-125-not-refused", fmt.Sprintf("WriteMessage/WriteClose with a %d-byte control payload returned %v [%s]", n, err, name), "c15", in)
		} else if len(ep.Fake.Writes) != 0 {
			p.Report("send-control-over-125-written", fmt.Sprintf("%d bytes were written although the call returned ErrControlMessageTooBig [%s]", len(ep.Fake.Wire()), name), "c15", in)
		}
		p.Outcome("send-control-over-125-refused")
		return
	}
	if err != nil {
		p.Report("send-control-125-refused", fmt.Sprintf("a %d-byte control payload was refused: %v [%s]", n, err, name), "c15", in)
		return
	}
	fr, _, perr := wsgen.ParseFrames(ep.Fake.Wire())
	if perr != nil || len(fr) != 1 || len(fr[0].Payload) != n || !fr[0].Fin || fr[0].Op != byte(op) {
		p.Report("send-control-125-miswritten", fmt.Sprintf("the wire of a %d-byte control message is not one final frame of that size [%s]", n, name), "c15", in)
		return
	}
	p.Outcome("send-control-<=125-written")
	// raw frame writer: counted, not judged (see header)
	ep2 := wsgen.NewEndpoint(wsgen.Cfg{Client: !server})
	if err := ep2.C.WriteFrame(op, true, true, wsgen.Marked(126, 1)); err == nil && len(ep2.Fake.Writes) > 0 {
		p.Count("writeframe_accepts_126_byte_control_payload(not judged)", 1)
	}
}

func recvControl(c *caseSpec, p *vkit.Part) {
	// frames: optional fragment start, then the control frame
	b := build(c)
	p.Count("bases", 1)
	p.Count("bases_"+c.Family, 1)
	ctlLen := 0
	var ctlOp byte
	for _, f := range b.frames {
		if f.IsControl() {
			ctlLen, ctlOp = len(f.Payload), f.Op
		}
	}
	opt := wsgen.SegOpt{AllSingleMax: 2048, BytesMax: 4096}
	onePiece := ""
	wsgen.EachSeg(b.wire, opt, func(s wsgen.Seg) bool {
		ep := wsgen.NewEndpoint(wsgen.Cfg{Client: !c.Server, L: c.L, Policy: c.Policy, Spy: true, RecordCtl: true, Build: c.Build})
		r := ep.Feed(b.wire.Bytes, s, nil)
		p.Case(true, r.States, r.Calls)
		p.Count("feeds_"+s.Kind, 1)
		res := ""
		handled := false
		for _, e := range ep.Events {
			if e.Kind == 'P' || e.Kind == 'O' || e.Kind == 'C' {
				handled = true
			}
		}
		ri := judgeReply(ep) // everything written back is decoded and judged, not just "closed"
		switch {
		case len(r.Panics) > 0:
			res = "panic " + wsgen.PanicSig(r.Panics[0]) + "|" + r.Panics[0]
		case ctlLen > 125 && !r.Failed():
			res = fmt.Sprintf("control-over-125-accepted-on-receive op=%x|a %d-byte control frame did not fail the connection", ctlOp, ctlLen)
		case ctlLen > 125 && handled:
			res = fmt.Sprintf("control-over-125-handled-on-receive op=%x|the handler of a %d-byte control frame was invoked", ctlOp, ctlLen)
		case ri.problem != "":
			res = fmt.Sprintf("close-reply-malformed via=%s|%s (control frame op=%x of %d bytes)", c.Family, ri.problem, ctlOp, ctlLen)
		case ctlLen > 125 && ri.closes > 0 && ri.code != 1009 && ri.code != 1002:
			res = fmt.Sprintf("control-over-125-odd-close-code via=%s|close status %d answers a %d-byte control frame (op=%x)", c.Family, ri.code, ctlLen, ctlOp)
		case ctlLen > 125:
			// refusal is what the statement asks; which status answers it is recorded
			p.Outcome(fmt.Sprintf("control-over-125-refused close=%d", ri.code))
		case ctlLen <= 125 && r.Failed() && ctlOp != wsgen.OpClose:
			p.Count("under_limit_rejected", 1)
			p.Outcome("control-<=125-rejected-because-of-L(not judged)")
		case ctlLen <= 125:
			p.Outcome("control-<=125-accepted")
		}
		if res != "" {
			sig, desc := split(res)
			if s.Kind == "one" {
				onePiece = sig
			} else if sig != onePiece {
				sig += " seg-dependent"
			}
			cc := *c
			cc.Seg = s
			p.Report(sig, desc+" ["+c.name()+"]", "c15", &cc)
		}
		return true
	})
}

// ---------------------------------------------------------------------------------------------
// read limit

func readLimitCase(c *caseSpec, p *vkit.Part) {
	// one binary frame of c.Frags[0].Len bytes (MessageLengthLimit 0), fed in chunks of c.Chunk bytes
	b := build(c)
	p.Count("bases", 1)
	p.Count("bases_"+c.Family, 1)
	ep := wsgen.NewEndpoint(wsgen.Cfg{Client: !c.Server, Policy: c.Policy, ReadLimit: c.ReadLimit, Spy: true, Build: c.Build})
	worst := 0
	r := ep.Feed(b.wire.Bytes, wsgen.Seg{Kind: "chunk", Chunk: c.Chunk}, func(call int, st websocket.VerifSeqState) string {
		if st.Cached > worst {
			worst = st.Cached
		}
		return ""
	})
	p.Case(true, r.States, r.Calls)
	p.Count("feeds_chunk", 1)
	cc := *c
	cc.Seg = wsgen.Seg{Kind: "chunk", Chunk: c.Chunk}
	// the largest single frame on the wire: a frame can only be parsed once it is cached completely
	wireLen := 0
	for i, st := range b.wire.Starts {
		end := len(b.wire.Bytes)
		if i+1 < len(b.wire.Starts) {
			end = b.wire.Starts[i+1]
		}
		if end-st > wireLen {
			wireLen = end - st
		}
	}
	switch {
	case len(r.Panics) > 0:
		p.Report("panic "+wsgen.PanicSig(r.Panics[0]), r.Panics[0], "c15", &cc)
	case worst > c.ReadLimit+c.Chunk:
		p.Report("read-limit-exceeded", fmt.Sprintf("%d bytes of unparsed input were cached with ReadLimit=%d and %d-byte reads [%s]", worst, c.ReadLimit, c.Chunk, c.name()), "c15", &cc)
	case wireLen > c.ReadLimit+c.Chunk && r.Err == nil:
		p.Report("read-limit-not-enforced", fmt.Sprintf("a %d-byte frame was buffered completely with ReadLimit=%d [%s]", wireLen, c.ReadLimit, c.name()), "c15", &cc)
	case wireLen <= c.ReadLimit && r.Err != nil:
		p.Count("under_limit_rejected", 1)
		p.Outcome("frame-within-read-limit-rejected(not judged)")
	case r.Err != nil:
		if errors.Is(r.Err, nbhttp.ErrTooLong) {
			p.Outcome("read-limit-enforced")
		} else {
			p.Outcome("read-limit-other-error")
		}
	default:
		p.Outcome("within-read-limit-accepted")
	}
}

// ---------------------------------------------------------------------------------------------

var limits = []int{1, 2, 100, 1000, 1025, 5000}

func run(tier string, sh *vkit.Shard, p *vkit.Part) {
	deadline := vkit.Deadline(tier, 80*time.Second, 17*time.Minute)
	stopped := false
	item := func(name string, f func()) {
		if !sh.Mine() || stopped {
			return
		}
		if time.Now().After(deadline) {
			stopped = true
			p.Incompletef("wall-clock cap reached before item %q", name)
			return
		}
		done, pan := wsgen.RunWatched(180*time.Second, f)
		if !done {
			p.Report("hang", "an item did not finish within 180 s: "+name, "c15", map[string]string{"item": name})
			stopped = true
			p.Incompletef("stopped after a hang")
		}
		if pan != "" {
			p.Report("panic-escaped "+wsgen.PanicSig(pan), pan+" ["+name+"]", "c15", map[string]string{"item": name})
		}
	}
	thorough := tier == "thorough"
	roles := []bool{true, false}
	policies := []int{0, 1, 2}
	handlers := []string{"msg", "both", "frame"}
	segFor := func() wsgen.SegOpt {
		o := wsgen.SegOpt{AllSingleMax: 2048, BytesMax: 4096}
		if thorough {
			o.AllSingleMax = 16384
			o.BytesMax = 16384
		}
		return o
	}

	// one piece + byte at a time (thorough: the full set): for dimensions that do not interact with
	// the position of the cuts
	lightSeg := func() wsgen.SegOpt {
		if thorough {
			return segFor()
		}
		return wsgen.SegOpt{AllSingleMax: -1, BytesMax: 4096}
	}
	for _, L := range limits {
		L := L
		// ---- A: single frames L-1, L, L+1 (and 2L)
		for _, n := range []int{L - 1, L, L + 1, 2 * L} {
			for _, server := range roles {
				n, server := n, server
				item(fmt.Sprintf("single L=%d n=%d server=%v", L, n, server), func() {
					for _, pol := range policies {
						for _, h := range handlers {
							for _, op := range []byte{wsgen.OpText, wsgen.OpBinary} {
								runBase(&caseSpec{Family: "single", L: L, Server: server, Policy: pol, Handlers: h, Frags: []fragSpec{{Op: op, Fin: true, Len: n}}}, p, segFor())
								// the same on a Conn created from a default Upgrader and then bound to the serving engine
								runBase(&caseSpec{Family: "single", L: L, Server: server, Policy: pol, Handlers: h, Build: "rebind", Frags: []fragSpec{{Op: op, Fin: true, Len: n}}}, p, lightSeg())
							}
						}
					}
				})
			}
		}
		// ---- B: 2 and 3 fragments
		sizeSet := map[int]bool{}
		var sizes []int
		for _, s := range []int{0, 1, L / 2, L - 1, L, L + 1} {
			if s >= 0 && !sizeSet[s] {
				sizeSet[s] = true
				sizes = append(sizes, s)
			}
		}
		var tuples [][]int
		for _, a := range sizes {
			for _, b := range sizes {
				tuples = append(tuples, []int{a, b})
				for _, c := range sizes {
					tuples = append(tuples, []int{a, b, c})
				}
			}
		}
		for _, tp := range tuples {
			tp := tp
			item(fmt.Sprintf("fragments L=%d sizes=%v", L, tp), func() {
				for _, server := range roles {
					for _, pol := range policies {
						if !thorough && pol == 2 {
							continue // stale == pooled for uncompressed assembly; thorough runs it
						}
						for _, h := range handlers {
							for _, ping := range []int{-1, 0, 125} {
								var fr []fragSpec
								for i, n := range tp {
									op := byte(wsgen.OpCont)
									if i == 0 {
										op = wsgen.OpBinary
									}
									fr = append(fr, fragSpec{Op: op, Fin: i == len(tp)-1, Len: n})
									if i == 0 && ping >= 0 {
										fr = append(fr, fragSpec{Op: wsgen.OpPing, Fin: true, Len: ping})
									}
								}
								o := segFor()
								o.AllSingleMax = 400 // longer wires: structural cuts (all header/mask bytes, +-2 around every frame boundary)
								if thorough {
									o.AllSingleMax = 2100
								}
								runBase(&caseSpec{Family: "fragments", L: L, Server: server, Policy: pol, Handlers: h, Frags: fr}, p, o)
								if pol == 1 && (thorough || (h == "msg" && ping < 0)) {
									runBase(&caseSpec{Family: "fragments", L: L, Server: server, Policy: pol, Handlers: h, Build: "rebind", Frags: fr}, p, wsgen.SegOpt{AllSingleMax: -1, BytesMax: 600})
								}
							}
						}
					}
				}
			})
		}
		// ---- C: compressed messages
		inflSizes := map[int]bool{}
		for _, infl := range []int{L - 1, L, L + 1, L + 2, 2 * L, 4 * L, 1000 * L} {
			if inflSizes[infl] {
				continue
			}
			inflSizes[infl] = true
			for _, content := range []string{"zero", "utf8"} {
				for _, level := range []int{1, 9} {
					infl, content, level := infl, content, level
					item(fmt.Sprintf("inflate L=%d inflated=%d %s level=%d", L, infl, content, level), func() {
						for _, server := range roles {
							for _, pol := range policies {
								for _, h := range []string{"msg", "both"} {
									for _, parts := range []int{1, 2} {
										runBase(&caseSpec{Family: "inflate", L: L, Server: server, Policy: pol, Handlers: h, Inflated: infl, Content: content, Level: level, Split: parts}, p, segFor())
										if level == 1 {
											runBase(&caseSpec{Family: "inflate", L: L, Server: server, Policy: pol, Handlers: h, Build: "rebind", Inflated: infl, Content: content, Level: level, Split: parts}, p, lightSeg())
										}
									}
								}
							}
						}
					})
				}
				// ---- C': how the deflate stream ends and how the decompressor hands out its last
				// bytes: sync flush with the tail removed (above), a final block (BFINAL=1, RFC 7692
				// 7.2.3.4) with and without the trailing 00 octet; stored blocks (level 0), Huffman only
				// (-2), fixed/dynamic Huffman with matches (1, 9); nbio's flate reader, a decompressor
				// that returns the last bytes together with io.EOF, one that returns a byte per Read
				infl, content := infl, content
				{
					type variant struct {
						ending, decomp string
						level          int
					}
					var vs []variant
					bomb := infl > 2*L
					for _, level := range []int{-2, 0, 1, 9} {
						if bomb && level != 1 && !thorough {
							continue // quick: the bombs (4L, 1000L) end with a final block at level 1 only
						}
						if level <= 0 && infl > 4*L {
							continue // (no bomb without matches: the wire would be as long as the message)
						}
						vs = append(vs, variant{wsgen.EndFinal, "", level})
						if level == 1 || thorough {
							vs = append(vs, variant{wsgen.EndFinal0, "", level})
						}
						if level <= 0 {
							vs = append(vs, variant{wsgen.EndSync, "", level})
						}
					}
					for _, decomp := range []string{"eofdata", "onebyte"} {
						for _, ending := range []string{wsgen.EndSync, wsgen.EndFinal} {
							vs = append(vs, variant{ending, decomp, 1})
						}
					}
					// one work item per variant (thorough: every single cut of wires up to 2 KiB,
					// structural cuts beyond - a stored-block wire is as long as the message)
					vseg := lightSeg()
					if thorough {
						vseg = wsgen.SegOpt{AllSingleMax: 2048, BytesMax: 16384}
					}
					for _, v := range vs {
						v := v
						item(fmt.Sprintf("inflate-endings L=%d inflated=%d %s ending=%s decomp=%s level=%d", L, infl, content, v.ending, v.decomp, v.level), func() {
							for _, server := range roles {
								for _, pol := range policies {
									for _, h := range []string{"msg", "both"} {
										if !thorough && h == "both" && v.decomp == "" && v.level != 1 {
											continue
										}
										for _, parts := range []int{1, 2} {
											runBase(&caseSpec{Family: "inflate", L: L, Server: server, Policy: pol, Handlers: h, Inflated: infl, Content: content,
												Level: v.level, Split: parts, Ending: v.ending, Decomp: v.decomp}, p, vseg)
										}
									}
								}
							}
						})
					}
				}
			}
		}
		// ---- D: control frames of 125 / 126 bytes on receive (alone and inside a fragmented message)
		for _, op := range []byte{wsgen.OpPing, wsgen.OpPong, wsgen.OpClose} {
			for _, n := range []int{124, 125, 126, 127} {
				op, n := op, n
				item(fmt.Sprintf("recv-control L=%d op=%x n=%d", L, op, n), func() {
					for _, server := range roles {
						for _, pol := range []int{0, 1} {
							for _, bld := range []string{"", "rebind"} {
								if bld != "" && pol == 0 && !thorough {
									continue
								}
								class := "ramp"
								recvControl(&caseSpec{Family: "recv-control", L: L, Server: server, Policy: pol, Handlers: "msg", Build: bld, Frags: []fragSpec{{Op: op, Fin: true, Len: n, Class: class}}}, p)
								recvControl(&caseSpec{Family: "recv-control-in-message", L: L, Server: server, Policy: pol, Handlers: "msg", Build: bld,
									Frags: []fragSpec{{Op: wsgen.OpBinary, Len: 1}, {Op: op, Fin: true, Len: n, Class: class}}}, p)
							}
						}
					}
				})
			}
		}
	}
	// ---- A': frames refused on their declared length alone (declared.go)
	declaredItems(thorough, item, p)
	// ---- U: connections that come out of the real Upgrader.Upgrade on a real engine (upgrade.go)
	upgradeItems(thorough, item, p)
	// ---- D': send side
	item("send-control", func() {
		for _, server := range roles {
			for _, op := range []websocket.MessageType{websocket.PingMessage, websocket.PongMessage, websocket.CloseMessage} {
				for _, n := range []int{0, 1, 124, 125, 126, 127, 200, 65536} {
					sendCase(server, op, n, false, p)
				}
			}
			for _, n := range []int{2, 125, 126, 127} {
				sendCase(server, websocket.CloseMessage, n, true, p)
			}
		}
	})
	// ---- E: read limit
	for _, rl := range []int{64, 1024} {
		for _, chunk := range []int{1, 63, 64, 65, 1023, 1024, 1025} {
			for _, n := range []int{10, rl - 20, rl - 2, rl, rl + 1, 2 * rl, 4096, 70000} {
				rl, chunk, n := rl, chunk, n
				item(fmt.Sprintf("read-limit rl=%d chunk=%d n=%d", rl, chunk, n), func() {
					for _, server := range roles {
						for _, pol := range []int{0, 1} {
							// the read limit is configured on the serving engine only (nbhttp.Config.ReadLimit),
							// the way a user does; with build=rebind the Upgrader keeps DefaultEngine (64 MiB)
							for _, bld := range []string{"", "rebind"} {
								readLimitCase(&caseSpec{Family: "read-limit", Server: server, Policy: pol, Handlers: "msg", ReadLimit: rl, Chunk: chunk, Build: bld,
									Frags: []fragSpec{{Op: wsgen.OpBinary, Fin: true, Len: n}}}, p)
								// many small frames never trip the limit
								var fr []fragSpec
								for i := 0; i < 40; i++ {
									fr = append(fr, fragSpec{Op: wsgen.OpBinary, Fin: true, Len: 20})
								}
								if n == 10 {
									readLimitCase(&caseSpec{Family: "read-limit-small-frames", Server: server, Policy: pol, Handlers: "msg", ReadLimit: rl, Chunk: chunk, Build: bld, Frags: fr}, p)
								}
							}
						}
					}
				})
			}
		}
	}
}

func replay(scenario string, input json.RawMessage) string {
	var probe map[string]interface{}
	_ = json.Unmarshal(input, &probe)
	if probe["send"] == true {
		part := &vkit.Part{Counters: map[string]int{}, Outcomes: map[string]int{}}
		sendCase(probe["server"] == true, websocket.MessageType(int(probe["op"].(float64))), int(probe["len"].(float64)), probe["writeclose"] == true, part)
		if len(part.Findings) > 0 {
			return part.Findings[0].Sig + "|" + part.Findings[0].Desc
		}
		return ""
	}
	var c caseSpec
	if err := json.Unmarshal(input, &c); err != nil {
		return "bad replay input: " + err.Error()
	}
	if c.Family == "" {
		return "replay input names an item, not a case: re-run the check"
	}
	part := &vkit.Part{Counters: map[string]int{}, Outcomes: map[string]int{}}
	fmt.Printf("case %s seg=%+v\n", c.name(), c.Seg)
	if strings.HasPrefix(c.Family, "upgrade-") {
		upgradeCase(&c, part, []wsgen.Seg{c.Seg})
		if len(part.Findings) > 0 {
			return part.Findings[0].Sig + "|" + part.Findings[0].Desc
		}
		return ""
	}
	switch c.Family {
	case "recv-control", "recv-control-in-message":
		recvControl(&c, part)
	case "read-limit", "read-limit-small-frames":
		readLimitCase(&c, part)
	default:
		b := build(&c)
		if c.Seg.Kind == "" {
			c.Seg.Kind = "one"
		}
		feed := feedOnce
		if c.Family == "declared" {
			feed = feedDeclared
		}
		res, class, r := feed(&c, b, c.Seg, part)
		fmt.Printf("wire %d bytes; Parse calls=%d err=%v closed=%v outcome=%s\n", len(b.wire.Bytes), r.Calls, r.Err, r.ImplClosed, class)
		return res
	}
	if len(part.Findings) > 0 {
		return part.Findings[0].Sig + "|" + part.Findings[0].Desc
	}
	return ""
}

func main() {
	vkit.Main(&vkit.Spec{
		Property: "C15", Level: "model_checking",
		Rule: "one case = (limit L in {1,2,100,1000,1025,5000}, receiver role, allocator capacity policy exact/pooled/stale, handler set OnMessage/OnDataFrame/both, frame list) x one segmentation; frame lists: single text/binary frames of L-1, L, L+1, 2L; every 2- and 3-tuple of fragment sizes over {0,1,L/2,L-1,L,L+1} with no ping / empty ping / 125-byte ping after the first fragment; permessage-deflate messages (zeros, text; one frame or split in two) inflating to L-1, L, L+1, L+2, 2L, 4L, 1000L, x deflate-stream ending {sync flush with the tail removed, final block BFINAL=1, final block + 00} x block type {stored (level 0), Huffman only (-2), fixed/dynamic Huffman with matches (1, 9)} x decompressor {nbio's flate reader, a custom WebsocketDecompressor that returns the last bytes together with io.EOF, one that returns a byte per Read}; control frames of 124..127 bytes alone and inside a fragmented message; family declared: a frame header that announces D payload bytes and is cut off after 0 or 3 of them (refused on the declared length alone), D over {L+1, 10^k-1 and 10^k for k=1..18, 125..127, 65535..65537, 2^31-1, 2^31, 2^32-1, 2^32, 2^40, 2^53, 2^62, 2^63-2, 2^63-1} above L (D <= 65535 also in longer-than-minimal length forms) plus 2^63, 2^63+1, 2^64-1, with L over {1, 100, 1025, 4194304 (default), 999999999999, 2^62, 2^63-2}, as single text/binary frame, first fragment, final/non-final continuation after a first fragment of 0, 1 or min(L-1,100) real bytes, and as ping/pong/close frame alone or inside a message; construction path of the Conn as a dimension: Upgrader engine == serving engine (hook constructor), build=rebind (Upgrader as NewUpgrader() makes it, Engine=DefaultEngine; Conn bound to the serving engine after its construction, as Upgrade scenario 1/2.2 and Dialer.DialContext do), family upgrade: the real Upgrader.Upgrade on a real nbhttp engine on the simulated kernel (handshake request from a simulated peer, scenario 1) and through its blocking-mode branch (real *nbhttp.Response + Parser over a fake conn), each with the Upgrader given the serving engine or left default; ReadLimit is configured on the serving engine only, MessageLengthLimit on the Upgrader (or left at its 4 MiB default); segmentations: one piece, every single cut (wires <= 2 KiB; structural cuts otherwise), byte-at-a-time (<= 4 KiB); send side: WriteMessage/WriteClose of control payloads 0..65536; ReadLimit {64,1024} x read sizes {1,63,64,65,1023,1024,1025} x frame sizes around the limit. A case is non-trivial when the message or a frame is at least L-1 bytes long or a read limit is configured. states = distinct private parser states after the Parse calls, transitions = Parse calls.",
		Assumptions: []string{
			"a message of exactly L bytes may be accepted or rejected (not judged); messages below L that are rejected are counted (under_limit_rejected) but not judged - the statement only forbids delivering/buffering more than L",
			"'buffered' is observed as (a) the length of the message under assembly after every Parse call (hook VerifSeqState) and (b) the length of every buffer obtained from the allocator, which may not exceed max(L+14, unparsed input bytes legitimately cached)",
			"with only OnDataFrame set no message is assembled: the limit is then demanded per frame only",
			"over-limit => Parse error or closed conn, no OnMessage for that message, and the bytes written to the conn decode (reference decoder) into well-formed frames ending with a close frame of status 1009: FIN, no RSV bits, payload <= 125 bytes, minimal length form, masked iff the endpoint is a client, reason valid UTF-8, nothing after it (a malformed reply has the signature close-reply-malformed, a missing or differently coded one over-limit-no-1009)",
			"an over-long control frame on receive must fail the connection without reaching its handler; the statement names no status for it: a close frame, if written, must be well-formed and carry 1009 or 1002 (recorded as outcome); in a longer-than-minimal length form an over-limit data frame may be answered with 1002 as well; a 64-bit length with the top bit set must fail the connection, its status is not judged",
			"'the read limit' is the ReadLimit of the nbhttp.Config of the engine that serves the connection; 'the message length limit' is Upgrader.MessageLengthLimit (default 4 MiB); a user who calls websocket.NewUpgrader() and never touches Upgrader.Engine must get both",
			"Dialer.DialContext is not reachable in the harness (it dials through net.Dial, no hook); its construction sequence (NewClientConn, then wsConn.Engine = parser.Engine) is what build=rebind performs on the client side",
			"dimensions that cannot interact with the position of the cuts (construction path, stream ending, decompressor) run with one piece + byte-at-a-time in quick, with the full segmentation set in thorough",
			"read limit: cached unparsed input <= ReadLimit + the last read's size at every moment, and a frame larger than that is refused",
			"'refused on send' is read as WriteMessage/WriteClose returning ErrControlMessageTooBig and writing nothing; the raw WriteFrame is not judged",
			"family declared, quick tier: allocator policies exact (OnMessage only) and pooled, 0 or 3 payload bytes present; thorough: all three policies x handler sets, 0/1/3/20 bytes present, every double cut, a first fragment of 1500 bytes for limits > 2000",
			"quick tier: fragment tuples run with policies exact and pooled (stale only differs in buffer content) and every single cut only for wires <= 400 B (structural cuts otherwise); thorough adds stale, all single cuts up to 16 KiB wires for single frames and compressed messages and up to 2100 B for fragment tuples",
		},
		Seq: run, ReplaySeq: replay, MinNonTrivial: 1000,
	})
}

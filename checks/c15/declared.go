package main

// Family "declared": over-limit frames that are refused on their *declared* length alone.
//
// The pre-check of the receiver works on the length announced in the frame header, before any
// payload is buffered, so the payload does not have to exist: the wire carries the header of a
// frame that announces D bytes and is cut off after 0 or 3 payload bytes. That makes every
// declared length up to 2^63-1 enumerable (the families with real payloads cannot go beyond a few
// KiB per case). The alphabet of D contains every decimal-digit-count class (10^k-1 and 10^k for
// every k that fits an int64), the length-form boundaries, L+1 and the powers of two named below;
// the limits include the default (4 MiB) and limits with 12 and 19 digits. Positions: a single
// final frame (text, binary), a first fragment, a continuation (final and non-final) after a
// first fragment of m real bytes. The frame is masked or not as the receiver's role requires.
//
// Oracle (statement: "the endpoint fails the connection (answering with close code 1009)"):
// the connection is failed (Parse error or conn closed), no OnMessage and no over-long
// OnDataFrame callback fires, no allocator buffer grows beyond max(L+14, 139, cached input), and
// the bytes written to the connection decode (reference decoder) into well-formed frames the
// last of which is a close frame with status 1009: FIN, no RSV bits, payload <= 125 bytes,
// minimal length encoding, masked iff the endpoint is a client, reason valid UTF-8, nothing after
// it. A frame whose 64-bit length has the top bit set is a protocol error (RFC 6455 5.2), not a
// size question: it must fail the connection, the close code is not judged.

import (
	"encoding/binary"
	"fmt"
	"math"
	"regexp"
	"strconv"
	"unicode/utf8"

	"github.com/lesismal/nbio/nbhttp/websocket"

	"verif/seqx/wsgen"
	"verif/vkit"
)

// replyInfo is the verdict of the reference decoder over everything the endpoint wrote.
type replyInfo struct {
	frames    int
	closes    int
	code      int    // status of the last close frame (1005: close frame without a body)
	closeBody []byte // its payload
	problem   string // first well-formedness problem ("" = every reply frame is well-formed)
}

// judgeReply decodes the reply wire and checks every frame: framing complete, masked iff the
// endpoint is a client, no RSV2/RSV3 (RSV1 only on a data frame of a compressing endpoint), known
// opcode, minimal length encoding, control frames final and <= 125 bytes, a close frame is the
// last frame, its body is empty or status + valid UTF-8.
func judgeReply(ep *wsgen.Endpoint) replyInfo {
	ri := replyInfo{}
	bad := func(format string, a ...interface{}) {
		if ri.problem == "" {
			ri.problem = fmt.Sprintf(format, a...)
		}
	}
	frames, _, err := wsgen.ParseFrames(ep.Fake.Wire())
	if err != nil {
		bad("reply wire not framed: %v", err)
	}
	ri.frames = len(frames)
	for i := range frames {
		f := &frames[i]
		if f.Masked != ep.Cfg.Client {
			bad("reply frame %d (op %x): masked=%v written by a %s", i, f.Op, f.Masked, map[bool]string{true: "client", false: "server"}[ep.Cfg.Client])
		}
		if f.Rsv2 || f.Rsv3 || (f.Rsv1 && (f.IsControl() || !ep.Cfg.Compress)) {
			bad("reply frame %d (op %x): reserved bits set", i, f.Op)
		}
		if (f.Op > wsgen.OpBinary && f.Op < wsgen.OpClose) || f.Op > wsgen.OpPong {
			bad("reply frame %d: reserved opcode %x", i, f.Op)
		}
		if f.Form != wsgen.FormMin {
			bad("reply frame %d (op %x): %d payload bytes in the %d-bit length form", i, f.Op, len(f.Payload), f.Form)
		}
		if f.IsControl() {
			if !f.Fin {
				bad("reply frame %d: fragmented control frame (op %x)", i, f.Op)
			}
			if len(f.Payload) > 125 {
				bad("reply frame %d: control frame (op %x) with %d payload bytes", i, f.Op, len(f.Payload))
			}
		}
		if ri.closes > 0 {
			bad("reply frame %d (op %x) follows a close frame", i, f.Op)
		}
		if f.Op == wsgen.OpClose {
			ri.closes++
			ri.closeBody = f.Payload
			switch {
			case len(f.Payload) == 0:
				ri.code = 1005
			case len(f.Payload) == 1:
				bad("reply close frame with a 1-byte body")
			default:
				ri.code = int(binary.BigEndian.Uint16(f.Payload))
				if !utf8.Valid(f.Payload[2:]) {
					bad("reply close frame: reason is not valid UTF-8")
				}
			}
		}
	}
	return ri
}

// ---------------------------------------------------------------------------------------------
// the declared-length alphabet

// declLimits: small, with 3/4 digits, the default, a 12-digit and two 19-digit limits.
func declLimits() []int {
	return []int{1, 100, 1025, websocket.DefaultMessageLengthLimit, 999999999999, 1 << 62, math.MaxInt64 - 1}
}

// declLengths returns the over-limit declared lengths for limit L, ascending: L+1; 10^k-1 and 10^k
// for every k with 10^k <= 2^63-1; the length-form boundaries 125..127 and 65535..65537; 2^31-1,
// 2^31, 2^32-1, 2^32, 2^40, 2^53, 2^62, 2^63-2, 2^63-1. (Values >= 2^63 are not lengths; see topBit.)
func declLengths(L int) []uint64 {
	set := map[uint64]bool{uint64(L) + 1: true}
	p := uint64(1)
	for k := 1; k <= 18; k++ {
		p *= 10
		set[p-1], set[p] = true, true
	}
	for _, v := range []uint64{125, 126, 127, 65535, 65536, 65537, 1<<31 - 1, 1 << 31, 1<<32 - 1, 1 << 32, 1 << 40, 1 << 53, 1 << 62, 1<<63 - 2, 1<<63 - 1} {
		set[v] = true
	}
	var out []uint64
	for v := range set {
		if v > uint64(L) && v <= math.MaxInt64 {
			out = append(out, v)
		}
	}
	for i := range out { // insertion sort (<= 60 values)
		for j := i; j > 0 && out[j] < out[j-1]; j-- {
			out[j], out[j-1] = out[j-1], out[j]
		}
	}
	return out
}

// topBit: 64-bit lengths with the most significant bit set (not a length at all).
var topBit = []uint64{1 << 63, 1<<63 + 1, math.MaxUint64}

// declPosition builds the frame list that puts the lying frame at a position.
//
//	single-text, single-binary : one final frame
//	first                      : a non-final binary frame
//	cont-fin m / cont-more m   : a non-final binary frame of m real bytes, then the continuation
type declPos struct {
	name string
	op   byte
	fin  bool
	m    int // real bytes of the preceding first fragment; -1: none
}

func declPositions(L int, thorough bool) []declPos {
	ps := []declPos{
		{"single-text", wsgen.OpText, true, -1},
		{"single-binary", wsgen.OpBinary, true, -1},
		{"first", wsgen.OpBinary, false, -1},
	}
	ms := []int{0, 1}
	if L > 2 {
		m := L - 1
		if m > 100 {
			m = 100
		}
		ms = append(ms, m)
	}
	if thorough && L > 2000 {
		ms = append(ms, 1500)
	}
	for _, m := range ms {
		if m > L {
			continue // (the first fragment itself must be acceptable)
		}
		ps = append(ps, declPos{fmt.Sprintf("cont-fin m=%d", m), wsgen.OpCont, true, m}, declPos{fmt.Sprintf("cont-more m=%d", m), wsgen.OpCont, false, m})
	}
	return ps
}

func declFrags(pos declPos, d uint64, present, form int) []fragSpec {
	var fr []fragSpec
	if pos.m >= 0 {
		fr = append(fr, fragSpec{Op: wsgen.OpBinary, Len: pos.m})
	}
	return append(fr, fragSpec{Op: pos.op, Fin: pos.fin, Len: present, Decl: strconv.FormatUint(d, 10), Form: form})
}

var digitRun = regexp.MustCompile(`-?\d+`)

// feedDeclared judges one segmentation of a case of the declared family.
func feedDeclared(c *caseSpec, b *built, seg wsgen.Seg, p *vkit.Part) (res, class string, r *wsgen.FeedResult) {
	L := c.L
	lie := c.Frags[len(c.Frags)-1]
	d, _ := strconv.ParseUint(lie.Decl, 10, 64)
	via := "declared"
	cfg := wsgen.Cfg{Client: !c.Server, L: L, Policy: c.Policy, Spy: true, RecordCtl: lie.Op >= wsgen.OpClose,
		NoOnMessage: c.Handlers == "frame", OnDataFrame: c.Handlers != "msg", Build: c.Build}
	ep := wsgen.NewEndpoint(cfg)
	held := ""
	r = ep.Feed(b.wire.Bytes, seg, func(call int, st websocket.VerifSeqState) string {
		if st.Message > L && held == "" {
			held = fmt.Sprintf("after Parse call %d the message under assembly holds %d bytes (limit %d)", call, st.Message, L)
		}
		return ""
	})
	desc := func() string {
		return fmt.Sprintf("declared payload length %s (%d digits) with MessageLengthLimit=%d (%d digits), %d payload bytes on the wire; Parse err=%v, closed=%v, callbacks=%d, %d bytes written back",
			lie.Decl, len(lie.Decl), L, len(strconv.Itoa(L)), lie.Len, r.Err, r.ImplClosed, len(ep.Events), len(ep.Fake.Wire()))
	}
	if len(r.Panics) > 0 {
		line := r.Panics[0]
		for i := 0; i < len(line); i++ {
			if line[i] == '\n' {
				line = line[:i]
				break
			}
		}
		norm := digitRun.ReplaceAllString(line, "N")
		if len(norm) > 100 {
			norm = norm[:100]
		}
		// the known overflow class (bytes already assembled + declared length > 2^63-1) has a
		// signature of its own, so that a panic on any other input is a different finding
		class := "sum-in-int64-range"
		if len(c.Frags) > 1 && d <= math.MaxInt64 && uint64(c.Frags[0].Len)+d > math.MaxInt64 {
			class = "assembled+declared-overflows-int64"
		}
		return "panic via=" + via + " " + class + " " + norm + "|" + line + "; " + desc(), "panic " + class, r
	}
	for _, e := range ep.Events {
		switch {
		case e.Kind == 'M':
			return fmt.Sprintf("over-limit-delivered via=%s handler=M|an OnMessage callback (%d bytes) fired for a message with a frame that declares %s bytes; %s", via, len(e.Payload), lie.Decl, desc()), "over-limit-delivered", r
		case e.Kind == 'F' && len(e.Payload) > L:
			return fmt.Sprintf("over-limit-delivered via=%s handler=F|a %d-byte payload reached OnDataFrame; %s", via, len(e.Payload), desc()), "over-limit-delivered", r
		case e.Kind == 'P' || e.Kind == 'O' || e.Kind == 'C':
			return fmt.Sprintf("control-over-125-handled-on-receive op=%x via=%s|the handler of a control frame that declares %s bytes was invoked; %s", lie.Op, via, lie.Decl, desc()), "control-handled", r
		}
	}
	if held != "" {
		return fmt.Sprintf("over-limit-buffered via=%s where=message|%s; %s", via, held, desc()), "over-limit-buffered", r
	}
	bound := L + 14
	if L > math.MaxInt-14 {
		bound = math.MaxInt
	}
	if bound < 125+14 {
		bound = 125 + 14
	}
	if r.MaxCacheIn > bound {
		bound = r.MaxCacheIn
	}
	m := ep.Spy.Final()
	if ep.T.MaxRequest > m {
		m = ep.T.MaxRequest
	}
	if m > bound {
		return fmt.Sprintf("over-limit-buffered via=%s where=allocator|a buffer taken from the allocator grew to %d bytes; allowed max(L+14, 139, unparsed input)=%d; %s", via, m, bound, desc()), "over-limit-buffered", r
	}
	if !r.Failed() {
		return fmt.Sprintf("over-limit-not-failed via=%s|%s", via, desc()), "over-limit-not-failed", r
	}
	ri := judgeReply(ep)
	if ri.problem != "" {
		return fmt.Sprintf("close-reply-malformed via=%s|%s; %s", via, ri.problem, desc()), "close-reply-malformed", r
	}
	switch {
	case d > math.MaxInt64:
		// not a length: a protocol error; any (or no) close code
		return "", fmt.Sprintf("length-with-top-bit-refused close=%d(not judged)", ri.code), r
	case lie.Op >= wsgen.OpClose:
		// an over-long control frame: refusal is what the statement asks; the status is recorded
		if ri.closes > 0 && ri.code != 1009 && ri.code != 1002 {
			return fmt.Sprintf("control-over-125-odd-close-code via=%s|close status %d answers an over-long control frame; %s", via, ri.code, desc()), "control-odd-code", r
		}
		return "", fmt.Sprintf("declared-control-refused close=%d", ri.code), r
	case lie.Form != 0 && ri.code == 1002:
		// a longer-than-minimal length encoding may be answered as a protocol error instead
		return "", "declared-nonminimal-refused-1002(not judged)", r
	case ri.closes == 0:
		return fmt.Sprintf("over-limit-no-1009 via=%s|the connection was failed without a close frame (%d reply frames); %s", via, ri.frames, desc()), "over-limit-no-1009", r
	case ri.code != 1009:
		return fmt.Sprintf("over-limit-no-1009 via=%s|the close frame written back has body %q, not status 1009; %s", via, ri.closeBody, desc()), "over-limit-no-1009", r
	}
	return "", "declared-over-limit-refused-1009", r
}

// runDeclared evaluates one case of the declared family in every segmentation.
func runDeclared(c *caseSpec, p *vkit.Part, opt wsgen.SegOpt) {
	b := build(c)
	p.Count("bases", 1)
	p.Count("bases_"+c.Family, 1)
	lie := c.Frags[len(c.Frags)-1]
	p.Count(fmt.Sprintf("declared: bases with a %02d-digit declared length", len(lie.Decl)), 1)
	p.Count(fmt.Sprintf("declared: bases with a %02d-digit limit", len(strconv.Itoa(c.L))), 1)
	if len(lie.Decl)+len(strconv.Itoa(c.L)) >= 20 {
		p.Count("declared: bases with >= 20 digits in declared length + limit", 1)
	}
	onePiece := ""
	first := true
	wsgen.EachSeg(b.wire, opt, func(s wsgen.Seg) bool {
		res, class, r := feedDeclared(c, b, s, p)
		p.Case(true, r.States, r.Calls)
		p.Count("feeds_"+s.Kind, 1)
		p.Outcome(class)
		if res != "" {
			sig, desc := split(res)
			if s.Kind == "one" {
				onePiece = sig
			} else if sig != onePiece {
				sig += " seg-dependent"
			}
			cc := *c
			cc.Seg = s
			p.Report(sig, desc+" ["+c.name()+fmt.Sprintf(" seg=%s%v/%d wire=%dB]", s.Kind, s.Cuts, s.Chunk, len(b.wire.Bytes)), "c15", &cc)
		}
		if first && lie.Decl == "9223372036854775807" {
			first = false
			p.Sample(map[string]interface{}{"case": c.name(), "wire_bytes": len(b.wire.Bytes)})
		}
		return true
	})
}

// declaredItems enumerates the family (one work item per limit x position x role).
func declaredItems(thorough bool, item func(name string, f func()), p *vkit.Part) {
	policies := []int{0, 1}
	presents := []int{0, 3}
	if thorough {
		policies = []int{0, 1, 2}
		presents = []int{0, 1, 3, 20}
	}
	opt := wsgen.SegOpt{AllSingleMax: 4096, BytesMax: 4096}
	if thorough {
		opt.AllDoubleMax = 48
	}
	for _, L := range declLimits() {
		for _, pos := range declPositions(L, thorough) {
			for _, server := range []bool{true, false} {
				L, pos, server := L, pos, server
				item(fmt.Sprintf("declared L=%d pos=%s server=%v", L, pos.name, server), func() {
					ds := declLengths(L)
					for _, pol := range policies {
						for _, h := range []string{"msg", "both", "frame"} {
							if !thorough && pol == 0 && h != "msg" {
								continue // quick: the exact-capacity allocator (it only shapes the reply's buffer) with OnMessage alone
							}
							for _, present := range presents {
								for _, d := range ds {
									forms := []int{0}
									if d <= 0xFFFF { // also in a longer-than-minimal length form
										forms = append(forms, wsgen.Form64)
										if d < 126 {
											forms = append(forms, wsgen.Form16)
										}
									}
									for _, form := range forms {
										runDeclared(&caseSpec{Family: "declared", L: L, Server: server, Policy: pol, Handlers: h, Frags: declFrags(pos, d, present, form)}, p, opt)
										if form == 0 && pol == 1 && present == 0 && (thorough || h == "msg") {
											// a Conn created from a default Upgrader, then bound to the serving engine
											runDeclared(&caseSpec{Family: "declared", L: L, Server: server, Policy: pol, Handlers: h, Build: "rebind", Frags: declFrags(pos, d, present, form)}, p, wsgen.SegOpt{AllSingleMax: -1, BytesMax: 4096})
										}
									}
								}
								for _, d := range topBit {
									runDeclared(&caseSpec{Family: "declared", L: L, Server: server, Policy: pol, Handlers: h, Frags: declFrags(pos, d, present, 0)}, p, opt)
								}
							}
						}
					}
				})
			}
		}
		// control frames that declare an enormous length (alone, and inside a fragmented message)
		for _, op := range []byte{wsgen.OpPing, wsgen.OpPong, wsgen.OpClose} {
			L, op := L, op
			item(fmt.Sprintf("declared-control L=%d op=%x", L, op), func() {
				for _, server := range []bool{true, false} {
					for _, m := range []int{-1, 1} {
						if m > L {
							continue
						}
						for _, d := range declLengths(125) {
							runDeclared(&caseSpec{Family: "declared", L: L, Server: server, Policy: 1, Handlers: "msg",
								Frags: declFrags(declPos{"control", op, true, m}, d, 0, 0)}, p, opt)
						}
					}
				}
			})
		}
	}
}

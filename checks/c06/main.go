// C06: HTTP/1.x parsing is independent of how the byte stream is segmented.
//
// Bounded exhaustive enumeration on the real nbhttp.Parser: every stream of a small RFC 7230
// grammar (requests with isClient=false, responses with isClient=true), pipelines (all ordered
// pairs of a base set) and the single-mutation neighbourhood of 14 base messages is fed in one
// piece, with every single cut, with every double cut (streams <= 160 B, structural cut set
// beyond), byte-at-a-time and in pieces of 2/3/7 bytes; each feed runs twice: with a Processor
// that records every callback with its arguments, and with the real ServerProcessor /
// ClientProcessor whose handler dumps the delivered request / response. The oracle: event log
// and verdict (error class) of every segmentation equal those of the one-piece feed.
//
// Deviations from DESIGN section 4 (C06), keeping its spirit:
//   - the capacity policy of the tracking allocator (exact / pooled / stale) is an extra dimension
//     for one-piece, single cuts and byte-at-a-time (the carry-over buffer and the body reader use
//     spare capacity); double cuts run with the pooled policy only;
//   - verif/track walks the stack on every allocator call (~80 us per case); it is used for the
//     one-piece, byte-at-a-time, fixed-size-piece feeds and the pooled single cuts of grammar and
//     pipeline streams; the mass segmentations use an equally isolating (fresh per case, never
//     recycling, poisoning) but attribution-free allocator of seqx/httpgen (lite.go);
//   - the read buffer handed to Parse is overwritten after every call, as the engine's reused
//     read buffer would be, so a retained alias into it shows up as a changed event;
//   - error classes: sentinel identity, else the error text (a rejection's text is a function of
//     the input only), which is finer than the "other" class of the design;
//   - quick tier enumerates every 23rd (requests) / 11th (responses) grammar message of the full
//     product in mixed-radix order instead of "about 600 streams"; thorough is the full product;
//   - thorough: the full product with single cuts; all double cuts for every 5th message of the
//     product (and all triple cuts for those <= 48 B), all ordered triples of 5 base messages as
//     pipelines, all double cuts for the mutants of 5 of the 14 base messages (the complete
//     product x all double cuts did not fit into 17 minutes on a shared machine).
package main

import (
	"encoding/json"
	"fmt"
	"strings"
	"time"

	"verif/seqx/httpgen"
	"verif/track"
	"verif/vkit"
)

const scenario = "c06"

var policies = []track.Policy{track.Exact, track.Pooled, track.Stale}

type level struct {
	double    bool // all double cuts (<=160 B) / structural double cuts
	triple    bool // all triple cuts for streams <= 48 B
	policies3 bool // single cuts and byte-at-a-time under all three capacity policies
	trackCuts bool // single cuts under the pooled policy use verif/track (else the lite allocator)
}

type evaluator struct {
	p       *vkit.Part
	maxBody int // Engine.MaxHTTPBodySize for every case of this evaluator (0: no limit)
}

func (e *evaluator) compare(ref *httpgen.Result, c *httpgen.Case, kind string, desc string) {
	got := httpgen.Run(c, false)
	e.p.Case(got.CarryOver, 1, got.Feeds)
	e.p.Count("cases."+kind, 1)
	if got.CarryOver {
		e.p.Count("cases_with_carry_over", 1)
	}
	if len(c.Cuts) == 1 && len(got.CutStates) > 0 {
		e.p.Count("cutstate."+httpgen.StateName(got.CutStates[0]), 1)
	}
	if len(got.Panics) > 0 {
		e.p.Report("panic-in-parse", "a recover() block logged: "+first(got.Panics[0]), scenario, c.Input(desc))
	}
	if len(got.TrackViol) > 0 {
		e.p.Count("cases_with_ownership_violation(C11)", 1)
	}
	if sig, d := httpgen.Diff(ref, got); sig != "" {
		e.p.Report(dirName(c)+" "+sig, d+" | stream: "+desc, scenario, c.Input(desc))
	}
}

func first(s string) string {
	for i := 0; i < len(s); i++ {
		if s[i] == '\n' {
			return s[:i]
		}
	}
	return s
}

func dirName(c *httpgen.Case) string {
	d := "request"
	if c.Client {
		d = "response"
	}
	return "segdep " + d
}

// stream evaluates one byte stream in every segmentation of the level, for both processors.
func (e *evaluator) stream(m *httpgen.Msg, client bool, lv level) {
	n := len(m.B)
	e.p.Count("streams", 1)
	for _, mode := range []httpgen.Mode{httpgen.Rec, httpgen.Real} {
		refs := map[track.Policy]*httpgen.Result{}
		for _, pol := range policies {
			c := &httpgen.Case{Stream: m.B, Client: client, Mode: mode, ReadLimit: -1, MaxBody: e.maxBody, Policy: pol}
			r := httpgen.Run(c, false)
			refs[pol] = r
			e.p.Case(false, 1, r.Feeds)
			e.p.Count("cases.one-piece", 1)
			if len(r.Panics) > 0 {
				e.p.Report("panic-in-parse", "a recover() block logged: "+first(r.Panics[0]), scenario, c.Input(m.Desc))
			}
			if pol != track.Exact {
				if sig, d := httpgen.Diff(refs[track.Exact], r); sig != "" {
					e.p.Report("alloc-policy-dependent "+sig, "one-piece feed differs between allocator capacity policies exact and "+pol.String()+": "+d, scenario, c.Input(m.Desc))
				}
			}
		}
		ref := refs[track.Exact]
		if mode == httpgen.Rec {
			v := httpgen.ErrKind(ref.Verdict)
			e.p.Outcome(fmt.Sprintf("%s completes=%d verdict=%s", map[bool]string{false: "req", true: "res"}[client], len(ref.CompleteAt), v))
			if ref.Verdict != "" {
				e.p.Count("streams_rejected_in_one_piece", 1)
			} else if len(ref.CompleteAt) > 0 {
				e.p.Count("streams_with_complete_message", 1)
			} else {
				e.p.Count("streams_incomplete", 1)
			}
		}
		pols := policies
		if !lv.policies3 {
			pols = []track.Policy{track.Pooled}
		}
		for _, pol := range pols {
			c := &httpgen.Case{Stream: m.B, Client: client, Mode: mode, ReadLimit: -1, MaxBody: e.maxBody, Policy: pol}
			c.Lite = !(lv.trackCuts && pol == track.Pooled)
			httpgen.SingleCuts(n, func(cuts []int) {
				c.Cuts = cuts
				e.compare(refs[pol], c, "single-cut", m.Desc)
			})
			c.Lite = false
			c.Cuts = nil
			c.Every = 1
			e.compare(refs[pol], c, "byte-at-a-time", m.Desc)
		}
		c := &httpgen.Case{Stream: m.B, Client: client, Mode: mode, ReadLimit: -1, MaxBody: e.maxBody, Policy: track.Pooled}
		for _, k := range []int{2, 3, 7} {
			if n > k {
				c.Every = k
				e.compare(refs[track.Pooled], c, "fixed-size-pieces", m.Desc)
			}
		}
		c.Every = 0
		c.Lite = true
		// an allocator that relocates a buffer when an append outgrows its (exact) capacity, as
		// mempool.NewAligned does between size classes: the parser must keep the handle Append
		// returns. Multi-read segmentations only (one cut never outgrows a carry-over twice).
		mv := &httpgen.Case{Stream: m.B, Client: client, Mode: mode, ReadLimit: -1, MaxBody: e.maxBody, Policy: track.Exact, Lite: true, Move: true}
		for _, k := range []int{1, 2, 5} {
			if n > k {
				mv.Every = k
				e.compare(refs[track.Exact], mv, "moving-allocator-pieces", m.Desc)
			}
		}
		mv.Every = 0
		if lv.double && n <= 160 {
			httpgen.DoubleCuts(n, m.Marks, 64, func(cuts []int) {
				mv.Cuts = cuts
				e.compare(refs[track.Exact], mv, "moving-allocator-double-cut", m.Desc)
			})
		}
		if lv.double {
			all := httpgen.DoubleCuts(n, m.Marks, 160, func(cuts []int) {
				c.Cuts = cuts
				e.compare(refs[track.Pooled], c, "double-cut", m.Desc)
			})
			if all {
				e.p.Count("streams_with_all_double_cuts", 1)
			} else {
				e.p.Count("streams_with_structural_double_cuts", 1)
			}
		}
		if lv.triple && n <= 48 {
			httpgen.TripleCutsAll(n, func(cuts []int) {
				c.Cuts = cuts
				e.compare(refs[track.Pooled], c, "triple-cut", m.Desc)
			})
			e.p.Count("streams_with_all_triple_cuts", 1)
		}
	}
}

func run(tier string, sh *vkit.Shard, p *vkit.Part) {
	httpgen.StartWatchdog(p, scenario, 30*time.Second)
	thorough := tier == "thorough"
	deadline := vkit.Deadline(tier, 70*time.Second, 17*time.Minute)
	e := &evaluator{p: p}
	skipped := 0
	item := func(f func()) {
		if !sh.Mine() {
			return
		}
		if time.Now().After(deadline) {
			skipped++
			return
		}
		f()
	}
	sampled := 0
	sample := func(m *httpgen.Msg) {
		if sampled < 3 && len(m.B) > 60 {
			sampled++
			p.Sample(map[string]interface{}{"stream": string(m.B), "desc": m.Desc, "bytes": len(m.B),
				"segmentations": "one piece, every single cut, every double cut, byte-at-a-time, pieces of 2/3/7"})
		}
	}

	reqs, ress := httpgen.BaseRequests(), httpgen.BaseResponses()
	// E (first, it is small). Engine.MaxHTTPBodySize set: for every base message and pipeline pair, every limit around
	// the body sizes that occur (3 and 4: limits 2, 3, 4): the decision to accept or refuse a body, and where the
	// refusal happens, must not depend on how the bytes arrived
	lvE := level{double: true}
	for _, set := range []struct {
		ms     []*httpgen.Msg
		client bool
	}{{reqs, false}, {ress, true}} {
		set := set
		for _, limit := range []int{2, 3, 4} {
			limit := limit
			for i, a := range set.ms {
				a := a
				b := set.ms[(i+limit)%len(set.ms)]
				if !strings.Contains(a.Desc, "cl") && !strings.Contains(a.Desc, "chunk") {
					continue
				}
				item(func() {
					le := &evaluator{p: p, maxBody: limit}
					for k, m := range []*httpgen.Msg{a, httpgen.Pipeline(a, b)} {
						mm := &httpgen.Msg{B: m.B, Marks: m.Marks, Desc: fmt.Sprintf("%s MaxHTTPBodySize=%d", m.Desc, limit)}
						lv := lvE
						lv.double = thorough || k == 0
						le.stream(mm, set.client, lv)
						p.Count("body_limit_streams", 1)
					}
				})
			}
		}
	}
	// F (small, runs early). trailer sections that disagree with their announcement: fields nobody
	// announced, announced fields that are absent, another field than the announced one, an
	// announced one plus an extra one; last-chunk line with and without an extension. Whatever
	// the parser decides about them, it must decide it in every segmentation.
	{
		host := []httpgen.Hdr{{Name: "Host", Val: " h"}}
		type tv struct {
			name, declared string
			sent           []httpgen.Hdr
		}
		for _, v := range []tv{
			{"unannounced1", "", []httpgen.Hdr{{Name: "A", Val: " 1"}}},
			{"unannounced2", "", []httpgen.Hdr{{Name: "A", Val: " 1"}, {Name: "B-c", Val: " 22"}}},
			{"announced-absent", "A", nil},
			{"announced-A-sent-B", "A", []httpgen.Hdr{{Name: "B", Val: " 2"}}},
			{"announced-A-sent-A+B", "A", []httpgen.Hdr{{Name: "A", Val: " 1"}, {Name: "B", Val: " 2"}}},
			{"announced-A-sent-B+A", "A", []httpgen.Hdr{{Name: "B", Val: " 2"}, {Name: "A", Val: " 1"}}},
		} {
			for _, lastExt := range []string{"", ";x=y"} {
				v, lastExt := v, lastExt
				body := httpgen.Body{Kind: httpgen.BodyChunked, Chunks: [][]byte{[]byte("ab")}, LastExt: lastExt, Declared: v.declared, Trailers: v.sent}
				desc := fmt.Sprintf("chunk2-trailers=%s-lastext=%q", v.name, lastExt)
				req := (&httpgen.Req{Method: "POST", Target: "/", Version: "HTTP/1.1", Headers: host, Body: body}).Build()
				req.Desc = "post-" + desc
				res := (&httpgen.Res{Version: "HTTP/1.1", Status: "200 OK", Body: body}).Build()
				res.Desc = "200-" + desc
				lvF := level{double: true, policies3: true, trackCuts: true}
				item(func() {
					e.stream(req, false, lvF)
					e.stream(httpgen.Pipeline(req, reqs[0]), false, lvF)
					p.Count("trailer_announcement_streams", 2)
				})
				item(func() {
					e.stream(res, true, lvF)
					e.stream(httpgen.Pipeline(res, ress[0]), true, lvF)
					p.Count("trailer_announcement_streams", 2)
				})
			}
		}
	}

	// A. the grammar, both directions
	strideReq, strideRes := 23, 11
	if thorough {
		strideReq, strideRes = 1, 1
	}
	// quick: every sampled message gets all double cuts. thorough: every message of the full
	// product gets one piece / all single cuts x 3 policies / byte-at-a-time / fixed pieces, every
	// 5th (in product order) additionally all double cuts, and those <= 48 B all triple cuts.
	lvA := level{double: true, policies3: true, trackCuts: true}
	nA := 0
	lvFor := func() level {
		nA++
		lv := lvA
		if thorough {
			lv.double = nA%5 == 0
			lv.triple = lv.double
		}
		return lv
	}
	httpgen.G6Requests(strideReq, func(m *httpgen.Msg) {
		lv := lvFor()
		item(func() { e.stream(m, false, lv); p.Count("grammar_requests", 1); sample(m) })
	})
	httpgen.G6Responses(strideRes, func(m *httpgen.Msg) {
		lv := lvFor()
		item(func() { e.stream(m, true, lv); p.Count("grammar_responses", 1); sample(m) })
	})

	// B. pipelines: all ordered pairs (thorough: also all ordered triples of the first five)
	lvB := level{double: true, policies3: true, trackCuts: true}
	for _, set := range []struct {
		ms     []*httpgen.Msg
		client bool
	}{{reqs, false}, {ress, true}} {
		set := set
		for _, a := range set.ms {
			for _, b := range set.ms {
				a, b := a, b
				item(func() {
					m := httpgen.Pipeline(a, b)
					e.stream(m, set.client, lvB)
					p.Count("pipelines", 1)
				})
			}
		}
		if thorough {
			k := 5
			for _, a := range set.ms[:k] {
				for _, b := range set.ms[:k] {
					for _, c := range set.ms[:k] {
						a, b, c := a, b, c
						item(func() {
							m := httpgen.Pipeline(a, b, c)
							e.stream(m, set.client, lvB)
							p.Count("pipelines", 1)
						})
					}
				}
			}
		}
	}

	// D. large bodies / header values (buffers beyond the 1 KiB pooled capacity)
	lreqs, lress := httpgen.LargeStreams()
	for _, m := range lreqs {
		m := m
		item(func() { e.stream(m, false, lvB); p.Count("large_streams", 1) })
	}
	for _, m := range lress {
		m := m
		item(func() { e.stream(m, true, lvB); p.Count("large_streams", 1) })
	}

	// C. malformed neighbours: the single-mutation neighbourhood of the base messages; one work
	// item per (base, position)
	lvC := level{policies3: false}
	richBases := map[string]bool{"post-cl3-ows": true, "post-chunk1+2-ext": true, "post-chunk3+1-ext-trailer2": true, "200-cl3-ows": true, "404-chunk3+1-trailer2": true}
	for _, set := range []struct {
		ms     []*httpgen.Msg
		client bool
	}{{reqs, false}, {ress, true}} {
		set := set
		for _, base := range set.ms {
			base := base
			seen := map[string]bool{string(base.B): true}
			type mut struct {
				desc string
				b    []byte
			}
			byPos := map[int][]mut{}
			httpgen.Neighbours(base.B, func(pos int, desc string, b []byte) {
				if seen[string(b)] {
					return
				}
				seen[string(b)] = true
				byPos[pos] = append(byPos[pos], mut{desc, b})
			})
			for at := 0; at < len(base.B); at++ {
				ms := byPos[at]
				item(func() {
					for _, mu := range ms {
						m := &httpgen.Msg{B: mu.b, Marks: base.Marks, Desc: base.Desc + " " + mu.desc}
						lv := lvC
						lv.double = thorough && richBases[base.Desc]
						e.stream(m, set.client, lv)
						p.Count("mutant_streams", 1)
					}
				})
			}
		}
	}
	if skipped > 0 {
		p.Incompletef("wall-clock cap reached: %d work items of this shard were not enumerated", skipped)
	}
}

func replay(_ string, raw json.RawMessage) string {
	c, in, err := httpgen.ParseInput(raw)
	if err != nil {
		return "bad replay input: " + err.Error()
	}
	refc := *c
	refc.Cuts, refc.Every = nil, 0
	ref := httpgen.Run(&refc, false)
	got := httpgen.Run(c, false)
	fmt.Printf("stream (%d bytes): %s\ncuts=%v every=%d client=%v mode=%s policy=%s\n", len(c.Stream), in.Stream, c.Cuts, c.Every, c.Client, in.Mode, in.Policy)
	fmt.Printf("--- one piece: verdict=%q\n%s--- this segmentation: verdict=%q\n%s", ref.Verdict, ref.Log, got.Verdict, got.Log)
	for _, l := range got.Panics {
		fmt.Println("error log:", first(l))
	}
	if len(got.Panics) > 0 {
		return "panic-in-parse|" + first(got.Panics[0])
	}
	sig, d := httpgen.Diff(ref, got)
	if sig == "" {
		return ""
	}
	return sig + "|" + d
}

func main() {
	vkit.Main(&vkit.Spec{
		Property: "C06", Level: "model_checking",
		Rule: "one case = (byte stream, segmentation, processor, allocator capacity policy) executed on the real nbhttp.Parser and compared with the one-piece feed of the same stream; streams: the RFC 7230 grammar of DESIGN 4/C06 in both directions (quick: every 23rd request / 11th response of the full product in mixed-radix order; thorough: all 23712 + 11856), all ordered pairs of 8 base requests / 6 base responses as pipelines, 8 messages with 1-1.5 KiB bodies / header values (beyond the pooled buffer capacity), and every distinct single-byte mutant (16 replacement bytes, delete, duplicate, at every position) of those 14 base messages; segmentations: one piece, every single cut, every double cut (streams <= 160 B; structural cut set beyond), byte-at-a-time, pieces of 2/3/7 bytes (thorough: full grammar product with single cuts, double cuts for every 5th message, triple cuts for those <= 48 B, double cuts for the mutants of 5 bases); a case is non-trivial when some feed ended with a non-empty carry-over buffer (the cut fell inside a token/body, measured through the hook accessor)",
		Assumptions: []string{
			"events compared: every Processor callback with its arguments (recording processor) or the request/response dump made by the handler plus the first line of every write and Close calls on the connection (real processors); verdict compared: nbhttp sentinel identity, else the error text",
			"after Parse returns an error the harness calls CloseAndClean, as Engine.DataHandler's close does, and stops feeding; events before the error must agree too",
			"ReadLimit is the default (64 MiB) so that the segmentation-dependent limit cannot interfere (C08 covers it); MaxHTTPBodySize 0",
			"the connection is a fake net.Conn: conn.Close() from the response path is recorded as an event and does not stop the feed (no race between close and already-read bytes is modelled here; C10 covers the engine)",
			"the read buffer passed to Parse is overwritten after each call, as the engine's reused read buffer is",
			"handlers run inline (executor = direct call); process-global sync.Pools of nbhttp are shared between cases",
		},
		Seq: run, ReplaySeq: replay, MinNonTrivial: 1000,
	})
}

// C10, second part: request / response exchanges in the goroutine-per-connection I/O modes
// (IOModBlocking, both halves of IOModMixed; IOModNonBlocking as a control) on real socket pairs.
//
// Strength (different from the scheduled scenarios in main.go, and labelled as such in the
// evidence): BOUNDED-EXHAUSTIVE ENUMERATION OF HISTORIES with a FREE-RUNNING schedule. Every
// request history over the alphabet below up to the depth of the tier is executed once per
// configuration; schedules are NOT enumerated. No cooperative scheduler, no simulated kernel: the
// overlay's shims are in native pass-through mode (see verif/blkkit).
package main

import (
	"encoding/json"

	"verif/blkkit"
	"verif/vkit"
)

const blkScenario = "blocking-modes/real-sockets/history-enumeration"

var c10Alphabet = []string{"ka", "v10", "cl", "big", "bigcl", "post", "pipe", "pipecl", "partial", "finish", "pclose"}

func c10Cases(tier string, visit func(blkkit.Case)) {
	depth := 4
	if tier == "thorough" {
		depth = 5
	}
	for _, h := range blkkit.Histories(depth, 2, c10Alphabet) {
		if len(h) == 0 {
			continue
		}
		for _, mode := range []string{"blocking", "mixed", "mixed-nb", "nonblocking"} {
			cfgs := []blkkit.Cfg{{Mode: mode}}
			if blkkit.Has(h, "big", "bigcl") {
				// a response that does not fit the socket buffer
				cfgs = append(cfgs, blkkit.Cfg{Mode: mode, SndBuf: 4096})
			}
			if tier == "thorough" && (mode == "blocking" || mode == "mixed") {
				cfgs = append(cfgs, blkkit.Cfg{Mode: mode, TCP: true})
			}
			for _, cfg := range cfgs {
				visit(blkkit.Case{Cfg: cfg, Hist: h, End: "peersclose-stop"})
			}
		}
	}
}

func c10Caps() blkkit.Caps {
	c := blkkit.DefaultCaps
	c.NoReclaim = true
	return c
}

func seqBlocking(tier string, sh *vkit.Shard, p *vkit.Part) {
	d := &blkkit.Driver{Part: p, Shard: sh, Class: "c10", Property: "C10", Scenario: blkScenario, Caps: c10Caps(), MaxViolating: 2}
	c10Cases(tier, d.Do)
	d.Finish()
}

func replayBlocking(scenario string, input json.RawMessage) string {
	return blkkit.Replay("c10", input, c10Caps())
}

// C10, second part: request / response exchanges in the goroutine-per-connection I/O modes
// (IOModBlocking, both halves of IOModMixed; IOModNonBlocking as a control) on real socket pairs.
//
// Strength (different from the scheduled scenarios in main.go, and labelled as such in the
// evidence): BOUNDED-EXHAUSTIVE ENUMERATION OF HISTORIES with a FREE-RUNNING schedule. Every
// request history over the alphabet below up to the depth of the tier is executed once per
// configuration; schedules are NOT enumerated. No cooperative scheduler, no simulated kernel: the
// overlay's shims are in native pass-through mode (see verif/blkkit).
package main

import (
	"encoding/json"

	"verif/blkkit"
	"verif/vkit"
)

const blkScenario = "blocking-modes/real-sockets/history-enumeration"

var c10Alphabet = []string{"ka", "v10", "cl", "big", "bigcl", "post", "pipe", "pipecl", "partial", "finish", "ws", "pclose"}

func conns(h []blkkit.Ev) int {
	n := 0
	for _, e := range h {
		if e.C+1 > n {
			n = e.C + 1
		}
	}
	return n
}

// c10Cases lists the cases of a tier in a fixed order. quick: up to 4 events on one connection,
// up to 3 events spread over two; thorough: 5 and 4.
func c10Cases(tier string, visit func(blkkit.Case)) {
	d1, d2 := 4, 3
	if tier == "thorough" {
		d1, d2 = 5, 4
	}
	for _, h := range blkkit.Histories(d1, 2, c10Alphabet) {
		if len(h) == 0 || (conns(h) > 1 && len(h) > d2) {
			continue
		}
		for _, mode := range []string{"blocking", "mixed", "mixed-nb", "nonblocking"} {
			cfgs := []blkkit.Cfg{{Mode: mode}}
			inA := mode == "blocking" || mode == "mixed"
			if blkkit.Has(h, "big", "bigcl") {
				// a response that does not fit the socket buffer
				cfgs = append(cfgs, blkkit.Cfg{Mode: mode, SndBuf: 4096})
			}
			if blkkit.Has(h, "ws") && inA {
				// the upgrade request is a request: it gets its 101 whether or not the connection is
				// transferred to the poller (only a *net.TCPConn is; see verif/blkkit)
				cfgs = append(cfgs, blkkit.Cfg{Mode: mode, TCP: true, Transfer: true})
				if tier == "thorough" {
					cfgs = append(cfgs, blkkit.Cfg{Mode: mode, Async: true}, blkkit.Cfg{Mode: mode, TCP: true})
				}
			} else if tier == "thorough" && inA {
				cfgs = append(cfgs, blkkit.Cfg{Mode: mode, TCP: true})
			}
			for _, cfg := range cfgs {
				visit(blkkit.Case{Cfg: cfg, Hist: h, End: "peersclose-stop"})
			}
		}
	}
}

func c10Caps() blkkit.Caps {
	c := blkkit.DefaultCaps
	c.NoReclaim = true
	c.Own = "c10"
	return c
}

func seqBlocking(tier string, sh *vkit.Shard, p *vkit.Part) {
	d := &blkkit.Driver{Part: p, Shard: sh, Class: "c10", Property: "C10", Scenario: blkScenario, Caps: c10Caps(), MaxViolating: 2}
	c10Cases(tier, d.Do)
	d.Finish()
}

func replayBlocking(scenario string, input json.RawMessage) string {
	return blkkit.Replay("c10", input, c10Caps())
}

package main

import (
	"bytes"
	"fmt"
	"io"
	"net"
	"net/http"
	"strings"
	"time"

	"github.com/lesismal/nbio"
	"github.com/lesismal/nbio/mempool"
	"github.com/lesismal/nbio/nbhttp"

	"verif/ekit"
	"verif/track"
	"verif/vsched"
	"verif/vshim/vsys"
	"verif/vshim/vtime"
)

var errDialRefused = fmt.Errorf("dial refused (injected)")

// ccfg is one HTTP client scenario: n pipelined Do calls on one ClientConn against a scripted
// server that answers `answers` of them in order and then closes / stays silent.
type ccfg struct {
	mode    ekit.Mode
	n       int
	answers int
	then    string // close | silent | none
	timeout bool
	threads int // 1: all Do calls from one thread; 2: two callers
	p       int
	// dialFail: the first dial fails; the connection object is then used again
	dialFail bool
}

func (c ccfg) name() string {
	d := ""
	if c.dialFail {
		d = " first-dial-fails"
	}
	return fmt.Sprintf("%s client n=%d answers=%d then=%s timeout=%v callers=%d%s", c.mode, c.n, c.answers, c.then, c.timeout, c.threads, d)
}

func clientBody(c ccfg) func() {
	return func() {
		vsys.Configure(false, false)
		tr := track.New(track.Pooled)
		mempool.DefaultMemPool = tr
		conf := nbhttp.Config{Name: "c10c", NPoller: 1, ReadBufferSize: 4096, BodyAllocator: tr,
			ServerExecutor: func(f func()) { vsched.GoNamed("exec", f) },
			ClientExecutor: func(f func()) { vsched.GoNamed("cexec", f) },
		}
		switch c.mode {
		case ekit.ET:
			conf.EpollMod = nbio.EPOLLET
		case ekit.ONESHOT:
			conf.EpollMod = nbio.EPOLLET
			conf.EPOLLONESHOT = nbio.EPOLLONESHOT
		}
		engine := nbhttp.NewEngine(conf)
		if err := engine.Start(); err != nil {
			vsched.Fail("harness|engine start: %v", err)
			return
		}
		var peer *vsys.Peer
		cc := &nbhttp.ClientConn{Engine: engine}
		if c.timeout {
			cc.Timeout = 5 * time.Second
		}
		dials := 0
		cc.Dial = func(network, addr string) (net.Conn, error) {
			dials++
			if c.dialFail && dials == 1 {
				return nil, errDialRefused
			}
			conn, p := ekit.Stream(false, 1<<20, 1<<20)
			peer = p
			// ClientConn sets a read deadline on the dialed connection before it adds it to the
			// engine; a real net.Conn supports that, an unregistered *nbio.Conn needs its poller
			engine.Engine.VerifBindPoller(conn)
			return conn, nil
		}
		type outcome struct {
			calls int
			tags  []string
			errs  []error
		}
		outs := make([]*outcome, c.n)
		for i := range outs {
			outs[i] = &outcome{}
		}
		var log vsched.Obj
		do := func(i int) {
			req, _ := http.NewRequest("GET", fmt.Sprintf("http://127.0.0.1:80/r%d", i), nil)
			cc.Do(req, func(res *http.Response, conn net.Conn, err error) {
				o := outs[i]
				o.calls++
				vsched.Record(&log, 2, true, uint64(i))
				if err != nil {
					o.errs = append(o.errs, err)
					return
				}
				b, _ := io.ReadAll(res.Body)
				o.tags = append(o.tags, string(b))
			})
		}
		if c.dialFail {
			// request "fail" is issued first and must get exactly one callback with an error; the
			// numbered requests follow on the same ClientConn
			failCalls := 0
			var failGot []string
			vsched.GoNamed("caller0", func() {
				req, _ := http.NewRequest("GET", "http://127.0.0.1:80/fail", nil)
				cc.Do(req, func(res *http.Response, conn net.Conn, err error) {
					failCalls++
					if err == nil {
						b, _ := io.ReadAll(res.Body)
						failGot = append(failGot, string(b))
					}
				})
				for i := 0; i < c.n; i++ {
					do(i)
				}
			})
			defer func() {
				if failCalls != 1 || len(failGot) > 0 {
					vsched.Fail("client-failed-request-callback|the request whose dial failed had its callback invoked %d times and received responses %v (want exactly one call with an error)", failCalls, failGot)
				}
			}()
		} else if c.threads == 1 {
			vsched.GoNamed("caller0", func() {
				for i := 0; i < c.n; i++ {
					do(i)
				}
			})
		} else {
			// request 0 first (it dials), then the others from two threads
			vsched.GoNamed("caller0", func() {
				do(0)
				vsched.GoNamed("caller1", func() {
					for i := 1; i < c.n; i += 2 {
						do(i)
					}
				})
				for i := 2; i < c.n; i += 2 {
					do(i)
				}
			})
		}
		// scripted server: answers the first `answers` requests in arrival order
		vsched.GoNamed("server", func() {
			vsched.SetDaemon()
			vsched.Block("server.wait-conn", func() bool { return peer != nil })
			answered := 0
			seen := 0
			for answered < c.answers || (c.then == "close" && seen < c.n) {
				peer.WaitReadable()
				if peer.Queued() == 0 {
					return
				}
				peer.Read(0)
				seen = bytes.Count(peer.Got, []byte("\r\n\r\n"))
				for answered < seen && answered < c.answers {
					// the tag says which request (by arrival order on the wire) is being answered
					path := nthPath(peer.Got, answered)
					body := "resp" + path
					peer.WriteAll([]byte(fmt.Sprintf("HTTP/1.1 200 OK\r\nContent-Length: %d\r\n\r\n%s", len(body), body)))
					answered++
				}
			}
			if c.then == "close" {
				peer.Close() // every request has arrived; the unanswered ones will never be answered
			}
		})
		vsched.WaitIdle()
		vsched.WaitIdle()
		for vtime.FireNext() {
			vsched.WaitIdle()
		}
		var fails []string
		answered, failed := 0, 0
		for i, o := range outs {
			if o.calls > 1 {
				fails = append(fails, fmt.Sprintf("client-callback-twice|the callback of request %d was invoked %d times (responses %v, errors %v)", i, o.calls, o.tags, o.errs))
			}
			owed := c.then != "none" && (c.then != "silent" || c.timeout) || i < c.answers
			if o.calls == 0 && owed {
				fails = append(fails, fmt.Sprintf("client-callback-missing then=%s timeout=%v|the callback of request %d was never invoked (server answered %d of %d, then %s; client timeout armed: %v)", c.then, c.timeout, i, c.answers, c.n, c.then, c.timeout))
			}
			for _, tg := range o.tags {
				answered++
				if tg != fmt.Sprintf("resp/r%d", i) {
					fails = append(fails, fmt.Sprintf("client-response-mismatched|request %d received the response %q", i, tg))
				}
			}
			failed += len(o.errs)
		}
		lastCounters = map[string]int{"responses": answered, "client_errors": failed, "timers_fired": vtime.Fired()}
		lastOutcome = fmt.Sprintf("client ok=%d err=%d", answered, failed)
		if errs := logErrors(); errs != "" {
			fails = append(fails, "logged-error|nbio logged an error (a recovered panic?): "+errs)
		}
		for _, f := range fails {
			vsched.Fail("%s", f)
		}
	}
}

func nthPath(wire []byte, n int) string {
	parts := strings.Split(string(wire), "\r\n\r\n")
	if n >= len(parts) {
		return "?"
	}
	line := parts[n]
	if i := strings.Index(line, "\r\n"); i >= 0 {
		line = line[:i]
	}
	f := strings.Fields(line)
	if len(f) >= 2 {
		return f[1]
	}
	return "?"
}

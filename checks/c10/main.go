// C10: HTTP exchanges end to end on the poller-driven plain-text path. A real nbhttp.Engine
// (IOModNonBlocking) on a real nbio engine on the simulated kernel; connections are injected
// with AddConnNonTLSNonBlocking; scripted peers send request histories (pipelined in one burst
// or split at a chosen offset) and drain the responses. Oracle (independent client parser =
// net/http): per connection exactly one response per request, in request order, each carrying
// its own (connection, index) tag and complete body; nothing of another connection's tags; the
// server closes after the response iff the request version / Connection header say so.
// The HTTP client (ClientConn) side is explored with a scripted server peer.
package main

import (
	"bufio"
	"bytes"
	"fmt"
	"io"
	"net/http"
	"strings"
	"time"

	"github.com/lesismal/nbio"
	"github.com/lesismal/nbio/mempool"
	"github.com/lesismal/nbio/nbhttp"

	"verif/ekit"
	"verif/track"
	"verif/vkit"
	"verif/vsched"
	"verif/vshim/vsys"
)

type req struct {
	v10     bool
	connHdr string // "", close, keep-alive
	body    int
}

// connHdr may hold several header lines separated by '|', each a comma-separated option list
// (RFC 7230 3.2.2 / 6.1): the decision depends on the options of all lines together.
func (r req) options() map[string]bool {
	o := map[string]bool{}
	for _, line := range strings.Split(r.connHdr, "|") {
		for _, t := range strings.Split(line, ",") {
			if t = strings.ToLower(strings.TrimSpace(t)); t != "" {
				o[t] = true
			}
		}
	}
	return o
}

func (r req) closes() bool {
	o := r.options()
	if r.v10 {
		return o["close"] || !o["keep-alive"]
	}
	return o["close"]
}

func (r req) String() string {
	v := "1.1"
	if r.v10 {
		v = "1.0"
	}
	c := r.connHdr
	if c == "" {
		c = "-"
	}
	return fmt.Sprintf("%s/%s/b%d", v, c, r.body)
}

type cfg struct {
	mode    ekit.Mode
	exec    string // inline | go | pool
	hist    [][]req
	cut     int // split the first connection's request stream at this offset (0: one burst)
	cut2    int // and once more at this offset (> cut; 0: two pieces): three reads, the second of which finds a retained tail, completes tokens and leaves a tail again
	respLen int
	k       int
	p, d    int
	// twoWrites: the handler declares Content-Length and writes a small piece, then the rest
	// (exercises the identity-framed coalescing paths); realPool: a real recycling mempool
	// (fresh per execution) instead of the tracking allocator, so that an ownership bug shows
	// as what it causes in production: bytes of one connection's response on another
	twoWrites bool
	realPool  bool
}

func (c cfg) name() string {
	x := ""
	if c.twoWrites {
		x += " two-writes"
	}
	if c.realPool {
		x += " real-pool"
	}
	if c.cut2 > 0 {
		x = fmt.Sprintf(" cut2=%d", c.cut2) + x
	}
	return fmt.Sprintf("%s exec=%s hist=%v cut=%d resp=%d K=%d%s", c.mode, c.exec, c.hist, c.cut, c.respLen, c.k, x)
}

func encode(connID int, rs []req) []byte {
	var b bytes.Buffer
	for i, r := range rs {
		v := "HTTP/1.1"
		if r.v10 {
			v = "HTTP/1.0"
		}
		m := "GET"
		if r.body > 0 {
			m = "POST"
		}
		fmt.Fprintf(&b, "%s /c%d/r%d %s\r\nHost: h\r\nX-Tag: c%dr%d\r\n", m, connID, i, v, connID, i)
		if r.connHdr != "" {
			for _, line := range strings.Split(r.connHdr, "|") {
				fmt.Fprintf(&b, "Connection: %s\r\n", line)
			}
		}
		if r.body > 0 {
			fmt.Fprintf(&b, "Content-Length: %d\r\n", r.body)
		}
		b.WriteString("\r\n")
		for j := 0; j < r.body; j++ {
			b.WriteByte(byte('a' + (connID+i+j)%26))
		}
	}
	return b.Bytes()
}

func wantBody(tag string, reqBody []byte, n int) []byte {
	unit := []byte(tag + ":" + string(reqBody) + ";")
	out := make([]byte, 0, n)
	for len(out) < n {
		out = append(out, unit...)
	}
	return out[:n]
}

var lastCounters map[string]int
var lastOutcome string

func body(c cfg) func() {
	return func() {
		vsys.Configure(false, false)
		tr := track.New(track.Pooled)
		// every pooled buffer of this execution comes from its own tracking allocator: ownership
		// bugs (C11) must not alias buffers between unrelated parts of this check
		var alloc mempool.Allocator = tr
		if c.realPool {
			alloc = mempool.New(1024, 1024*1024*1024)
		}
		mempool.DefaultMemPool = alloc
		conf := nbhttp.Config{
			Name: "c10", NPoller: 1, ReadBufferSize: 4096, KeepaliveTime: time.Hour,
			BodyAllocator: alloc, SupportServerOnly: true,
			Handler: http.HandlerFunc(func(w http.ResponseWriter, r *http.Request) {
				rb, _ := io.ReadAll(r.Body)
				tag := r.Header.Get("X-Tag")
				w.Header().Set("X-Tag", tag)
				body := wantBody(tag, rb, c.respLen)
				if c.twoWrites && len(body) > 100 {
					w.Header().Set("Content-Length", fmt.Sprint(len(body)))
					_, _ = w.Write(body[:100])
					vsched.Point() // another connection's handler may run between the two writes
					_, _ = w.Write(body[100:])
					return
				}
				vsched.Point()
				_, _ = w.Write(body)
			}),
		}
		switch c.mode {
		case ekit.ET:
			conf.EpollMod = nbio.EPOLLET
		case ekit.ONESHOT:
			conf.EpollMod = nbio.EPOLLET
			conf.EPOLLONESHOT = nbio.EPOLLONESHOT
		}
		switch c.exec {
		case "inline":
			conf.ServerExecutor = func(f func()) { f() }
		case "go":
			conf.ServerExecutor = func(f func()) { vsched.GoNamed("exec", f) }
		}
		engine := nbhttp.NewEngine(conf)
		if err := engine.Start(); err != nil {
			vsched.Fail("harness|engine start: %v", err)
			return
		}
		type cp struct {
			conn *nbio.Conn
			peer *vsys.Peer
			sent []byte
		}
		var cps []*cp
		for range c.hist {
			conn, peer := ekit.Stream(false, c.k, 1<<20)
			cps = append(cps, &cp{conn: conn, peer: peer})
			engine.AddConnNonTLSNonBlocking(&nbhttp.Conn{Conn: conn}, nil, func() {})
		}
		for i, x := range cps {
			i, x := i, x
			data := encode(i, c.hist[i])
			vsched.GoNamed(fmt.Sprintf("client%d", i), func() {
				if i == 0 && c.cut > 0 && c.cut2 > c.cut && c.cut2 < len(data) {
					return // sent by the main thread, see below
				} else if i == 0 && c.cut > 0 && c.cut < len(data) {
					x.peer.WriteAll(data[:c.cut])
					x.peer.WriteAll(data[c.cut:])
				} else {
					x.peer.WriteAll(data)
				}
			})
			vsched.GoNamed(fmt.Sprintf("drain%d", i), func() { x.peer.Drain() })
		}
		if data := encode(0, c.hist[0]); c.cut > 0 && c.cut2 > c.cut && c.cut2 < len(data) {
			// three pieces, each read (and its answers produced) before the next one is sent
			cps[0].peer.WriteAll(data[:c.cut])
			vsched.WaitIdle()
			cps[0].peer.WriteAll(data[c.cut:c.cut2])
			vsched.WaitIdle()
			cps[0].peer.WriteAll(data[c.cut2:])
		}
		vsched.WaitIdle()
		// ---- oracle
		var fails []string
		totalResp := 0
		for i, x := range cps {
			rs := c.hist[i]
			expect := 0
			shouldClose := false
			for _, r := range rs {
				expect++
				if r.closes() {
					shouldClose = true
					break
				}
			}
			br := bufio.NewReader(bytes.NewReader(x.peer.Got))
			got := 0
			for got < expect {
				method := "GET"
				if rs[got].body > 0 {
					method = "POST"
				}
				resp, err := http.ReadResponse(br, &http.Request{Method: method})
				if err != nil {
					fails = append(fails, fmt.Sprintf("response-missing-or-malformed history-closes=%v backlog=%v|conn %d: response %d of %d: %v (received %d bytes in total)", shouldClose, backlogged(), i, got, expect, err, len(x.peer.Got)))
					break
				}
				bodyb, err := io.ReadAll(resp.Body)
				tag := fmt.Sprintf("c%dr%d", i, got)
				reqBody := make([]byte, rs[got].body)
				for j := range reqBody {
					reqBody[j] = byte('a' + (i+got+j)%26)
				}
				switch {
				case err != nil:
					fails = append(fails, fmt.Sprintf("response-body-truncated history-closes=%v backlog=%v|conn %d response %d: body read failed after %d of %d bytes: %v (a request of this history asks to close: %v; responses went through the write queue: %v)", shouldClose, backlogged(), i, got, len(bodyb), c.respLen, err, shouldClose, backlogged()))
				case resp.Header.Get("X-Tag") != tag:
					fails = append(fails, fmt.Sprintf("response-mismatched|conn %d: response %d carries tag %q, expected %q", i, got, resp.Header.Get("X-Tag"), tag))
				case !bytes.Equal(bodyb, wantBody(tag, reqBody, c.respLen)):
					fails = append(fails, fmt.Sprintf("response-body-wrong|conn %d response %d: body of %d bytes differs from the handler's (%d bytes)", i, got, len(bodyb), c.respLen))
				case resp.StatusCode != 200:
					fails = append(fails, fmt.Sprintf("response-status|conn %d response %d: status %d", i, got, resp.StatusCode))
				}
				got++
				totalResp++
			}
			if got == expect && len(fails) == 0 {
				rest, _ := io.ReadAll(br)
				if len(rest) > 0 {
					fails = append(fails, fmt.Sprintf("response-extra|conn %d: %d bytes after the %d expected responses: %q", i, len(rest), expect, ekit.Short(rest)))
				}
			}
			closedNow, _ := x.conn.IsClosed()
			if shouldClose && !closedNow {
				fails = append(fails, fmt.Sprintf("not-closed|conn %d: request %v asks for the connection to be closed after the response, it is still open", i, rs[expect-1]))
			}
			if !shouldClose && closedNow {
				_, cerr := x.conn.IsClosed()
				fails = append(fails, fmt.Sprintf("closed-keepalive|conn %d: all requests allow keep-alive but the server closed the connection (%v)", i, cerr))
			}
			for j := range cps {
				if j != i && bytes.Contains(x.peer.Got, []byte(fmt.Sprintf("c%dr", j))) {
					fails = append(fails, fmt.Sprintf("cross-connection|conn %d received bytes tagged for connection %d", i, j))
				}
			}
		}
		st := vsys.GetStats()
		lastCounters = map[string]int{"responses": totalResp, "eagain": st.Eagains}
		if st.Eagains > 0 {
			lastCounters["backpressure_execs"] = 1
		}
		if v := tr.Violations(); len(v) > 0 {
			lastCounters["ownership_violations_reported_by_C11"] = len(v)
		}
		lastOutcome = fmt.Sprintf("resp=%d", totalResp)
		if errs := logErrors(); errs != "" {
			fails = append(fails, "logged-error|nbio logged an error (a recovered panic?): "+errs)
		}
		for _, f := range fails {
			vsched.Fail("%s", f)
		}
	}
}

func logErrors() string {
	errs := vkit.Log.TakeErrors()
	if len(errs) == 0 {
		return ""
	}
	e := errs[0]
	if i := strings.Index(e, "\n"); i > 0 {
		e = e[:i]
	}
	return e
}

func backlogged() bool {
	st := vsys.GetStats()
	return st.Eagains > 0 || st.ShortWrites > 0
}

func check(r *vsched.Result) string {
	for _, b := range r.Blocked {
		if strings.HasPrefix(b.Why, "mutex") {
			return fmt.Sprintf("deadlock-mutex thread=%s|thread %s is blocked on a mutex forever (%s)", strings.SplitN(b.Name, ":", 2)[0], b.Name, b.Why)
		}
	}
	for _, b := range r.Blocked {
		if b.Name == "main" || strings.HasPrefix(b.Name, "client") || strings.HasPrefix(b.Name, "caller") {
			return fmt.Sprintf("stuck|thread %s blocked at the end (%s)", b.Name, b.Why)
		}
	}
	return ""
}

func build(tier string) []*vkit.Scenario {
	thorough := tier == "thorough"
	var out []*vkit.Scenario
	add := func(c cfg) {
		out = append(out, &vkit.Scenario{Name: c.name(), Body: body(c), Check: check, P: c.p, D: c.d,
			Opts:     vsched.Options{Horizon: 60000},
			Counters: func() map[string]int { return lastCounters }, Outcome: func() string { return lastOutcome },
			NonTrivial: func(m map[string]int) bool { return m["responses"] > 0 }})
	}
	ka := req{}
	cl := req{connHdr: "close"}
	v10 := req{v10: true}
	v10ka := req{v10: true, connHdr: "keep-alive"}
	post := req{body: 5}
	postcl := req{body: 5, connHdr: "close"}
	hists := [][][]req{
		{{ka}}, {{cl}}, {{v10}}, {{v10ka}}, {{post}}, {{postcl}},
		{{ka, ka}}, {{ka, cl}}, {{post, ka, cl}}, {{v10ka, v10}}, {{cl, ka}},
		{{ka, post}, {post, cl}}, {{ka}, {v10}},
		// the decisive option is not on the first Connection line / not the first of a list
		{{req{connHdr: "keep-alive|close"}, ka}}, {{req{connHdr: "TE|close"}}}, {{req{v10: true, connHdr: "TE|keep-alive"}, v10}},
		{{req{connHdr: "keep-alive, close"}, ka}}, {{req{connHdr: "Upgrade|keep-alive"}, cl}},
	}
	for _, m := range ekit.Modes {
		for _, e := range []string{"inline", "go", "pool"} {
			for hi, h := range hists {
				two := len(h) > 1
				closes := false
				for _, rs := range h {
					for _, r := range rs {
						if r.closes() {
							closes = true
						}
					}
				}
				if !thorough {
					// quick: the goroutine-per-call executor carries the full history set; the inline
					// executor mostly keep-alive histories (it deadlocks on close, a known finding that a
					// few scenarios keep visible); the task pool (most threads) a small set
					if e == "inline" && closes && hi != 1 && hi != 7 {
						continue
					}
					if e == "pool" && hi != 0 && hi != 1 && hi != 7 && hi != 12 {
						continue
					}
					if hi >= 13 && (e != "go" || m != ekit.LT) {
						continue
					}
				}
				for _, rl := range []int{10, 70000} {
					ks := []int{1 << 20}
					if rl == 70000 {
						ks = []int{1 << 20, 4096}
					}
					for _, k := range ks {
						if !thorough && rl == 70000 && (hi%3 != 1 || e == "pool") {
							continue
						}
						cuts := []int{0}
						if hi < 9 && rl == 10 && (thorough || e == "go") {
							cuts = []int{0, 1, 20, 45}
						}
						for _, cut := range cuts {
							p := 1
							if thorough {
								p = 2
							}
							if (rl == 70000 && k == 4096) || (two && e == "pool") {
								p--
							} else if !thorough && hi == 11 && m != ekit.LT {
								p-- // two connections x two requests each: the full bound only level-triggered in quick
							}
							add(cfg{mode: m, exec: e, hist: h, cut: cut, respLen: rl, k: k, p: p})
							if cut == 20 && !two {
								// three pieces (the middle one starts inside a header line, completes
								// it and ends inside the next line / the next request)
								for _, c2 := range []int{30, 45} {
									add(cfg{mode: m, exec: e, hist: h, cut: cut, cut2: c2, respLen: rl, k: k, p: p})
								}
							}
						}
					}
				}
			}
		}
	}
	// identity-framed two-piece responses on two connections over a real recycling pool
	for _, m := range ekit.Modes {
		for _, rl := range []int{70000, 65636} {
			p := 1
			if thorough {
				p = 2
			}
			if thorough || (m == ekit.LT && rl == 70000) {
				add(cfg{mode: m, exec: "go", hist: [][]req{{ka}, {ka}}, respLen: rl, k: 1 << 20, p: p, twoWrites: true, realPool: true})
				add(cfg{mode: m, exec: "go", hist: [][]req{{ka, ka}}, respLen: rl, k: 1 << 20, p: p, twoWrites: true, realPool: true})
			}
			// a second round of requests: buffers released (twice?) by the first round are reused
			if thorough || (m == ekit.ET && rl == 65636) {
				out = append(out, nil)
				add(cfg{mode: m, exec: "go", hist: [][]req{{ka, ka}, {ka, ka}}, respLen: rl, k: 1 << 20, p: 1, twoWrites: true, realPool: true})
				out[len(out)-2] = out[len(out)-1]
				out = out[:len(out)-1]
				out[len(out)-1].Budget = 3 * time.Minute
			}
			add(cfg{mode: m, exec: "go", hist: [][]req{{ka}}, respLen: rl, k: 1 << 20, p: p, twoWrites: true})
		}
	}
	// HTTP client: pipelined Do calls against a scripted server
	for _, m := range ekit.Modes {
		for _, cc := range []ccfg{
			{n: 1, answers: 1, then: "none"}, {n: 2, answers: 2, then: "none"}, {n: 3, answers: 3, then: "none", threads: 2},
			{n: 2, answers: 1, then: "close"}, {n: 2, answers: 0, then: "close"}, {n: 3, answers: 1, then: "close", threads: 2},
			{n: 2, answers: 1, then: "silent", timeout: true}, {n: 1, answers: 0, then: "silent", timeout: true},
			{n: 2, answers: 2, then: "none", timeout: true},
			{n: 1, answers: 1, then: "none", dialFail: true}, {n: 2, answers: 2, then: "none", dialFail: true},
		} {
			cc.mode = m
			if cc.threads == 0 {
				cc.threads = 1
			}
			cc.p = 2
			if thorough {
				cc.p = 3
			}
			out = append(out, &vkit.Scenario{Name: cc.name(), Body: clientBody(cc), Check: check, P: cc.p,
				Opts:     vsched.Options{Horizon: 60000},
				Counters: func() map[string]int { return lastCounters }, Outcome: func() string { return lastOutcome },
				NonTrivial: func(mm map[string]int) bool { return mm["responses"] > 0 || mm["client_errors"] > 0 }})
		}
	}
	// the pooling Client: several origins through one Client
	for _, pc := range poolScenarios(thorough) {
		out = append(out, &vkit.Scenario{Name: pc.title(), Body: poolBody(pc), Check: check, P: pc.p,
			Opts:     vsched.Options{Horizon: 60000},
			Counters: func() map[string]int { return lastCounters }, Outcome: func() string { return lastOutcome },
			NonTrivial: func(mm map[string]int) bool { return mm["responses"] > 0 || mm["client_errors"] > 0 }})
	}
	return out
}

func main() {
	vkit.Main(&vkit.Spec{
		Property: "C10", Level: "model_checking",
		Rule: "one scenario = epoll mode x server executor (inline, goroutine-per-call, default task pool) x request history per connection (1-3 requests, HTTP/1.0 and 1.1, Connection absent/close/keep-alive, with and without body, pipelined, split at an offset or delivered in three pieces each of which is read before the next is sent, one or two connections) x response size (10 B, 70000 B) x socket capacity (unbounded, 4096 B); every interleaving of clients, poller, executor threads and drains within the preemption bound on the real nbhttp + nbio code; non-trivial = at least one response was produced. SECOND PART (scenario name \"blocking-modes/real-sockets/history-enumeration\", a different and weaker kind of claim): bounded-exhaustive enumeration of HISTORIES, free-running schedule - one case = I/O mode (IOModBlocking, IOModMixed with MaxBlockingOnline 1, IOModMixed with every connection of the history in the poller half, IOModNonBlocking as control) x server-side socket send buffer (default, 4096 B when the history has a 70000-byte response) x WebSocket upgrader variant when the history has an upgrade request (plain / transfer to the poller) x every event sequence of length <= 4 on one connection and <= 3 spread over two (thorough: 5 and 4) on real AF_UNIX socket-pair connections over {open, GET keep-alive, GET HTTP/1.0, GET Connection: close, 70000-byte response keep-alive / close, POST, two pipelined keep-alive GETs, keep-alive GET + closing GET pipelined, request head with the body withheld, the withheld body, WebSocket upgrade request, peer close}; each case is executed ONCE on the real code with real goroutines and the real kernel, schedules are not enumerated",
		Assumptions: []string{
			"covered: IOModNonBlocking, plain text, all three epoll modes. NOT covered by this technique: IOModBlocking / IOModMixed data paths and TLS (they need real *net.TCPConn / llib TLS on real synchronisation, invisible to the cooperative scheduler); their upper layers (parser, processor, response, job queue) are the same code explored here and in C05-C09",
			"the connection-close decision is judged on HTTP/1.0 without keep-alive, 'Connection: close', and on a few forms in which the decisive option is not the first one (several Connection lines, an option list); the full header grammar is C07's subject",
			"independent client parser: net/http ReadResponse",
			"second part (blocking / mixed modes on real sockets): EVERY HISTORY up to the depth is run, NOT every schedule. Oracle per connection: one response per request, in request order, with the request's own tag and the full body (net/http ReadResponse), the handler ran exactly once per answered request, nothing tagged for another connection, end of stream after a closing request and no end of stream after keep-alive requests (an end of stream that is read is a fact; 'still open' is never inferred from a timeout), no error in nbio's log. A response that has not arrived after 30 s on an open, otherwise idle connection counts as missing. Signatures of connections served by a reader goroutine carry 'io=blocking'; connections served by the poller reuse the signatures of the scheduled part",
			"second part, IOModMixed: which half serves a connection is judged against the rule documented at IOModMixed / lmux (blocking half while fewer than MaxBlockingOnline connections are online there, poller otherwise); the listener mux's counter is read through a hook accessor at quiet points (it is the `decrease` accounting). The property statement only names the mixed mode; without this a mixed engine that serves everything from one half would pass silently",
		},
		UsesSimulatedKernel: true,
		Build:               build, QuickBudget: 25 * time.Second, ThoroughBudget: 15 * time.Minute, MinNonTrivial: 50,
		Seq: seqBlocking, ReplaySeq: replayBlocking,
		Extra: map[string]interface{}{"second_part_blocking_modes": "bounded-exhaustive enumeration of histories on real socket pairs with a free-running schedule (every history up to the depth executed once; schedules not enumerated); counters histories_mode_*, histories_depth_*, backpressure_engaged, waits_that_hit_the_cap belong to it"},
	})
}

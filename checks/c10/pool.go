package main

import (
	"bytes"
	"fmt"
	"io"
	"net"
	"net/http"
	"strings"
	"time"

	"github.com/lesismal/nbio"
	"github.com/lesismal/nbio/mempool"
	"github.com/lesismal/nbio/nbhttp"

	"verif/ekit"
	"verif/track"
	"verif/vsched"
	"verif/vshim/vsys"
	"verif/vshim/vtime"
)

// pcfg is one scenario of the pooling nbhttp.Client: requests to several origins through ONE
// Client. Every origin is a scripted server of its own that tags each response with the address
// it was dialled at and the path it saw; a callback must get the response of the origin and path
// its request names (or an error), exactly once.
type pcfg struct {
	mode ekit.Mode
	name string
	// urls[i] is issued by caller i%callers; a caller issues its next request from inside the
	// callback of its previous one (so an idle pooled connection exists when it is issued)
	urls    []string
	callers int
	maxPer  int32
	p       int
}

func (c pcfg) title() string {
	return fmt.Sprintf("%s client-pool %s callers=%d max-per-host=%d", c.mode, c.name, c.callers, c.maxPer)
}

// origin returns the address a request for u has to be sent to ("host:port", default port 80).
func origin(u string) (addr, path string) {
	s := strings.TrimPrefix(u, "http://")
	i := strings.Index(s, "/")
	addr, path = s[:i], s[i:]
	if !strings.Contains(addr, ":") {
		addr += ":80"
	}
	return
}

func poolBody(c pcfg) func() {
	return func() {
		vsys.Configure(false, false)
		tr := track.New(track.Pooled)
		mempool.DefaultMemPool = tr
		conf := nbhttp.Config{Name: "c10p", NPoller: 1, ReadBufferSize: 4096, BodyAllocator: tr,
			ServerExecutor: func(f func()) { vsched.GoNamed("exec", f) },
			ClientExecutor: func(f func()) { vsched.GoNamed("cexec", f) },
		}
		switch c.mode {
		case ekit.ET:
			conf.EpollMod = nbio.EPOLLET
		case ekit.ONESHOT:
			conf.EpollMod = nbio.EPOLLET
			conf.EPOLLONESHOT = nbio.EPOLLONESHOT
		}
		engine := nbhttp.NewEngine(conf)
		if err := engine.Start(); err != nil {
			vsched.Fail("harness|engine start: %v", err)
			return
		}
		cli := &nbhttp.Client{Engine: engine, Timeout: 5 * time.Second, MaxConnsPerHost: c.maxPer}
		dialled := map[string]int{}
		cli.Dial = func(network, addr string) (net.Conn, error) {
			dialled[addr]++
			conn, peer := ekit.Stream(false, 1<<20, 1<<20)
			engine.Engine.VerifBindPoller(conn)
			// the origin behind this address: answers every request with its address and the path
			vsched.GoNamed("origin "+addr, func() {
				vsched.SetDaemon()
				answered := 0
				for {
					peer.WaitReadable()
					if peer.Queued() == 0 {
						return
					}
					peer.Read(0)
					for answered < bytes.Count(peer.Got, []byte("\r\n\r\n")) {
						body := addr + nthPath(peer.Got, answered)
						peer.WriteAll([]byte(fmt.Sprintf("HTTP/1.1 200 OK\r\nContent-Length: %d\r\n\r\n%s", len(body), body)))
						answered++
					}
				}
			})
			return conn, nil
		}
		type outcome struct {
			calls int
			tags  []string
			errs  []error
		}
		outs := make([]*outcome, len(c.urls))
		for i := range outs {
			outs[i] = &outcome{}
		}
		var log vsched.Obj
		var do func(i int)
		do = func(i int) {
			if i >= len(c.urls) {
				return
			}
			req, _ := http.NewRequest("GET", c.urls[i], nil)
			cli.Do(req, func(res *http.Response, conn net.Conn, err error) {
				o := outs[i]
				o.calls++
				vsched.Record(&log, 2, true, uint64(i))
				if err != nil {
					o.errs = append(o.errs, err)
				} else {
					b, _ := io.ReadAll(res.Body)
					o.tags = append(o.tags, string(b))
				}
				do(i + c.callers)
			})
		}
		for k := 0; k < c.callers; k++ {
			k := k
			vsched.GoNamed(fmt.Sprintf("caller%d", k), func() { do(k) })
		}
		vsched.WaitIdle()
		vsched.WaitIdle()
		var fails []string
		answered, failed := 0, 0
		for i, o := range outs {
			addr, path := origin(c.urls[i])
			if o.calls != 1 {
				fails = append(fails, fmt.Sprintf("client-pool-callback-count|the callback of request %d (%s) was invoked %d times (responses %v, errors %v)", i, c.urls[i], o.calls, o.tags, o.errs))
			}
			for _, tg := range o.tags {
				answered++
				if tg != addr+path {
					fails = append(fails, fmt.Sprintf("client-pool-response-from-another-origin|request %d for %s received the response %q: it was sent over a pooled connection to another origin (connections dialled: %v)", i, c.urls[i], tg, dialled))
				}
			}
			failed += len(o.errs)
		}
		reused := 0
		for _, n := range dialled {
			reused += n
		}
		lastCounters = map[string]int{"responses": answered, "client_errors": failed, "timers_fired": vtime.Fired(), "pooled_connection_reused": btoi(reused < len(c.urls))}
		lastOutcome = fmt.Sprintf("pool ok=%d err=%d dials=%d", answered, failed, reused)
		if errs := logErrors(); errs != "" {
			fails = append(fails, "logged-error|nbio logged an error (a recovered panic?): "+errs)
		}
		// the Client is not closed: Close walks its maps in Go's random order, which the exploration must not depend on
		for _, f := range fails {
			vsched.Fail("%s", f)
		}
	}
}

func btoi(b bool) int {
	if b {
		return 1
	}
	return 0
}

func poolScenarios(thorough bool) []pcfg {
	var out []pcfg
	for _, m := range ekit.Modes {
		for _, c := range []pcfg{
			{name: "same-origin-twice", urls: []string{"http://h:81/a", "http://h:81/b"}, callers: 1},
			{name: "two-ports-of-one-host", urls: []string{"http://h:81/a", "http://h:82/b"}, callers: 1},
			{name: "two-ports-and-back", urls: []string{"http://h:81/a", "http://h:82/b", "http://h:81/c"}, callers: 1},
			{name: "default-port-and-other-port", urls: []string{"http://h/a", "http://h:8080/b"}, callers: 1},
			{name: "two-hosts", urls: []string{"http://h1:80/a", "http://h2:80/b"}, callers: 1},
			{name: "two-ports-concurrent", urls: []string{"http://h:81/a", "http://h:82/b"}, callers: 2},
			{name: "two-ports-one-slot", urls: []string{"http://h:81/a", "http://h:82/b"}, callers: 1, maxPer: 1},
		} {
			c.mode = m
			c.p = 1
			if thorough {
				c.p = 2
			}
			if c.callers == 2 {
				// two callers: one preemption in both tiers (two take the 15-minute budget)
				c.p = 1
				if m != ekit.ET && !thorough {
					continue
				}
			}
			out = append(out, c)
		}
	}
	return out
}
